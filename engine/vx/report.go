package vx

import (
	"bufio"
	"crypto/sha256"
	"encoding/hex"
	"encoding/json"
	"fmt"
	"os"
	"path/filepath"
	"runtime"
	"strconv"
	"strings"
	"sync"
	"time"
)

// Report collects what one check run covered and writes the evidence file.
// It is the only place that prints VIOLATION / KNOWN-FINDING lines.
type Report struct {
	mu sync.Mutex

	ID    string
	Tier  string // quick | thorough
	Seed  int64
	Level string // evidence level: model_checking | exploration | fault_enumeration

	start time.Time

	Evaluations     int64
	DistinctNontriv int64
	States          int64
	Transitions     int64
	TracesValidated int64
	Exhaustive      bool
	exhaustiveSet   bool
	Rule            string
	Samples         []any
	Extra           map[string]any
	Assumptions     []string

	violations  int
	knownHits   map[string]int
	known       map[string]string // sig -> description
	seenSig     map[string]bool
	replayDir   string
	evidenceOut string
}

// Tier helpers
func TierFromEnv() string {
	t := os.Getenv("VERIF_TIER")
	if t != "thorough" {
		t = "quick"
	}
	return t
}

// Workers is the parallelism checks should use.
func Workers() int {
	if s := os.Getenv("VERIF_WORKERS"); s != "" {
		if n, err := strconv.Atoi(s); err == nil && n > 0 {
			return n
		}
	}
	n := runtime.NumCPU()
	if n > 16 {
		n = 16
	}
	return n
}

// NewReport reads VERIF_TIER, VERIF_SEED, VERIF_EVIDENCE, VERIF_KNOWN, VERIF_REPLAYS.
func NewReport(id, level string) *Report {
	r := &Report{ID: id, Level: level, Tier: TierFromEnv(), start: time.Now(),
		Extra: map[string]any{}, knownHits: map[string]int{}, known: map[string]string{}, seenSig: map[string]bool{}}
	if s := os.Getenv("VERIF_SEED"); s != "" {
		r.Seed, _ = strconv.ParseInt(s, 10, 64)
	}
	r.evidenceOut = os.Getenv("VERIF_EVIDENCE")
	r.replayDir = os.Getenv("VERIF_REPLAYS")
	if r.replayDir == "" {
		r.replayDir = "/verif/replays"
	}
	kf := os.Getenv("VERIF_KNOWN")
	if kf == "" {
		kf = "/verif/KNOWN_FINDINGS.txt"
	}
	if f, err := os.Open(kf); err == nil {
		sc := bufio.NewScanner(f)
		for sc.Scan() {
			line := strings.TrimSpace(sc.Text())
			// known: property=<ID> sig=<signature> <what fails>
			if !strings.HasPrefix(line, "known:") {
				continue
			}
			fs := strings.Fields(line)
			var pid, sig string
			rest := []string{}
			for _, f := range fs[1:] {
				switch {
				case strings.HasPrefix(f, "property=") && pid == "":
					pid = strings.TrimPrefix(f, "property=")
				case strings.HasPrefix(f, "sig=") && sig == "":
					sig = strings.TrimPrefix(f, "sig=")
				default:
					rest = append(rest, f)
				}
			}
			if pid == id && sig != "" {
				r.known[sig] = strings.Join(rest, " ")
			}
		}
		f.Close()
	}
	return r
}

// Deadline returns a soft wall-clock cap for this run: hitting it ends the run
// with exit 0 and exhaustive=false. quick/thorough defaults can be overridden
// by VERIF_BUDGET_S.
func (r *Report) Deadline(quick, thorough time.Duration) time.Time {
	d := quick
	if r.Tier == "thorough" {
		d = thorough
	}
	if s := os.Getenv("VERIF_BUDGET_S"); s != "" {
		if n, err := strconv.Atoi(s); err == nil && n > 0 {
			d = time.Duration(n) * time.Second
		}
	}
	return r.start.Add(d)
}

// SetExhaustive records whether every enumeration of this run ran to completion
// (AND over calls).
func (r *Report) SetExhaustive(b bool) {
	r.mu.Lock()
	defer r.mu.Unlock()
	if !r.exhaustiveSet {
		r.Exhaustive = b
		r.exhaustiveSet = true
	} else {
		r.Exhaustive = r.Exhaustive && b
	}
}

// AddSample keeps at most 12 written-out cases.
func (r *Report) AddSample(s any) {
	r.mu.Lock()
	defer r.mu.Unlock()
	if len(r.Samples) < 12 {
		r.Samples = append(r.Samples, s)
	}
}

// Count adds to the counters.
func (r *Report) Count(evals, distinct, states, transitions int64) {
	r.mu.Lock()
	defer r.mu.Unlock()
	r.Evaluations += evals
	r.DistinctNontriv += distinct
	r.States += states
	r.Transitions += transitions
	r.TracesValidated += evals
}

// Set stores an extra coverage key.
func (r *Report) Set(k string, v any) {
	r.mu.Lock()
	defer r.mu.Unlock()
	r.Extra[k] = v
}

// Violation reports a property violation with a mechanism signature and a
// replayable artefact. A signature listed in KNOWN_FINDINGS.txt is printed as
// KNOWN-FINDING and does not fail the run. Each distinct signature is printed once.
func (r *Report) Violation(sig, what string, replay any) {
	r.mu.Lock()
	defer r.mu.Unlock()
	if desc, ok := r.known[sig]; ok {
		r.knownHits[sig]++
		if r.knownHits[sig] == 1 {
			fmt.Printf("KNOWN-FINDING: property=%s sig=%s %s\n", r.ID, sig, desc)
		}
		return
	}
	r.violations++
	if r.seenSig[sig] {
		return
	}
	r.seenSig[sig] = true
	h := sha256.Sum256([]byte(sig))
	name := fmt.Sprintf("%s-%s.json", r.ID, hex.EncodeToString(h[:6]))
	path := filepath.Join(r.replayDir, name)
	_ = os.MkdirAll(r.replayDir, 0o755)
	b, _ := json.MarshalIndent(map[string]any{
		"property": r.ID, "signature": sig, "what": what, "replay": replay,
	}, "", " ")
	_ = os.WriteFile(path, b, 0o644)
	fmt.Printf("VIOLATION property=%s replay=%s\n", r.ID, path)
	fmt.Printf("  signature: %s\n  what: %s\n", sig, what)
}

// Violations returns the number of unlisted violations so far.
func (r *Report) Violations() int {
	r.mu.Lock()
	defer r.mu.Unlock()
	return r.violations
}

// Infra reports a harness/infrastructure failure (never a property verdict).
func (r *Report) Infra(what string) {
	fmt.Printf("VERIF-INFRA-ERROR property=%s %s\n", r.ID, what)
}

// Finish writes the evidence file. It returns the number of unlisted violations.
func (r *Report) Finish() int {
	r.mu.Lock()
	defer r.mu.Unlock()
	cov := map[string]any{
		"evaluations":                   r.Evaluations,
		"distinct_nontrivial":           r.DistinctNontriv,
		"rule":                          r.Rule,
		"samples":                       r.Samples,
		"states":                        r.States,
		"transitions":                   r.Transitions,
		"traces_validated_against_impl": r.TracesValidated,
		"exhaustive":                    r.Exhaustive && r.exhaustiveSet,
	}
	for k, v := range r.Extra {
		cov[k] = v
	}
	if rp := os.Getenv("VERIF_RACE_PASS"); rp != "" {
		cov["race_pass"] = rp
	}
	if len(r.knownHits) > 0 {
		cov["known_findings_hit"] = r.knownHits
	}
	if len(r.Samples) == 0 {
		cov["samples"] = []any{}
	}
	ev := map[string]any{
		"property_id": r.ID,
		"tier":        r.Tier,
		"seed":        r.Seed,
		"level":       r.Level,
		"coverage":    cov,
		"assumptions": r.Assumptions,
		"wall_s":      time.Since(r.start).Seconds(),
		"violations":  r.violations,
	}
	if r.evidenceOut != "" {
		b, _ := json.MarshalIndent(ev, "", " ")
		_ = os.MkdirAll(filepath.Dir(r.evidenceOut), 0o755)
		if err := os.WriteFile(r.evidenceOut, b, 0o644); err != nil {
			fmt.Printf("VERIF-INFRA-ERROR property=%s cannot write evidence: %v\n", r.ID, err)
		}
	}
	fmt.Printf("VERIF-SUMMARY property=%s tier=%s evaluations=%d distinct=%d states=%d transitions=%d exhaustive=%v violations=%d known_hits=%d wall=%.1fs\n",
		r.ID, r.Tier, r.Evaluations, r.DistinctNontriv, r.States, r.Transitions, r.Exhaustive && r.exhaustiveSet, r.violations, len(r.knownHits), time.Since(r.start).Seconds())
	return r.violations
}
