// Package vx is the exploration engine shared by every check in /verif.
//
// It is added to the repository as a virtual package through `go test -overlay`
// (import path github.com/celestiaorg/celestia-node/verifx/vx); nothing of it is
// ever written into /repo.
//
// Two drivers:
//
//   - DFS: stateless depth-first enumeration of *choice sequences* with a deviation
//     bound. The body calls Exec.Choose(n, label) at every point of nondeterminism
//     it owns; a run replays a prefix and then takes choice 0; alternatives are
//     explored as long as the accumulated deviation cost stays within the bound.
//   - BFS: explicit-state breadth-first search over *event histories* of a real
//     object: a state is the shortest history reaching it, a successor is computed
//     by replaying that history on a fresh instance plus one event; states are
//     deduplicated by a canonical fingerprint supplied by the harness.
//
// Both report exact counts (executions, states, transitions, distinct outcomes).
package vx

import (
	"fmt"
	"sort"
	"strings"
	"sync"
	"sync/atomic"
	"time"
)

// ---------------------------------------------------------------------------
// choice sequences

// Exec is one execution: a prefix of forced choices followed by defaults.
type Exec struct {
	prefix []int
	// recorded
	Choices []int
	Widths  []int
	Labels  []string
	Costs   [][]int // cost of each alternative at each point
	// Diverged is set when a forced choice was out of range: the harness is not
	// deterministic and nothing this execution reports can be trusted.
	Diverged string
	// free-form observation log, used for the determinism self-check
	Obs []string
}

// NewExec returns an execution that replays prefix and then takes choice 0.
func NewExec(prefix []int) *Exec { return &Exec{prefix: prefix} }

// Choose returns a number in [0,n). Alternative i>0 costs 1 deviation.
func (e *Exec) Choose(n int, label string) int {
	return e.ChooseCost(n, label, nil)
}

// ChooseCost is Choose with an explicit per-alternative deviation cost
// (costs[0] is ignored and treated as 0; nil means 0,1,1,1,...).
func (e *Exec) ChooseCost(n int, label string, costs []int) int {
	if n <= 0 {
		panic(fmt.Sprintf("vx: Choose(%d) at %q", n, label))
	}
	i := len(e.Choices)
	c := 0
	if i < len(e.prefix) {
		c = e.prefix[i]
		if c >= n {
			if e.Diverged == "" {
				e.Diverged = fmt.Sprintf("point %d (%s): forced choice %d but only %d alternatives", i, label, c, n)
			}
			c = 0
		}
	}
	cc := make([]int, n)
	for k := 1; k < n; k++ {
		if costs != nil && k < len(costs) {
			cc[k] = costs[k]
		} else {
			cc[k] = 1
		}
	}
	e.Choices = append(e.Choices, c)
	e.Widths = append(e.Widths, n)
	e.Labels = append(e.Labels, label)
	e.Costs = append(e.Costs, cc)
	return c
}

// Logf appends to the observation log.
func (e *Exec) Logf(format string, a ...any) { e.Obs = append(e.Obs, fmt.Sprintf(format, a...)) }

// Trace renders the choices with their labels.
func (e *Exec) Trace() []string {
	out := make([]string, len(e.Choices))
	for i := range e.Choices {
		out[i] = fmt.Sprintf("%s=%d/%d", e.Labels[i], e.Choices[i], e.Widths[i])
	}
	return out
}

// DFSStats is what a DFS run covered.
type DFSStats struct {
	Executions     int64
	Bound          int   // deviation bound this run was asked for
	Complete       bool  // false if a cap stopped the enumeration
	MaxPoints      int   // longest choice sequence seen
	ChoicePoints   int64 // total choice points visited
	Outcomes       map[string]int64
	FirstViolation *Exec
	Capped         string
}

// DFSOpts configures DFS.
type DFSOpts struct {
	Bound    int           // max total deviation cost
	MaxExecs int64         // 0 = unlimited
	Deadline time.Time     // zero = none
	Workers  int           // parallel workers (each execution must be independent); 0/1 = sequential
	StopOnViolation bool
}

// DFS enumerates every choice sequence of body whose total deviation cost is
// within opts.Bound. body returns an outcome label (used only for the
// distinct-outcome count) and an error when the property is violated.
func DFS(opts DFSOpts, body func(e *Exec) (outcome string, err error), onViolation func(e *Exec, err error)) DFSStats {
	st := DFSStats{Bound: opts.Bound, Complete: true, Outcomes: map[string]int64{}}
	var mu sync.Mutex
	type item struct {
		prefix []int
		cost   int
	}
	// explicit stack; with Workers>1 we run a shared work list.
	var stack []item
	stack = append(stack, item{nil, 0})
	var stop atomic.Bool
	pending := 0

	cond := sync.NewCond(&mu)
	worker := func() {
		for {
			mu.Lock()
			for len(stack) == 0 && pending > 0 && !stop.Load() {
				cond.Wait()
			}
			if stop.Load() || (len(stack) == 0 && pending == 0) {
				mu.Unlock()
				cond.Broadcast()
				return
			}
			it := stack[len(stack)-1]
			stack = stack[:len(stack)-1]
			pending++
			if opts.MaxExecs > 0 && st.Executions >= opts.MaxExecs {
				st.Complete = false
				st.Capped = fmt.Sprintf("max executions %d", opts.MaxExecs)
				stop.Store(true)
				pending--
				mu.Unlock()
				cond.Broadcast()
				return
			}
			if !opts.Deadline.IsZero() && time.Now().After(opts.Deadline) {
				st.Complete = false
				st.Capped = "deadline"
				stop.Store(true)
				pending--
				mu.Unlock()
				cond.Broadcast()
				return
			}
			st.Executions++
			mu.Unlock()

			e := NewExec(it.prefix)
			outcome, err := body(e)

			mu.Lock()
			if e.Diverged != "" {
				err = fmt.Errorf("DIVERGENCE: %s", e.Diverged)
				outcome = "DIVERGENCE"
			}
			st.Outcomes[outcome]++
			st.ChoicePoints += int64(len(e.Choices))
			if len(e.Choices) > st.MaxPoints {
				st.MaxPoints = len(e.Choices)
			}
			if err != nil {
				if st.FirstViolation == nil {
					st.FirstViolation = e
				}
				mu.Unlock()
				if onViolation != nil {
					onViolation(e, err)
				}
				mu.Lock()
				if opts.StopOnViolation {
					stop.Store(true)
				}
			}
			// children: for every point past the prefix, every alternative within budget.
			cost := it.cost
			// push in reverse so that the earliest point's alternatives are explored last
			// (depth-first on the latest deviation first keeps the stack small)
			var kids []item
			for i := len(it.prefix); i < len(e.Choices); i++ {
				for alt := 1; alt < e.Widths[i]; alt++ {
					c := cost + e.Costs[i][alt]
					if c > opts.Bound {
						continue
					}
					p := make([]int, i+1)
					copy(p, e.Choices[:i])
					p[i] = alt
					kids = append(kids, item{p, c})
				}
			}
			for k := len(kids) - 1; k >= 0; k-- {
				stack = append(stack, kids[k])
			}
			pending--
			mu.Unlock()
			cond.Broadcast()
		}
	}
	n := opts.Workers
	if n < 1 {
		n = 1
	}
	var wg sync.WaitGroup
	for i := 0; i < n; i++ {
		wg.Add(1)
		go func() { defer wg.Done(); worker() }()
	}
	wg.Wait()
	return st
}

// ---------------------------------------------------------------------------
// explicit-state BFS over event histories

// Sys is one fresh instance of the system under exploration.
type Sys interface {
	// Enabled lists the events that can be applied in the current state, in a
	// deterministic order.
	Enabled() []string
	// Apply applies one event and lets the system run to quiescence.
	// A non-nil error is a property violation (or harness error, see IsHarness).
	Apply(ev string) error
	// Check evaluates the state invariant.
	Check() error
	// Fingerprint is the canonical form of the state (property-relevant part).
	Fingerprint() string
	// Close releases the instance (must not block for long).
	Close()
}

// BFSOpts configures BFS.
type BFSOpts struct {
	MaxDepth  int
	MaxStates int
	Deadline  time.Time
	Workers   int
	// RunInstance, when set, wraps the whole life of one instance (e.g. in a
	// synctest bubble): it must call f exactly once.
	RunInstance func(f func())
	// Drain, when set, is called on every *new* state (fresh instance positioned
	// at that state) to check bounded liveness; it may apply further events.
	Drain func(s Sys, hist []string) error
	StopOnViolation bool
	// HangTimeout (real time) and OnHang: if replaying one history plus one event does not
	// come back within HangTimeout the code under test is spinning or blocked outside the
	// harness's control (operations take micro- to milliseconds; the default is 180 s). The
	// stuck goroutine cannot be stopped, so OnHang is expected to report and exit the process.
	HangTimeout time.Duration
	OnHang      func(hist []string, ev string)
}

// BFSStats is what a BFS run covered.
type BFSStats struct {
	States       int
	Transitions  int64
	Replays      int64 // real-instance executions (each replays a full history)
	EventsApplied int64
	DepthDone    int  // deepest level fully expanded
	Complete     bool // true if the frontier emptied (whole reachable space within alphabet)
	DepthCapped  bool // true if stopped by MaxDepth with a non-empty frontier
	Capped       string
	PerDepth     []int
	EventCounts  map[string]int64
	Violations   int
	SampleHist   [][]string
}

// BFS explores breadth-first from the initial state of newSys().
func BFS(opts BFSOpts, newSys func() Sys, onViolation func(hist []string, err error)) BFSStats {
	st := BFSStats{EventCounts: map[string]int64{}}
	run := opts.RunInstance
	if run == nil {
		run = func(f func()) { f() }
	}
	workers := opts.Workers
	if workers < 1 {
		workers = 1
	}
	type node struct{ hist []string }
	seen := map[string]struct{}{}
	var mu sync.Mutex
	var stop atomic.Bool

	report := func(hist []string, err error) {
		mu.Lock()
		st.Violations++
		mu.Unlock()
		if onViolation != nil {
			onViolation(append([]string(nil), hist...), err)
		}
		if opts.StopOnViolation {
			stop.Store(true)
		}
	}

	// position replays hist on a fresh instance; returns nil,err on violation in replay
	// (which cannot happen for a history already accepted, so it is a divergence).
	type res struct {
		fp      string
		enabled []string
		err     error
	}
	hangAfter := opts.HangTimeout
	if hangAfter == 0 {
		hangAfter = 180 * time.Second
	}
	expand := func(hist []string, ev string, withDrain bool) (r res, isNew bool) {
		if opts.OnHang != nil {
			tm := time.AfterFunc(hangAfter, func() { opts.OnHang(append([]string(nil), hist...), ev) })
			defer tm.Stop()
		}
		run(func() {
			s := newSys()
			defer s.Close()
			for i, h := range hist {
				if err := s.Apply(h); err != nil {
					r.err = fmt.Errorf("DIVERGENCE: replay of accepted history failed at step %d (%s): %v", i, h, err)
					return
				}
				atomic.AddInt64(&st.EventsApplied, 1)
			}
			full := hist
			if ev != "" {
				en := s.Enabled()
				ok := false
				for _, x := range en {
					if x == ev {
						ok = true
					}
				}
				if !ok {
					r.err = fmt.Errorf("DIVERGENCE: event %q not enabled after replay of %v (enabled %v)", ev, hist, en)
					return
				}
				if err := s.Apply(ev); err != nil {
					r.err = err
					return
				}
				atomic.AddInt64(&st.EventsApplied, 1)
				full = append(append([]string(nil), hist...), ev)
			}
			if err := s.Check(); err != nil {
				r.err = err
				return
			}
			r.fp = s.Fingerprint()
			r.enabled = s.Enabled()
			mu.Lock()
			_, dup := seen[r.fp]
			if !dup {
				seen[r.fp] = struct{}{}
				isNew = true
			}
			mu.Unlock()
			if isNew && withDrain && opts.Drain != nil {
				if err := opts.Drain(s, full); err != nil {
					r.err = err
				}
			}
		})
		atomic.AddInt64(&st.Replays, 1)
		return r, isNew
	}

	// initial state
	r0, _ := expand(nil, "", true)
	if r0.err != nil {
		report(nil, r0.err)
		return st
	}
	st.States = 1
	st.PerDepth = []int{1}
	type fnode struct {
		hist    []string
		enabled []string
	}
	frontier := []fnode{{nil, r0.enabled}}
	st.Complete = false
	for depth := 0; len(frontier) > 0; depth++ {
		if opts.MaxDepth > 0 && depth >= opts.MaxDepth {
			st.DepthCapped = true
			break
		}
		// work items: (node, event)
		type work struct {
			n  fnode
			ev string
		}
		var items []work
		for _, n := range frontier {
			for _, ev := range n.enabled {
				items = append(items, work{n, ev})
			}
		}
		results := make([]*fnode, len(items))
		var idx int64 = -1
		var wg sync.WaitGroup
		for w := 0; w < workers; w++ {
			wg.Add(1)
			go func() {
				defer wg.Done()
				for {
					i := int(atomic.AddInt64(&idx, 1))
					if i >= len(items) || stop.Load() {
						return
					}
					if !opts.Deadline.IsZero() && time.Now().After(opts.Deadline) {
						mu.Lock()
						st.Capped = "deadline"
						mu.Unlock()
						stop.Store(true)
						return
					}
					it := items[i]
					r, isNew := expand(it.n.hist, it.ev, true)
					mu.Lock()
					st.Transitions++
					st.EventCounts[evClass(it.ev)]++
					mu.Unlock()
					if r.err != nil {
						report(append(append([]string(nil), it.n.hist...), it.ev), r.err)
						continue
					}
					if isNew {
						h := append(append([]string(nil), it.n.hist...), it.ev)
						results[i] = &fnode{h, r.enabled}
					}
				}
			}()
		}
		wg.Wait()
		if stop.Load() {
			if st.Capped == "" {
				st.Capped = "stopped on violation"
			}
			break
		}
		var next []fnode
		for _, r := range results {
			if r != nil {
				next = append(next, *r)
			}
		}
		st.DepthDone = depth + 1
		st.States += len(next)
		st.PerDepth = append(st.PerDepth, len(next))
		if len(next) > 0 && len(st.SampleHist) < 6 {
			st.SampleHist = append(st.SampleHist, next[len(next)/2].hist)
		}
		if opts.MaxStates > 0 && st.States >= opts.MaxStates {
			st.Capped = fmt.Sprintf("max states %d", opts.MaxStates)
			frontier = next
			break
		}
		frontier = next
	}
	if len(frontier) == 0 && st.Capped == "" {
		st.Complete = true
	}
	return st
}

func evClass(ev string) string {
	if i := strings.IndexAny(ev, "(:"); i > 0 {
		return ev[:i]
	}
	return ev
}

// SortedKeys returns the sorted keys of a map with ordered keys.
func SortedKeys[K interface{ ~int | ~uint64 | ~string | ~int64 | ~uint32 }, V any](m map[K]V) []K {
	ks := make([]K, 0, len(m))
	for k := range m {
		ks = append(ks, k)
	}
	sort.Slice(ks, func(i, j int) bool { return ks[i] < ks[j] })
	return ks
}
