// Package vsync is a drop-in replacement for the parts of package sync used by the code under
// exploration. While a vsched.Sched is active every blocking or shared-state operation is a
// scheduling point and the lock state is kept in a model owned by the scheduler; otherwise the
// real primitive embedded in each type is used.
package vsync

import (
	"sync"

	"github.com/celestiaorg/celestia-node/verifx/vsched"
)

// Types that need no interception: a WaitGroup is durably blocking inside a bubble, a Pool
// has no blocking behaviour.
type (
	WaitGroup = sync.WaitGroup
	Pool      = sync.Pool
	Locker    = sync.Locker
)

// ---------------------------------------------------------------- Mutex

type Mutex struct {
	real  sync.Mutex
	held  bool
	owner string
}

func (m *Mutex) Lock() {
	s := vsched.Active()
	if s == nil {
		m.real.Lock()
		return
	}
	vsched.PointOwned("Mutex.Lock", m, func() bool { return !m.held },
		func() { m.held = true; m.owner = s.Committing() },
		func() []string { return []string{m.owner} })
}

func (m *Mutex) TryLock() bool {
	ok := false
	if !vsched.Point("Mutex.TryLock", m, nil, func() {
		if !m.held {
			m.held = true
			ok = true
		}
	}) {
		return m.real.TryLock()
	}
	return ok
}

func (m *Mutex) Unlock() {
	if s := vsched.Active(); s != nil {
		s.Update(func() {
			if !m.held && !s.Free() {
				panic("vsync: unlock of unlocked Mutex")
			}
			m.held = false
		})
		return
	}
	m.real.Unlock()
}

// ---------------------------------------------------------------- RWMutex

// RWMutex models Go's writer preference in two explicit steps: a writer first *announces*
// itself (a scheduling point of its own, always enabled), which blocks readers from then on, and
// then acquires when the readers already inside are gone. Writers queue among themselves in
// announcement order (sync.RWMutex serialises writers on an inner mutex).
type RWMutex struct {
	real      sync.RWMutex
	w         Mutex // writers serialise on an inner mutex, as in sync.RWMutex
	announced bool  // a writer holds w and has announced itself: new readers wait
	writer    bool
	readers   int
	wowner    string
	rowners   []string
}

func (m *RWMutex) holders() []string {
	if m.writer || m.announced {
		return []string{m.wowner}
	}
	return append([]string(nil), m.rowners...)
}

func (m *RWMutex) Lock() {
	s := vsched.Active()
	if s == nil {
		m.real.Lock()
		return
	}
	// Three steps, as in the real implementation: (1) take the writers' mutex, (2) announce -
	// from then on new readers wait, (3) acquire once the readers that got in before are gone.
	// Each is a scheduling point: a context switch between a thread's previous Unlock and its
	// announcement must be explorable (another thread's RLock may still get in first).
	m.w.Lock()
	vsched.Point("RWMutex.Lock.announce", m, nil, func() {
		m.announced = true
		m.wowner = s.Committing()
	})
	vsched.PointOwned("RWMutex.Lock", m,
		func() bool { return m.readers == 0 },
		func() { m.writer = true },
		func() []string { return append([]string(nil), m.rowners...) })
}

func (m *RWMutex) Unlock() {
	if s := vsched.Active(); s != nil {
		s.Update(func() {
			if !m.writer && !s.Free() {
				panic("vsync: unlock of unlocked RWMutex")
			}
			m.writer = false
			m.announced = false
		})
		m.w.Unlock()
		return
	}
	m.real.Unlock()
}

func (m *RWMutex) RLock() {
	s := vsched.Active()
	if s == nil {
		m.real.RLock()
		return
	}
	vsched.PointOwned("RWMutex.RLock", m,
		func() bool { return !m.writer && !m.announced }, // an announced writer blocks new readers
		func() { m.readers++; m.rowners = append(m.rowners, s.Committing()) },
		m.holders)
}

func (m *RWMutex) RUnlock() {
	if s := vsched.Active(); s != nil {
		me := s.CurrentName()
		s.Update(func() {
			if m.readers <= 0 && !s.Free() {
				panic("vsync: RUnlock of unlocked RWMutex")
			}
			if m.readers > 0 {
				m.readers--
			}
			for i, o := range m.rowners {
				if o == me {
					m.rowners = append(m.rowners[:i], m.rowners[i+1:]...)
					break
				}
			}
		})
		return
	}
	m.real.RUnlock()
}

func (m *RWMutex) TryLock() bool {
	ok := false
	if !vsched.Point("RWMutex.TryLock", m, nil, func() {
		if !m.writer && !m.announced && m.readers == 0 && !m.w.held {
			m.w.held = true
			m.announced = true
			m.writer = true
			ok = true
		}
	}) {
		return m.real.TryLock()
	}
	return ok
}

func (m *RWMutex) TryRLock() bool {
	ok := false
	if !vsched.Point("RWMutex.TryRLock", m, nil, func() {
		if !m.writer && !m.announced {
			m.readers++
			ok = true
		}
	}) {
		return m.real.TryRLock()
	}
	return ok
}

// RLocker mirrors sync.RWMutex.RLocker.
func (m *RWMutex) RLocker() Locker { return (*rlocker)(m) }

type rlocker RWMutex

func (r *rlocker) Lock()   { (*RWMutex)(r).RLock() }
func (r *rlocker) Unlock() { (*RWMutex)(r).RUnlock() }

// ---------------------------------------------------------------- Once

type Once struct {
	m    Mutex
	done bool
}

func (o *Once) Do(f func()) {
	o.m.Lock()
	defer o.m.Unlock()
	if !o.done {
		defer func() { o.done = true }()
		f()
	}
}

// ---------------------------------------------------------------- Map

// Map delegates to a real sync.Map; every method is one scheduling point.
type Map struct{ real sync.Map }

func (m *Map) Load(key any) (any, bool) {
	vsched.Point("Map.Load", m, nil, nil)
	return m.real.Load(key)
}
func (m *Map) Store(key, value any) {
	vsched.Point("Map.Store", m, nil, nil)
	m.real.Store(key, value)
}
func (m *Map) LoadOrStore(key, value any) (any, bool) {
	vsched.Point("Map.LoadOrStore", m, nil, nil)
	return m.real.LoadOrStore(key, value)
}
func (m *Map) LoadAndDelete(key any) (any, bool) {
	vsched.Point("Map.LoadAndDelete", m, nil, nil)
	return m.real.LoadAndDelete(key)
}
func (m *Map) Delete(key any) {
	vsched.Point("Map.Delete", m, nil, nil)
	m.real.Delete(key)
}
func (m *Map) Swap(key, value any) (any, bool) {
	vsched.Point("Map.Swap", m, nil, nil)
	return m.real.Swap(key, value)
}
func (m *Map) CompareAndSwap(key, old, new any) bool {
	vsched.Point("Map.CompareAndSwap", m, nil, nil)
	return m.real.CompareAndSwap(key, old, new)
}
func (m *Map) CompareAndDelete(key, old any) bool {
	vsched.Point("Map.CompareAndDelete", m, nil, nil)
	return m.real.CompareAndDelete(key, old)
}
func (m *Map) Range(f func(key, value any) bool) {
	vsched.Point("Map.Range", m, nil, nil)
	m.real.Range(f)
}
func (m *Map) Clear() {
	vsched.Point("Map.Clear", m, nil, nil)
	m.real.Clear()
}

// OnceFunc / OnceValue helpers are not used by the instrumented packages.
