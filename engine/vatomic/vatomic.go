// Package vatomic replaces sync/atomic in code under exploration: every operation is a
// scheduling point (always enabled) followed by the real atomic operation.
package vatomic

import (
	"sync/atomic"

	"github.com/celestiaorg/celestia-node/verifx/vsched"
)

type Bool struct{ v atomic.Bool }

func (x *Bool) Load() bool                 { vsched.Point("Bool.Load", x, nil, nil); return x.v.Load() }
func (x *Bool) Store(b bool)               { vsched.Point("Bool.Store", x, nil, nil); x.v.Store(b) }
func (x *Bool) Swap(b bool) bool           { vsched.Point("Bool.Swap", x, nil, nil); return x.v.Swap(b) }
func (x *Bool) CompareAndSwap(o, n bool) bool {
	vsched.Point("Bool.CAS", x, nil, nil)
	return x.v.CompareAndSwap(o, n)
}

type Int32 struct{ v atomic.Int32 }

func (x *Int32) Load() int32           { vsched.Point("Int32.Load", x, nil, nil); return x.v.Load() }
func (x *Int32) Store(n int32)         { vsched.Point("Int32.Store", x, nil, nil); x.v.Store(n) }
func (x *Int32) Add(n int32) int32     { vsched.Point("Int32.Add", x, nil, nil); return x.v.Add(n) }
func (x *Int32) Swap(n int32) int32    { vsched.Point("Int32.Swap", x, nil, nil); return x.v.Swap(n) }
func (x *Int32) CompareAndSwap(o, n int32) bool {
	vsched.Point("Int32.CAS", x, nil, nil)
	return x.v.CompareAndSwap(o, n)
}

type Int64 struct{ v atomic.Int64 }

func (x *Int64) Load() int64           { vsched.Point("Int64.Load", x, nil, nil); return x.v.Load() }
func (x *Int64) Store(n int64)         { vsched.Point("Int64.Store", x, nil, nil); x.v.Store(n) }
func (x *Int64) Add(n int64) int64     { vsched.Point("Int64.Add", x, nil, nil); return x.v.Add(n) }
func (x *Int64) Swap(n int64) int64    { vsched.Point("Int64.Swap", x, nil, nil); return x.v.Swap(n) }
func (x *Int64) CompareAndSwap(o, n int64) bool {
	vsched.Point("Int64.CAS", x, nil, nil)
	return x.v.CompareAndSwap(o, n)
}

type Uint32 struct{ v atomic.Uint32 }

func (x *Uint32) Load() uint32          { vsched.Point("Uint32.Load", x, nil, nil); return x.v.Load() }
func (x *Uint32) Store(n uint32)        { vsched.Point("Uint32.Store", x, nil, nil); x.v.Store(n) }
func (x *Uint32) Add(n uint32) uint32   { vsched.Point("Uint32.Add", x, nil, nil); return x.v.Add(n) }
func (x *Uint32) Swap(n uint32) uint32  { vsched.Point("Uint32.Swap", x, nil, nil); return x.v.Swap(n) }
func (x *Uint32) CompareAndSwap(o, n uint32) bool {
	vsched.Point("Uint32.CAS", x, nil, nil)
	return x.v.CompareAndSwap(o, n)
}

type Uint64 struct{ v atomic.Uint64 }

func (x *Uint64) Load() uint64          { vsched.Point("Uint64.Load", x, nil, nil); return x.v.Load() }
func (x *Uint64) Store(n uint64)        { vsched.Point("Uint64.Store", x, nil, nil); x.v.Store(n) }
func (x *Uint64) Add(n uint64) uint64   { vsched.Point("Uint64.Add", x, nil, nil); return x.v.Add(n) }
func (x *Uint64) Swap(n uint64) uint64  { vsched.Point("Uint64.Swap", x, nil, nil); return x.v.Swap(n) }
func (x *Uint64) CompareAndSwap(o, n uint64) bool {
	vsched.Point("Uint64.CAS", x, nil, nil)
	return x.v.CompareAndSwap(o, n)
}

type Pointer[T any] struct{ v atomic.Pointer[T] }

func (x *Pointer[T]) Load() *T        { vsched.Point("Pointer.Load", x, nil, nil); return x.v.Load() }
func (x *Pointer[T]) Store(p *T)      { vsched.Point("Pointer.Store", x, nil, nil); x.v.Store(p) }
func (x *Pointer[T]) Swap(p *T) *T    { vsched.Point("Pointer.Swap", x, nil, nil); return x.v.Swap(p) }
func (x *Pointer[T]) CompareAndSwap(o, n *T) bool {
	vsched.Point("Pointer.CAS", x, nil, nil)
	return x.v.CompareAndSwap(o, n)
}

type Value struct{ v atomic.Value }

func (x *Value) Load() any       { vsched.Point("Value.Load", x, nil, nil); return x.v.Load() }
func (x *Value) Store(a any)     { vsched.Point("Value.Store", x, nil, nil); x.v.Store(a) }

// function forms
func AddInt32(p *int32, d int32) int32 { vsched.Point("AddInt32", p, nil, nil); return atomic.AddInt32(p, d) }
func AddInt64(p *int64, d int64) int64 { vsched.Point("AddInt64", p, nil, nil); return atomic.AddInt64(p, d) }
func AddUint32(p *uint32, d uint32) uint32 {
	vsched.Point("AddUint32", p, nil, nil)
	return atomic.AddUint32(p, d)
}
func AddUint64(p *uint64, d uint64) uint64 {
	vsched.Point("AddUint64", p, nil, nil)
	return atomic.AddUint64(p, d)
}
func LoadInt32(p *int32) int32     { vsched.Point("LoadInt32", p, nil, nil); return atomic.LoadInt32(p) }
func LoadInt64(p *int64) int64     { vsched.Point("LoadInt64", p, nil, nil); return atomic.LoadInt64(p) }
func LoadUint32(p *uint32) uint32  { vsched.Point("LoadUint32", p, nil, nil); return atomic.LoadUint32(p) }
func LoadUint64(p *uint64) uint64  { vsched.Point("LoadUint64", p, nil, nil); return atomic.LoadUint64(p) }
func StoreInt32(p *int32, v int32) { vsched.Point("StoreInt32", p, nil, nil); atomic.StoreInt32(p, v) }
func StoreInt64(p *int64, v int64) { vsched.Point("StoreInt64", p, nil, nil); atomic.StoreInt64(p, v) }
func StoreUint32(p *uint32, v uint32) {
	vsched.Point("StoreUint32", p, nil, nil)
	atomic.StoreUint32(p, v)
}
func StoreUint64(p *uint64, v uint64) {
	vsched.Point("StoreUint64", p, nil, nil)
	atomic.StoreUint64(p, v)
}
func CompareAndSwapInt32(p *int32, o, n int32) bool {
	vsched.Point("CASInt32", p, nil, nil)
	return atomic.CompareAndSwapInt32(p, o, n)
}
func CompareAndSwapInt64(p *int64, o, n int64) bool {
	vsched.Point("CASInt64", p, nil, nil)
	return atomic.CompareAndSwapInt64(p, o, n)
}
func CompareAndSwapUint32(p *uint32, o, n uint32) bool {
	vsched.Point("CASUint32", p, nil, nil)
	return atomic.CompareAndSwapUint32(p, o, n)
}
func CompareAndSwapUint64(p *uint64, o, n uint64) bool {
	vsched.Point("CASUint64", p, nil, nil)
	return atomic.CompareAndSwapUint64(p, o, n)
}
