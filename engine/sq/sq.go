// Package sq is the shared bounded-exhaustive *data square* generator of /verif
// (DESIGN.md §3.6). It is added to the repository as a virtual package through
// `go test -overlay` (import path github.com/celestiaorg/celestia-node/verifx/sq).
//
// What it gives a harness:
//
//   - Layouts(w, maxSyms, pads): EVERY namespace layout of a w×w original data square
//     (ODS) over the symbol alphabet TX < PFB < PRP < A < B < C < TAIL (a layout is a
//     non-decreasing sequence of w² symbols, i.e. a list of runs), optionally restricted
//     to at most maxSyms distinct symbols, each combined with the given amounts of
//     trailing *namespace padding* inside user-namespace runs. All tail-padding
//     amounts 0..w²-1 (and the all-padding square), namespaces filling exactly one
//     row, straddling row boundaries and filling several rows are members of that set
//     by construction.
//   - Build(layout, variant): the shares of that layout (payload = a counter, so every
//     non-padding share is unique and names its own position; padding shares are the
//     canonical ones of go-square), extended with the REAL rsmt2d / celestia-app
//     code (appconsts.DefaultCodec + wrapper.NewConstructor), and the real
//     DataAvailabilityHeader. The rsmt2d square is the reference for byte comparisons:
//     Cell/Row/Col/ODS, NamespaceShares, RowsCovering.
//   - Tree(axis, idx): the real erasured NMT of one axis, for building proofs of
//     arbitrary ranges (honest or borrowed).
//   - Probes(): the namespaces worth asking a square about (every symbol, every gap
//     between symbols, below all / above all, reserved, tail padding, parity) with the
//     class each one falls into for this square.
//
// The package imports only what /repo's go.mod already requires and nothing from
// celestia-node itself, so in-package harnesses of any celestia-node package can use it.
package sq

import (
	"bytes"
	"encoding/binary"
	"fmt"
	"strconv"
	"strings"

	"github.com/celestiaorg/celestia-app/v9/pkg/appconsts"
	"github.com/celestiaorg/celestia-app/v9/pkg/da"
	"github.com/celestiaorg/celestia-app/v9/pkg/wrapper"
	libshare "github.com/celestiaorg/go-square/v4/share"
	"github.com/celestiaorg/rsmt2d"
)

// Sym is one symbol of the namespace-layout alphabet, in namespace order.
type Sym uint8

const (
	TX   Sym = iota // transactions (primary reserved 0x01)
	PFB             // pay-for-blob transactions (primary reserved 0x04)
	PRP             // primary reserved padding (0xFF), canonical padding shares
	A               // user namespace, version 0
	B               // user namespace, version 0
	C               // user namespace, version 0
	TAIL            // tail padding (secondary reserved 0xFE), canonical padding shares
	NumSyms
)

var symNames = [...]string{"TX", "PFB", "PRP", "A", "B", "C", "TAIL"}

func (s Sym) String() string { return symNames[s] }

// IsUser reports whether the symbol is a user (blob) namespace.
func (s Sym) IsUser() bool { return s == A || s == B || s == C }

func userNS(hi, lo byte) libshare.Namespace { return libshare.MustNewV0Namespace([]byte{hi, lo}) }

var symNS = [...]libshare.Namespace{
	libshare.TxNamespace,
	libshare.PayForBlobNamespace,
	libshare.PrimaryReservedPaddingNamespace,
	userNS(0x0A, 0x00),
	userNS(0x0B, 0x00),
	userNS(0x0C, 0x00),
	libshare.TailPaddingNamespace,
}

// Namespace of the symbol.
func (s Sym) Namespace() libshare.Namespace { return symNS[s] }

// Run is a maximal run of one symbol. Pad of its N shares (the trailing ones) are
// namespace-padding shares (only for user namespaces; always < N).
type Run struct {
	Sym Sym
	N   int
	Pad int
}

// Layout is a namespace layout of a W×W ODS.
type Layout struct {
	W    int
	Runs []Run
}

// String renders e.g. "w4:TX1,A5p2,B3,TAIL7".
func (l Layout) String() string {
	var sb strings.Builder
	fmt.Fprintf(&sb, "w%d:", l.W)
	for i, r := range l.Runs {
		if i > 0 {
			sb.WriteByte(',')
		}
		fmt.Fprintf(&sb, "%s%d", r.Sym, r.N)
		if r.Pad > 0 {
			fmt.Fprintf(&sb, "p%d", r.Pad)
		}
	}
	return sb.String()
}

// ParseLayout is the inverse of String.
func ParseLayout(s string) (Layout, error) {
	var l Layout
	head, rest, ok := strings.Cut(s, ":")
	if !ok || !strings.HasPrefix(head, "w") {
		return l, fmt.Errorf("sq: bad layout %q", s)
	}
	w, err := strconv.Atoi(head[1:])
	if err != nil {
		return l, fmt.Errorf("sq: bad layout %q", s)
	}
	l.W = w
	for _, part := range strings.Split(rest, ",") {
		var r Run
		found := false
		// longest symbol name first (TAIL before TX is irrelevant; PFB/PRP distinct)
		for i := int(NumSyms) - 1; i >= 0; i-- {
			if strings.HasPrefix(part, symNames[i]) {
				tail := part[len(symNames[i]):]
				if tail == "" || tail[0] < '0' || tail[0] > '9' {
					continue
				}
				r.Sym = Sym(i)
				num, pad, hasPad := strings.Cut(tail, "p")
				if r.N, err = strconv.Atoi(num); err != nil {
					return l, fmt.Errorf("sq: bad run %q", part)
				}
				if hasPad {
					if r.Pad, err = strconv.Atoi(pad); err != nil {
						return l, fmt.Errorf("sq: bad run %q", part)
					}
				}
				found = true
				break
			}
		}
		if !found {
			return l, fmt.Errorf("sq: bad run %q", part)
		}
		l.Runs = append(l.Runs, r)
	}
	return l, l.Validate()
}

// Validate checks that the layout is a sorted partition of W² cells.
func (l Layout) Validate() error {
	if l.W < 1 || l.W&(l.W-1) != 0 {
		return fmt.Errorf("sq: width %d is not a power of two", l.W)
	}
	total := 0
	for i, r := range l.Runs {
		if i > 0 && l.Runs[i-1].Sym >= r.Sym {
			return fmt.Errorf("sq: runs not strictly ascending in %s", l)
		}
		if r.N < 1 || r.Pad < 0 || r.Pad >= r.N && r.Pad != 0 || (r.Pad > 0 && !r.Sym.IsUser()) {
			return fmt.Errorf("sq: bad run %+v in %s", r, l)
		}
		total += r.N
	}
	if total != l.W*l.W {
		return fmt.Errorf("sq: %s has %d cells, want %d", l, total, l.W*l.W)
	}
	return nil
}

// Cells returns, per ODS cell in row-major order, its symbol and whether it is a
// (namespace / reserved / tail) padding share.
func (l Layout) Cells() (syms []Sym, pad []bool) {
	for _, r := range l.Runs {
		for i := 0; i < r.N; i++ {
			syms = append(syms, r.Sym)
			pad = append(pad, r.Sym == PRP || r.Sym == TAIL || i >= r.N-r.Pad)
		}
	}
	return syms, pad
}

// NumSymsUsed is the number of distinct symbols of the layout.
func (l Layout) NumSymsUsed() int { return len(l.Runs) }

// Layouts enumerates every layout of a w×w ODS with at most maxSyms distinct symbols
// (maxSyms <= 0: no restriction) in a fixed order, each once per entry p of pads:
// every user run of length n gets min(p, n-1) trailing namespace-padding shares
// (variants that do not differ from an earlier one are dropped). pads nil means {0}.
//
// Number of layouts for pads={0}: w=1: 7; w=2: 210; w=4: 322 (maxSyms 2), 3997
// (maxSyms 3), 74613 (all).
func Layouts(w, maxSyms int, pads []int) []Layout {
	if len(pads) == 0 {
		pads = []int{0}
	}
	n := w * w
	var out []Layout
	seen := map[string]bool{}
	var rec func(next Sym, left int, runs []Run)
	rec = func(next Sym, left int, runs []Run) {
		if left == 0 {
			for _, p := range pads {
				l := Layout{W: w, Runs: make([]Run, len(runs))}
				copy(l.Runs, runs)
				for i := range l.Runs {
					if l.Runs[i].Sym.IsUser() {
						l.Runs[i].Pad = min(p, l.Runs[i].N-1)
					}
				}
				k := l.String()
				if !seen[k] {
					seen[k] = true
					out = append(out, l)
				}
			}
			return
		}
		if next >= NumSyms || (maxSyms > 0 && len(runs) >= maxSyms) {
			return
		}
		for s := next; s < NumSyms; s++ {
			for c := 1; c <= left; c++ {
				rec(s+1, left-c, append(runs, Run{Sym: s, N: c}))
			}
		}
	}
	rec(0, n, nil)
	return out
}

// MustParse parses a list of layout strings (for fixed lists of large squares).
func MustParse(ss ...string) []Layout {
	out := make([]Layout, 0, len(ss))
	for _, s := range ss {
		l, err := ParseLayout(s)
		if err != nil {
			panic(err)
		}
		out = append(out, l)
	}
	return out
}

// Fixed8 is the fixed (not random) list of 8×8 layouts used by thorough tiers: tail
// padding amounts around row boundaries, namespaces filling exactly one row, straddling
// rows, filling several rows, reserved + padding + blobs, namespace padding.
func Fixed8() []Layout {
	return MustParse(
		"w8:A64",
		"w8:TAIL64",
		"w8:TX1,TAIL63",
		"w8:TX3,PFB2,PRP3,A8,B9,C7,TAIL32",
		"w8:TX1,PFB1,A6,B8,C16,TAIL32",
		"w8:A5,B6,C53",
		"w8:A7p2,B10p3,C40p1,TAIL7",
		"w8:TX8,A56",
		"w8:TX9,PRP7,A17,B30,TAIL1",
		"w8:PFB4,A4,B12,C20,TAIL24",
		"w8:A63,TAIL1",
		"w8:TX2,PFB1,PRP1,A20p4,B15,C24p7,TAIL1",
	)
}

// Square is one built square with its reference data.
type Square struct {
	Layout  Layout
	Variant int
	W       int // ODS width
	N       int // EDS width = 2W
	EDS     *rsmt2d.ExtendedDataSquare
	DAH     *da.DataAvailabilityHeader
	cells   [][]libshare.Share // N×N, the reference
	syms    []Sym
	isPad   []bool
}

// Build makes the shares of the layout and extends them with the real code. variant
// changes every non-padding payload (a "different square of the same layout").
func Build(l Layout, variant int) (*Square, error) {
	if err := l.Validate(); err != nil {
		return nil, err
	}
	syms, pad := l.Cells()
	shares := make([]libshare.Share, len(syms))
	first := true
	for i, s := range syms {
		if i > 0 && syms[i-1] != s {
			first = true
		}
		var (
			sh  libshare.Share
			err error
		)
		switch {
		case s == TAIL:
			sh = libshare.TailPaddingShare()
		case s == PRP:
			sh = libshare.ReservedPaddingShare()
		case pad[i]:
			sh, err = libshare.NamespacePaddingShare(s.Namespace(), libshare.ShareVersionZero)
		default:
			sh, err = dataShare(s, i, variant, first)
		}
		if err != nil {
			return nil, err
		}
		shares[i] = sh
		first = false
	}
	eds, err := rsmt2d.ComputeExtendedDataSquare(
		libshare.ToBytes(shares), appconsts.DefaultCodec(), wrapper.NewConstructor(uint64(l.W)))
	if err != nil {
		return nil, fmt.Errorf("sq: extending %s: %w", l, err)
	}
	dah, err := da.NewDataAvailabilityHeader(eds)
	if err != nil {
		return nil, fmt.Errorf("sq: roots of %s: %w", l, err)
	}
	sq := &Square{Layout: l, Variant: variant, W: l.W, N: 2 * l.W, EDS: eds, DAH: &dah, syms: syms, isPad: pad}
	sq.cells = make([][]libshare.Share, sq.N)
	for r := 0; r < sq.N; r++ {
		row, err := libshare.FromBytes(eds.Row(uint(r)))
		if err != nil {
			return nil, err
		}
		sq.cells[r] = row
	}
	return sq, nil
}

// dataShare builds a non-padding share: namespace ‖ info byte ‖ [sequence length] ‖
// payload, where the payload starts with (variant, linear index, symbol) and continues
// with a counter. The share is not a parseable transaction/blob encoding: nothing in
// the verification layer parses share content.
func dataShare(s Sym, idx, variant int, seqStart bool) (libshare.Share, error) {
	raw := make([]byte, 0, libshare.ShareSize)
	raw = append(raw, s.Namespace().Bytes()...)
	info, err := libshare.NewInfoByte(libshare.ShareVersionZero, seqStart)
	if err != nil {
		return libshare.Share{}, err
	}
	raw = append(raw, byte(info))
	if seqStart {
		raw = binary.BigEndian.AppendUint32(raw, uint32(400))
	}
	raw = append(raw, 0xC5, byte(variant), byte(idx>>8), byte(idx), byte(s))
	for k := 0; len(raw) < libshare.ShareSize; k++ {
		raw = append(raw, byte(k*31+idx*7+variant*13+1))
	}
	return libshare.NewShare(raw)
}

// Cell returns the reference share at EDS coordinates (r,c).
func (s *Square) Cell(r, c int) libshare.Share { return s.cells[r][c] }

// Row returns the reference shares of EDS row r (length N). Do not modify.
func (s *Square) Row(r int) []libshare.Share { return s.cells[r] }

// Col returns the reference shares of EDS column c (length N).
func (s *Square) Col(c int) []libshare.Share {
	out := make([]libshare.Share, s.N)
	for r := 0; r < s.N; r++ {
		out[r] = s.cells[r][c]
	}
	return out
}

// Axis returns Row(idx) or Col(idx).
func (s *Square) Axis(axis rsmt2d.Axis, idx int) []libshare.Share {
	if axis == rsmt2d.Row {
		return s.Row(idx)
	}
	return s.Col(idx)
}

// ODS returns the W² original shares in row-major order (a fresh slice).
func (s *Square) ODS() []libshare.Share {
	out := make([]libshare.Share, 0, s.W*s.W)
	for r := 0; r < s.W; r++ {
		out = append(out, s.cells[r][:s.W]...)
	}
	return out
}

// SymAt returns the layout symbol of ODS cell i (row-major) and whether it is padding.
func (s *Square) SymAt(i int) (Sym, bool) { return s.syms[i], s.isPad[i] }

// Tree builds the real erasured namespaced merkle tree of one axis of the square
// (the same construction every producer in the repository uses).
func (s *Square) Tree(axis rsmt2d.Axis, idx int) (*wrapper.ErasuredNamespacedMerkleTree, error) {
	tree := wrapper.NewErasuredNamespacedMerkleTree(uint64(s.W), uint(idx))
	for _, sh := range s.Axis(axis, idx) {
		if err := tree.Push(sh.ToBytes()); err != nil {
			return nil, err
		}
	}
	return &tree, nil
}

// NamespaceShares returns every ODS share whose namespace bytes equal ns, in block
// (row-major) order, and per ODS row the [from,to) column range they occupy (to==from
// when the row has none).
func (s *Square) NamespaceShares(ns libshare.Namespace) (flat []libshare.Share, perRow [][2]int) {
	perRow = make([][2]int, s.W)
	for r := 0; r < s.W; r++ {
		from, to := -1, -1
		for c := 0; c < s.W; c++ {
			if bytes.Equal(s.cells[r][c].Namespace().Bytes(), ns.Bytes()) {
				if from < 0 {
					from = c
				}
				to = c + 1
				flat = append(flat, s.cells[r][c])
			}
		}
		if from < 0 {
			from, to = 0, 0
		}
		perRow[r] = [2]int{from, to}
	}
	return flat, perRow
}

// RowsCovering returns the EDS rows whose committed namespace range contains ns,
// computed from the reference cells (not from the roots): an ODS row r < W covers
// [min, max] of its W original shares (parity leaves are ignored by the NMT's
// IgnoreMaxNamespace rule); a parity row r >= W covers exactly the parity namespace.
func (s *Square) RowsCovering(ns libshare.Namespace) []int {
	var out []int
	for r := 0; r < s.W; r++ {
		lo, hi := s.cells[r][0].Namespace(), s.cells[r][s.W-1].Namespace()
		if !ns.IsLessThan(lo) && ns.IsLessOrEqualThan(hi) {
			out = append(out, r)
		}
	}
	if ns.Equals(libshare.ParitySharesNamespace) {
		for r := s.W; r < s.N; r++ {
			out = append(out, r)
		}
	}
	return out
}

// Probe is a namespace to ask a square about.
type Probe struct {
	Name string
	NS   libshare.Namespace
	// Requestable: passes Namespace.ValidateForData (what NamespaceDataID.Validate demands);
	// tail padding and parity are not requestable and are probed for soundness only.
	Requestable bool
}

var probeList = func() []Probe {
	ps := []Probe{
		{Name: "min(0x00)", NS: libshare.MustNewNamespace(0, make([]byte, libshare.NamespaceIDSize))},
		{Name: "TX", NS: TX.Namespace()},
		{Name: "ISR(0x02)", NS: libshare.IntermediateStateRootsNamespace},
		{Name: "PFB", NS: PFB.Namespace()},
		{Name: "PFF(0x05)", NS: libshare.PayForFibreNamespace},
		{Name: "PRP", NS: PRP.Namespace()},
		{Name: "lt-A", NS: userNS(0x09, 0x00)},
		{Name: "A", NS: A.Namespace()},
		{Name: "A-B", NS: userNS(0x0A, 0x80)},
		{Name: "B", NS: B.Namespace()},
		{Name: "B-C", NS: userNS(0x0B, 0x80)},
		{Name: "C", NS: C.Namespace()},
		{Name: "gt-C", NS: userNS(0x0D, 0x00)},
		{Name: "minSecondaryReserved", NS: libshare.MinSecondaryReservedNamespace},
		{Name: "TAIL", NS: TAIL.Namespace()},
		{Name: "PARITY", NS: libshare.ParitySharesNamespace},
	}
	for i := range ps {
		ps[i].Requestable = ps[i].NS.ValidateForData() == nil
	}
	return ps
}()

// Probes returns the namespaces to query, in ascending namespace order: every layout
// symbol, a namespace in every gap between symbols, below all, above all user
// namespaces, reserved ones, tail padding and parity.
func Probes() []Probe { return probeList }

// Class names the situation of namespace ns in this square (for coverage statistics):
// present-1row, present-multirow, present-fullrows (occupies at least one whole row),
// absent-inside-k (k covering rows), absent-outside.
func (s *Square) Class(ns libshare.Namespace) string {
	flat, per := s.NamespaceShares(ns)
	cov := s.RowsCovering(ns)
	if len(flat) == 0 {
		if len(cov) == 0 {
			return "absent-outside"
		}
		return fmt.Sprintf("absent-inside-%d", len(cov))
	}
	rows, full := 0, false
	for _, p := range per {
		if p[1] > p[0] {
			rows++
			if p[1]-p[0] == s.W {
				full = true
			}
		}
	}
	switch {
	case full:
		return "present-fullrows"
	case rows > 1:
		return "present-multirow"
	default:
		return "present-1row"
	}
}
