// Package vsched is a cooperative scheduler for exhaustive exploration of thread
// interleavings of real Go code (the SC layer of /verif/DESIGN.md §3.3).
//
// The code under test is compiled with `sync` and `sync/atomic` import-rewritten to
// verifx/vsync and verifx/vatomic. While a Sched is active, every lock / atomic / sync.Map
// operation first *parks* the calling goroutine on a channel; the scheduler loop (the root
// goroutine of a testing/synctest bubble) waits for quiescence, computes the set of parked
// threads whose operation can proceed, asks the explorer to choose one and wakes it.
// Exactly one thread is woken per step. Channel operations, WaitGroups and timers are not
// hooked: synctest.Wait() sees them as durable blocking, and a goroutine that is woken by
// such an operation simply runs to its next hooked operation and parks.
//
// While no Sched is active every primitive passes straight through to the real one.
package vsched

import (
	"fmt"
	"runtime"
	"sort"
	"strconv"
	"strings"
	"sync"
	"sync/atomic"
	"testing/synctest"
	"time"
)

// Chooser is the explorer's choice function (vx.Exec.ChooseCost).
type Chooser func(n int, label string, costs []int) int

type thread struct {
	id     int
	name   string
	goid   uint64
	wake   chan struct{}
	parked bool
	done   bool
	// pending operation
	kind       string
	obj        string
	canProceed func() bool
	commit     func()
	arrival    int64
	harness    bool
	lastRun    int             // scheduler step at which the thread was last woken (fair scheduling)
	owners     func() []string // names of the threads currently holding what this op waits for
}

// Sched is one execution's scheduler.
type Sched struct {
	mu       sync.Mutex // real mutex: protects the tables below, never held across a park
	choose   Chooser
	threads  map[uint64]*thread
	order    []*thread
	running  *thread
	seq      int64
	free     bool // draining: every parked operation is considered enabled (after a verdict)
	Steps    int
	MaxSteps int
	objNames map[any]string
	objCount map[string]int
	extra    []ExtraAction
	// AtomicOps: never switch away from a running thread that is still enabled unless it is at
	// an explicit yield/start point (used to compute the sequential reference outcomes with
	// the same machinery)
	AtomicOps bool
	// OnAbort is called once when the scheduler gives up on an execution (deadlock or step
	// horizon) and starts draining; the harness should cancel contexts so that loops end.
	OnAbort    func()
	DrainSteps int
	// FairAfter > 0: a thread that has been run for more than FairAfter consecutive steps while
	// another thread could run is switched away from without consulting the explorer (fair
	// scheduling of retry loops such as "load, see the old value, try again": the loop is only
	// left when the other thread makes progress). Not counted as a preemption.
	FairAfter   int
	streak      int
	committing  *thread
	Trace       []string
	KeepTrace   bool
	harnessLive int
}

// ExtraAction is an environment action the scheduler may take instead of waking a thread
// (e.g. "advance the fake clock by d"). Enabled reports whether it is currently possible.
type ExtraAction struct {
	Name    string
	Enabled func() bool
	Do      func()
	// Idle: only offered when no thread can proceed
	Idle bool
	// Must: the execution does not end while this action is enabled
	Must bool
}

var active atomic.Pointer[Sched]

// Active returns the active scheduler or nil.
func Active() *Sched { return active.Load() }

// Result of one execution.
type Result struct {
	Deadlock    bool
	Stuck       string   // description of parked threads when deadlocked
	Cycle       []string // operation kinds on the wait-for cycle (sorted), if one was found
	Horizon     bool     // MaxSteps reached
	Steps       int
	Preemptions int
}

func goid() uint64 {
	var buf [64]byte
	n := runtime.Stack(buf[:], false)
	// "goroutine 123 ["
	s := string(buf[:n])
	s = strings.TrimPrefix(s, "goroutine ")
	if i := strings.IndexByte(s, ' '); i > 0 {
		s = s[:i]
	}
	id, _ := strconv.ParseUint(s, 10, 64)
	return id
}

// New creates a scheduler; it becomes active in Run.
func New(choose Chooser) *Sched {
	return &Sched{choose: choose, threads: map[uint64]*thread{}, MaxSteps: 3000, DrainSteps: 3000,
		objNames: map[any]string{}, objCount: map[string]int{}}
}

// AddAction registers an environment action.
func (s *Sched) AddAction(a ExtraAction) { s.extra = append(s.extra, a) }

// Name gives a stable name to a synchronisation object (by first use, per kind).
func (s *Sched) nameOf(kind string, obj any) string {
	if n, ok := s.objNames[obj]; ok {
		return n
	}
	s.objCount[kind]++
	n := fmt.Sprintf("%s#%d", kind, s.objCount[kind])
	s.objNames[obj] = n
	return n
}

// Go starts a harness thread. It parks immediately at a "start" point so that the
// scheduler decides when it begins.
func (s *Sched) Go(name string, fn func()) {
	th := &thread{name: name, wake: make(chan struct{}), harness: true}
	s.mu.Lock()
	th.id = len(s.order)
	s.order = append(s.order, th)
	s.harnessLive++
	s.mu.Unlock()
	ready := make(chan struct{})
	go func() {
		g := goid()
		s.mu.Lock()
		th.goid = g
		s.threads[g] = th
		s.mu.Unlock()
		close(ready)
		defer func() {
			s.mu.Lock()
			th.done = true
			s.harnessLive--
			delete(s.threads, g)
			s.mu.Unlock()
		}()
		s.park(th, "start", name, nil, nil)
		fn()
	}()
	<-ready
}

func (s *Sched) threadForCurrent() *thread {
	g := goid()
	s.mu.Lock()
	defer s.mu.Unlock()
	th := s.threads[g]
	if th == nil {
		th = &thread{goid: g, wake: make(chan struct{})}
		th.id = -1 // assigned at the next quiescence in goid order
		th.name = "g?"
		s.threads[g] = th
		s.order = append(s.order, th)
	}
	return th
}

func (s *Sched) park(th *thread, kind, obj string, canProceed func() bool, commit func()) {
	s.mu.Lock()
	th.kind, th.obj, th.canProceed, th.commit = kind, obj, canProceed, commit
	s.seq++
	th.arrival = s.seq
	th.parked = true
	s.mu.Unlock()
	<-th.wake
}

// Point is a scheduling point: the calling goroutine parks until the scheduler wakes it.
// canProceed (may be nil = always) is evaluated by the scheduler at quiescence; commit (may
// be nil) is executed by the scheduler right before waking the thread, so the operation's
// effect on the model state is atomic with the choice. It returns false when no scheduler is
// active (caller must fall through to the real primitive).
func Point(kind string, obj any, canProceed func() bool, commit func()) bool {
	return PointOwned(kind, obj, canProceed, commit, nil)
}

// PointOwned is Point for blocking operations; owners reports the names of the threads that
// currently hold the object (used only to describe deadlock cycles).
func PointOwned(kind string, obj any, canProceed func() bool, commit func(), owners func() []string) bool {
	s := active.Load()
	if s == nil {
		return false
	}
	th := s.threadForCurrent()
	s.mu.Lock()
	name := s.nameOf(kind[:strings.IndexAny(kind+".", ".")], obj)
	s.mu.Unlock()
	th.owners = owners
	s.park(th, kind, name, canProceed, commit)
	return true
}

// Committing returns the name of the thread whose operation is being committed (valid only
// inside a commit callback).
func (s *Sched) Committing() string {
	if s.committing == nil {
		return "?"
	}
	return s.committing.name
}

// CurrentName returns the scheduler's name of the calling goroutine ("" if unknown).
func (s *Sched) CurrentName() string {
	g := goid()
	s.mu.Lock()
	defer s.mu.Unlock()
	if th := s.threads[g]; th != nil {
		return th.name
	}
	return ""
}

// Arrival returns the arrival sequence number of the calling goroutine's pending operation
// (used by RWMutex to model writer preference faithfully). Only meaningful inside canProceed.
func (s *Sched) Seq() int64 { return atomic.AddInt64(&s.seq, 1) }

// Update runs f under the scheduler's table lock (model-state updates by non-parking
// operations such as Unlock).
func (s *Sched) Update(f func()) {
	s.mu.Lock()
	f()
	s.mu.Unlock()
}

// Yield is an explicit harness-level scheduling point.
func Yield(label string) { Point("yield", label, nil, nil) }

// Run activates the scheduler and loops until every harness thread is done and nothing is
// parked, a deadlock is found, or the step horizon is hit. It must be called from the root
// goroutine of a synctest bubble, after the harness threads were created with Go.
func (s *Sched) Run() Result {
	if !active.CompareAndSwap(nil, s) {
		panic("vsched: another scheduler is active")
	}
	defer active.Store(nil)
	var res Result
	for {
		synctest.Wait()
		s.mu.Lock()
		// name newly seen goroutines in goid (= creation) order
		var fresh []*thread
		for _, th := range s.order {
			if th.id == -1 {
				fresh = append(fresh, th)
			}
		}
		if len(fresh) > 0 {
			sort.Slice(fresh, func(i, j int) bool { return fresh[i].goid < fresh[j].goid })
			next := 0
			for _, th := range s.order {
				if th.id >= next {
					next = th.id + 1
				}
			}
			for _, th := range fresh {
				th.id = next
				th.name = fmt.Sprintf("g%d", next)
				next++
			}
			sort.Slice(s.order, func(i, j int) bool { return s.order[i].id < s.order[j].id })
		}
		var parked, enabled []*thread
		for _, th := range s.order {
			if th.parked {
				parked = append(parked, th)
				if s.free || th.canProceed == nil || th.canProceed() {
					enabled = append(enabled, th)
				}
			}
		}
		var acts []ExtraAction
		if !s.free {
			for _, a := range s.extra {
				if a.Idle && len(enabled) > 0 {
					continue
				}
				if a.Enabled == nil || a.Enabled() {
					acts = append(acts, a)
				}
			}
		}
		live := s.harnessLive
		s.mu.Unlock()

		must := false
		for _, a := range acts {
			must = must || a.Must
		}
		if len(parked) == 0 && live == 0 && !must {
			break // finished (goroutines blocked on channels/timers are the harness's business)
		}
		if len(enabled) == 0 && len(acts) == 0 {
			if s.free {
				break
			}
			if len(parked) == 0 {
				// harness threads alive but blocked on something unhooked that nobody can signal
				res.Deadlock = true
				res.Stuck = "no thread parked at a hooked operation; live harness threads are blocked on an unhooked channel/waitgroup"
				break
			}
			res.Deadlock = true
			var ds []string
			waitsFor := map[string][]string{}
			kindOf := map[string]string{}
			s.mu.Lock()
			for _, th := range parked {
				d := fmt.Sprintf("%s waits %s(%s)", th.name, th.kind, th.obj)
				if th.owners != nil {
					o := th.owners()
					d += fmt.Sprintf(" held by %v", o)
					waitsFor[th.name] = o
				}
				kindOf[th.name] = th.kind
				ds = append(ds, d)
			}
			s.mu.Unlock()
			res.Stuck = strings.Join(ds, "; ")
			res.Cycle = findCycle(waitsFor, kindOf)
			// drain: let everything run so the bubble can end
			s.abort()
			continue
		}
		if s.Steps >= s.MaxSteps && !s.free {
			res.Horizon = true
			s.abort()
		}
		if s.free && s.Steps >= s.MaxSteps+s.DrainSteps {
			break // give up draining; the bubble will report leaked goroutines
		}
		s.Steps++
		// canonical order: running thread first if enabled, then ascending ids, then actions
		runIdx := -1
		for i, th := range enabled {
			if th == s.running {
				runIdx = i
			}
		}
		if runIdx > 0 {
			r := enabled[runIdx]
			copy(enabled[1:runIdx+1], enabled[:runIdx])
			enabled[0] = r
		}
		n := len(enabled) + len(acts)
		pick := 0
		atomicStay := s.AtomicOps && runIdx >= 0 && enabled[0].kind != "yield" && enabled[0].kind != "start"
		forced := false
		if s.FairAfter > 0 && runIdx >= 0 && len(enabled) > 1 && s.streak > s.FairAfter && !s.free {
			// the enabled thread that has not run for the longest time (two retry loops must not
			// starve the thread they are both waiting for)
			pick, forced = 1, true
			for i := 1; i < len(enabled); i++ {
				if enabled[i].lastRun < enabled[pick].lastRun {
					pick = i
				}
			}
		}
		if n > 1 && !s.free && !atomicStay && !forced {
			costs := make([]int, n)
			if runIdx >= 0 {
				for i := 1; i < n; i++ {
					costs[i] = 1 // switching away from a runnable thread is a preemption
				}
			}
			var lb strings.Builder
			for i, th := range enabled {
				if i > 0 {
					lb.WriteByte('|')
				}
				fmt.Fprintf(&lb, "%s:%s(%s)", th.name, th.kind, th.obj)
			}
			for _, a := range acts {
				fmt.Fprintf(&lb, "|@%s", a.Name)
			}
			pick = s.choose(n, lb.String(), costs)
			if pick > 0 && runIdx >= 0 {
				res.Preemptions++
			}
		}
		if pick >= len(enabled) {
			a := acts[pick-len(enabled)]
			if s.KeepTrace {
				s.Trace = append(s.Trace, "@"+a.Name)
			}
			s.running = nil
			a.Do()
			continue
		}
		th := enabled[pick]
		s.mu.Lock()
		if th.commit != nil && !s.free {
			s.committing = th
			th.commit()
			s.committing = nil
		}
		th.parked = false
		th.lastRun = s.Steps
		if s.running == th {
			s.streak++
		} else if !forced {
			s.streak = 0
		}
		s.running = th
		if s.KeepTrace {
			s.Trace = append(s.Trace, fmt.Sprintf("%s:%s(%s)", th.name, th.kind, th.obj))
		}
		s.mu.Unlock()
		th.wake <- struct{}{}
	}
	res.Steps = s.Steps
	return res
}

func (s *Sched) abort() {
	if s.free {
		return
	}
	s.free = true
	if s.OnAbort != nil {
		s.OnAbort()
	}
}

// BlockedUnhooked reports whether the named harness thread exists, has not finished and is not
// parked at a hooked operation, i.e. (at quiescence) it is blocked on an un-hooked channel,
// select, WaitGroup or timer. Only for use inside ExtraAction.Enabled callbacks, which the
// scheduler evaluates at quiescence with its table lock held.
func (s *Sched) BlockedUnhooked(name string) bool {
	for _, th := range s.order {
		if th.name == name {
			return !th.parked && !th.done
		}
	}
	return false
}

// Free reports whether the scheduler is draining (model lock state must be ignored).
func (s *Sched) Free() bool { return s.free }

// AdvanceAction returns an action that advances the bubble's fake clock by d (root sleeps).
func AdvanceAction(name string, d time.Duration, enabled func() bool) ExtraAction {
	return ExtraAction{Name: name, Enabled: enabled, Do: func() { time.Sleep(d) }}
}

// findCycle returns the sorted operation kinds of the threads on a wait-for cycle.
func findCycle(waitsFor map[string][]string, kindOf map[string]string) []string {
	for start := range waitsFor {
		// depth-first walk following "waits for a lock held by"
		var path []string
		seen := map[string]bool{}
		var walk func(n string) []string
		walk = func(n string) []string {
			if seen[n] {
				for i, p := range path {
					if p == n {
						return append([]string(nil), path[i:]...)
					}
				}
				return nil
			}
			seen[n] = true
			path = append(path, n)
			for _, o := range waitsFor[n] {
				if c := walk(o); c != nil {
					return c
				}
			}
			path = path[:len(path)-1]
			return nil
		}
		if c := walk(start); c != nil {
			var ks []string
			for _, n := range c {
				ks = append(ks, kindOf[n])
			}
			sort.Strings(ks)
			return ks
		}
	}
	return nil
}
