// Package bfault is a tiny file-system *fault injection* point used by the C15 harness
// (/verif/harness/bridge). It is added to the repository as a virtual package through
// `go test -overlay` (import path github.com/celestiaorg/celestia-node/verifx/bfault); the
// check's "rewrites" replace a handful of os calls of the EDS store (hard link, symlink, ODS /
// Q4 file creation, the buffered writers of both files) with the pass-through functions below.
//
// Without a hook installed every function behaves exactly like the os function it stands for.
// With a hook, the hook is asked before the effect takes place: a non-nil error is returned to
// the caller *instead of* performing the effect (the effect does not happen), which is how the
// harness enumerates "one store effect fails" for every effect kind.
package bfault

import (
	"io"
	"os"
	"sync"
	"sync/atomic"
)

type (
	realMutex     = sync.Mutex
	syncOnce      = sync.Once
	syncWaitGroup = sync.WaitGroup
)

// Hook decides whether the effect op on path fails (it may also block the caller for a while:
// that is how the harness parks an ingest inside Store.put). op is one of
// "link", "symlink", "ods-create", "q4-create", "ods-write", "q4-write", "remove".
type Hook func(op, path string) error

var hook atomic.Pointer[Hook]

// SetHook installs h (nil removes it). The hook may be called from several goroutines.
func SetHook(h Hook) {
	if h == nil {
		hook.Store(nil)
		return
	}
	hook.Store(&h)
}

// Check asks the hook.
func Check(op, path string) error {
	if h := hook.Load(); h != nil {
		return (*h)(op, path)
	}
	return nil
}

// Link is os.Link behind the hook (path reported: the new name).
func Link(oldname, newname string) error {
	if err := Check("link", newname); err != nil {
		return &os.LinkError{Op: "link", Old: oldname, New: newname, Err: err}
	}
	return os.Link(oldname, newname)
}

// Symlink is os.Symlink behind the hook (path reported: the new name).
func Symlink(oldname, newname string) error {
	if err := Check("symlink", newname); err != nil {
		return &os.LinkError{Op: "symlink", Old: oldname, New: newname, Err: err}
	}
	return os.Symlink(oldname, newname)
}

// Remove is os.Remove behind the hook (op "remove").
func Remove(name string) error {
	if err := Check("remove", name); err != nil {
		return &os.PathError{Op: "remove", Path: name, Err: err}
	}
	return os.Remove(name)
}

// OpenFile is os.OpenFile behind the hook.
func OpenFile(op, name string, flag int, perm os.FileMode) (*os.File, error) {
	if err := Check(op, name); err != nil {
		return nil, &os.PathError{Op: "open", Path: name, Err: err}
	}
	return os.OpenFile(name, flag, perm)
}

type writer struct {
	op, path string
	w        io.Writer
}

func (w writer) Write(p []byte) (int, error) {
	if err := Check(w.op, w.path); err != nil {
		return 0, &os.PathError{Op: "write", Path: w.path, Err: err}
	}
	return w.w.Write(p)
}

// Writer wraps w: every Write first asks the hook (a failing write writes nothing).
func Writer(op, path string, w io.Writer) io.Writer { return writer{op, path, w} }

// ---------------------------------------------------------------------------
// channel-based reader/writer lock
//
// Inside a testing/synctest bubble a goroutine waiting for a real sync.RWMutex is NOT durably
// blocked, so synctest.Wait() would never return while one ingest is parked inside Store.put
// (holding the per-height / per-hash stripe locks) and a second ingest of the same height waits
// for the stripe. RWMutex below has the semantics of sync.RWMutex that the store relies on
// (writers exclusive, readers shared, happens-before from unlock to the next lock; the zero value
// is usable) and makes waiters block on a channel, which IS durable blocking. It is wired in by
// rewriting the `"sync"` import of store/striplock.go (see harness/bridge/check.json).
// Writer preference (a waiting writer holding back new readers) is not modelled: it changes
// nothing unless two goroutines wait for one stripe at once.

// RWMutex is a channel-based reader/writer mutual exclusion lock.
type RWMutex struct {
	mu      realMutex
	readers int
	writer  bool
	waiters []chan struct{}
}

func (m *RWMutex) wake() {
	for _, w := range m.waiters {
		close(w)
	}
	m.waiters = nil
}

// Lock locks for writing.
func (m *RWMutex) Lock() {
	for {
		m.mu.Lock()
		if !m.writer && m.readers == 0 {
			m.writer = true
			m.mu.Unlock()
			return
		}
		ch := make(chan struct{})
		m.waiters = append(m.waiters, ch)
		m.mu.Unlock()
		<-ch
	}
}

// Unlock unlocks a write lock.
func (m *RWMutex) Unlock() {
	m.mu.Lock()
	if !m.writer {
		m.mu.Unlock()
		panic("bfault: Unlock of unlocked RWMutex")
	}
	m.writer = false
	m.wake()
	m.mu.Unlock()
}

// RLock locks for reading.
func (m *RWMutex) RLock() {
	for {
		m.mu.Lock()
		if !m.writer {
			m.readers++
			m.mu.Unlock()
			return
		}
		ch := make(chan struct{})
		m.waiters = append(m.waiters, ch)
		m.mu.Unlock()
		<-ch
	}
}

// RUnlock undoes one RLock.
func (m *RWMutex) RUnlock() {
	m.mu.Lock()
	if m.readers <= 0 {
		m.mu.Unlock()
		panic("bfault: RUnlock of unlocked RWMutex")
	}
	m.readers--
	if m.readers == 0 {
		m.wake()
	}
	m.mu.Unlock()
}

// Busy reports whether the lock is held by anybody right now (harness observation only).
func (m *RWMutex) Busy() bool {
	m.mu.Lock()
	defer m.mu.Unlock()
	return m.writer || m.readers > 0
}

// names of package sync that a rewritten file may use besides RWMutex
type (
	Mutex     = realMutex
	Once      = syncOnce
	WaitGroup = syncWaitGroup
)
