// Package vos replaces package os in the store packages under crash exploration (CR layer,
// /verif/DESIGN.md §3.4). Every file-system *effect* (create, write, close, link, symlink,
// remove, mkdir, ...) first reports to the active Session, which counts it per thread and can
//   - park the calling goroutine when its thread has used up its budget (the harness then sees
//     the whole process quiescent = a crash point between two effects), and
//   - drop every effect once the session is marked dead (the process has crashed: whatever the
//     code still attempts - error handling, roll-back - never reaches the disk).
//
// Without an active session everything passes straight through to package os.
package vos

import (
	"errors"
	"fmt"
	"io/fs"
	"os"
	"runtime"
	"strconv"
	"strings"
	"sync"
	"sync/atomic"

	"github.com/celestiaorg/celestia-node/verifx/vsched"
)

// nsPoint makes an operation on the file-system NAME SPACE (open, create, link, remove, rename,
// stat) a scheduling point of the SC layer: readers that open files without holding a store lock
// (CachedStore) race with the link/unlink steps of put and remove, and those steps are not lock
// operations. Data reads and writes through an open handle are not points.
func nsPoint(kind, path string) {
	if vsched.Active() != nil {
		vsched.Point("fs."+kind, path, nil, nil)
	}
}

// re-exports used by the instrumented packages
var (
	ErrExist    = os.ErrExist
	ErrNotExist = os.ErrNotExist
	ErrClosed   = os.ErrClosed
)

const (
	O_RDONLY = os.O_RDONLY
	O_WRONLY = os.O_WRONLY
	O_RDWR   = os.O_RDWR
	O_APPEND = os.O_APPEND
	O_CREATE = os.O_CREATE
	O_EXCL   = os.O_EXCL
	O_SYNC   = os.O_SYNC
	O_TRUNC  = os.O_TRUNC
)

type (
	FileInfo = os.FileInfo
	FileMode = os.FileMode
	DirEntry = os.DirEntry
)

func errFor() error {
	if s := current.Load(); s != nil && !s.dead.Load() {
		return ErrInjected
	}
	return ErrCrashed
}

// ErrCrashed is returned by every effect attempted after the crash.
var ErrCrashed = errors.New("vos: process crashed")

// Effect is one recorded file-system effect.
type Effect struct {
	Thread int    `json:"thread"`
	Kind   string `json:"kind"`
	Path   string `json:"path"`
	N      int    `json:"n,omitempty"`
}

func (e Effect) String() string { return fmt.Sprintf("t%d:%s(%s,%d)", e.Thread, e.Kind, e.Path, e.N) }

// Session controls one execution.
type Session struct {
	mu     sync.Mutex
	Budget map[int]int // thread -> number of effects it may still apply (missing = unlimited)
	// Tear: if >0, the effect right after thread TearThread's budget is exhausted, when it is a
	// write, is applied for its first Tear bytes only (torn write), and then the thread parks.
	TearThread int
	Tear       int
	// TearMod/TearRem: when TearMod > 0 the torn prefix is the LONGEST one (shorter than the
	// write) that leaves the file with a size congruent to TearRem modulo TearMod - e.g. a whole
	// number of 512-byte shares after the header: the cut a size-based validity check is most
	// likely to accept. SizeOf must return the current size of the file.
	TearMod, TearRem int
	// Fail, when set, is asked before every effect (with the session lock held); a non-nil error
	// makes the effect not happen and is returned to the caller (an I/O fault, not a crash).
	Fail    func(thread int, kind, rel string) error
	Count   map[int]int
	Trace   []Effect
	threads map[uint64]int
	dead    atomic.Bool
	parked  []chan struct{}
	Torn    bool
	open    map[*File]string
	Base    string // paths are recorded relative to this directory
}

var current atomic.Pointer[Session]

// Begin activates a session. Main is the goroutine that calls Begin (thread 0).
func Begin(base string, budget map[int]int) *Session {
	s := &Session{Budget: budget, Count: map[int]int{}, threads: map[uint64]int{}, open: map[*File]string{}, Base: base, TearThread: -1}
	s.threads[goid()] = 0
	current.Store(s)
	return s
}

// End deactivates the session.
func (s *Session) End() { current.CompareAndSwap(s, nil) }

// Crash marks the process dead (all later effects are dropped) and releases parked threads.
func (s *Session) Crash() {
	s.dead.Store(true)
	s.mu.Lock()
	for _, c := range s.parked {
		close(c)
	}
	s.parked = nil
	s.mu.Unlock()
}

// Parked returns how many threads are parked at their budget.
func (s *Session) Parked() int {
	s.mu.Lock()
	defer s.mu.Unlock()
	return len(s.parked)
}

// Dead reports whether the crash has happened.
func (s *Session) Dead() bool { return s.dead.Load() }

func goid() uint64 {
	var buf [64]byte
	n := runtime.Stack(buf[:], false)
	f := strings.Fields(strings.TrimPrefix(string(buf[:n]), "goroutine "))
	id, _ := strconv.ParseUint(f[0], 10, 64)
	return id
}

// effect is called before every effect; it returns (apply, tornBytes):
// apply=false -> drop the effect and return ErrCrashed to the caller.
func fileSize(path string) int {
	st, err := os.Stat(path)
	if err != nil {
		return 0
	}
	return int(st.Size())
}

func effect(kind, path string, n int) (apply bool, torn int) {
	s := current.Load()
	if s == nil {
		return true, 0
	}
	if s.dead.Load() {
		return false, 0
	}
	g := goid()
	s.mu.Lock()
	th, ok := s.threads[g]
	if !ok {
		th = len(s.threads)
		s.threads[g] = th
	}
	rel := strings.TrimPrefix(path, s.Base)
	if b, limited := s.Budget[th]; limited && s.Count[th] >= b {
		// budget used up: this effect does not happen (except a torn write prefix); park until the crash
		tornBytes := 0
		if s.TearThread == th && s.Tear > 0 && kind == "write" && !s.Torn && n > 0 {
			tornBytes = s.Tear
			if tornBytes >= n {
				tornBytes = n - 1
			}
			if s.TearMod > 0 {
				// longest proper prefix that leaves size ≡ TearRem (mod TearMod)
				cur := fileSize(path)
				tornBytes = 0
				for t := n - 1; t > 0; t-- {
					if (cur+t)%s.TearMod == s.TearRem {
						tornBytes = t
						break
					}
				}
			}
			if tornBytes > 0 {
				s.Torn = true
				s.Trace = append(s.Trace, Effect{th, "torn-write", rel, tornBytes})
			}
		}
		c := make(chan struct{})
		s.parked = append(s.parked, c)
		s.mu.Unlock()
		if tornBytes > 0 {
			return false, tornBytes // caller applies the prefix, then calls parkAfterTear
		}
		<-c
		return false, 0
	}
	if s.Fail != nil {
		if err := s.Fail(th, kind, rel); err != nil {
			s.Trace = append(s.Trace, Effect{th, "FAULT-" + kind, rel, n})
			s.mu.Unlock()
			return false, -1
		}
	}
	s.Count[th]++
	s.Trace = append(s.Trace, Effect{th, kind, rel, n})
	s.mu.Unlock()
	return true, 0
}

// ErrInjected is the error returned for an effect refused by Session.Fail.
var ErrInjected = errors.New("vos: injected I/O fault")

// parkLast parks the calling goroutine on the channel registered last by effect (torn write path).
func parkLast() {
	s := current.Load()
	if s == nil {
		return
	}
	s.mu.Lock()
	var c chan struct{}
	if len(s.parked) > 0 {
		c = s.parked[len(s.parked)-1]
	}
	s.mu.Unlock()
	if c != nil {
		<-c
	}
}

// ---------------------------------------------------------------- File

// File wraps *os.File; mutating methods are effects.
type File struct {
	*os.File
	path     string
	writable bool
}

func wrap(f *os.File, path string, writable bool, err error) (*File, error) {
	if err != nil {
		return nil, err
	}
	vf := &File{File: f, path: path, writable: writable}
	if s := current.Load(); s != nil {
		s.mu.Lock()
		s.open[vf] = path
		s.mu.Unlock()
	}
	return vf, nil
}

func OpenFile(name string, flag int, perm FileMode) (*File, error) {
	nsPoint("open", name)
	if flag&(O_CREATE|O_TRUNC|O_APPEND) != 0 {
		if ok, _ := effect("create", name, 0); !ok {
			return nil, &fs.PathError{Op: "open", Path: name, Err: errFor()}
		}
	}
	f, err := os.OpenFile(name, flag, perm)
	return wrap(f, name, flag&(O_WRONLY|O_RDWR) != 0, err)
}

func Open(name string) (*File, error) {
	nsPoint("open", name)
	f, err := os.Open(name)
	return wrap(f, name, false, err)
}

func Create(name string) (*File, error) {
	return OpenFile(name, O_RDWR|O_CREATE|O_TRUNC, 0o666)
}

func (f *File) Write(b []byte) (int, error) {
	ok, torn := effect("write", f.path, len(b))
	if !ok {
		if torn > 0 {
			_, _ = f.File.Write(b[:torn])
			parkLast()
		}
		return 0, &fs.PathError{Op: "write", Path: f.path, Err: errFor()}
	}
	return f.File.Write(b)
}

func (f *File) WriteString(s string) (int, error) { return f.Write([]byte(s)) }

func (f *File) WriteAt(b []byte, off int64) (int, error) {
	ok, torn := effect("write", f.path, len(b))
	if !ok {
		if torn > 0 {
			_, _ = f.File.WriteAt(b[:torn], off)
			parkLast()
		}
		return 0, &fs.PathError{Op: "write", Path: f.path, Err: errFor()}
	}
	return f.File.WriteAt(b, off)
}

func (f *File) Truncate(size int64) error {
	if ok, _ := effect("truncate", f.path, int(size)); !ok {
		return &fs.PathError{Op: "truncate", Path: f.path, Err: errFor()}
	}
	return f.File.Truncate(size)
}

func (f *File) Sync() error {
	if ok, _ := effect("sync", f.path, 0); !ok {
		return &fs.PathError{Op: "sync", Path: f.path, Err: errFor()}
	}
	return f.File.Sync()
}

// Close is an effect only in the sense that it is a crash point (closing changes nothing on
// disk); the descriptor is always really closed so that the harness does not leak files.
func (f *File) Close() error {
	ok := true
	if f.writable { // closing a file opened read-only is not a crash point of its own
		ok, _ = effect("close", f.path, 0)
	}
	if s := current.Load(); s != nil {
		s.mu.Lock()
		delete(s.open, f)
		s.mu.Unlock()
	}
	err := f.File.Close()
	if !ok {
		return &fs.PathError{Op: "close", Path: f.path, Err: errFor()}
	}
	return err
}

// ---------------------------------------------------------------- package-level effects

func Link(oldname, newname string) error {
	nsPoint("link", newname)
	if ok, _ := effect("link", newname, 0); !ok {
		return &os.LinkError{Op: "link", Old: oldname, New: newname, Err: errFor()}
	}
	return os.Link(oldname, newname)
}

func Symlink(oldname, newname string) error {
	nsPoint("symlink", newname)
	if ok, _ := effect("symlink", newname, 0); !ok {
		return &os.LinkError{Op: "symlink", Old: oldname, New: newname, Err: errFor()}
	}
	return os.Symlink(oldname, newname)
}

func Remove(name string) error {
	nsPoint("remove", name)
	// removing something that does not exist changes nothing and is not a crash point of its own
	if _, err := os.Lstat(name); err != nil {
		return os.Remove(name)
	}
	if ok, _ := effect("remove", name, 0); !ok {
		return &fs.PathError{Op: "remove", Path: name, Err: errFor()}
	}
	return os.Remove(name)
}

func Rename(oldpath, newpath string) error {
	nsPoint("rename", newpath)
	if ok, _ := effect("rename", newpath, 0); !ok {
		return &os.LinkError{Op: "rename", Old: oldpath, New: newpath, Err: errFor()}
	}
	return os.Rename(oldpath, newpath)
}

func Mkdir(name string, perm FileMode) error {
	if _, err := os.Lstat(name); err == nil {
		return os.Mkdir(name, perm)
	}
	if ok, _ := effect("mkdir", name, 0); !ok {
		return &fs.PathError{Op: "mkdir", Path: name, Err: errFor()}
	}
	return os.Mkdir(name, perm)
}

func MkdirAll(path string, perm FileMode) error {
	if _, err := os.Lstat(path); err == nil {
		return nil
	}
	if ok, _ := effect("mkdir", path, 0); !ok {
		return &fs.PathError{Op: "mkdir", Path: path, Err: errFor()}
	}
	return os.MkdirAll(path, perm)
}

func WriteFile(name string, data []byte, perm FileMode) error {
	f, err := OpenFile(name, O_WRONLY|O_CREATE|O_TRUNC, perm)
	if err != nil {
		return err
	}
	_, err = f.Write(data)
	if err1 := f.Close(); err1 != nil && err == nil {
		err = err1
	}
	return err
}

func RemoveAll(path string) error {
	if ok, _ := effect("removeall", path, 0); !ok {
		return &fs.PathError{Op: "removeall", Path: path, Err: errFor()}
	}
	return os.RemoveAll(path)
}

// read-only pass-throughs
func Stat(name string) (FileInfo, error) {
	nsPoint("stat", name)
	return os.Stat(name)
}

func Lstat(name string) (FileInfo, error) {
	nsPoint("stat", name)
	return os.Lstat(name)
}
func ReadFile(name string) ([]byte, error)    { return os.ReadFile(name) }
func ReadDir(name string) ([]DirEntry, error) { return os.ReadDir(name) }
func Readlink(name string) (string, error)    { return os.Readlink(name) }
func IsNotExist(err error) bool               { return os.IsNotExist(err) }
func IsExist(err error) bool                  { return os.IsExist(err) }
func Getenv(k string) string                  { return os.Getenv(k) }
func TempDir() string                         { return os.TempDir() }
func MkdirTemp(d, p string) (string, error)   { return os.MkdirTemp(d, p) }

// OpenFiles lists the files opened through vos during the session that are still open.
func (s *Session) OpenFiles() []string {
	s.mu.Lock()
	defer s.mu.Unlock()
	var out []string
	for _, p := range s.open {
		out = append(out, strings.TrimPrefix(p, s.Base))
	}
	return out
}
