// Package bmutex is a drop-in replacement for the part of package sync that
// pruner/service.go uses (sync.Mutex), built on a channel.
//
// Why: inside a testing/synctest bubble a goroutine blocked on a real sync.Mutex is
// NOT durably blocked, so synctest.Wait() would never return while the pruning
// cycle (which holds Service.checkpointMu for a whole cycle and is parked inside
// the harness' blocking fake Pruner) makes an on-delete handler or ResetCheckpoint
// wait for the lock. A goroutine blocked on a channel IS durably blocked, so with
// this mutex "tail advance / reset while a cycle is in flight" becomes an
// explorable interleaving. Semantics are those of sync.Mutex (mutual exclusion,
// happens-before from Unlock to the next Lock, panic on unlock of an unlocked
// mutex); the zero value is usable.
//
// It is added through `go test -overlay` as
// github.com/celestiaorg/celestia-node/verifx/bmutex and wired in by a textual
// rewrite of the `"sync"` import line (see harness/pruner/check.json).
package bmutex

import "sync"

// Mutex is a channel-based mutual exclusion lock.
type Mutex struct {
	once sync.Once
	ch   chan struct{}
}

func (m *Mutex) init() { m.once.Do(func() { m.ch = make(chan struct{}, 1) }) }

// Lock acquires the mutex, blocking (durably, in synctest terms) until it is free.
func (m *Mutex) Lock() {
	m.init()
	m.ch <- struct{}{}
}

// TryLock acquires the mutex if it is free.
func (m *Mutex) TryLock() bool {
	m.init()
	select {
	case m.ch <- struct{}{}:
		return true
	default:
		return false
	}
}

// Unlock releases the mutex.
func (m *Mutex) Unlock() {
	m.init()
	select {
	case <-m.ch:
	default:
		panic("bmutex: unlock of unlocked mutex")
	}
}

// Locked reports whether the mutex is held right now (harness observation only).
func (m *Mutex) Locked() bool {
	m.init()
	return len(m.ch) == 1
}

// Once, WaitGroup are re-exported so that a file which later starts using them still compiles.
type (
	Once      = sync.Once
	WaitGroup = sync.WaitGroup
	RWMutex   = sync.RWMutex
)
