# Registry of checks: property id -> how to build and run its harness.
RETRY_REWRITE = {
    "name": "das-retryJob-map-order",
    "file": "das/state.go",
    "find": r"for h, attempt := range s\.failed \{",
    "repl": "for h, attempt := range vRetryKeys(s.failed) {",
}

JOBCTX_REWRITE = {
    "name": "das-worker-jobctx",
    "file": "das/worker.go",
    "find": r"w\.sampleFn\(ctx, h\)",
    "repl": "w.sampleFn(vJobCtx(ctx, w.state.job), h)",
    "optional": True,
}

CHECKS = {
    "C04": {"pkg": "das", "pkgname": "das", "harness": "das", "test": "TestVerifC04", "rewrites": [RETRY_REWRITE, JOBCTX_REWRITE]},
    "C13": {"pkg": "das", "pkgname": "das", "harness": "das", "test": "TestVerifC13", "rewrites": [RETRY_REWRITE, JOBCTX_REWRITE]},
}

ENGINES = [
    {"name": "vx", "path": "engine/vx", "serves_properties": ["C04", "C13"],
     "kind_free_text": "hand-written explorer: explicit-state BFS over event histories of the real object (replay on a fresh "
                       "instance per transition, canonical fingerprints, bounded-liveness drain from every state) and "
                       "deviation-bounded DFS over choice sequences; runs inside testing/synctest bubbles with a fake clock"},
]

ALL_IDS = ["C%02d" % i for i in range(1, 21)]

META = {
    "C04": {
        "engine": "vx", "category": "model_checking", "design_ref": "DESIGN.md §4 C04, §3.2",
        "technique": "explicit-state BFS over environment-event histories of the real das.DASer in a synctest bubble; invariant on every state and at every checkpoint write",
        "text": "Every reachable state (up to the stated event depth, for each listed sampling range / concurrency limit / initial head) of the real "
                "DASer driven one environment event at a time (head announcements, per-call sampler outcomes, checkpoint ticks, back-off expiry, "
                "stop, crash, restart) satisfies 'every height in [tail, head] is sampled, in a worker, queued or failed', and every checkpoint "
                "written covers every unsampled height. This is a statement about all schedules/crash points within the bound, which scripted tests cannot give.",
        "note": "Trusted: testing/synctest quiescence, the fakes (availability, subscriber, header store, freezeable map datastore), the two overlay "
                "rewrites (retryJob map order, job tag on the sampler context). Bounded: heights <= 7, depth <= 9 events.",
    },
    "C13": {
        "engine": "vx", "category": "model_checking", "design_ref": "DESIGN.md §4 C13, §3.2",
        "technique": "explicit-state BFS over event histories of the real das.DASer plus a bounded-liveness drain from every state",
        "text": "In every reachable state the worker bounds, the CatchUpDone/WaitCatchUp equivalence, statistics-vs-ground-truth agreement, "
                "back-off respected by retry jobs and monotone attempt counts hold; from every reachable state the fair continuation in which "
                "sampling succeeds reaches CatchUpDone with every height sampled within a bounded number of rounds.",
        "note": "Same harness and trusted base as C04. Liveness is bounded liveness for one fair continuation (every further sample succeeds).",
    },
}

NOT_APPLICABLE = [
    {"property_id": i, "reason": "check not built yet (work in progress, see DESIGN.md §7 build order)"}
    for i in ALL_IDS if i not in META
]
