"""Registry of checks, assembled from harness/*/check.json.

Each harness directory holds one check.json:
{
  "checks": {
    "<ID>": {
      "pkg": "das",                 # package directory inside /repo the harness files are overlaid into
      "pkgname": "das",             # its package clause
      "test": "TestVerifC04",       # test function to run
      "goflags": [],                # extra go test flags (e.g. ["-race"])
      "env": {},                    # extra environment
      "instrument": [ {"dir": "store", "what": ["sync","sync/atomic","os"], "deny": ["codec.go"]} ],
      "rewrites":   [ {"name":..., "file":..., "find": regex, "repl":..., "optional": bool} ],
      "meta": { "engine":..., "category":..., "design_ref":..., "technique":..., "text":..., "note":... }
    }
  }
}
The harness directory name is implied by where check.json lives.
"""
import glob, json, os

VERIF = os.path.dirname(os.path.dirname(os.path.abspath(__file__)))

CHECKS = {}
META = {}
for path in sorted(glob.glob(os.path.join(VERIF, "harness", "*", "check.json"))):
    hname = os.path.basename(os.path.dirname(path))
    doc = json.load(open(path))
    for cid, cfg in doc["checks"].items():
        cfg = dict(cfg)
        cfg["harness"] = hname
        if "meta" in cfg:
            META[cid] = cfg.pop("meta")
        CHECKS[cid] = cfg

# only checks the lead has reviewed and accepted are published in MANIFEST.json
_acc = os.path.join(VERIF, "integrated.txt")
ACCEPTED = set(open(_acc).read().split()) if os.path.exists(_acc) else set()
META = {k: v for k, v in META.items() if k in ACCEPTED}

ENGINES = json.load(open(os.path.join(VERIF, "engine", "engines.json")))
for e in ENGINES:
    e["serves_properties"] = sorted(c for c in META if META[c].get("engine") == e["name"] or e["name"] in META[c].get("engines", []))

ALL_IDS = ["C%02d" % i for i in range(1, 21)]
_na = {}
_na_path = os.path.join(VERIF, "not_applicable.json")
if os.path.exists(_na_path):
    _na = json.load(open(_na_path))
NOT_APPLICABLE = [
    {"property_id": i, "reason": _na.get(i, "check not built yet (work in progress, see DESIGN.md §7 build order)")}
    for i in ALL_IDS if i not in META
]
