package bitswap

// C10 harness, part 5: concurrent fetches of the same identifier, explored at event
// granularity. 2-3 real Fetch calls (each in its own goroutine, inside a testing/synctest
// bubble) ask a model of the Bitswap client for the same CID (optionally one of them also for
// a second CID, so that it stays registered after the first block arrived). Events: start the
// next Fetch, an incoming payload (the honest block / the honest block of the second CID /
// foreign container bytes under the wanted CID), cancellation of one Fetch. After every event
// the bubble runs to quiescence. vx.BFS explores every event order up to the depth bound.

import (
	"context"
	"fmt"
	"strings"
	"sync"
	"testing/synctest"

	blocks "github.com/ipfs/go-block-format"
	"github.com/ipfs/go-cid"

	"github.com/celestiaorg/celestia-node/verifx/sq"
)

type vbConcCfg struct {
	Name     string `json:"name"`
	Layout   string `json:"layout"`
	K        int    `json:"k"`
	Target   vbID   `json:"target"`
	Garbage  vbID   `json:"garbage_container_of"`
	Second   *vbID  `json:"second,omitempty"`
	SecondAt int    `json:"second_at,omitempty"` // which fetch also asks for Second
	Fetches  int    `json:"fetches"`
	Depth    int    `json:"depth"`
}

func (c vbConcCfg) String() string {
	s := fmt.Sprintf("%s: %d x Fetch(%s)", c.Name, c.Fetches, c.Target)
	if c.Second != nil {
		s += fmt.Sprintf(", fetch %d also asks %s", c.SecondAt, *c.Second)
	}
	return s + fmt.Sprintf(", depth %d, square %s", c.Depth, c.Layout)
}

type vbSub struct {
	wants  map[cid.Cid]bool
	ch     chan blocks.Block
	closed bool
}

type vbConcFetch struct {
	ids     []vbID
	blks    []Block
	ctx     context.Context
	cancel  context.CancelFunc
	started bool
	canceled bool
	done    chan struct{}
	err     error
	panicked string
	sub     *vbSub
}

func (f *vbConcFetch) returned() bool {
	select {
	case <-f.done:
		return true
	default:
		return false
	}
}

type vbConcSys struct {
	cfg     vbConcCfg
	w       *vbWorld
	mu      sync.Mutex
	fetches []*vbConcFetch
	payload map[string]vbDelivery
	viol    error
	obs     []string
}

type vbConcExch struct {
	s *vbConcSys
	f *vbConcFetch
}

func (e vbConcExch) GetBlock(context.Context, cid.Cid) (blocks.Block, error) {
	panic("harness: GetBlock unused")
}
func (e vbConcExch) Close() error                                           { return nil }
func (e vbConcExch) NotifyNewBlocks(context.Context, ...blocks.Block) error { return nil }
func (e vbConcExch) GetBlocks(_ context.Context, cids []cid.Cid) (<-chan blocks.Block, error) {
	e.s.mu.Lock()
	defer e.s.mu.Unlock()
	sub := &vbSub{wants: map[cid.Cid]bool{}, ch: make(chan blocks.Block, len(cids)+4)}
	for _, c := range cids {
		sub.wants[c] = true
	}
	e.f.sub = sub
	return sub.ch, nil
}

func vbNewConcSys(cfg vbConcCfg, w *vbWorld) *vbConcSys {
	s := &vbConcSys{cfg: cfg, w: w, payload: map[string]vbDelivery{}}
	for i := 0; i < cfg.Fetches; i++ {
		f := &vbConcFetch{ids: []vbID{cfg.Target}, done: make(chan struct{})}
		if cfg.Second != nil && cfg.SecondAt == i {
			f.ids = append(f.ids, *cfg.Second)
		}
		for _, id := range f.ids {
			b, err := w.newBlock(id)
			if err != nil {
				panic("harness: " + err.Error())
			}
			f.blks = append(f.blks, b)
		}
		f.ctx, f.cancel = context.WithCancel(context.Background())
		s.fetches = append(s.fetches, f)
	}
	idx := func(id vbID) int {
		for i, x := range w.IDs {
			if x == id {
				return i
			}
		}
		panic("harness: identifier not in world: " + id.String())
	}
	own := vbRefPrefix(cfg.Target.Kind)
	s.payload["honest"] = vbDelivery{Op: "honest", P: own, Data: w.Honest[idx(cfg.Target)]}
	_, cont, _ := vbSplit(w.Honest[idx(cfg.Garbage)])
	s.payload["garbage"] = vbDelivery{Op: "garbage", P: own, Data: vbEnvelope(vbRefCID(w.Height, cfg.Target).Bytes(), cont)}
	if cfg.Second != nil {
		s.payload["honest2"] = vbDelivery{Op: "honest2", P: vbRefPrefix(cfg.Second.Kind), Data: w.Honest[idx(*cfg.Second)]}
	}
	for k, p := range s.payload {
		if p.Data == nil {
			panic("harness: no honest block for payload " + k)
		}
	}
	return s
}

func (s *vbConcSys) running() []int {
	var out []int
	for i, f := range s.fetches {
		if f.started && !f.returned() {
			out = append(out, i)
		}
	}
	return out
}

func (s *vbConcSys) Enabled() []string {
	var ev []string
	next := -1
	for i, f := range s.fetches {
		if !f.started {
			next = i
			break
		}
	}
	if next >= 0 {
		ev = append(ev, "start")
	}
	run := s.running()
	if len(run) > 0 {
		ev = append(ev, "honest", "garbage")
		if s.cfg.Second != nil {
			ev = append(ev, "honest2")
		}
	}
	for _, i := range run {
		if !s.fetches[i].canceled {
			ev = append(ev, fmt.Sprintf("cancel:%d", i))
		}
	}
	return ev
}

func (s *vbConcSys) wantedBy(c cid.Cid) []int {
	s.mu.Lock()
	defer s.mu.Unlock()
	var out []int
	for i, f := range s.fetches {
		if f.started && !f.returned() && f.sub != nil && !f.sub.closed && f.sub.wants[c] {
			out = append(out, i)
		}
	}
	return out
}

func (s *vbConcSys) Apply(ev string) error {
	switch {
	case ev == "start":
		for _, f := range s.fetches {
			if !f.started {
				f.started = true
				f := f
				go func() {
					defer close(f.done)
					defer func() {
						if p := recover(); p != nil {
							f.panicked = fmt.Sprint(p)
						}
					}()
					f.err = Fetch(f.ctx, vbConcExch{s, f}, s.w.Roots, f.blks)
				}()
				break
			}
		}
	case strings.HasPrefix(ev, "cancel:"):
		var i int
		fmt.Sscanf(ev, "cancel:%d", &i)
		f := s.fetches[i]
		f.canceled = true
		f.cancel()
		s.mu.Lock()
		if f.sub != nil && !f.sub.closed {
			f.sub.closed = true
			close(f.sub.ch) // boxo closes the channel of a cancelled GetBlocks
		}
		s.mu.Unlock()
	default:
		d, ok := s.payload[ev]
		if !ok {
			return fmt.Errorf("harness: unknown event %q", ev)
		}
		target := vbRefCID(s.w.Height, s.cfg.Target)
		waiting := s.wantedBy(target)
		var c cid.Cid
		var err error
		var pan string
		func() {
			defer func() {
				if p := recover(); p != nil {
					pan = fmt.Sprint(p)
				}
			}()
			c, err = d.P.Sum(d.Data)
		}()
		if pan != "" {
			return fmt.Errorf("C10/conc/panic/hasher|payload %s: cid.Prefix.Sum panics: %s", ev, pan)
		}
		accepted := err == nil && c.Equals(target)
		switch ev {
		case "honest":
			if len(waiting) > 0 && !accepted {
				return fmt.Errorf("C10/conc/honest-rejected|%d Fetch call(s) (%v) still wait for %s but the block the serving node produced is rejected: %v", len(waiting), waiting, s.cfg.Target, err)
			}
		case "garbage":
			if len(waiting) > 0 && accepted {
				s.viol = fmt.Errorf("C10/conc/foreign-bytes-accepted|%d Fetch call(s) (%v) wait for %s; a payload with that CID but the container of %s passes the hasher and is handed to them", len(waiting), waiting, s.cfg.Target, s.cfg.Garbage)
			}
		}
		if err == nil {
			s.mu.Lock()
			for _, f := range s.fetches {
				if f.started && f.sub != nil && !f.sub.closed && f.sub.wants[c] {
					b, _ := blocks.NewBlockWithCid(d.Data, c)
					f.sub.ch <- b
					delete(f.sub.wants, c)
					if len(f.sub.wants) == 0 {
						f.sub.closed = true
						close(f.sub.ch)
					}
				}
			}
			s.mu.Unlock()
		}
	}
	synctest.Wait()
	return nil
}

func (s *vbConcSys) Check() error {
	if s.viol != nil {
		// let the consequence (a panic in a duplicate Fetch) be part of the message
		for i, f := range s.fetches {
			if f.started && f.returned() && f.panicked != "" {
				return fmt.Errorf("%v; consequence: Fetch #%d panics: %s", s.viol, i, f.panicked)
			}
		}
		return s.viol
	}
	started, returned := 0, 0
	for i, f := range s.fetches {
		if !f.started {
			continue
		}
		started++
		for k, b := range f.blks {
			if st := s.w.refState(f.ids[k], b); strings.HasPrefix(st, "wrong") {
				return fmt.Errorf("C10/conc/wrong-data|Fetch #%d holds for %s: %s", i, f.ids[k], st)
			}
		}
		if !f.returned() {
			s.mu.Lock()
			stuck := f.sub != nil && f.sub.closed
			s.mu.Unlock()
			if stuck {
				return fmt.Errorf("C10/conc/fetch-stuck|Fetch #%d does not return although its block channel is closed", i)
			}
			continue
		}
		returned++
		if f.panicked != "" {
			return fmt.Errorf("C10/conc/fetch-panic|Fetch #%d panics: %s", i, f.panicked)
		}
		if f.err == nil {
			for k, b := range f.blks {
				if st := s.w.refState(f.ids[k], b); st != "ref" {
					return fmt.Errorf("C10/conc/fetch-nil-unfilled|Fetch #%d returned nil but holds %q for %s", i, st, f.ids[k])
				}
			}
		}
	}
	if started > 0 && started == returned {
		ids := []vbID{s.cfg.Target}
		if s.cfg.Second != nil {
			ids = append(ids, *s.cfg.Second)
		}
		for _, id := range ids {
			if _, ok := unmarshalFns.Load(vbRefCID(s.w.Height, id)); ok {
				return fmt.Errorf("C10/conc/registry-leak|every Fetch has returned but the verifier of %s is still registered", id)
			}
		}
	}
	return nil
}

func (s *vbConcSys) Fingerprint() string {
	var sb strings.Builder
	for _, f := range s.fetches {
		switch {
		case !f.started:
			sb.WriteString("N;")
			continue
		case f.returned():
			sb.WriteString("D")
			if f.err != nil {
				sb.WriteString("e")
			}
		default:
			sb.WriteString("R")
			if f.canceled {
				sb.WriteString("c")
			}
		}
		for k, b := range f.blks {
			sb.WriteString("," + s.w.refState(f.ids[k], b)[:1])
		}
		s.mu.Lock()
		if f.sub != nil {
			fmt.Fprintf(&sb, ",w%d", len(f.sub.wants))
			if f.sub.closed {
				sb.WriteString("x")
			}
		}
		s.mu.Unlock()
		sb.WriteString(";")
	}
	_, ok := unmarshalFns.Load(vbRefCID(s.w.Height, s.cfg.Target))
	fmt.Fprintf(&sb, "reg=%v", ok)
	if s.cfg.Second != nil {
		_, ok2 := unmarshalFns.Load(vbRefCID(s.w.Height, *s.cfg.Second))
		fmt.Fprintf(&sb, ",%v", ok2)
	}
	return sb.String()
}

// drain is the bounded-liveness part: from every state, the honest blocks arriving now
// complete every Fetch that is still waiting and not cancelled.
func (s *vbConcSys) drain() error {
	if len(s.running()) == 0 {
		return nil
	}
	evs := []string{"honest"}
	if s.cfg.Second != nil {
		evs = append(evs, "honest2")
	}
	for _, ev := range evs {
		if err := s.Apply(ev); err != nil {
			return err
		}
		if err := s.Check(); err != nil {
			return err
		}
	}
	for _, i := range s.running() {
		return fmt.Errorf("C10/conc/not-completed-by-honest-blocks|Fetch #%d still waits after the honest blocks of everything it asked for arrived", i)
	}
	for i, f := range s.fetches {
		if f.started && !f.canceled && f.err != nil {
			return fmt.Errorf("C10/conc/not-completed-by-honest-blocks|Fetch #%d (never cancelled) returned %v", i, f.err)
		}
	}
	return nil
}

func (s *vbConcSys) Close() {
	for _, f := range s.fetches {
		f.cancel()
		s.mu.Lock()
		if f.sub != nil && !f.sub.closed {
			f.sub.closed = true
			close(f.sub.ch)
		}
		s.mu.Unlock()
	}
	synctest.Wait()
	ids := []vbID{s.cfg.Target}
	if s.cfg.Second != nil {
		ids = append(ids, *s.cfg.Second)
	}
	for _, id := range ids {
		unmarshalFns.Delete(vbRefCID(s.w.Height, id)) // keep instances independent even after a leak
	}
}

func vbConcSig(err error) (sig, what string) {
	s := err.Error()
	if i := strings.Index(s, "|"); i > 0 && strings.HasPrefix(s, "C10/") {
		return s[:i], s[i+1:]
	}
	if strings.HasPrefix(s, "DIVERGENCE") {
		return "DIVERGENCE", s
	}
	return "harness", s
}

func vbConcWorld(cfg vbConcCfg) (*vbWorld, error) {
	l, err := sq.ParseLayout(cfg.Layout)
	if err != nil {
		return nil, err
	}
	return vbNewWorld(l, 0, vbHeight(cfg.K), true)
}

func vbConcConfigs(tier string, k0 int) []vbConcCfg {
	const lay = "w2:TX1,A2,TAIL1"
	type tg struct{ t, g, s vbID }
	tgs := []tg{
		{vbID{Kind: vbSample, Row: 0, Col: 1}, vbID{Kind: vbSample, Row: 1, Col: 1}, vbID{Kind: vbSample, Row: 3, Col: 2}},
		{vbID{Kind: vbRow, Row: 0}, vbID{Kind: vbRow, Row: 1}, vbID{Kind: vbRow, Row: 3}},
		{vbID{Kind: vbRND, Row: 0, NS: "A"}, vbID{Kind: vbRND, Row: 0, NS: "TX"}, vbID{Kind: vbRND, Row: 1, NS: "A"}},
		{vbID{Kind: vbRange, From: 1, To: 3}, vbID{Kind: vbRange, From: 0, To: 1}, vbID{Kind: vbRange, From: 3, To: 4}},
	}
	d2, d3 := 7, 6
	if tier == "thorough" {
		d2, d3 = 10, 9
	}
	var out []vbConcCfg
	k := k0
	for _, x := range tgs {
		x := x
		out = append(out,
			vbConcCfg{Name: x.t.Kind + "/2", Layout: lay, K: k, Target: x.t, Garbage: x.g, Fetches: 2, Depth: d2},
			vbConcCfg{Name: x.t.Kind + "/2+batch-first", Layout: lay, K: k + 1, Target: x.t, Garbage: x.g, Second: &x.s, SecondAt: 0, Fetches: 2, Depth: d2},
			vbConcCfg{Name: x.t.Kind + "/2+batch-second", Layout: lay, K: k + 2, Target: x.t, Garbage: x.g, Second: &x.s, SecondAt: 1, Fetches: 2, Depth: d2},
			vbConcCfg{Name: x.t.Kind + "/3", Layout: lay, K: k + 3, Target: x.t, Garbage: x.g, Fetches: 3, Depth: d3},
		)
		k += 4
	}
	return out
}
