package bitswap

// C10 harness, part 6: the driver (tiers, work distribution, evidence, replay).

import (
	"encoding/hex"
	"encoding/json"
	"fmt"
	"os"
	"reflect"
	"runtime/debug"
	"sort"
	"strings"
	"sync"
	"testing"
	"testing/synctest"
	"time"

	"github.com/ipfs/go-cid"
	logging "github.com/ipfs/go-log/v2"

	"github.com/celestiaorg/celestia-node/verifx/sq"
	"github.com/celestiaorg/celestia-node/verifx/vx"
)

// fixed (not sampled) list of 4-wide layouts of the quick tier: reserved + blobs + padding,
// a namespace filling exactly one row, straddling rows, filling several rows, tail padding
// amounts around row boundaries, namespace padding.
func vbQuick4() []sq.Layout {
	return sq.MustParse(
		"w4:TX1,PFB1,PRP2,A3,B5,TAIL4",
		"w4:A4,B4,C8",
		"w4:TX2,A6p2,B3,TAIL5",
		"w4:TX1,TAIL15",
	)
}

type vbPlan struct {
	items  []vbItem
	groups map[string]int // group name -> number of items
	names  []string       // group of item i
}

func (p *vbPlan) add(group string, it vbItem) {
	it.K = len(p.items) + 1
	p.items = append(p.items, it)
	p.names = append(p.names, group)
	p.groups[group]++
}

func vbOthers(ls []sq.Layout, j int) []sq.Layout {
	if len(ls) < 2 {
		return nil
	}
	return []sq.Layout{ls[(j+1)%len(ls)]}
}

func vbMakePlan(tier string) *vbPlan {
	p := &vbPlan{groups: map[string]int{}}
	w1 := sq.Layouts(1, 0, nil)
	w2 := sq.Layouts(2, 0, nil)
	var w4 []sq.Layout
	if tier == "thorough" {
		w2 = sq.Layouts(2, 0, []int{0, 1})
		w4 = sq.Layouts(4, 2, nil)
	} else {
		w4 = vbQuick4()
	}
	// the longest work items first, so that no single long item is left for the end
	g4 := "enum/w4 (fixed list)"
	if tier == "thorough" {
		g4 = "enum/w4 (all layouts of <= 2 symbols)"
	}
	for j, l := range w4 {
		p.add(g4, vbItem{Layout: l, Others: vbOthers(w4, j), Mode: "enum", OnlyID: -1})
	}
	if tier == "thorough" {
		w8 := sq.Fixed8()
		for j, l := range w8 {
			p.add("enum/w8 (fixed list, neighbouring identifiers only)", vbItem{Layout: l, Others: vbOthers(w8, j), Mode: "enum", Near: true, OnlyID: -1})
		}
	}
	// byte operators
	for j, l := range w1 {
		p.add("bytes/w1 (all layouts, every identifier)", vbItem{Layout: l, Mode: "bytes", OnlyID: -1, Short2: j == 0})
	}
	for j, l := range w1 {
		p.add("enum/w1 (all layouts)", vbItem{Layout: l, Others: vbOthers(w1, j), Mode: "enum", OnlyID: -1})
	}
	for j, l := range w2 {
		p.add("enum/w2 (all layouts)", vbItem{Layout: l, Others: vbOthers(w2, j), Mode: "enum", OnlyID: -1})
	}
	b2 := sq.MustParse("w2:TX1,A2,TAIL1")
	if tier == "thorough" {
		b2 = append(b2, sq.MustParse("w2:A4", "w2:TX1,PFB1,A1,B1", "w2:A1,B3", "w2:TAIL4", "w2:PRP1,A2p1,TAIL1", "w2:TX2,TAIL2", "w2:A2,B1,C1")...)
	}
	for _, l := range b2 {
		w, err := vbNewWorld(l, 0, vbHeight(0), true)
		if err != nil {
			panic(err)
		}
		for i := range w.IDs {
			if w.Honest[i] != nil {
				p.add("bytes/w2 (fixed list, every identifier)", vbItem{Layout: l, Mode: "bytes", OnlyID: i})
			}
		}
	}
	if tier == "thorough" {
		l := sq.MustParse("w4:TX1,PFB1,PRP2,A3,B5,TAIL4")[0]
		w, err := vbNewWorld(l, 0, vbHeight(0), true)
		if err != nil {
			panic(err)
		}
		for _, k := range vbKinds {
			var have []int
			for _, i := range w.byKind[k] {
				if w.Honest[i] != nil {
					have = append(have, i)
				}
			}
			if len(have) == 0 {
				continue
			}
			for _, i := range []int{have[0], have[len(have)/2], have[len(have)-1]} {
				p.add("bytes/w4 (one layout, first/middle/last identifier per type)", vbItem{Layout: l, Mode: "bytes", OnlyID: i})
			}
		}
	}
	return p
}

type vbCollector struct {
	mu    sync.Mutex
	rep   *vx.Report
	infra []string
	sigs  map[string]int
}

func (c *vbCollector) sink(v vbViol, rp func() vbReplay) {
	c.mu.Lock()
	defer c.mu.Unlock()
	if v.Sig == "harness" || v.Sig == "DIVERGENCE" {
		if len(c.infra) < 20 {
			c.infra = append(c.infra, v.What)
		}
		return
	}
	c.sigs[v.Sig]++
	if c.sigs[v.Sig] == 1 { // a signature is printed (and its replay written) once
		c.rep.Violation(v.Sig, v.What, rp())
	} else {
		c.rep.Violation(v.Sig, v.What, nil)
	}
}

func TestVerifC10(t *testing.T) {
	logging.SetAllLoggers(logging.LevelFatal)
	debug.SetMemoryLimit(8 << 30) // soft: keeps the collector ahead of the address-space cap of bin/check
	rep := vx.NewReport("C10", "model_checking")
	rep.Rule = "bounded-exhaustive inputs on the real code: every square of the listed layouts (verifx/sq) stored behind the real Blockstore x every sample / row / " +
		"(row, probe namespace) / ODS-range identifier pending through the real Fetch over a model of the Bitswap client (c' = sender-chosen cid.Prefix.Sum(bytes), i.e. the " +
		"registered hasher; dropped on error; handed to the request iff c' is wanted) x every payload of the alphabet {honest block; honest block of every other identifier; " +
		"container of every other identifier of the type (first/last of other types) under the requested CID; same identifier from another square at the same height; other height; " +
		"every foreign (codec, multihash, length) prefix; foreign inner-CID framing; on the byte-operator worlds every truncation, single-byte substitution (8 values), deletion, " +
		"insertion (4 values), all strings of length <= 2}; plus all identifiers of a square pending at once x every honest block x 48 prefixes; plus explicit-state BFS over event orders " +
		"(start / payload / cancel) of 2-3 concurrent Fetch of one identifier in a synctest bubble; plus stateless schedule search (vx.DFS over the choices of the cooperative scheduler verifx/vsched, " +
		"iterative preemption bound, scheduling points at every sync.Map operation of the verifier registry and every entry lock via import rewrite) of 2-3 threads calling the real Fetch for one CID with the same or another " +
		"square's header while a delivery goroutine pushes the honest block through the real hasher at any point and one Fetch may be cancelled; plus identifier<->CID round trip and injectivity over all of these identifiers and a " +
		"boundary sweep. A case is (square, pending set, prefix, bytes); it counts as distinct_nontrivial when the bytes are not the honest block of the pending identifier under its own " +
		"prefix (accepting it would violate the property) and the (prefix, bytes) pair was not delivered to that pending set before."
	rep.Assumptions = []string{
		"model of the Bitswap client (boxo bitswap/message.newMessageFromProto + client.receiveBlocksFrom): a payload is (prefix, bytes), both sender-chosen; c' = prefix.Sum(bytes); an error drops it; the block (bytes, c') is handed to every GetBlocks subscription that wants c'; a subscription's channel closes when all wants arrived or its context is cancelled",
		"SHA-256 / NMT / Reed-Solomon are not attacked: hostile payloads are honest material in the wrong place and byte operators, not collisions (container-level forgeries are property C01/C02)",
		"the reference is the rsmt2d square extended by the real celestia-app code and its DataAvailabilityHeader; the serving side reads it through eds.Rsmt2D (other accessors: property C05)",
		"every work item uses its own height (any two differ in two bytes), so requests pending in parallel workers never share a registry key and no single-byte operator can name another worker's request",
		"concurrency is explored at event granularity (BFS part) and at the granularity of registry (sync.Map) operations and entry locks (schedule search, sequentially consistent, one thread at a time); unsynchronised accesses, e.g. a hasher still writing a container that a returned Fetch's caller reads, are outside both models",
		"schedule search: a delivery is the real cid.Prefix.Sum followed by the hand-over to every subscription wanting the resulting CID at that moment (subscriptions made while the hasher runs included, as in boxo where decoding precedes the interest check); trusted: vsync/vsched shim semantics, synctest quiescence",
	}

	if name := os.Getenv("VERIF_C10_SC"); name != "" { // shard process of the schedule search: one scenario, nothing else
		vbSCShard(t, rep.Tier, name)
		return
	}
	if rp := os.Getenv("VERIF_REPLAY"); rp != "" {
		vbReplayFile(t, rep, rp)
		return
	}

	tier := rep.Tier
	deadline := rep.Deadline(85*time.Second, 16*time.Minute)
	col := &vbCollector{rep: rep, sigs: map[string]int{}}
	exhaustive := true
	total := vbNewStats()
	// the schedule search runs in single-P shard processes next to everything else
	scWait := vbSCStart(t, rep, col, deadline)

	// warm-up outside any bubble (lazily initialised globals) + determinism self-check
	{
		l := sq.MustParse("w2:TX1,A2,TAIL1")[0]
		run := func() (*vbStats, []string) {
			st := vbNewStats()
			var got []string
			vbRunItem(vbItem{K: 60000, Layout: l, Others: sq.MustParse("w2:A4"), Mode: "enum", OnlyID: -1}, st, func(v vbViol, _ func() vbReplay) {
				got = append(got, v.Sig+" "+v.What)
			}, time.Now().Add(time.Hour))
			sort.Strings(got)
			return st, got
		}
		s1, v1 := run()
		s2, v2 := run()
		if !reflect.DeepEqual(s1.outcomes, s2.outcomes) || !reflect.DeepEqual(v1, v2) || s1.trials != s2.trials {
			rep.Infra("NONDETERMINISM: the same work item executed twice gives different observations")
			t.Fatal("nondeterministic harness")
		}
		rep.Set("determinism_selfcheck", map[string]any{"item": "enum " + l.String(), "trials": s1.trials, "identical": true})
	}

	parts := map[string]float64{}
	t0 := time.Now()
	lap := func(name string) {
		parts[name] = time.Since(t0).Seconds()
		t0 = time.Now()
	}
	// ---- part 1: concurrent fetches (explicit-state BFS) -------------------------------
	cfgs := vbConcConfigs(tier, 61000)
	concDeadline := time.Now().Add(time.Until(deadline) / 4)
	type concRes struct {
		cfg vbConcCfg
		st  vx.BFSStats
	}
	results := make([]concRes, len(cfgs))
	{
		var wg sync.WaitGroup
		sem := make(chan struct{}, vx.Workers())
		for i, cfg := range cfgs {
			wg.Add(1)
			sem <- struct{}{}
			go func(i int, cfg vbConcCfg) {
				defer wg.Done()
				defer func() { <-sem }()
				w, err := vbConcWorld(cfg)
				if err != nil {
					col.sink(vbViol{"harness", err.Error(), -1}, func() vbReplay { return vbReplay{} })
					return
				}
				st := vx.BFS(vx.BFSOpts{
					MaxDepth: cfg.Depth,
					Deadline: concDeadline,
					Workers:  1, // instances of one configuration share registry keys
					RunInstance: func(f func()) {
						synctest.Test(t, func(*testing.T) { f() })
					},
					Drain: func(s vx.Sys, _ []string) error { return s.(*vbConcSys).drain() },
				}, func() vx.Sys { return vbNewConcSys(cfg, w) }, func(hist []string, err error) {
					sig, what := vbConcSig(err)
					c := cfg
					col.sink(vbViol{sig, fmt.Sprintf("%s [cfg %s, history %v]", what, cfg.Name, hist), -1}, func() vbReplay { return vbReplay{Mode: "conc", Conc: &c, History: hist} })
				})
				results[i] = concRes{cfg, st}
			}(i, cfg)
		}
		wg.Wait()
	}
	var concStates, concTrans, concReplays int64
	concRuns := []map[string]any{}
	concSamples := 0
	for _, r := range results {
		if r.st.Capped != "" && r.st.Capped != "stopped on violation" {
			exhaustive = false
		}
		concStates += int64(r.st.States)
		concTrans += r.st.Transitions
		concReplays += r.st.Replays
		concRuns = append(concRuns, map[string]any{"cfg": r.cfg.String(), "states": r.st.States, "transitions": r.st.Transitions,
			"depth_bound": r.cfg.Depth, "depth_completed": r.st.DepthDone, "frontier_emptied": r.st.Complete, "capped": r.st.Capped,
			"violating_transitions": r.st.Violations, "states_per_depth": r.st.PerDepth})
		for _, h := range r.st.SampleHist {
			if len(h) >= 4 && concSamples < 3 {
				concSamples++
				rep.AddSample(map[string]any{"kind": "concurrent-fetch history", "cfg": r.cfg.String(), "history": h})
				break
			}
		}
	}
	rep.Set("concurrent_fetch_runs", concRuns)
	lap("concurrent_fetch_bfs")

	// ---- part 2: identifier <-> CID sweep ---------------------------------------------------
	var sweepN int64
	vbCIDSweep(tier == "thorough", func(c vbCIDCase) {
		if _, err := vbNewBlockAt(c.Height, c.ID, c.EdsSize); err != nil {
			return
		}
		sweepN++
		for _, v := range vbCheckCID(c) {
			cc := c
			col.sink(v, func() vbReplay { return vbReplay{Mode: "cid", CID: &cc} })
		}
	})
	rep.Set("cid_sweep_identifiers", sweepN)
	lap("cid_sweep")

	// ---- part 3: input enumeration ------------------------------------------------------------
	plan := vbMakePlan(tier)
	order := make([]int, len(plan.items))
	for i := range order {
		order[i] = i
	}
	if n := len(order); n > 0 && rep.Seed != 0 { // the seed only rotates the order
		rot := int(uint64(rep.Seed) % uint64(n))
		order = append(order[rot:], order[:rot]...)
	}
	done := map[string]int{}
	var mu sync.Mutex
	var wg sync.WaitGroup
	next := make(chan int)
	for wk := 0; wk < vx.Workers(); wk++ {
		wg.Add(1)
		go func() {
			defer wg.Done()
			st := vbNewStats()
			for i := range next {
				ok := vbRunItem(plan.items[i], st, col.sink, deadline)
				mu.Lock()
				if ok {
					done[plan.names[i]]++
				}
				mu.Unlock()
			}
			mu.Lock()
			total.merge(st)
			mu.Unlock()
		}()
	}
	for _, i := range order {
		if time.Now().After(deadline) {
			break
		}
		next <- i
	}
	close(next)
	wg.Wait()

	lap("input_enumeration")
	if !scWait() {
		exhaustive = false
	}
	lap("waiting_for_schedule_search_shards")
	rep.Set("wall_s_by_part", parts)
	bounds := map[string]string{}
	for g, n := range plan.groups {
		bounds[g] = fmt.Sprintf("%d of %d work items completed", done[g], n)
		if done[g] != n {
			exhaustive = false
		}
	}
	rep.Set("bounds_completed", bounds)

	// ---- evidence -------------------------------------------------------------------------------
	outc := map[string]bool{}
	for k := range total.outcomes {
		outc[k[strings.Index(k, "|")+1:]] = true
	}
	rep.Count(total.deliveries+concReplays+sweepN+total.cidChecked, total.hostile+concStates, concStates, concTrans)
	rep.Set("fetch_executions", total.trials)
	rep.Set("payloads_through_hasher", total.deliveries)
	rep.Set("hostile_payloads_distinct", total.hostile)
	rep.Set("positive_controls_accepted", total.honestOK)
	rep.Set("worlds", total.worlds)
	rep.Set("pending_identifiers", total.idsPending)
	rep.Set("identifiers_served", total.served)
	rep.Set("identifiers_refused_by_the_serving_side", vbSortedCounts(total.refused))
	rep.Set("cid_roundtrip_identifiers_in_worlds", total.cidChecked)
	rep.Set("operator_class_counts", vbSortedCounts(total.ops))
	rep.Set("outcomes_by_operator_class", vbSortedCounts(total.outcomes))
	rep.Set("distinct_observed_outcomes", len(outc))
	rep.Set("trials_by_pending_type", vbSortedCounts(total.kinds))
	rep.Set("cross_identifier_confirmation_runs", total.confirmRuns)
	rep.Set("violations_by_signature", col.sigs)
	rep.Set("explanation", "states/transitions are those of the concurrent-fetch BFS plus, for the stateless schedule search, distinct terminal outcomes / scheduling decisions taken; evaluations = payloads pushed through the hasher (each inside an execution of the real Fetch) + BFS instance executions + identifiers checked for the CID round trip")
	vbAddSamples(rep)
	rep.SetExhaustive(exhaustive)
	for _, s := range col.infra {
		rep.Infra(s)
	}
	if total.honestOK == 0 {
		rep.Infra("positive controls did not fire: no honest block was ever accepted")
	}
	if rep.Finish() > 0 || len(col.infra) > 0 {
		t.Fail()
	}
}

// vbAddSamples writes out a few actual cases.
func vbAddSamples(rep *vx.Report) {
	l := sq.MustParse("w2:TX1,A2,TAIL1")[0]
	w, err := vbNewWorld(l, 0, vbHeight(60001), true)
	if err != nil {
		return
	}
	others := vbCompanions(vbItem{Layout: l}, w.Height, true)
	want := map[string]bool{"honest": true, "reenvelope": true, "other-id": true, "prefix": true, "other-square": true}
	for _, i := range []int{1, w.byKind[vbRange][1]} {
		for _, d := range vbDeliveriesFor(w, others, i, false) {
			opc := vbOpClass(d.Op)
			if !want[opc+w.IDs[i].Kind] && want[opc] {
				want[opc+w.IDs[i].Kind] = true
				out := vbRunTrial(w, []vbID{w.IDs[i]}, []vbDelivery{d}, false)
				data := hex.EncodeToString(d.Data)
				if len(data) > 96 {
					data = data[:96] + fmt.Sprintf("...(%d bytes)", len(d.Data))
				}
				rep.AddSample(map[string]any{"kind": "fetch trial", "square": w.Layout, "pending": w.IDs[i].String(), "payload": d.Op,
					"prefix": vbPrefixName(d.P), "bytes": data, "outcome": vbOutcome(out.Dels[0]), "hasher_error": out.Dels[0].SumErr,
					"fetch_error": fmt.Sprint(out.FetchErr), "container_after": out.Final[0]})
			}
		}
	}
}

func vbReplayFile(t *testing.T, rep *vx.Report, path string) {
	b, err := os.ReadFile(path)
	if err != nil {
		t.Fatalf("replay: %v", err)
	}
	var doc struct {
		Replay vbReplay `json:"replay"`
	}
	if err := json.Unmarshal(b, &doc); err != nil {
		t.Fatalf("replay: %v", err)
	}
	rp := doc.Replay
	once := func() []vbViol {
		switch rp.Mode {
		case "cid":
			return vbCheckCID(*rp.CID)
		case "sc":
			return vbSCReplay(t, rp)
		case "conc":
			w, err := vbConcWorld(*rp.Conc)
			if err != nil {
				t.Fatalf("replay: %v", err)
			}
			var vs []vbViol
			synctest.Test(t, func(*testing.T) {
				s := vbNewConcSys(*rp.Conc, w)
				defer s.Close()
				report := func(err error) {
					sig, what := vbConcSig(err)
					vs = append(vs, vbViol{sig, what, -1})
				}
				for _, ev := range rp.History {
					if err := s.Apply(ev); err != nil {
						report(err)
						return
					}
					if err := s.Check(); err != nil {
						report(err)
						return
					}
				}
				if err := s.drain(); err != nil {
					report(err)
				}
			})
			return vs
		default:
			l, err := sq.ParseLayout(rp.Layout)
			if err != nil {
				t.Fatalf("replay: %v", err)
			}
			w, err := vbNewWorld(l, rp.Variant, rp.Height, true)
			if err != nil {
				t.Fatalf("replay: %v", err)
			}
			var dels []vbDelivery
			for _, d := range rp.Dels {
				pb, _ := hex.DecodeString(d.Prefix)
				p, err := cid.PrefixFromBytes(pb)
				if err != nil {
					t.Fatalf("replay: prefix: %v", err)
				}
				data, _ := hex.DecodeString(d.Data)
				dels = append(dels, vbDelivery{Op: d.Op, P: p, Data: data, HonestFor: d.HonestFor})
			}
			out := vbRunTrial(w, rp.Pending, dels, rp.Reset)
			return vbJudge(w, rp.Pending, dels, out, rp.Reset)
		}
	}
	var first []vbViol
	for i := 0; i < 5; i++ {
		vs := once()
		if i > 0 && !reflect.DeepEqual(vs, first) {
			rep.Infra(fmt.Sprintf("NONDETERMINISM: replay %d gave %v, earlier %v", i, vs, first))
			t.Fatalf("NONDETERMINISM in replay")
		}
		first = vs
	}
	rep.Count(5, 2, 1, 1)
	rep.AddSample(rp)
	if len(first) > 0 {
		fmt.Printf("REPLAY-RESULT violation reproduced 5/5: %s: %s\n", first[0].Sig, first[0].What)
		for _, v := range first {
			rep.Violation(v.Sig, v.What, rp)
		}
	} else {
		fmt.Println("REPLAY-RESULT no violation")
	}
	rep.SetExhaustive(false)
	rep.Finish()
}
