package bitswap

// C10 harness, part 4: identifier <-> content identifier. Every identifier the package's
// constructors accept must encode to exactly one CID (the reference framing of the reference
// identifier bytes), that CID must decode back to an equal identifier, distinct identifiers
// must get distinct CIDs, and a CID with foreign framing must not decode at all.

import (
	"bytes"
	"fmt"
	"sort"
	"sync"

	"github.com/ipfs/go-cid"

	libshare "github.com/celestiaorg/go-square/v4/share"

	"github.com/celestiaorg/celestia-node/verifx/sq"
)

// vbCIDCase is one identifier outside any world (the sweep) - also the replay artefact.
type vbCIDCase struct {
	ID      vbID   `json:"id"`
	Height  uint64 `json:"height"`
	EdsSize int    `json:"eds_size"`
}

var vbCIDSeen sync.Map // cid key -> "height/id"

// vbBlockFields reads the identifier a block object carries.
func vbBlockFields(b Block) (kind string, row, col, from, to int, ns []byte) {
	switch x := b.(type) {
	case *SampleBlock:
		return vbSample, x.ID.RowIndex, x.ID.ShareIndex, 0, 0, nil
	case *RowBlock:
		return vbRow, x.ID.RowIndex, 0, 0, 0, nil
	case *RowNamespaceDataBlock:
		return vbRND, x.ID.RowIndex, 0, 0, 0, x.ID.DataNamespace.Bytes()
	case *RangeNamespaceDataBlock:
		return vbRange, 0, 0, x.ID.From, x.ID.To, nil
	}
	return "?", 0, 0, 0, 0, nil
}

func vbSameID(b Block, height uint64, id vbID) string {
	kind, row, col, from, to, ns := vbBlockFields(b)
	if kind != id.Kind {
		return fmt.Sprintf("type %s", kind)
	}
	if b.Height() != height {
		return fmt.Sprintf("height %d", b.Height())
	}
	switch id.Kind {
	case vbSample:
		if row != id.Row || col != id.Col {
			return fmt.Sprintf("sample(%d,%d)", row, col)
		}
	case vbRow:
		if row != id.Row {
			return fmt.Sprintf("row(%d)", row)
		}
	case vbRND:
		if row != id.Row || !bytes.Equal(ns, vbProbe(id.NS).Bytes()) {
			return fmt.Sprintf("rnd(%d,%x)", row, ns)
		}
	case vbRange:
		if from != id.From || to != id.To {
			return fmt.Sprintf("range[%d,%d)", from, to)
		}
	}
	return ""
}

// vbCheckCID judges one constructor-accepted identifier. It returns the violations.
func vbCheckCID(c vbCIDCase) (vs []vbViol) {
	add := func(sig, f string, a ...any) { vs = append(vs, vbViol{sig, fmt.Sprintf(f, a...), -1}) }
	defer func() {
		if p := recover(); p != nil {
			add("C10/cid/panic/"+c.ID.Kind, "%s at height %d (EDS %d): panic %v", c.ID, c.Height, c.EdsSize, p)
		}
	}()
	b, err := vbNewBlockAt(c.Height, c.ID, c.EdsSize)
	if err != nil {
		return nil // not an identifier of that square: nothing to map
	}
	got := b.CID()
	// forward: exactly the reference CID (only meaningful when the fields fit the 16-bit encoding)
	fits := c.ID.Row < 1<<16 && c.ID.Col < 1<<16 && c.ID.From < 1<<16 && c.ID.To < 1<<16
	ref := vbRefCID(c.Height, c.ID)
	if fits && !got.Equals(ref) {
		add("C10/cid/forward/"+c.ID.Kind, "%s at height %d encodes to %s, the reference framing of its identifier bytes is %s", c.ID, c.Height, got, ref)
	}
	if p := got.Prefix(); p != vbRefPrefix(c.ID.Kind) {
		add("C10/cid/prefix/"+c.ID.Kind, "%s encodes to prefix %+v, want %+v", c.ID, p, vbRefPrefix(c.ID.Kind))
	}
	// and back
	cast, err := cid.Cast(got.Bytes())
	if err != nil || !cast.Equals(got) {
		add("C10/cid/bytes/"+c.ID.Kind, "CID bytes of %s do not parse back: %v", c.ID, err)
	}
	b2, err := EmptyBlock(got)
	if err != nil {
		add("C10/cid/no-way-back/"+c.ID.Kind, "the constructor accepts %s at height %d (EDS width %d) but its CID %s does not decode: %v", c.ID, c.Height, c.EdsSize, got, err)
		return vs
	}
	if d := vbSameID(b2, c.Height, c.ID); d != "" {
		add("C10/cid/back-differs/"+c.ID.Kind, "%s at height %d (EDS width %d) encodes to %s which decodes to a different identifier: %s", c.ID, c.Height, c.EdsSize, got, d)
	}
	if !b2.CID().Equals(got) {
		add("C10/cid/unstable/"+c.ID.Kind, "decode(encode(%s)) encodes to another CID %s != %s", c.ID, b2.CID(), got)
	}
	idb, err := extractFromCID(got)
	if err != nil || (fits && !bytes.Equal(idb, vbIDBytes(c.Height, c.ID))) {
		add("C10/cid/extract/"+c.ID.Kind, "extractFromCID(%s) = %x, %v; identifier bytes are %x", got, idb, err, vbIDBytes(c.Height, c.ID))
	}
	// injectivity over everything this run has seen
	desc := fmt.Sprintf("%d/%s", c.Height, c.ID)
	if prev, loaded := vbCIDSeen.LoadOrStore(got.KeyString(), desc); loaded && prev.(string) != desc {
		add("C10/cid/collision/"+c.ID.Kind, "%s and %s encode to the same CID %s", prev, desc, got)
	}
	// foreign framing of the same digest must not decode
	if fits {
		sp := vbSpecs[c.ID.Kind]
		for _, k2 := range vbKinds {
			if k2 == c.ID.Kind {
				continue
			}
			s2 := vbSpecs[k2]
			for _, fc := range []cid.Cid{vbMakeCID(sp.Codec, s2.Mh, idb), vbMakeCID(s2.Codec, sp.Mh, idb)} {
				if _, err := EmptyBlock(fc); err == nil {
					add("C10/cid/accepts-foreign-framing/"+c.ID.Kind, "CID %s (codec %#x, multihash %#x) decodes although codec and multihash code belong to different types", fc, fc.Prefix().Codec, fc.Prefix().MhType)
				}
			}
			if s2.Size != sp.Size {
				if _, err := EmptyBlock(vbMakeCID(s2.Codec, s2.Mh, idb)); err == nil {
					add("C10/cid/accepts-foreign-length/"+c.ID.Kind, "a %d-byte digest decodes as %s identifier (%d bytes)", len(idb), k2, s2.Size)
				}
			}
		}
		if len(idb) > 1 {
			if _, err := EmptyBlock(vbMakeCID(sp.Codec, sp.Mh, idb[:len(idb)-1])); err == nil {
				add("C10/cid/accepts-short/"+c.ID.Kind, "a truncated digest decodes as %s identifier", c.ID.Kind)
			}
		}
	}
	return vs
}

func vbCheckWorldCIDs(w *vbWorld, st *vbStats, sink vbSink) {
	for i, id := range w.IDs {
		c := vbCIDCase{ID: id, Height: w.Height, EdsSize: w.S.N}
		st.cidChecked++
		for _, v := range vbCheckCID(c) {
			sink(v, func() vbReplay { return vbReplay{Mode: "cid", CID: &c} })
		}
		if _, err := w.newBlock(id); err != nil {
			sink(vbViol{"C10/cid/constructor-refuses/" + id.Kind, fmt.Sprintf("constructor refuses identifier %s of a width-%d square: %v", id, w.S.N, err), -1}, func() vbReplay { return vbReplay{Mode: "cid", CID: &c} })
		}
		// the serving side answers under the CID it was asked for and wraps the same CID
		if w.Honest[i] != nil {
			inner, _, ok := vbSplit(w.Honest[i])
			if !ok || !inner.Equals(vbRefCID(w.Height, id)) || !w.ServedCID[i].Equals(vbRefCID(w.Height, id)) {
				sink(vbViol{"C10/serve/wrong-cid/" + id.Kind, fmt.Sprintf("Blockstore.Get(%s) returned a block with CID %s wrapping inner CID %v", vbRefCID(w.Height, id), w.ServedCID[i], inner), -1}, func() vbReplay { return vbReplay{Mode: "cid", CID: &c} })
			}
		}
	}
}

func vbSortedInts(m map[int]bool) []int {
	out := make([]int, 0, len(m))
	for k := range m {
		out = append(out, k)
	}
	sort.Ints(out)
	return out
}

// vbCIDSweep enumerates identifiers without squares: heights x EDS widths x boundary indices.
func vbCIDSweep(thorough bool, fn func(vbCIDCase)) {
	heights := []uint64{1, 2, 255, 256, 65535, 65536, 1 << 32, 1<<32 + 1, 1 << 63, ^uint64(0)}
	var sizes []int
	for s := 2; s <= 512; s *= 2 {
		sizes = append(sizes, s)
	}
	var nss []string
	for _, p := range sq.Probes() {
		if p.Requestable {
			nss = append(nss, p.Name)
		}
	}
	_ = libshare.NamespaceSize
	for _, h := range heights {
		for _, n := range sizes {
			idx := map[int]bool{}
			for _, v := range []int{0, 1, 2, n/2 - 1, n / 2, n/2 + 1, n - 2, n - 1, n, 255, 256, 257} {
				if v >= 0 {
					idx[v] = true
				}
			}
			if n <= 16 || (thorough && n <= 64) {
				for v := 0; v < n; v++ {
					idx[v] = true
				}
			}
			for _, r := range vbSortedInts(idx) {
				fn(vbCIDCase{ID: vbID{Kind: vbRow, Row: r}, Height: h, EdsSize: n})
				for _, c := range vbSortedInts(idx) {
					fn(vbCIDCase{ID: vbID{Kind: vbSample, Row: r, Col: c}, Height: h, EdsSize: n})
				}
				for _, ns := range nss {
					fn(vbCIDCase{ID: vbID{Kind: vbRND, Row: r, NS: ns}, Height: h, EdsSize: n})
				}
			}
			ods := n / 2
			area := ods * ods
			b := map[int]bool{}
			for _, v := range []int{0, 1, 2, ods - 1, ods, ods + 1, area - ods, area - 1, area, area + 1, 255, 256, 257, 65534, 65535, 65536, 65537} {
				if v >= 0 {
					b[v] = true
				}
			}
			if area <= 64 || (thorough && area <= 256) {
				for v := 0; v <= area; v++ {
					b[v] = true
				}
			}
			for _, from := range vbSortedInts(b) {
				for _, to := range vbSortedInts(b) {
					if from < to {
						fn(vbCIDCase{ID: vbID{Kind: vbRange, From: from, To: to}, Height: h, EdsSize: n})
					}
				}
			}
		}
	}
}
