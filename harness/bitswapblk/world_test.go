package bitswap

// C10 harness, part 1: the world. A world is one bounded-exhaustive square of verifx/sq
// stored at one height behind the REAL serving-side Blockstore, the full set of Shwap
// identifiers of that square (every sample coordinate, every row, every (row, probe
// namespace), every ODS range), reference identifier bytes / CIDs computed by the harness
// itself, and the reference data every identifier stands for (cells of the rsmt2d square).

import (
	"bytes"
	"context"
	"encoding/binary"
	"fmt"

	blocks "github.com/ipfs/go-block-format"
	"github.com/ipfs/go-cid"
	mh "github.com/multiformats/go-multihash"

	libshare "github.com/celestiaorg/go-square/v4/share"

	"github.com/celestiaorg/celestia-node/share"
	"github.com/celestiaorg/celestia-node/share/eds"
	"github.com/celestiaorg/celestia-node/share/shwap"
	bitswappb "github.com/celestiaorg/celestia-node/share/shwap/p2p/bitswap/pb"
	"github.com/celestiaorg/celestia-node/store"
	"github.com/celestiaorg/celestia-node/verifx/sq"
)

const (
	vbSample = "sample"
	vbRow    = "row"
	vbRND    = "rnd"
	vbRange  = "range"
)

var vbKinds = []string{vbSample, vbRow, vbRND, vbRange}

// vbSpec is the (codec, multihash code, identifier size) triple of one identifier type.
type vbSpec struct {
	Codec, Mh uint64
	Size      int
}

// The numbers are those of the package under test (they are protocol constants, not part
// of the property); what the harness computes independently is the identifier encoding and
// the CID framing.
var vbSpecs = map[string]vbSpec{
	vbSample: {sampleCodec, sampleMultihashCode, 12},
	vbRow:    {rowCodec, rowMultihashCode, 10},
	vbRND:    {rowNamespaceDataCodec, rowNamespaceDataMultihashCode, 10 + libshare.NamespaceSize},
	vbRange:  {rangeNamespaceDataCodec, rangeNamespaceDataMultihashCode, 12},
}

// vbID names one Shwap identifier of a world (the height is the world's).
type vbID struct {
	Kind string `json:"kind"`
	Row  int    `json:"row,omitempty"`
	Col  int    `json:"col,omitempty"`
	NS   string `json:"ns,omitempty"` // probe name (rnd)
	From int    `json:"from,omitempty"`
	To   int    `json:"to,omitempty"`
}

func (id vbID) String() string {
	switch id.Kind {
	case vbSample:
		return fmt.Sprintf("sample(%d,%d)", id.Row, id.Col)
	case vbRow:
		return fmt.Sprintf("row(%d)", id.Row)
	case vbRND:
		return fmt.Sprintf("rnd(%d,%s)", id.Row, id.NS)
	default:
		return fmt.Sprintf("range[%d,%d)", id.From, id.To)
	}
}

func vbProbe(name string) libshare.Namespace {
	for _, p := range sq.Probes() {
		if p.Name == name {
			return p.NS
		}
	}
	panic("harness: unknown probe " + name)
}

// vbIDBytes is the harness's own encoding of an identifier (CIP-19 layout): height BE64,
// then per type 16-bit big-endian indices / the 29 namespace bytes.
func vbIDBytes(height uint64, id vbID) []byte {
	b := binary.BigEndian.AppendUint64(nil, height)
	switch id.Kind {
	case vbSample:
		b = binary.BigEndian.AppendUint16(b, uint16(id.Row))
		b = binary.BigEndian.AppendUint16(b, uint16(id.Col))
	case vbRow:
		b = binary.BigEndian.AppendUint16(b, uint16(id.Row))
	case vbRND:
		b = binary.BigEndian.AppendUint16(b, uint16(id.Row))
		b = append(b, vbProbe(id.NS).Bytes()...)
	case vbRange:
		b = binary.BigEndian.AppendUint16(b, uint16(id.From))
		b = binary.BigEndian.AppendUint16(b, uint16(id.To))
	}
	return b
}

// vbMakeCID frames digest bytes as CIDv1(codec, multihash(mhcode, digest)).
func vbMakeCID(codec, mhcode uint64, digest []byte) cid.Cid {
	buf, err := mh.Encode(digest, mhcode)
	if err != nil {
		panic(err)
	}
	return cid.NewCidV1(codec, buf)
}

// vbRefCID is the reference CID of an identifier.
func vbRefCID(height uint64, id vbID) cid.Cid {
	sp := vbSpecs[id.Kind]
	return vbMakeCID(sp.Codec, sp.Mh, vbIDBytes(height, id))
}

func vbRefPrefix(kind string) cid.Prefix {
	sp := vbSpecs[kind]
	return cid.Prefix{Version: 1, Codec: sp.Codec, MhType: sp.Mh, MhLength: sp.Size}
}

// vbWorld is one stored square with everything derived from it.
type vbWorld struct {
	S      *sq.Square
	Layout string
	Var    int
	Height uint64
	Roots  *share.AxisRoots
	bs     *Blockstore
	IDs    []vbID
	// serving-side results, per identifier index
	Honest   [][]byte // block bytes the real Blockstore produced (nil: refused)
	ServeErr []string
	ServedCID []cid.Cid
	byKind   map[string][]int
}

type vbAccGetter struct {
	acc    eds.AccessorStreamer
	height uint64
}

func (g vbAccGetter) GetByHeight(_ context.Context, h uint64) (eds.AccessorStreamer, error) {
	if h != g.height {
		return nil, fmt.Errorf("harness: height %d not stored (only %d): %w", h, g.height, store.ErrNotFound)
	}
	return g.acc, nil
}

func (g vbAccGetter) HasByHeight(_ context.Context, h uint64) (bool, error) {
	return h == g.height, nil
}

// vbNewWorld builds the square, stores it at height behind the real Blockstore and asks the
// Blockstore for the block of every identifier (requestable == what the real constructors accept).
func vbNewWorld(l sq.Layout, variant int, height uint64, withRanges bool) (*vbWorld, error) {
	S, err := sq.Build(l, variant)
	if err != nil {
		return nil, err
	}
	w := &vbWorld{S: S, Layout: l.String(), Var: variant, Height: height, Roots: S.DAH, byKind: map[string][]int{}}
	w.bs = &Blockstore{Getter: vbAccGetter{acc: &eds.Rsmt2D{ExtendedDataSquare: S.EDS}, height: height}}
	for r := 0; r < S.N; r++ {
		for c := 0; c < S.N; c++ {
			w.IDs = append(w.IDs, vbID{Kind: vbSample, Row: r, Col: c})
		}
	}
	for r := 0; r < S.N; r++ {
		w.IDs = append(w.IDs, vbID{Kind: vbRow, Row: r})
	}
	for r := 0; r < S.N; r++ {
		for _, p := range sq.Probes() {
			if p.Requestable {
				w.IDs = append(w.IDs, vbID{Kind: vbRND, Row: r, NS: p.Name})
			}
		}
	}
	if withRanges {
		for from := 0; from < S.W*S.W; from++ {
			for to := from + 1; to <= S.W*S.W; to++ {
				w.IDs = append(w.IDs, vbID{Kind: vbRange, From: from, To: to})
			}
		}
	}
	w.Honest = make([][]byte, len(w.IDs))
	w.ServeErr = make([]string, len(w.IDs))
	w.ServedCID = make([]cid.Cid, len(w.IDs))
	for i, id := range w.IDs {
		w.byKind[id.Kind] = append(w.byKind[id.Kind], i)
		blk, err := w.serve(id)
		if err != nil {
			w.ServeErr[i] = err.Error()
			continue
		}
		w.Honest[i] = blk.RawData()
		w.ServedCID[i] = blk.Cid()
	}
	return w, nil
}

// serve asks the real serving-side Blockstore for the block of id.
func (w *vbWorld) serve(id vbID) (b blocks.Block, err error) {
	defer func() {
		if p := recover(); p != nil {
			err = fmt.Errorf("PANIC in Blockstore.Get: %v", p)
		}
	}()
	return w.bs.Get(context.Background(), vbRefCID(w.Height, id))
}

// newBlock builds the empty requesting Block of id through the package's own constructors,
// with the arguments the Getter derives from the header.
func (w *vbWorld) newBlock(id vbID) (Block, error) {
	return vbNewBlockAt(w.Height, id, w.S.N)
}

func vbNewBlockAt(height uint64, id vbID, edsSize int) (Block, error) {
	switch id.Kind {
	case vbSample:
		return NewEmptySampleBlock(height, shwap.SampleCoords{Row: id.Row, Col: id.Col}, edsSize)
	case vbRow:
		return NewEmptyRowBlock(height, id.Row, edsSize)
	case vbRND:
		return NewEmptyRowNamespaceDataBlock(height, id.Row, vbProbe(id.NS), edsSize)
	case vbRange:
		return NewEmptyRangeNamespaceDataBlock(height, id.From, id.To, edsSize/2)
	}
	return nil, fmt.Errorf("harness: unknown kind %q", id.Kind)
}

func vbIsEmpty(b Block) bool {
	switch x := b.(type) {
	case *SampleBlock:
		return x.Container.IsEmpty()
	case *RowBlock:
		return x.Container.IsEmpty()
	case *RowNamespaceDataBlock:
		return x.Container.IsEmpty()
	case *RangeNamespaceDataBlock:
		return x.Container.IsEmpty()
	}
	panic("harness: unknown block type")
}

// vbReset returns a block to its freshly constructed state (used only by the all-pending
// mode, where one registration serves many independent deliveries).
func vbReset(b Block) {
	switch x := b.(type) {
	case *SampleBlock:
		x.Container = shwap.Sample{}
	case *RowBlock:
		x.Container = shwap.Row{}
	case *RowNamespaceDataBlock:
		x.Container = shwap.RowNamespaceData{}
	case *RangeNamespaceDataBlock:
		x.Container = shwap.RangeNamespaceData{}
	}
}

func vbSharesEqual(a, b []libshare.Share) bool {
	if len(a) != len(b) {
		return false
	}
	for i := range a {
		if !bytes.Equal(a[i].ToBytes(), b[i].ToBytes()) {
			return false
		}
	}
	return true
}

// refState judges the container a requesting block holds against the reference square:
// "empty", "ref" (exactly the data the identifier stands for) or "wrong: ...".
func (w *vbWorld) refState(id vbID, b Block) (st string) {
	defer func() {
		if p := recover(); p != nil {
			st = fmt.Sprintf("wrong: reading the container panics: %v", p)
		}
	}()
	if vbIsEmpty(b) {
		return "empty"
	}
	S := w.S
	switch x := b.(type) {
	case *SampleBlock:
		ref := S.Cell(id.Row, id.Col)
		if !bytes.Equal(x.Container.Share.ToBytes(), ref.ToBytes()) {
			return "wrong: sample share differs from the committed share at the coordinate"
		}
	case *RowBlock:
		c := x.Container // Shares() caches in the receiver: work on a copy
		shrs, err := c.Shares()
		if err != nil {
			return "wrong: row shares cannot be read: " + err.Error()
		}
		if !vbSharesEqual(shrs, S.Row(id.Row)) {
			return "wrong: row shares differ from the committed row"
		}
	case *RowNamespaceDataBlock:
		var want []libshare.Share
		if id.Row < S.W {
			ns := vbProbe(id.NS)
			for c := 0; c < S.W; c++ {
				cell := S.Cell(id.Row, c)
				if bytes.Equal(cell.Namespace().Bytes(), ns.Bytes()) {
					want = append(want, cell)
				}
			}
		}
		if !vbSharesEqual(x.Container.Shares, want) {
			return fmt.Sprintf("wrong: row namespace data has %d shares, the row holds %d of that namespace (or they differ)", len(x.Container.Shares), len(want))
		}
	case *RangeNamespaceDataBlock:
		ods := S.ODS()
		if !vbSharesEqual(x.Container.Flatten(), ods[id.From:id.To]) {
			return "wrong: range shares differ from the committed shares [from,to)"
		}
	}
	return "ref"
}

// vbSplit decodes a block envelope with the protobuf library only (no code under test).
func vbSplit(data []byte) (inner cid.Cid, container []byte, ok bool) {
	var pb bitswappb.Block
	if err := pb.Unmarshal(data); err != nil {
		return cid.Undef, nil, false
	}
	c, err := cid.Cast(pb.Cid)
	if err != nil {
		return cid.Undef, pb.Container, false
	}
	return c, pb.Container, true
}

// vbEnvelope wraps container bytes under an arbitrary inner CID.
func vbEnvelope(c []byte, container []byte) []byte {
	pb := bitswappb.Block{Cid: c, Container: container}
	out, err := pb.Marshal()
	if err != nil {
		panic(err)
	}
	return out
}
