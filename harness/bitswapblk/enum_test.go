package bitswap

// C10 harness, part 3: the bounded-exhaustive input enumeration. For every world and every
// identifier r of it (pending through the real Fetch) every payload of the explicit alphabet
// below is delivered, one independent trial each:
//
//	honest            the block Blockstore.Get produced for r, r's own prefix          (positive control)
//	other-id          the honest block of EVERY other identifier of the square (own inner CID)
//	reenvelope        the honest container of every other identifier of the same type (and the first/last
//	                  of each other type) wrapped under r's CID
//	other-square      the honest block for the same identifier from another square stored at the same height
//	                  (same layout/other payload, other layout)
//	other-height      r's honest container under the CID of the same coordinates at another height
//	prefix            honest block of r under every foreign prefix: other type's codec+multihash, every
//	                  identifier length, mixed codec/multihash, CIDv0 prefix
//	inner-cid         r's honest container under an inner CID with foreign codec / multihash code / length
//	trunc,subst,del,ins,short   byte operators on the honest block (byte-operator worlds only)
//
// plus the all-pending mode: every identifier of the square pending at once, every honest block
// delivered under each of the 48 (codec, multihash, length) prefixes.

import (
	"bytes"
	"crypto/sha256"
	"fmt"
	"sort"
	"time"

	"github.com/ipfs/go-cid"

	"github.com/celestiaorg/celestia-node/verifx/sq"
)

// vbHeight gives work item k its own height: any two differ in at least two bytes, so no
// single-byte operator on an identifier can name a request pending in another worker.
func vbHeight(k int) uint64 {
	if k < 0 || k >= 1<<16 {
		panic("harness: work item index out of range")
	}
	return uint64(1)<<40 | uint64(k)<<16 | uint64(k)
}

type vbStats struct {
	trials      int64 // executions of the real Fetch
	deliveries  int64 // payloads pushed through cid.Prefix.Sum (the registered hasher)
	hostile     int64 // distinct payloads that are not the honest block of the pending identifier
	honestOK    int64 // positive controls accepted with the reference data
	served      int64 // identifiers the serving side produced a block for
	refused     map[string]int64
	outcomes    map[string]int64 // "<op class>|<outcome>"
	ops         map[string]int64
	kinds       map[string]int64 // pending kind -> trials
	cidChecked  int64
	worlds      int64
	idsPending  int64
	confirmRuns int64
}

func vbNewStats() *vbStats {
	return &vbStats{refused: map[string]int64{}, outcomes: map[string]int64{}, ops: map[string]int64{}, kinds: map[string]int64{}}
}

func (s *vbStats) merge(o *vbStats) {
	s.trials += o.trials
	s.deliveries += o.deliveries
	s.hostile += o.hostile
	s.honestOK += o.honestOK
	s.served += o.served
	s.cidChecked += o.cidChecked
	s.worlds += o.worlds
	s.idsPending += o.idsPending
	s.confirmRuns += o.confirmRuns
	for k, v := range o.refused {
		s.refused[k] += v
	}
	for k, v := range o.outcomes {
		s.outcomes[k] += v
	}
	for k, v := range o.ops {
		s.ops[k] += v
	}
	for k, v := range o.kinds {
		s.kinds[k] += v
	}
}

type vbSink func(v vbViol, rp func() vbReplay)

// vbItem is one unit of work: a world at its own height and what to do with it.
type vbItem struct {
	K       int
	Layout  sq.Layout
	Others  []sq.Layout // other layouts of the same width (other-square class)
	Mode    string      // "enum" | "bytes"
	Near    bool        // restrict other-id / reenvelope to neighbouring identifiers (large squares)
	OnlyID  int         // bytes mode: identifier index; -1 = all
	Short2  bool        // bytes mode: also all byte strings of length <= 2
}

var vbLengths = []int{10, 12, 39}

func vbAbs(a int) int {
	if a < 0 {
		return -a
	}
	return a
}

// vbNear: x is a neighbour of r (each index differs by at most one, a range shifted by one
// row, the transposed sample) - the reduced alphabet for squares too large for all pairs.
func vbNear(w int, r, x vbID) bool {
	if r.Kind != x.Kind {
		return false
	}
	switch r.Kind {
	case vbSample:
		if x.Row == r.Col && x.Col == r.Row {
			return true
		}
		return vbAbs(r.Row-x.Row) <= 1 && vbAbs(r.Col-x.Col) <= 1
	case vbRow:
		return vbAbs(r.Row-x.Row) <= 1
	case vbRND:
		return (vbAbs(r.Row-x.Row) <= 1 && r.NS == x.NS) || r.Row == x.Row
	default:
		if vbAbs(r.From-x.From) <= 1 && vbAbs(r.To-x.To) <= 1 {
			return true
		}
		return x.From-r.From == x.To-r.To && vbAbs(x.From-r.From) == w
	}
}

func vbPrefixAlphabet() []cid.Prefix {
	var ps []cid.Prefix
	for _, kc := range vbKinds {
		for _, km := range vbKinds {
			for _, l := range vbLengths {
				ps = append(ps, cid.Prefix{Version: 1, Codec: vbSpecs[kc].Codec, MhType: vbSpecs[km].Mh, MhLength: l})
			}
		}
	}
	return ps
}

func vbPrefixName(p cid.Prefix) string {
	return fmt.Sprintf("v%d/%#x/%#x/%d", p.Version, p.Codec, p.MhType, p.MhLength)
}

// vbDeliveriesFor generates the structural payload alphabet for pending identifier index i.
func vbDeliveriesFor(w *vbWorld, others []*vbWorld, i int, near bool) []vbDelivery {
	r := w.IDs[i]
	own := vbRefPrefix(r.Kind)
	rc := vbRefCID(w.Height, r)
	var ds []vbDelivery
	add := func(op string, p cid.Prefix, data []byte) {
		ds = append(ds, vbDelivery{Op: op, P: p, Data: data, HonestFor: -1})
	}
	if w.Honest[i] != nil {
		ds = append(ds, vbDelivery{Op: "honest", P: own, Data: w.Honest[i], HonestFor: 0})
	}
	firstLast := map[int]bool{}
	for _, k := range vbKinds {
		var have []int
		for _, j := range w.byKind[k] {
			if w.Honest[j] != nil {
				have = append(have, j)
			}
		}
		if len(have) > 0 {
			firstLast[have[0]] = true
			firstLast[have[len(have)-1]] = true
		}
	}
	for j, x := range w.IDs {
		if j == i || w.Honest[j] == nil {
			continue
		}
		sel := !near || vbNear(w.S.W, r, x) || firstLast[j]
		if !sel {
			continue
		}
		add("other-id:"+x.String(), own, w.Honest[j])
		if x.Kind != r.Kind {
			add("other-id-own-prefix:"+x.String(), vbRefPrefix(x.Kind), w.Honest[j])
		}
		if x.Kind == r.Kind || firstLast[j] {
			_, cont, _ := vbSplit(w.Honest[j])
			add("reenvelope:"+x.String(), own, vbEnvelope(rc.Bytes(), cont))
		}
	}
	for _, o := range others {
		if o.Honest[i] != nil && !bytes.Equal(o.Honest[i], w.Honest[i]) {
			add("other-square:"+o.Layout+fmt.Sprintf("/v%d", o.Var), own, o.Honest[i])
		}
	}
	if w.Honest[i] != nil {
		_, cont, _ := vbSplit(w.Honest[i])
		add("other-height", own, vbEnvelope(vbRefCID(w.Height+1<<48, r).Bytes(), cont))
		sp := vbSpecs[r.Kind]
		for _, p := range vbPrefixAlphabet() {
			if p == own {
				continue
			}
			add("prefix:"+vbPrefixName(p), p, w.Honest[i])
		}
		add("prefix:v0", cid.Prefix{Version: 0, Codec: sp.Codec, MhType: sp.Mh, MhLength: sp.Size}, w.Honest[i])
		add("prefix:len-1", cid.Prefix{Version: 1, Codec: sp.Codec, MhType: sp.Mh, MhLength: sp.Size - 1}, w.Honest[i])
		add("prefix:len+1", cid.Prefix{Version: 1, Codec: sp.Codec, MhType: sp.Mh, MhLength: sp.Size + 1}, w.Honest[i])
		idb := vbIDBytes(w.Height, r)
		for _, k2 := range vbKinds {
			if k2 == r.Kind {
				continue
			}
			s2 := vbSpecs[k2]
			add("inner-cid:codec="+k2, own, vbEnvelope(vbMakeCID(s2.Codec, sp.Mh, idb).Bytes(), cont))
			add("inner-cid:mh="+k2, own, vbEnvelope(vbMakeCID(sp.Codec, s2.Mh, idb).Bytes(), cont))
			add("inner-cid:type="+k2, own, vbEnvelope(vbMakeCID(s2.Codec, s2.Mh, idb).Bytes(), cont))
		}
		add("inner-cid:short", own, vbEnvelope(vbMakeCID(sp.Codec, sp.Mh, idb[:len(idb)-1]).Bytes(), cont))
		add("inner-cid:long", own, vbEnvelope(vbMakeCID(sp.Codec, sp.Mh, append(append([]byte{}, idb...), 0)).Bytes(), cont))
		add("inner-cid:empty", own, vbEnvelope(nil, cont))
		add("container:empty", own, vbEnvelope(rc.Bytes(), nil))
	}
	return ds
}

var vbSubst = []byte{0x00, 0x01, 0x7f, 0x80, 0xff}

// vbByteOps applies the byte-operator alphabet of DESIGN §3.6 to h.
func vbByteOps(h []byte, short2 bool, fn func(op string, data []byte)) {
	for n := 0; n < len(h); n++ {
		fn(fmt.Sprintf("trunc@%d", n), h[:n])
	}
	for i := range h {
		vals := append([]byte{}, vbSubst...)
		vals = append(vals, h[i]^1, h[i]+1, h[i]-1)
		done := map[byte]bool{h[i]: true}
		for _, v := range vals {
			if done[v] {
				continue
			}
			done[v] = true
			d := append([]byte{}, h...)
			d[i] = v
			fn(fmt.Sprintf("subst@%d=%#02x", i, v), d)
		}
	}
	for i := range h {
		d := append(append([]byte{}, h[:i]...), h[i+1:]...)
		fn(fmt.Sprintf("del@%d", i), d)
	}
	for i := 0; i <= len(h); i++ {
		for _, v := range []byte{0x00, 0x01, 0x80, 0xff} {
			d := make([]byte, 0, len(h)+1)
			d = append(d, h[:i]...)
			d = append(d, v)
			d = append(d, h[i:]...)
			fn(fmt.Sprintf("ins@%d=%#02x", i, v), d)
		}
	}
	if short2 {
		for a := 0; a < 256; a++ {
			fn(fmt.Sprintf("short:%02x", a), []byte{byte(a)})
			for b := 0; b < 256; b++ {
				fn(fmt.Sprintf("short:%02x%02x", a, b), []byte{byte(a), byte(b)})
			}
		}
	}
}

// vbCompanions builds the other squares stored at the same height (other-square class).
func vbCompanions(it vbItem, height uint64, withRanges bool) []*vbWorld {
	var out []*vbWorld
	if o, err := vbNewWorld(it.Layout, 1, height, withRanges); err == nil {
		out = append(out, o)
	}
	for _, l := range it.Others {
		if l.W == it.Layout.W && l.String() != it.Layout.String() {
			if o, err := vbNewWorld(l, 0, height, withRanges); err == nil {
				out = append(out, o)
			}
		}
	}
	return out
}

// vbRunItem executes one work item. It returns false if the deadline cut it short.
func vbRunItem(it vbItem, st *vbStats, sink vbSink, deadline time.Time) bool {
	height := vbHeight(it.K)
	w, err := vbNewWorld(it.Layout, 0, height, true)
	if err != nil {
		sink(vbViol{"harness", "cannot build world " + it.Layout.String() + ": " + err.Error(), -1}, func() vbReplay { return vbReplay{} })
		return true
	}
	st.worlds++
	for i := range w.IDs {
		if w.Honest[i] != nil {
			st.served++
		} else {
			st.refused[w.IDs[i].Kind+": "+vbServeErrClass(w.ServeErr[i])]++
		}
	}
	switch it.Mode {
	case "bytes":
		return vbRunBytes(it, w, st, sink, deadline)
	default:
		return vbRunEnum(it, w, st, sink, deadline)
	}
}

func vbServeErrClass(s string) string {
	switch {
	case bytes.Contains([]byte(s), []byte("outside of namespace range")):
		return "namespace outside the row's range"
	case bytes.Contains([]byte(s), []byte("mismatched namespace")):
		return "range spans several namespaces"
	case bytes.Contains([]byte(s), []byte("PANIC")):
		return "PANIC"
	}
	if len(s) > 60 {
		s = s[:60]
	}
	return s
}

func vbOne(w *vbWorld, pending []vbID, d vbDelivery, st *vbStats, sink vbSink) vbTrialOut {
	dels := []vbDelivery{d}
	out := vbRunTrial(w, pending, dels, false)
	st.trials++
	st.deliveries++
	st.kinds[pending[0].Kind]++
	opc := vbOpClass(d.Op)
	st.ops[opc]++
	if len(out.Dels) == 1 {
		oc := vbOutcome(out.Dels[0])
		st.outcomes[opc+"|"+oc]++
		if d.HonestFor >= 0 && oc == "accepted+filled" && out.FetchErr == nil && out.Final[0] == "ref" {
			st.honestOK++
		}
	} else {
		st.outcomes[opc+"|fetch-did-not-ask"]++
	}
	for _, v := range vbJudge(w, pending, dels, out, false) {
		sink(v, func() vbReplay { return vbMkReplay(w, pending, dels, false) })
	}
	return out
}

func vbRunEnum(it vbItem, w *vbWorld, st *vbStats, sink vbSink, deadline time.Time) bool {
	others := vbCompanions(it, w.Height, true)
	// serving side + CID mapping of every identifier of the world
	vbCheckWorldCIDs(w, st, sink)
	for i, r := range w.IDs {
		if time.Now().After(deadline) {
			return false
		}
		st.idsPending++
		seen := map[[20]byte]bool{}
		for _, d := range vbDeliveriesFor(w, others, i, it.Near) {
			if d.HonestFor < 0 {
				h := sha256.New()
				h.Write(d.P.Bytes())
				h.Write(d.Data)
				var key [20]byte
				copy(key[:], h.Sum(nil))
				if !seen[key] {
					seen[key] = true
					st.hostile++
				}
			}
			vbOne(w, []vbID{r}, d, st, sink)
		}
	}
	// all-pending mode: every identifier pending in one Fetch, every honest block under every prefix
	if time.Now().After(deadline) {
		return false
	}
	var dels []vbDelivery
	pfx := vbPrefixAlphabet()
	for j := range w.IDs {
		if w.Honest[j] == nil {
			continue
		}
		for _, p := range pfx {
			hf := -1
			if p == vbRefPrefix(w.IDs[j].Kind) {
				hf = j
			}
			dels = append(dels, vbDelivery{Op: "allpending:" + vbPrefixName(p) + ":" + w.IDs[j].String(), P: p, Data: w.Honest[j], HonestFor: hf})
		}
	}
	out := vbRunTrial(w, w.IDs, dels, true)
	st.trials++
	st.deliveries += int64(len(dels))
	for k, o := range out.Dels {
		oc := vbOutcome(o)
		st.outcomes["allpending|"+oc]++
		st.ops["allpending"]++
		if dels[k].HonestFor < 0 {
			st.hostile++
		} else if oc == "accepted+filled" {
			st.honestOK++
		}
	}
	// Fetch-level consequence of every cross-identifier acceptance: the two requests pending in
	// one real Fetch, the foreign payload delivered, then the carried identifier's own block
	consequence := map[int]string{} // delivery index -> what the real Fetch made of it
	confirmed := map[string]string{}
	for k, o := range out.Dels {
		if o.Wanted < 0 {
			continue
		}
		inner, _, ok := vbSplit(dels[k].Data)
		if !ok || inner.Equals(vbRefCID(w.Height, w.IDs[o.Wanted])) {
			continue
		}
		src := -1
		for j := range w.IDs {
			if inner.Equals(vbRefCID(w.Height, w.IDs[j])) {
				src = j
			}
		}
		if src < 0 {
			continue
		}
		key := w.IDs[o.Wanted].Kind + "<-" + w.IDs[src].Kind
		if c, done := confirmed[key]; done {
			consequence[k] = c
			continue
		}
		pending := []vbID{w.IDs[o.Wanted], w.IDs[src]}
		d := dels[k]
		d.Op = "confirm:" + d.Op
		d.HonestFor = -1
		d2 := vbDelivery{Op: "confirm:own-block-of-" + w.IDs[src].String(), P: vbRefPrefix(w.IDs[src].Kind), Data: w.Honest[src], HonestFor: -1}
		o2 := vbRunTrial(w, pending, []vbDelivery{d, d2}, false)
		st.trials++
		st.deliveries += 2
		st.confirmRuns++
		c := fmt.Sprintf("; consequence with both requests in one real Fetch (then the own block of %s arrives): Fetch returns err=%v panic=%q, %s holds %q, %s holds %q",
			pending[1], o2.FetchErr, o2.FetchPanic, pending[0], o2.Final[0], pending[1], o2.Final[1])
		confirmed[key] = c
		consequence[k] = c
	}
	for _, v := range vbJudge(w, w.IDs, dels, out, true) {
		var one []vbDelivery
		if v.Del >= 0 {
			one = dels[v.Del : v.Del+1]
			v.What += consequence[v.Del]
		}
		sink(v, func() vbReplay { return vbMkReplay(w, w.IDs, one, true) })
	}
	return true
}

func vbRunBytes(it vbItem, w *vbWorld, st *vbStats, sink vbSink, deadline time.Time) bool {
	complete := true
	for i, r := range w.IDs {
		if it.OnlyID >= 0 && i != it.OnlyID {
			continue
		}
		if w.Honest[i] == nil {
			continue
		}
		st.idsPending++
		own := vbRefPrefix(r.Kind)
		seen := map[[20]byte]bool{}
		n := 0
		short2 := false // all strings of length <= 2: once per type (first served identifier)
		if it.Short2 {
			for _, j := range w.byKind[r.Kind] {
				if w.Honest[j] != nil {
					short2 = j == i
					break
				}
			}
		}
		vbByteOps(w.Honest[i], short2, func(op string, data []byte) {
			if !complete {
				return
			}
			n++
			if n%512 == 0 && time.Now().After(deadline) {
				complete = false
				return
			}
			key := [20]byte{}
			s := sha256.Sum256(data)
			copy(key[:], s[:])
			if seen[key] || bytes.Equal(data, w.Honest[i]) {
				return
			}
			seen[key] = true
			st.hostile++
			vbOne(w, []vbID{r}, vbDelivery{Op: op, P: own, Data: data, HonestFor: -1}, st, sink)
		})
		// positive control under the same registration discipline
		vbOne(w, []vbID{r}, vbDelivery{Op: "honest", P: own, Data: w.Honest[i], HonestFor: 0}, st, sink)
		if !complete {
			return false
		}
	}
	return complete
}

func vbSortedCounts(m map[string]int64) []string {
	ks := make([]string, 0, len(m))
	for k := range m {
		ks = append(ks, k)
	}
	sort.Strings(ks)
	out := make([]string, len(ks))
	for i, k := range ks {
		out[i] = fmt.Sprintf("%s = %d", k, m[k])
	}
	return out
}
