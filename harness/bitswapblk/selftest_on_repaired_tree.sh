#!/bin/sh
# Detection demonstrated against a tree WITHOUT the genuine defects C10 reports on the unchanged tree
# (bin/selftest applies the mutants to /repo HEAD, where the check already exits 1 for those defects,
# so its DETECTED verdict alone does not show that the mutant itself was seen).
# Scratch worktree of /repo HEAD + proposed fixes (those that are not yet in HEAD), then every
# mutant of mutants/C10.json that still matches: expect exit 1 with a signature that the repaired
# base does not produce. Everything lives under /tmp and is removed at the end.
set -u
VERIF=/verif
WT=/tmp/c10-st-$$
WORK=$WT-work
git -C /repo worktree add --detach "$WT" HEAD >/dev/null 2>&1 || exit 2
trap 'git -C /repo worktree remove --force "$WT" >/dev/null 2>&1; rm -rf "$WORK" "$WT"' EXIT
for p in C10-hasher-bound-to-multihash-code.patch C10-duplicate-fetch-registry.patch C10-fetch-populates-own-block.patch C18-range-id-v0-wrap.patch; do
  if git -C "$WT" apply --check "$VERIF/proposed_fixes/$p" 2>/dev/null; then
    git -C "$WT" apply "$VERIF/proposed_fixes/$p" && echo "base: applied $p"
  else
    echo "base: $p does not apply (already in HEAD?)"
  fi
done
export VERIF_REPO="$WT" VERIF_WORK="$WORK" VERIF_EVIDENCE_DIR="$WORK/evidence" VERIF_REPLAYS="$WORK/replays" VERIF_MEM_GB=12
git -C "$WT" diff > "$WORK.base.diff"
"$VERIF/bin/check" C10 quick > "$WORK.base.out" 2>&1; rc=$?
echo "base: exit $rc $(grep -c '^VIOLATION' "$WORK.base.out") violation signature(s)"
grep 'signature:' "$WORK.base.out" | sort -u > "$WORK.base.sigs"
python3 - "$WT" "$WORK" <<'PY'
import json, subprocess, sys, os
wt, work = sys.argv[1], sys.argv[2]
base = set(l.strip() for l in open(work + ".base.sigs"))
bad = 0
for m in json.load(open("/verif/mutants/C10.json")):
    path = os.path.join(wt, m["file"])
    src = open(path).read()
    if m["old"] not in src:
        print("C10", m["name"], "STALE on the repaired tree (the code it changes was rewritten by a fix)"); continue
    open(path, "w").write(src.replace(m["old"], m["new"], 1))
    try:
        p = subprocess.run(["timeout", "-k", "10", "1200", "/verif/bin/check", "C10", "quick"], capture_output=True, text=True)
    finally:
        open(path, "w").write(src)
    sigs = [l.strip() for l in p.stdout.splitlines() if "signature:" in l]
    new = [s.replace("signature: ", "") for s in sigs if s not in base]
    ok = p.returncode == 1 and new
    if not ok:
        bad += 1
        print(p.stdout[-1500:])
    print("C10", m["name"], "DETECTED" if ok else "MISSED(exit %d)" % p.returncode, ",".join(new[:4]), flush=True)
print("selftest on repaired tree: %d not detected" % bad)
sys.exit(1 if bad else 0)
PY
rc=$?
rm -f "$WORK.base.out" "$WORK.base.sigs" "$WORK.base.diff"
exit $rc
