package bitswap

// C10 harness, part 7: schedule search (the SC layer of DESIGN.md §3.3). `sync` in the package is
// import-rewritten to verifx/vsync at check time, so every sync.Map operation of the verifier
// registry and every lock of a registry entry is a scheduling point of the cooperative scheduler
// (verifx/vsched). 2-3 harness threads each call the REAL Fetch for the same CID (with the header
// of the stored square, or with another square's header); a delivery goroutine pushes the honest
// block through the real hasher (cid.Prefix.Sum) whenever the explorer picks the "deliver" action
// - its registry lookup and entry lock interleave with the Fetch threads like those of a Bitswap
// network goroutine - and then hands the block to every subscription that wants the resulting
// CID; optionally one Fetch is cancelled at any point. vx.DFS enumerates every interleaving
// within the preemption bound (iterated 0,1,2,(3)). Each execution runs in a synctest bubble,
// with one P and the collector paused.

import (
	"context"
	"encoding/json"
	"fmt"
	"os"
	"os/exec"
	"path/filepath"
	"runtime"
	"runtime/debug"
	"sort"
	"strconv"
	"strings"
	"sync"
	"testing"
	"testing/synctest"
	"time"

	blocks "github.com/ipfs/go-block-format"
	"github.com/ipfs/go-cid"

	"github.com/celestiaorg/celestia-node/verifx/sq"
	"github.com/celestiaorg/celestia-node/verifx/vsched"
	"github.com/celestiaorg/celestia-node/verifx/vx"
)

type vbSCScenario struct {
	Name       string `json:"name"`
	Layout     string `json:"layout"`       // the stored square (header 0)
	Other      string `json:"other_layout"` // another square at the same height (header 1)
	K          int    `json:"k"`
	Target     vbID   `json:"target"`
	Headers    []int  `json:"headers"`    // per Fetch thread: which square's header it verifies against
	Deliveries []int  `json:"deliveries"` // blocks that may arrive at any point, in this order: 0 = honest block of the stored square, 1 = of the other square
	Final      bool   `json:"final"`      // once nothing can run and somebody still waits, the honest block of the stored square arrives once more
	Cancel     int    `json:"cancel"`     // Fetch that may be cancelled at any point (-1: none)
}

func (sc vbSCScenario) String() string {
	s := fmt.Sprintf("%s: %d x Fetch(%s) headers %v, deliveries %v", sc.Name, len(sc.Headers), sc.Target, sc.Headers, sc.Deliveries)
	if sc.Final {
		s += "+final"
	}
	if sc.Cancel >= 0 {
		s += fmt.Sprintf(", Fetch #%d may be cancelled", sc.Cancel)
	}
	return s
}

type vbSCFetch struct {
	hdr      int
	blk      Block
	ctx      context.Context
	cancel   context.CancelFunc
	sub      *vbSub
	subStep  int
	got      int // index of the delivery that was handed to it (-1: none)
	done     bool
	err      error
	panicked string
}

type vbSCDel struct {
	which      int
	start, end int
	traceEnd   int // length of the scheduler trace when the hasher returned
	sumErr     string
	target     bool  // Sum returned the requested CID
	handedTo   []int // Fetch indices that wanted the CID when the block was published
	waiting    []int // Fetches with the matching header that subscribed before the delivery started and still wait when it ends
	final      bool
}

type vbSCExec struct {
	res    vsched.Result
	err    error
	out    string
	trace  []string
	leaked any
}

type vbSCExch struct {
	mu  *sync.Mutex
	f   *vbSCFetch
	now func() int
}

func (e vbSCExch) GetBlock(context.Context, cid.Cid) (blocks.Block, error) {
	panic("harness: GetBlock unused")
}
func (e vbSCExch) Close() error                                           { return nil }
func (e vbSCExch) NotifyNewBlocks(context.Context, ...blocks.Block) error { return nil }
func (e vbSCExch) GetBlocks(ctx context.Context, cids []cid.Cid) (<-chan blocks.Block, error) {
	e.mu.Lock()
	defer e.mu.Unlock()
	sub := &vbSub{wants: map[cid.Cid]bool{}, ch: make(chan blocks.Block, len(cids)+4)}
	for _, c := range cids {
		sub.wants[c] = true
	}
	if ctx.Err() != nil {
		sub.closed = true
		close(sub.ch)
	}
	e.f.sub = sub
	e.f.subStep = e.now()
	return sub.ch, nil
}

// vbSCRun is one execution of a scenario under the scheduler, following the choices of e.
func vbSCRun(t *testing.T, sc vbSCScenario, ws [2]*vbWorld, e *vx.Exec, keepTrace bool) (r vbSCExec) {
	debug.SetGCPercent(-1)
	defer debug.SetGCPercent(100)
	target := vbRefCID(ws[0].Height, sc.Target)
	own := vbRefPrefix(sc.Target.Kind)
	tix := -1
	for i, x := range ws[0].IDs {
		if x == sc.Target {
			tix = i
		}
	}
	payload := [2][]byte{ws[0].Honest[tix], ws[1].Honest[tix]}
	var fetches []*vbSCFetch
	var dels []*vbSCDel
	func() {
		defer func() { r.leaked = recover() }()
		synctest.Test(t, func(*testing.T) {
			s := vsched.New(e.ChooseCost)
			s.KeepTrace = true // the verdict reads the order of registry operations from the trace
			s.MaxSteps = 600
			var mu sync.Mutex // harness-side table of subscriptions (a real mutex, never held across a park)
			for i, h := range sc.Headers {
				blk, err := ws[0].newBlock(sc.Target)
				if err != nil {
					r.err = fmt.Errorf("harness: %v", err)
					return
				}
				f := &vbSCFetch{hdr: h, blk: blk, got: -1}
				f.ctx, f.cancel = context.WithCancel(context.Background())
				fetches = append(fetches, f)
				i := i
				s.Go(fmt.Sprintf("F%d", i), func() {
					defer func() {
						if p := recover(); p != nil {
							f.panicked = fmt.Sprint(p)
						}
						f.done = true
					}()
					f.err = Fetch(f.ctx, vbSCExch{&mu, f, func() int { return s.Steps }}, ws[f.hdr].Roots, []Block{f.blk})
				})
			}
			abortAll := func() {
				mu.Lock()
				for _, f := range fetches {
					f.cancel()
					if f.sub != nil && !f.sub.closed {
						f.sub.closed = true
						close(f.sub.ch)
					}
				}
				mu.Unlock()
			}
			s.OnAbort = abortAll
			// the delivery goroutine: what a Bitswap network goroutine does with an incoming payload
			kick := make(chan *vbSCDel, 4)
			busy := false
			go func() {
				for d := range kick {
					d.start = s.Steps
					var c cid.Cid
					var err error
					func() {
						defer func() {
							if p := recover(); p != nil {
								err = fmt.Errorf("PANIC in the hasher: %v", p)
							}
						}()
						c, err = own.Sum(payload[d.which]) // scheduling points: registry lookup, entry lock
					}()
					d.end = s.Steps
					d.traceEnd = len(s.Trace)
					if err != nil {
						d.sumErr = err.Error()
					}
					d.target = err == nil && c.Equals(target)
					mu.Lock()
					for i, f := range fetches {
						if f.hdr == d.which && !f.done && f.sub != nil && !f.sub.closed && f.sub.wants[target] && f.subStep < d.start {
							d.waiting = append(d.waiting, i)
						}
					}
					if err == nil {
						for i, f := range fetches {
							if f.sub != nil && !f.sub.closed && f.sub.wants[c] {
								b, _ := blocks.NewBlockWithCid(payload[d.which], c)
								f.sub.ch <- b
								f.got = len(dels)
								d.handedTo = append(d.handedTo, i)
								delete(f.sub.wants, c)
								if len(f.sub.wants) == 0 {
									f.sub.closed = true
									close(f.sub.ch)
								}
							}
						}
					}
					mu.Unlock()
					s.Update(func() {
						dels = append(dels, d)
						busy = false
					})
				}
			}()
			next := 0
			s.AddAction(vsched.ExtraAction{Name: "deliver", Enabled: func() bool { return next < len(sc.Deliveries) && !busy }, Do: func() {
				busy = true
				kick <- &vbSCDel{which: sc.Deliveries[next]}
				next++
			}})
			cancelled := false
			s.AddAction(vsched.ExtraAction{Name: "cancel", Enabled: func() bool { return sc.Cancel >= 0 && !cancelled && !fetches[sc.Cancel].done }, Do: func() {
				cancelled = true
				f := fetches[sc.Cancel]
				f.cancel()
				mu.Lock()
				if f.sub != nil && !f.sub.closed {
					f.sub.closed = true
					close(f.sub.ch) // boxo closes the channel of a cancelled GetBlocks
				}
				mu.Unlock()
			}})
			someoneWaits := func() bool {
				for _, f := range fetches {
					if !f.done {
						return true
					}
				}
				return false
			}
			finalDone := !sc.Final
			s.AddAction(vsched.ExtraAction{Name: "final-deliver", Idle: true, Enabled: func() bool {
				return !finalDone && !busy && next == len(sc.Deliveries) && someoneWaits()
			}, Do: func() {
				finalDone = true
				busy = true
				kick <- &vbSCDel{which: 0, final: true}
			}})
			s.AddAction(vsched.ExtraAction{Name: "give-up", Idle: true, Enabled: func() bool {
				return finalDone && !busy && next == len(sc.Deliveries) && someoneWaits()
			}, Do: abortAll})
			r.res = s.Run()
			abortAll()
			close(kick)
			synctest.Wait()
			r.trace = s.Trace
		})
	}()
	if r.err != nil {
		return r
	}
	// ---- verdict of this execution (scheduler inactive: registry operations pass through) ----
	var parts []string
	for i, f := range fetches {
		parts = append(parts, fmt.Sprintf("F%d:%v/%s", i, vbSCErrClass(f), ws[f.hdr].refState(sc.Target, f.blk)[:1]))
	}
	for _, d := range dels {
		parts = append(parts, fmt.Sprintf("d%d:%v>%v", d.which, d.sumErr == "", d.handedTo))
	}
	r.out = strings.Join(parts, " ")
	_, regLeft := unmarshalFns.Load(target)
	unmarshalFns.Delete(target)
	fail := func(sig, f string, a ...any) {
		if r.err == nil {
			r.err = fmt.Errorf("%s|%s", sig, fmt.Sprintf(f, a...))
		}
	}
	if r.leaked != nil && !r.res.Deadlock {
		fail("harness", "bubble did not end cleanly: %v", r.leaked)
	}
	if r.res.Deadlock {
		fail("C10/sc/deadlock", "no thread can proceed: %s", r.res.Stuck)
	}
	if r.res.Horizon {
		fail("C10/sc/no-termination", "scheduler step horizon (%d steps) reached", r.res.Steps)
	}
	// new mechanisms first, so that a known finding in the same execution cannot hide them
	for i, f := range fetches {
		st := ws[f.hdr].refState(sc.Target, f.blk)
		if strings.HasPrefix(st, "wrong") {
			fail("C10/sc/wrong-data", "Fetch #%d (header of square %d) holds a container that does not verify against its own header: %s", i, f.hdr, st)
		}
		if f.done && f.panicked == "" && f.err == nil && st != "ref" {
			when := "registered-during-delivery"
			if f.got >= 0 && f.got < len(dels) && f.subStep < dels[f.got].start {
				when = "registered-before-delivery"
			}
			fail("C10/sc/fetch-nil-unfilled/"+when, "Fetch #%d (header of square %d) returned nil but its block is %q: the block handed to it was verified for another Fetch's registration (its own subscription at step %d, that delivery ran steps %v)",
				i, f.hdr, st, f.subStep, vbSCSpan(dels, f.got))
		}
	}
	for i, f := range fetches {
		if f.panicked != "" && (f.got < 0 || dels[f.got].which == f.hdr) {
			fail("C10/sc/fetch-panic", "Fetch #%d panics: %s", i, f.panicked)
		}
	}
	if regLeft && r.res.Deadlock == false {
		fail("C10/sc/registry-leak", "every Fetch has returned but the verifier of %s is still registered", sc.Target)
	}
	// the two mechanisms already recorded at event granularity
	for k, d := range dels {
		for _, i := range d.handedTo {
			if fetches[i].hdr != d.which {
				cons := ""
				if fetches[i].panicked != "" {
					cons = "; consequence: Fetch #" + strconv.Itoa(i) + " panics: " + fetches[i].panicked
				}
				fail("C10/conc/foreign-bytes-accepted", "delivery %d (honest block of square %d) passes the hasher, verified by another Fetch's registration, and is handed to Fetch #%d whose header (square %d) it does not verify against%s", k, d.which, i, fetches[i].hdr, cons)
			}
		}
	}
	// registration order = order of each Fetch thread's first registry operation
	firstReg := map[int]int{}
	for ti, ev := range r.trace {
		var i int
		if n, _ := fmt.Sscanf(ev, "F%d:Map.", &i); n == 1 && strings.Contains(ev, ":Map.") {
			if _, ok := firstReg[i]; !ok {
				firstReg[i] = ti
			}
		}
	}
	for k, d := range dels {
		if d.target || len(d.waiting) == 0 {
			continue
		}
		// the recorded mechanism: a Fetch that registered EARLIER has left and its deferred Delete took the
		// shared entry with it (or the only registered verifier belongs to a Fetch with another header).
		// An empty registry while no earlier registrant has left is a different mechanism.
		for _, w := range d.waiting {
			earlierLeft := false
			for j := range fetches {
				if fr, ok := firstReg[j]; ok && j != w && fr < firstReg[w] {
					for ti := 0; ti < d.traceEnd && ti < len(r.trace); ti++ {
						if strings.HasPrefix(r.trace[ti], fmt.Sprintf("F%d:Map.Delete", j)) {
							earlierLeft = true
						}
					}
				}
			}
			if strings.Contains(d.sumErr, "no unmarshallers registered") && !earlierLeft {
				fail("C10/sc/honest-rejected/entry-removed-by-later-fetch", "Fetch #%d registered before every Fetch that has left so far, subscribed before delivery %d started and still waits for %s, but the registry is empty and the honest block is rejected: %s", w, k, sc.Target, d.sumErr)
			}
		}
		fail("C10/conc/honest-rejected", "Fetch call(s) %v with the matching header subscribed before delivery %d started and still wait for %s, but the block the serving node produced is rejected: %s", d.waiting, k, sc.Target, d.sumErr)
	}
	return r
}

func vbSCSpan(dels []*vbSCDel, k int) string {
	if k < 0 || k >= len(dels) {
		return "?"
	}
	return fmt.Sprintf("%d..%d", dels[k].start, dels[k].end)
}

func vbSCErrClass(f *vbSCFetch) string {
	switch {
	case !f.done:
		return "running"
	case f.panicked != "":
		return "panic"
	case f.err == nil:
		return "nil"
	}
	return "err"
}

func vbSCScenarios(tier string, k0 int) []vbSCScenario {
	const lay, other = "w2:TX1,A2,TAIL1", "w2:A4"
	smp := vbID{Kind: vbSample, Row: 0, Col: 1}
	mk := func(name string, t vbID, hdr, del []int, final bool, cancel int) vbSCScenario {
		return vbSCScenario{Name: name, Layout: lay, Other: other, Target: t, Headers: hdr, Deliveries: del, Final: final, Cancel: cancel}
	}
	scs := []vbSCScenario{
		mk("sample/2-same-header", smp, []int{0, 0}, []int{0}, true, -1),
		mk("sample/2-same-header-2-deliveries", smp, []int{0, 0}, []int{0, 0}, false, -1),
		mk("sample/2-same-header-cancel", smp, []int{0, 0}, []int{0}, true, 0),
		mk("sample/2-other-header-second", smp, []int{0, 1}, []int{0}, false, -1),
		mk("sample/2-other-header-first", smp, []int{1, 0}, []int{0}, false, -1),
		mk("row/2-same-header", vbID{Kind: vbRow, Row: 0}, []int{0, 0}, []int{0}, true, -1),
		mk("rnd/2-same-header", vbID{Kind: vbRND, Row: 0, NS: "A"}, []int{0, 0}, []int{0}, true, -1),
		mk("range/2-same-header", vbID{Kind: vbRange, From: 1, To: 3}, []int{0, 0}, []int{0}, true, -1),
	}
	if tier == "thorough" {
		scs = append(scs,
			mk("sample/3-same-header", smp, []int{0, 0, 0}, []int{0}, true, -1),
			mk("sample/3-same-header-cancel", smp, []int{0, 0, 0}, []int{0}, true, 0),
			mk("sample/3-one-other-header", smp, []int{0, 1, 0}, []int{0}, false, -1),
			mk("sample/2-both-headers-both-blocks", smp, []int{0, 1}, []int{0, 1}, false, -1),
			mk("range/2-other-header-second", vbID{Kind: vbRange, From: 1, To: 3}, []int{0, 1}, []int{0}, false, -1),
		)
	}
	for i := range scs {
		scs[i].K = k0 + i
	}
	return scs
}

func vbSCWorlds(sc vbSCScenario) (ws [2]*vbWorld, err error) {
	for i, ls := range []string{sc.Layout, sc.Other} {
		l, e := sq.ParseLayout(ls)
		if e != nil {
			return ws, e
		}
		if ws[i], e = vbNewWorld(l, 0, vbHeight(sc.K), true); e != nil {
			return ws, e
		}
	}
	return ws, nil
}

type vbSCViolation struct {
	Sig    string   `json:"sig"`
	What   string   `json:"what"`
	Replay vbReplay `json:"replay"`
}

type vbSCResult struct {
	Scenario   string          `json:"scenario"`
	Completed  int             `json:"completed"` // highest preemption bound fully explored (-1: none)
	Executions int64           `json:"executions"`
	Points     int64           `json:"points"`
	MaxPoints  int             `json:"max_points"`
	Outcomes   map[string]int64 `json:"outcomes"`
	Exhaustive bool            `json:"exhaustive"`
	Violations []vbSCViolation `json:"violations"`
	Infra      []string        `json:"infra"`
	Sample     []string        `json:"sample_trace"`
	WallS      float64         `json:"wall_s"`
}

func vbSCSig(err error) (string, string) {
	s := err.Error()
	if i := strings.Index(s, "|"); i > 0 {
		return s[:i], s[i+1:]
	}
	return "harness", s
}

// vbSCExplore explores one scenario completely in this process (single P).
func vbSCExplore(t *testing.T, sc vbSCScenario, bounds []int, deadline time.Time) vbSCResult {
	runtime.GOMAXPROCS(1)
	t0 := time.Now()
	res := vbSCResult{Scenario: sc.String(), Completed: -1, Exhaustive: true, Outcomes: map[string]int64{}}
	ws, err := vbSCWorlds(sc)
	if err != nil {
		res.Infra = append(res.Infra, err.Error())
		res.Exhaustive = false
		return res
	}
	// outside any bubble first, and the determinism self-check: the default schedule twice
	a := vbSCRun(t, sc, ws, vx.NewExec(nil), true)
	b := vbSCRun(t, sc, ws, vx.NewExec(nil), true)
	if a.out != b.out || strings.Join(a.trace, ",") != strings.Join(b.trace, ",") {
		res.Infra = append(res.Infra, fmt.Sprintf("NONDETERMINISM: default schedule of %s: %q %v / %q %v", sc.Name, a.out, a.trace, b.out, b.trace))
		res.Exhaustive = false
		return res
	}
	res.Sample = a.trace
	seen := map[string]bool{}
	n := 0
	for _, bd := range bounds {
		st := vx.DFS(vx.DFSOpts{Bound: bd, Deadline: deadline}, func(e *vx.Exec) (string, error) {
			n++
			if n%200 == 0 {
				runtime.GC()
			}
			r := vbSCRun(t, sc, ws, e, false)
			if r.err != nil {
				sig, _ := vbSCSig(r.err)
				return "VIOLATION " + sig, r.err
			}
			return r.out, nil
		}, func(e *vx.Exec, err error) {
			sig, what := vbSCSig(err)
			if sig == "harness" || strings.HasPrefix(err.Error(), "DIVERGENCE") {
				if len(res.Infra) < 5 {
					res.Infra = append(res.Infra, fmt.Sprintf("%v scenario=%s choices=%v", err, sc.Name, e.Choices))
				}
				return
			}
			if !seen[sig] {
				seen[sig] = true
				c := sc
				res.Violations = append(res.Violations, vbSCViolation{sig, fmt.Sprintf("%s [scenario %s, schedule %v]", what, sc.Name, e.Trace()),
					vbReplay{Mode: "sc", SC: &c, Choices: append([]int(nil), e.Choices...)}})
			}
		})
		res.Executions, res.Points = st.Executions, st.ChoicePoints // bound b re-explores everything below it
		if st.MaxPoints > res.MaxPoints {
			res.MaxPoints = st.MaxPoints
		}
		for k, v := range st.Outcomes {
			res.Outcomes[k] = v
		}
		if !st.Complete {
			res.Exhaustive = false
			break
		}
		res.Completed = bd
	}
	res.WallS = time.Since(t0).Seconds()
	return res
}

func vbSCBounds(tier string) []int {
	if tier == "thorough" {
		return []int{0, 1, 2, 3}
	}
	return []int{0, 1, 2}
}

// vbSCShard is the body of a shard process: one scenario, result to a file.
func vbSCShard(t *testing.T, tier, name string) {
	for _, sc := range vbSCScenarios(tier, 62000) {
		if sc.Name != name {
			continue
		}
		dl, _ := strconv.ParseInt(os.Getenv("VERIF_C10_SC_DEADLINE_MS"), 10, 64)
		res := vbSCExplore(t, sc, vbSCBounds(tier), time.UnixMilli(dl))
		b, _ := json.Marshal(res)
		if err := os.WriteFile(os.Getenv("VERIF_C10_SC_OUT"), b, 0o644); err != nil {
			t.Fatal(err)
		}
		return
	}
	t.Fatalf("unknown scenario %q", name)
}

// vbSCStart launches one shard process per scenario; the returned function waits for them
// and folds the results into the report. It returns whether every scenario completed its bounds.
func vbSCStart(t *testing.T, rep *vx.Report, col *vbCollector, deadline time.Time) func() bool {
	scs := vbSCScenarios(rep.Tier, 62000)
	tmp := os.Getenv("VERIF_TMP")
	if tmp == "" {
		tmp = t.TempDir()
	}
	results := make([]*vbSCResult, len(scs))
	errs := make([]string, len(scs))
	var wg sync.WaitGroup
	sem := make(chan struct{}, max(2, vx.Workers()/2))
	for i, sc := range scs {
		wg.Add(1)
		go func(i int, sc vbSCScenario) {
			defer wg.Done()
			sem <- struct{}{}
			defer func() { <-sem }()
			out := filepath.Join(tmp, fmt.Sprintf("c10-sc-%d.json", i))
			cmd := exec.Command(os.Args[0], "-test.run=^TestVerifC10$", "-test.count=1", "-test.timeout=0")
			cmd.Env = append(os.Environ(), "VERIF_C10_SC="+sc.Name, "VERIF_C10_SC_OUT="+out,
				fmt.Sprintf("VERIF_C10_SC_DEADLINE_MS=%d", deadline.UnixMilli()), "VERIF_EVIDENCE=", "VERIF_REPLAY=", "GOMAXPROCS=1")
			ob, err := cmd.CombinedOutput()
			if err != nil {
				tail := string(ob)
				if len(tail) > 1500 {
					tail = tail[len(tail)-1500:]
				}
				errs[i] = fmt.Sprintf("sc shard %s: %v: %s", sc.Name, err, tail)
				return
			}
			b, err := os.ReadFile(out)
			var r vbSCResult
			if err == nil {
				err = json.Unmarshal(b, &r)
			}
			if err != nil {
				errs[i] = fmt.Sprintf("sc shard %s: %v", sc.Name, err)
				return
			}
			results[i] = &r
		}(i, sc)
	}
	return func() bool {
		wg.Wait()
		exhaustive := true
		var runs []map[string]any
		outcomes := map[string]bool{}
		var execs, points int64
		for i, sc := range scs {
			if errs[i] != "" {
				col.sink(vbViol{"harness", errs[i], -1}, func() vbReplay { return vbReplay{} })
				exhaustive = false
				continue
			}
			r := results[i]
			for _, inf := range r.Infra {
				col.sink(vbViol{"harness", inf, -1}, func() vbReplay { return vbReplay{} })
			}
			for _, v := range r.Violations {
				v := v
				col.sink(vbViol{v.Sig, v.What, -1}, func() vbReplay { return v.Replay })
			}
			exhaustive = exhaustive && r.Exhaustive
			execs += r.Executions
			points += r.Points
			var oc []string
			for k, n := range r.Outcomes {
				outcomes[k] = true
				oc = append(oc, fmt.Sprintf("%s = %d", k, n))
			}
			sort.Strings(oc)
			runs = append(runs, map[string]any{"scenario": sc.String(), "preemption_bound_completed": r.Completed,
				"executions_at_last_bound": r.Executions, "scheduling_decisions": r.Points, "longest_schedule_choice_points": r.MaxPoints,
				"outcomes": oc, "exhaustive": r.Exhaustive, "wall_s": r.WallS})
			if i == 0 && len(r.Sample) > 0 {
				rep.AddSample(map[string]any{"kind": "schedule (default choices)", "scenario": sc.String(), "trace": r.Sample})
			}
		}
		// stateless search: states = distinct terminal outcomes, transitions = scheduling decisions taken
		rep.Count(execs, int64(len(outcomes)), int64(len(outcomes)), points)
		rep.Set("schedule_search_runs", runs)
		rep.Set("schedule_search_executions", execs)
		rep.Set("schedule_search_distinct_outcomes", len(outcomes))
		return exhaustive
	}
}

func vbSCReplay(t *testing.T, rp vbReplay) []vbViol {
	runtime.GOMAXPROCS(1)
	ws, err := vbSCWorlds(*rp.SC)
	if err != nil {
		t.Fatalf("replay: %v", err)
	}
	r := vbSCRun(t, *rp.SC, ws, vx.NewExec(rp.Choices), true)
	fmt.Printf("REPLAY-TRACE %s => %s\n", strings.Join(r.trace, " -> "), r.out)
	if r.err == nil {
		return nil
	}
	sig, what := vbSCSig(r.err)
	return []vbViol{{sig, what, -1}}
}
