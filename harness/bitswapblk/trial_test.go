package bitswap

// C10 harness, part 2: one trial = the REAL Fetch over a fake exchange that models what the
// boxo Bitswap client does with an incoming payload (bitswap/message.newMessageFromProto +
// client.receiveBlocksFrom): compute c' = cid.Prefix.Sum(data) with the prefix the SENDER
// chose - this runs the registered multihash "hasher" of the package - drop the payload on
// error, hand the block (data, c') to the requester iff c' is in its want list. The judge
// then applies the property to what the requesting Blocks hold.

import (
	"context"
	"encoding/hex"
	"fmt"
	"strings"

	"github.com/ipfs/boxo/blockstore"
	blocks "github.com/ipfs/go-block-format"
	"github.com/ipfs/go-cid"
)

// vbDelivery is one incoming payload: sender-chosen prefix + bytes.
type vbDelivery struct {
	Op   string
	P    cid.Prefix
	Data []byte
	// HonestFor >= 0: Data is the block the serving node produced for pending[HonestFor]
	// and P is that identifier's own prefix (positive control).
	HonestFor int
}

type vbDelOut struct {
	SumErr string
	SumCID cid.Cid
	Panic  string
	Wanted int   // index of the pending block whose CID Sum returned (the payload is handed to the requester), else -1
	Filled []int // pending blocks that went from empty to non-empty during this delivery
	States map[int]string
}

type vbTrialOut struct {
	Dels        []vbDelOut
	Asked       []cid.Cid
	FetchErr    error
	FetchPanic  string
	Final       []string // refState of every pending block after Fetch returned
	Stored      []cid.Cid
	Notified    []cid.Cid
	RegistryLeft []int
	HarnessErr  string
}

// vbExch is the fake exchange of one trial. Everything happens inside GetBlocks, i.e. at the
// point where the real Fetch has registered its requests and starts waiting.
type vbExch struct {
	w       *vbWorld
	ids     []vbID
	blks    []Block
	dels    []vbDelivery
	reset   bool // all-pending mode: judge every delivery against a fresh pending set
	cancel  context.CancelFunc
	out     *vbTrialOut
	blockstore.Blockstore // nil: only Put is ever called by fetch
}

func (e *vbExch) GetBlock(context.Context, cid.Cid) (blocks.Block, error) {
	panic("harness: GetBlock is not used by Fetch")
}

func (e *vbExch) Close() error { return nil }

func (e *vbExch) NotifyNewBlocks(_ context.Context, blks ...blocks.Block) error {
	for _, b := range blks {
		e.out.Notified = append(e.out.Notified, b.Cid())
	}
	return nil
}

func (e *vbExch) Put(_ context.Context, b blocks.Block) error {
	e.out.Stored = append(e.out.Stored, b.Cid())
	return nil
}

func (e *vbExch) GetBlocks(_ context.Context, cids []cid.Cid) (<-chan blocks.Block, error) {
	e.out.Asked = append(e.out.Asked, cids...)
	wants := make(map[cid.Cid]int, len(cids))
	for i, c := range cids {
		wants[c] = i
	}
	var deliver []blocks.Block
	filled := make([]bool, len(e.blks))
	for _, d := range e.dels {
		var o vbDelOut
		o.Wanted = -1
		func() {
			defer func() {
				if p := recover(); p != nil {
					o.Panic = fmt.Sprint(p)
				}
			}()
			c, err := d.P.Sum(d.Data)
			if err != nil {
				o.SumErr = err.Error()
				return
			}
			o.SumCID = c
			if i, ok := wants[c]; ok {
				o.Wanted = i
				if !e.reset {
					b, _ := blocks.NewBlockWithCid(d.Data, c)
					deliver = append(deliver, b)
					delete(wants, c)
				}
			}
		}()
		for i, b := range e.blks {
			if !filled[i] && !vbIsEmpty(b) {
				o.Filled = append(o.Filled, i)
				filled[i] = true
			}
		}
		if len(o.Filled) > 0 || o.Wanted >= 0 {
			o.States = map[int]string{}
			for _, i := range o.Filled {
				o.States[i] = e.w.refState(e.ids[i], e.blks[i])
			}
			if o.Wanted >= 0 && o.States[o.Wanted] == "" {
				o.States[o.Wanted] = e.w.refState(e.ids[o.Wanted], e.blks[o.Wanted])
			}
		}
		if e.reset {
			for _, i := range o.Filled {
				vbReset(e.blks[i])
				filled[i] = false
			}
		}
		e.out.Dels = append(e.out.Dels, o)
	}
	ch := make(chan blocks.Block, len(deliver))
	for _, b := range deliver {
		ch <- b
	}
	if len(wants) > 0 || e.reset {
		// nothing else will ever arrive: the requester gives up (context cancellation is how
		// a real Fetch with unanswered wants ends; boxo then closes the channel)
		e.cancel()
	}
	close(ch)
	return ch, nil
}

// vbRunTrial executes Fetch(pending) with the given deliveries arriving while it waits.
func vbRunTrial(w *vbWorld, pending []vbID, dels []vbDelivery, reset bool) (out vbTrialOut) {
	blks := make([]Block, len(pending))
	for i, id := range pending {
		b, err := w.newBlock(id)
		if err != nil {
			out.HarnessErr = fmt.Sprintf("constructor refuses %s: %v", id, err)
			return out
		}
		blks[i] = b
	}
	ctx, cancel := context.WithCancel(context.Background())
	defer cancel()
	ex := &vbExch{w: w, ids: pending, blks: blks, dels: dels, reset: reset, cancel: cancel, out: &out}
	func() {
		defer func() {
			if p := recover(); p != nil {
				out.FetchPanic = fmt.Sprint(p)
			}
		}()
		out.FetchErr = Fetch(ctx, ex, w.Roots, blks, WithStore(ex))
	}()
	out.Final = make([]string, len(blks))
	for i, b := range blks {
		out.Final[i] = w.refState(pending[i], b)
		if _, ok := unmarshalFns.Load(vbRefCID(w.Height, pending[i])); ok {
			out.RegistryLeft = append(out.RegistryLeft, i)
			unmarshalFns.Delete(vbRefCID(w.Height, pending[i])) // keep later trials independent
		}
	}
	return out
}

// vbViol is one judged violation.
type vbViol struct {
	Sig  string
	What string
	Del  int // index of the delivery judged (-1: the trial as a whole)
}

func vbErrClass(s string) string {
	// cid.Prefix.Sum wraps every hasher error in ErrInvalidCid ("invalid cid: ...")
	s = strings.TrimPrefix(s, "invalid cid: ")
	s = strings.TrimPrefix(s, "shwap/bitswap: hasher: ")
	switch {
	case s == "":
		return "ok"
	case strings.Contains(s, "no unmarshallers registered"):
		return "not-requested"
	case strings.Contains(s, "unmarshalling proto"), strings.Contains(s, "unmarshalling protobuf"):
		return "bad-envelope"
	case strings.Contains(s, "casting cid"):
		return "bad-inner-cid"
	case strings.Contains(s, "invalid cid"), strings.Contains(s, "unsupported codec"):
		return "invalid-inner-cid"
	case strings.Contains(s, "doesnt match given"):
		return "id-mismatch"
	case strings.Contains(s, "validating"), strings.Contains(s, "verifying RangeNamespaceDataID"):
		return "verify-failed"
	case strings.Contains(s, "unmarshaling"), strings.Contains(s, "unmarhaling"):
		return "bad-container"
	case strings.Contains(s, "converting"):
		return "verify-failed"
	case strings.Contains(s, "length"), strings.Contains(s, "too large"):
		return "digest-length"
	case strings.Contains(s, "invalid v0 prefix"), strings.Contains(s, "invalid cid version"), strings.Contains(s, "unknown multihash"), strings.Contains(s, "not supported"):
		return "bad-prefix"
	}
	return "other-error"
}

// vbOutcome names what one delivery did (for the outcome histogram).
func vbOutcome(o vbDelOut) string {
	switch {
	case o.Panic != "":
		return "panic"
	case o.SumErr != "":
		s := "rejected:" + vbErrClass(o.SumErr)
		if len(o.Filled) > 0 {
			s += "+filled"
		}
		return s
	case o.Wanted >= 0 && len(o.Filled) > 0:
		return "accepted+filled"
	case o.Wanted >= 0:
		return "accepted+unfilled"
	case len(o.Filled) > 0:
		return "other-cid+filled"
	}
	return "other-cid"
}

// vbJudge applies the property to one trial. opClass is used for signatures only.
func vbJudge(w *vbWorld, pending []vbID, dels []vbDelivery, out vbTrialOut, reset bool) []vbViol {
	var vs []vbViol
	cur := -1
	add := func(sig, f string, a ...any) { vs = append(vs, vbViol{sig, fmt.Sprintf(f, a...), cur}) }
	if out.HarnessErr != "" {
		return []vbViol{{"harness", out.HarnessErr, -1}}
	}
	// the want list Fetch sends is the reference CID of every pending identifier
	if len(out.Asked) != len(pending) {
		add("C10/cid/fetch-want-list", "Fetch asked for %d CIDs, %d blocks pending", len(out.Asked), len(pending))
	} else {
		for i, id := range pending {
			if !out.Asked[i].Equals(vbRefCID(w.Height, id)) {
				add("C10/cid/fetch-want-list/"+id.Kind, "Fetch asks for %s for %s at height %d; the identifier encodes to %s", out.Asked[i], id, w.Height, vbRefCID(w.Height, id))
			}
		}
	}
	for k, o := range out.Dels {
		d := dels[k]
		cur = k
		opc := vbOpClass(d.Op)
		state := func(i int) string {
			if o.States == nil || o.States[i] == "" {
				return "empty"
			}
			return o.States[i]
		}
		if o.Panic != "" {
			add("C10/panic/hasher/"+opc, "payload %q: cid.Prefix.Sum panics: %s", d.Op, o.Panic)
			continue
		}
		inner, _, okInner := vbSplit(d.Data)
		// R1: a request is filled only by bytes carrying exactly its identifier, and with the reference data
		for _, i := range o.Filled {
			id := pending[i]
			if !okInner || !inner.Equals(vbRefCID(w.Height, id)) {
				add("C10/filled/foreign-identifier/"+id.Kind+"/"+opc, "payload %q filled pending %s although it carries identifier %v", d.Op, id, inner)
			}
			if state(i) != "ref" {
				add("C10/filled/wrong-data/"+id.Kind+"/"+opc, "payload %q filled pending %s with a container that is not the committed data: %s", d.Op, id, state(i))
			}
		}
		// R2: anything else is rejected: bytes Bitswap accepts for a pending CID must be that identifier's verified block
		if o.Wanted >= 0 {
			id := pending[o.Wanted]
			st := state(o.Wanted)
			switch {
			case !okInner || !inner.Equals(vbRefCID(w.Height, id)):
				add("C10/hasher/foreign-identifier-accepted/"+vbCarried(w, pending, inner, okInner, id),
					"payload %q (prefix %+v) carries identifier %v but Sum returns the CID of pending %s without error: Bitswap hands the bytes to that request (its container is %q)", d.Op, d.P, inner, id, st)
			case st != "ref":
				add("C10/accepted/unverified/want="+id.Kind+"/"+opc,
					"payload %q is accepted for pending %s but its container is %q", d.Op, id, st)
			}
		}
		// R3: the block the serving node produced is accepted and yields the data
		if d.HonestFor >= 0 {
			id := pending[d.HonestFor]
			ok := o.SumErr == "" && o.Wanted == d.HonestFor && state(d.HonestFor) == "ref"
			if !ok {
				st := state(d.HonestFor)
				add("C10/honest-rejected/"+id.Kind, "the block Blockstore.Get produced for %s is not accepted: Sum err=%q cid=%v, container %q", id, o.SumErr, o.SumCID, st)
			}
		}
	}
	cur = -1
	if reset {
		return vs
	}
	// R5: Fetch level
	if out.FetchPanic != "" {
		add("C10/panic/fetch", "Fetch panics: %s", out.FetchPanic)
	}
	if out.FetchPanic == "" && out.FetchErr == nil {
		for i, st := range out.Final {
			if st != "ref" {
				add("C10/fetch-nil-unfilled/"+pending[i].Kind, "Fetch returned nil but pending %s holds %q", pending[i], st)
			}
		}
	}
	for i, st := range out.Final {
		if strings.HasPrefix(st, "wrong") {
			add("C10/final/wrong-data/"+pending[i].Kind, "after Fetch pending %s holds a container that is not the committed data: %s", pending[i], st)
		}
	}
	for _, i := range out.RegistryLeft {
		add("C10/registry-leak/"+pending[i].Kind, "after Fetch returned the verifier of %s is still registered", pending[i])
	}
	return vs
}

// vbCarried names how the identifier a payload carries relates to the request it was accepted for.
func vbCarried(w *vbWorld, pending []vbID, inner cid.Cid, ok bool, want vbID) string {
	if !ok {
		return "undecodable-inner-cid"
	}
	for _, k := range vbKinds {
		if inner.Prefix().Codec == vbSpecs[k].Codec {
			if k == want.Kind {
				return "same-type"
			}
			return "cross-type"
		}
	}
	return "unknown-type"
}

// vbOpClass strips the parameters of an operator name: "subst@17=0x80" -> "subst".
func vbOpClass(op string) string {
	if i := strings.IndexAny(op, "@(:"); i > 0 {
		return op[:i]
	}
	return op
}

// ---------------------------------------------------------------------------
// replay artefact

type vbReplayDel struct {
	Op        string `json:"op"`
	Prefix    string `json:"prefix_hex"`
	Data      string `json:"data_hex"`
	HonestFor int    `json:"honest_for"`
}

type vbReplay struct {
	Mode    string        `json:"mode"` // trial | conc | cid | sc
	Layout  string        `json:"layout,omitempty"`
	Variant int           `json:"variant,omitempty"`
	Height  uint64        `json:"height,omitempty"`
	Pending []vbID        `json:"pending,omitempty"`
	Reset   bool          `json:"all_pending_mode,omitempty"`
	Dels    []vbReplayDel `json:"deliveries,omitempty"`
	Conc    *vbConcCfg    `json:"conc,omitempty"`
	History []string      `json:"history,omitempty"`
	CID     *vbCIDCase    `json:"cid_case,omitempty"`
	SC      *vbSCScenario `json:"sc_scenario,omitempty"`
	Choices []int         `json:"choices,omitempty"`
}

func vbMkReplay(w *vbWorld, pending []vbID, dels []vbDelivery, reset bool) vbReplay {
	r := vbReplay{Mode: "trial", Layout: w.Layout, Variant: w.Var, Height: w.Height, Pending: pending, Reset: reset}
	for _, d := range dels {
		r.Dels = append(r.Dels, vbReplayDel{Op: d.Op, Prefix: hex.EncodeToString(d.P.Bytes()), Data: hex.EncodeToString(d.Data), HonestFor: d.HonestFor})
	}
	return r
}
