package peers

import (
	"encoding/json"
	"testing"
	"time"

	"github.com/celestiaorg/celestia-node/verifx/vx"
)

func managerEV(t *testing.T, rep *vx.Report, deadline time.Time) bool { return true }

func replayManager(t *testing.T, rep *vx.Report, raw json.RawMessage) {}
