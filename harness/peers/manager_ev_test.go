package peers

// C17, part C: explicit-state BFS over event histories of the real Manager.
//
// The Manager is built with NewManager (real pools, real connection gater over a map
// datastore, real libp2p event bus) and its three background loops are started directly
// with fake subscriptions; shrex-sub notifications are delivered by calling Validate.
// Events: shrex-sub notification (peer, hash), header arrival (hash), discovery add/remove,
// disconnect, Peer() call (may block), DoneFunc result noop/cool-down/blacklist, cancel of a
// blocked Peer(), GC tick, cool-down expiry.
//
// Oracle = a deliberately weak reference model (allowed membership + cool-down deadlines
// per pool), so that it demands no more than the property:
//   - a peer returned by Peer() is a member of the hash pool or of the node pool in the model
//     and not on cool-down there; a blacklisted peer (blacklisting enabled) is never returned
//   - node-pool membership is justified: the peer was discovered, or announced a data hash
//     that a header has confirmed - a peer that only announced unconfirmed hashes is not in it
//   - a blocked Peer() call is woken whenever one of its two pools has an active peer, and
//     returns when cancelled
//   - notifications from blacklisted peers / for blacklisted hashes are rejected

import (
	"context"
	"encoding/json"
	"fmt"
	"os"
	"sort"
	"strings"
	"testing"
	"testing/synctest"
	"time"

	"github.com/ipfs/go-datastore"
	ds_sync "github.com/ipfs/go-datastore/sync"
	pubsub "github.com/libp2p/go-libp2p-pubsub"
	"github.com/libp2p/go-libp2p/core/event"
	"github.com/libp2p/go-libp2p/core/host"
	"github.com/libp2p/go-libp2p/core/network"
	"github.com/libp2p/go-libp2p/core/peer"
	"github.com/libp2p/go-libp2p/p2p/host/eventbus"
	"github.com/libp2p/go-libp2p/p2p/net/conngater"

	libhead "github.com/celestiaorg/go-header"

	"github.com/celestiaorg/celestia-node/header"
	"github.com/celestiaorg/celestia-node/share"
	"github.com/celestiaorg/celestia-node/share/shwap/p2p/shrex/shrexsub"
	"github.com/celestiaorg/celestia-node/verifx/vx"
)

type mgrCfg struct {
	Peers     []string `json:"peers"`
	Hashes    int      `json:"hashes"`
	Blacklist bool     `json:"blacklist"`
	MaxTicks  int      `json:"max_ticks"`
	// Prefer: which pool wins when both deliver a peer to a blocked Peer() at the same instant
	// (1 = hash pool, 2 = node pool); owns Go's random select, see hooks.go
	Prefer int `json:"prefer"`
	// Gap between the heights of consecutive hashes (0 = 1). With Gap = storedPoolsAmount the
	// header of hash i+1 moves the store window exactly onto the height of hash i.
	Gap int `json:"gap,omitempty"`
}

type vHost struct {
	host.Host
	id  peer.ID
	bus event.Bus
	net *vNet
}

func (h *vHost) ID() peer.ID              { return h.id }
func (h *vHost) EventBus() event.Bus      { return h.bus }
func (h *vHost) Network() network.Network { return h.net }

type vNet struct {
	network.Network
	closed []peer.ID
}

func (n *vNet) ClosePeer(p peer.ID) error { n.closed = append(n.closed, p); return nil }

type vHdrSub struct{ ch chan *header.ExtendedHeader }

func (s *vHdrSub) NextHeader(ctx context.Context) (*header.ExtendedHeader, error) {
	select {
	case h := <-s.ch:
		return h, nil
	case <-ctx.Done():
		return nil, ctx.Err()
	}
}
func (s *vHdrSub) Cancel() {}

var _ libhead.Subscription[*header.ExtendedHeader] = (*vHdrSub)(nil)

type mPool struct {
	member map[string]bool
	cool   map[string]time.Time
}

func newMPool() *mPool { return &mPool{member: map[string]bool{}, cool: map[string]time.Time{}} }
func (p *mPool) add(id string) {
	if !p.member[id] {
		p.member[id] = true
		delete(p.cool, id)
	}
}
func (p *mPool) remove(id string) { delete(p.member, id); delete(p.cool, id) }
func (p *mPool) offerable(id string) bool {
	return p.member[id] && !time.Now().Before(p.cool[id])
}

type pendingPeer struct {
	id     int
	hash   int
	cancel context.CancelFunc
	res    chan peerRes
}
type peerRes struct {
	id   peer.ID
	done DoneFunc
	err  error
}
type outstanding struct {
	id   int
	hash int
	peer string
	src  string // "h" = taken from the hash pool, "nodes" = from the discovered-nodes pool (inferred from the model)
	done DoneFunc
}

type mgrSys struct {
	cfg    mgrCfg
	m      *Manager
	host   *vHost
	em     event.Emitter
	hdr    *vHdrSub
	ctx    context.Context
	cancel context.CancelFunc
	err    error
	start  time.Time
	ticks  int

	hashes  []share.DataHash
	heights []uint64

	// model
	nodes      *mPool
	hpools     map[int]*mPool
	validated  map[int]bool
	announced  map[string]map[int]bool // peer -> hashes announced (accepted notifications)
	discovered map[string]bool
	black      map[string]bool
	blackHash  map[int]bool

	pending []*pendingPeer
	outs    []*outstanding
	nextID  int
}

func mkHash(i int) share.DataHash {
	h := make([]byte, 32)
	for k := range h {
		h[k] = byte(0x10*(i+1) + k%7)
	}
	return h
}

func newMgrSys(cfg mgrCfg) *mgrSys {
	s := &mgrSys{cfg: cfg, nodes: newMPool(), hpools: map[int]*mPool{}, validated: map[int]bool{},
		announced: map[string]map[int]bool{}, discovered: map[string]bool{}, black: map[string]bool{}, blackHash: map[int]bool{}}
	s.start = time.Now()
	for i := 0; i < cfg.Hashes; i++ {
		s.hashes = append(s.hashes, mkHash(i))
		gap := cfg.Gap
		if gap == 0 {
			gap = 1
		}
		s.heights = append(s.heights, uint64(100+i*gap))
		s.hpools[i] = newMPool()
	}
	bus := eventbus.NewBus()
	s.host = &vHost{id: peer.ID("self"), bus: bus, net: &vNet{}}
	gater, err := conngater.NewBasicConnectionGater(ds_sync.MutexWrap(datastore.NewMapDatastore()))
	if err != nil {
		s.err = fmt.Errorf("harness: gater: %v", err)
		return s
	}
	params := DefaultParameters()
	params.EnableBlackListing = cfg.Blacklist
	m, err := NewManager(*params, s.host, gater, "verif")
	if err != nil {
		s.err = fmt.Errorf("harness: NewManager: %v", err)
		return s
	}
	s.m = m
	s.ctx, s.cancel = context.WithCancel(context.Background())
	m.cancel = s.cancel
	s.hdr = &vHdrSub{ch: make(chan *header.ExtendedHeader)}
	sub, err := bus.Subscribe(&event.EvtPeerConnectednessChanged{}, eventbus.BufSize(eventbusBufSize))
	if err != nil {
		s.err = fmt.Errorf("harness: subscribe: %v", err)
		return s
	}
	s.em, err = bus.Emitter(&event.EvtPeerConnectednessChanged{})
	if err != nil {
		s.err = fmt.Errorf("harness: emitter: %v", err)
		return s
	}
	go m.subscribeHeader(s.ctx, s.hdr)
	go m.subscribeDisconnectedPeers(s.ctx, sub)
	go m.GC(s.ctx)
	synctest.Wait()
	return s
}

func (s *mgrSys) fail(format string, a ...any) error {
	if s.err == nil {
		s.err = fmt.Errorf(format, a...)
	}
	return s.err
}

func (s *mgrSys) Enabled() []string {
	if s.err != nil {
		return nil
	}
	var ev []string
	for _, p := range s.cfg.Peers {
		for h := range s.hashes {
			ev = append(ev, fmt.Sprintf("sub:%s:%d", p, h))
		}
		ev = append(ev, "disc+:"+p, "disc-:"+p, "down:"+p)
	}
	for h := range s.hashes {
		ev = append(ev, fmt.Sprintf("hdr:%d", h))
		if len(s.pending) < 1 { // concurrent waiters race on the real pool lock (not owned at event granularity); pool-level concurrency is part A
			ev = append(ev, fmt.Sprintf("peer:%d", h))
		}
	}
	for _, o := range s.outs {
		ev = append(ev, fmt.Sprintf("done:%d:noop", o.id), fmt.Sprintf("done:%d:cool", o.id), fmt.Sprintf("done:%d:black", o.id))
	}
	for _, p := range s.pending {
		ev = append(ev, fmt.Sprintf("cancel:%d", p.id))
	}
	if s.ticks < s.cfg.MaxTicks {
		ev = append(ev, "tick:cool", "tick:gc", "tick:timeout")
	}
	return ev
}

func (s *mgrSys) Apply(ev string) (err error) {
	if s.err != nil {
		return s.err
	}
	// a panic of the manager on the caller's goroutine (Validate, UpdateNodePool, a request's done
	// function) is a verdict: the request that reports its result crashes instead of returning
	defer func() {
		if x := recover(); x != nil {
			err = s.fail("C17/manager/panic: event %s made the manager panic: %v", ev, x)
		}
	}()
	parts := strings.Split(ev, ":")
	switch parts[0] {
	case "sub":
		p := parts[1]
		var h int
		fmt.Sscan(parts[2], &h)
		wasBlack := s.black[p]
		wasBlackHash := s.blackHash[h]
		res := s.m.Validate(s.ctx, peer.ID(p), shrexsub.Notification{DataHash: s.hashes[h], Height: s.heights[h]})
		if (wasBlack || wasBlackHash) && res != pubsub.ValidationReject {
			return s.fail("C17/manager/blacklisted-accepted: notification from peer %s (blacklisted=%v) for hash %d (blacklisted=%v) got validation result %v", p, wasBlack, h, wasBlackHash, res)
		}
		if res == pubsub.ValidationIgnore && s.heights[h] >= s.m.storeFrom.Load() && !wasBlack && !wasBlackHash {
			s.hpools[h].add(p)
			if s.announced[p] == nil {
				s.announced[p] = map[int]bool{}
			}
			s.announced[p][h] = true
			if s.validated[h] {
				s.nodes.add(p)
			}
		}
	case "hdr":
		var h int
		fmt.Sscan(parts[1], &h)
		s.hdr.ch <- &header.ExtendedHeader{RawHeader: header.RawHeader{Height: int64(s.heights[h]), DataHash: []byte(s.hashes[h])}}
		s.validated[h] = true
		for p := range s.hpools[h].member {
			s.nodes.add(p)
		}
	case "disc+":
		s.m.UpdateNodePool(peer.ID(parts[1]), true)
		if !s.black[parts[1]] {
			s.discovered[parts[1]] = true
			s.nodes.add(parts[1])
		}
	case "disc-":
		s.m.UpdateNodePool(peer.ID(parts[1]), false)
		s.nodes.remove(parts[1])
	case "down":
		if err := s.em.Emit(event.EvtPeerConnectednessChanged{Peer: peer.ID(parts[1]), Connectedness: network.NotConnected}); err != nil {
			return s.fail("harness: emit: %v", err)
		}
		s.nodes.remove(parts[1])
	case "peer":
		var h int
		fmt.Sscan(parts[1], &h)
		ctx, cancel := context.WithCancel(s.ctx)
		pp := &pendingPeer{id: s.nextID, hash: h, cancel: cancel, res: make(chan peerRes, 1)}
		s.nextID++
		s.pending = append(s.pending, pp)
		// Peer() marks the pool validated (the caller holds a header for that hash)
		s.validated[h] = true
		for p := range s.hpools[h].member {
			s.nodes.add(p)
		}
		go func() {
			id, done, err := s.m.Peer(ctx, s.hashes[h], s.heights[h])
			pp.res <- peerRes{id, done, err}
		}()
	case "done":
		var id int
		fmt.Sscan(parts[1], &id)
		for i, o := range s.outs {
			if o.id != id {
				continue
			}
			s.outs = append(s.outs[:i:i], s.outs[i+1:]...)
			before := s.coolSet()
			switch parts[2] {
			case "noop":
				o.done(ResultNoop)
			case "cool":
				o.done(ResultCooldownPeer)
				after := s.coolSet()
				marked := false
				for k := range after {
					marked = marked || !before[k]
				}
				// model: the pool the peer was taken from must not offer it before the cool-down
				// elapsed. If the implementation put it on cool-down somewhere, that tells the source;
				// if it did nothing although the peer is still an active member of the (inferred) source
				// pool, the model records the cool-down there.
				if !marked {
					if o.src == "nodes" {
						if s.nodes.offerable(o.peer) && s.m.nodes.has(peer.ID(o.peer)) {
							s.nodes.cool[o.peer] = time.Now().Add(s.m.params.PeerCooldown)
						}
					} else if s.hpools[o.hash].offerable(o.peer) && s.m.pools[s.hashes[o.hash].String()] != nil {
						s.hpools[o.hash].cool[o.peer] = time.Now().Add(s.m.params.PeerCooldown)
					}
				}
				for k := range after {
					if !before[k] {
						// k = "<pool>/<peer>" newly on cool-down
						kp := strings.SplitN(k, "/", 2)
						if kp[0] == "nodes" {
							s.nodes.cool[kp[1]] = time.Now().Add(s.m.params.PeerCooldown)
						} else {
							var hh int
							fmt.Sscan(kp[0], &hh)
							s.hpools[hh].cool[kp[1]] = time.Now().Add(s.m.params.PeerCooldown)
						}
					}
				}
			case "black":
				o.done(ResultBlacklistPeer)
				if s.cfg.Blacklist {
					s.black[o.peer] = true
					s.nodes.remove(o.peer)
				}
			}
			break
		}
	case "cancel":
		var id int
		fmt.Sscan(parts[1], &id)
		for _, p := range s.pending {
			if p.id == id {
				p.cancel()
			}
		}
	case "tick":
		s.ticks++
		switch parts[1] {
		case "cool":
			time.Sleep(s.m.params.PeerCooldown)
		case "gc":
			time.Sleep(s.m.params.GcInterval)
		case "timeout":
			time.Sleep(s.m.params.PoolValidationTimeout + s.m.params.GcInterval)
		}
	default:
		return s.fail("harness: unknown event %s", ev)
	}
	synctest.Wait()
	time.Sleep(2 * time.Nanosecond) // lets the deferred (non-preferred) pool answer through, see hooks.go
	synctest.Wait()
	s.collect(ev)
	return s.Check()
}

// coolSet lists "<pool>/<peer>" pairs currently on cool-down in the REAL pools.
func (s *mgrSys) coolSet() map[string]bool {
	out := map[string]bool{}
	for id, st := range s.m.nodes.statuses {
		if st == cooldown {
			out["nodes/"+string(id)] = true
		}
	}
	for h := range s.hashes {
		if p := s.m.pools[s.hashes[h].String()]; p != nil {
			for id, st := range p.statuses {
				if st == cooldown {
					out[fmt.Sprintf("%d/%s", h, id)] = true
				}
			}
		}
	}
	return out
}

// collect finished Peer() calls and judge them
func (s *mgrSys) collect(ev string) {
	keep := s.pending[:0:0]
	for _, pp := range s.pending {
		select {
		case r := <-pp.res:
			if r.err != nil {
				if strings.HasPrefix(ev, "cancel:") && r.err == context.Canceled {
					continue
				}
				s.fail("C17/manager/peer-error: Peer(hash %d) returned error %v after event %s", pp.hash, r.err, ev)
				continue
			}
			p := string(r.id)
			if s.black[p] {
				s.fail("C17/manager/blacklisted-offered: Peer(hash %d) returned blacklisted peer %s", pp.hash, p)
			}
			if !s.hpools[pp.hash].offerable(p) && !s.nodes.offerable(p) {
				s.fail("C17/manager/offered-not-offerable: Peer(hash %d) returned %s which is neither an active member of that hash pool (member=%v cool-until=%v) nor of the node pool (member=%v cool-until=%v) in the model",
					pp.hash, p, s.hpools[pp.hash].member[p], s.hpools[pp.hash].cool[p].Sub(time.Now()), s.nodes.member[p], s.nodes.cool[p].Sub(time.Now()))
			}
			// Peer() prefers the hash pool: if the peer is offerable there the cool-down applies there
			src := "nodes"
			if s.hpools[pp.hash].offerable(p) {
				src = "h"
			}
			s.outs = append(s.outs, &outstanding{id: pp.id, hash: pp.hash, peer: p, src: src, done: r.done})
		default:
			keep = append(keep, pp)
		}
	}
	s.pending = keep
	// removals performed by the implementation are always allowed: resync the model downwards
	for p := range s.nodes.member {
		if !s.m.nodes.has(peer.ID(p)) {
			s.nodes.remove(p)
		}
	}
	for h := range s.hashes {
		rp := s.m.pools[s.hashes[h].String()]
		for p := range s.hpools[h].member {
			if rp == nil || !rp.has(peer.ID(p)) {
				s.hpools[h].remove(p)
			}
		}
		if rp == nil && s.m.blacklistedHashes.Contains(s.hashes[h].String()) {
			s.blackHash[h] = true
		}
	}
	if s.cfg.Blacklist {
		for _, p := range s.cfg.Peers {
			if !s.m.connGater.InterceptPeerDial(peer.ID(p)) {
				s.black[p] = true
			}
		}
	}
}

func (s *mgrSys) Check() error {
	if s.err != nil {
		return s.err
	}
	// node-pool membership must be justified
	for _, p := range s.cfg.Peers {
		if !s.m.nodes.has(peer.ID(p)) {
			continue
		}
		just := s.discovered[p]
		for h := range s.announced[p] {
			if s.validated[h] {
				just = true
			}
		}
		if !just {
			return s.fail("C17/manager/unjustified-promotion: peer %s is in the discovered-nodes pool but was never discovered and only announced unconfirmed hashes %v", p, s.announced[p])
		}
		if s.black[p] {
			return s.fail("C17/manager/blacklisted-in-nodes: blacklisted peer %s is in the node pool", p)
		}
		if !s.nodes.member[p] {
			return s.fail("C17/manager/nodes-extra-member: peer %s is in the node pool but the model does not allow it (removed/disconnected and not re-added)", p)
		}
	}
	// real pools internally consistent
	if _, err := poolState(s.m.nodes); err != nil {
		return s.fail("%s", strings.Replace(err.Error(), "C17/pool-", "C17/manager/nodes-pool-", 1))
	}
	for h := range s.hashes {
		if p := s.m.pools[s.hashes[h].String()]; p != nil {
			if _, err := poolState(p.pool); err != nil {
				return s.fail("%s", strings.Replace(err.Error(), "C17/pool-", "C17/manager/hash-pool-", 1))
			}
			if s.validated[h] != p.isValidatedDataHash.Load() {
				return s.fail("C17/manager/validated-flag: hash %d validated=%v in the implementation, %v expected", h, p.isValidatedDataHash.Load(), s.validated[h])
			}
		}
	}
	// lost wake-up: a blocked Peer() while one of its pools has an active peer
	for _, pp := range s.pending {
		n := s.m.nodes.len()
		hp := 0
		if p := s.m.pools[s.hashes[pp.hash].String()]; p != nil {
			hp = p.len()
		}
		if n > 0 || hp > 0 {
			return s.fail("C17/manager/lost-wakeup: Peer(hash %d) is still blocked although its hash pool has %d and the node pool %d active peers", pp.hash, hp, n)
		}
	}
	return nil
}

func (s *mgrSys) Fingerprint() string {
	var b strings.Builder
	now := time.Now()
	dump := func(name string, p *pool, mp *mPool) {
		fmt.Fprintf(&b, "%s[", name)
		if p != nil {
			fmt.Fprintf(&b, "list=%v idx=%d ", p.peersList, p.nextIdx)
			ks := make([]string, 0)
			for id, st := range p.statuses {
				ks = append(ks, fmt.Sprintf("%s:%d", id, st))
			}
			sort.Strings(ks)
			fmt.Fprintf(&b, "%v q=", ks)
			for _, it := range p.cooldown.items {
				fmt.Fprintf(&b, "%s@%v,", it.ID, it.createdAt.Sub(now))
			}
		}
		ms := []string{}
		for id := range mp.member {
			ms = append(ms, fmt.Sprintf("%s@%v", id, max(0, mp.cool[id].Sub(now))))
		}
		sort.Strings(ms)
		fmt.Fprintf(&b, " model=%v]", ms)
	}
	dump("nodes", s.m.nodes, s.nodes)
	for h := range s.hashes {
		sp := s.m.pools[s.hashes[h].String()]
		var p *pool
		age := time.Duration(-1)
		if sp != nil {
			p = sp.pool
			age = now.Sub(sp.createdAt)
		}
		dump(fmt.Sprintf("h%d", h), p, s.hpools[h])
		fmt.Fprintf(&b, "v=%v bh=%v age=%v ", s.validated[h], s.blackHash[h], age)
	}
	fmt.Fprintf(&b, "init=%d from=%d t=%v ticks=%d ", s.m.initialHeight.Load(), s.m.storeFrom.Load(), now.Sub(s.start), s.ticks)
	bl := []string{}
	for p := range s.black {
		bl = append(bl, p)
	}
	sort.Strings(bl)
	ds := []string{}
	for p := range s.discovered {
		ds = append(ds, p)
	}
	sort.Strings(ds)
	an := []string{}
	for p, hs := range s.announced {
		an = append(an, fmt.Sprintf("%s:%v", p, vx.SortedKeys(hs)))
	}
	sort.Strings(an)
	fmt.Fprintf(&b, "black=%v disc=%v ann=%v pend=", bl, ds, an)
	for _, p := range s.pending {
		fmt.Fprintf(&b, "%d,", p.hash)
	}
	b.WriteString(" outs=")
	for _, o := range s.outs {
		fmt.Fprintf(&b, "%d/%s/%s,", o.hash, o.peer, o.src)
	}
	return b.String()
}

func (s *mgrSys) Close() {
	if s.cancel != nil {
		s.cancel()
	}
	synctest.Wait()
	if s.m != nil {
		select {
		case <-s.m.headerSubDone:
		default:
			if s.err == nil {
				s.err = fmt.Errorf("C17/manager/stop-hangs: header subscription loop did not stop after cancel")
			}
		}
	}
}

func managerEV(t *testing.T, rep *vx.Report, deadline time.Time) bool {
	type run struct {
		cfg   mgrCfg
		depth int
	}
	runs := []run{
		{mgrCfg{Peers: []string{"p1", "p2"}, Hashes: 1, Blacklist: true, MaxTicks: 2, Prefer: 1}, 5},
		{mgrCfg{Peers: []string{"p1"}, Hashes: 2, Blacklist: false, MaxTicks: 2, Prefer: 2}, 5},
		{mgrCfg{Peers: []string{"p1"}, Hashes: 2, Blacklist: true, MaxTicks: 1, Prefer: 1, Gap: storedPoolsAmount}, 5},
		{mgrCfg{Peers: []string{"p1"}, Hashes: 2, Blacklist: false, MaxTicks: 1, Prefer: 1, Gap: storedPoolsAmount + 1}, 5},
	}
	if rep.Tier == "thorough" {
		runs = []run{
			{mgrCfg{Peers: []string{"p1", "p2"}, Hashes: 2, Blacklist: true, MaxTicks: 3, Prefer: 1}, 6},
			{mgrCfg{Peers: []string{"p1", "p2", "p3"}, Hashes: 1, Blacklist: true, MaxTicks: 2, Prefer: 2}, 6},
			{mgrCfg{Peers: []string{"p1", "p2"}, Hashes: 2, Blacklist: false, MaxTicks: 3, Prefer: 2}, 6},
			{mgrCfg{Peers: []string{"p1", "p2"}, Hashes: 1, Blacklist: true, MaxTicks: 3, Prefer: 2}, 7},
			{mgrCfg{Peers: []string{"p1", "p2"}, Hashes: 2, Blacklist: true, MaxTicks: 2, Prefer: 1, Gap: storedPoolsAmount}, 6},
			{mgrCfg{Peers: []string{"p1"}, Hashes: 3, Blacklist: false, MaxTicks: 2, Prefer: 2, Gap: storedPoolsAmount / 2}, 6},
			{mgrCfg{Peers: []string{"p1", "p2"}, Hashes: 2, Blacklist: true, MaxTicks: 2, Prefer: 2, Gap: storedPoolsAmount + 1}, 6},
		}
	}
	exhaustive := true
	for i, r := range runs {
		r := r
		vPrefer = r.cfg.Prefer
		st := vx.BFS(vx.BFSOpts{MaxDepth: r.depth, Deadline: deadline, Workers: vx.Workers(),
			RunInstance: func(f func()) { synctest.Test(t, func(*testing.T) { f() }) },
			OnHang: func(hist []string, ev string) {
				h := append(hist, ev)
				rep.Violation("C17/manager/no-quiescence", fmt.Sprintf("the manager did not become quiescent within 180 s of real time after history %v (a goroutine is spinning or blocked on a lock forever)", h),
					map[string]any{"part": "manager", "cfg": r.cfg, "history": h})
				rep.SetExhaustive(false)
				rep.Finish()
				os.Exit(1)
			}},
			func() vx.Sys { return newMgrSys(r.cfg) },
			func(hist []string, err error) {
				sig := vSigOf(err)
				if strings.HasPrefix(sig, "harness") || strings.HasPrefix(sig, "DIVERGENCE") {
					rep.Infra(fmt.Sprintf("%v hist=%v", err, hist))
					return
				}
				rep.Violation(sig, err.Error(), map[string]any{"part": "manager", "cfg": r.cfg, "history": hist})
			})
		if st.Capped != "" {
			exhaustive = false
		}
		rep.Count(st.Replays, int64(st.States), int64(st.States), st.Transitions)
		rep.Set(fmt.Sprintf("manager_ev_%d", i), map[string]any{"cfg": r.cfg, "depth_bound": r.depth, "depth_completed": st.DepthDone,
			"states": st.States, "transitions": st.Transitions, "capped": st.Capped, "states_per_depth": st.PerDepth, "event_counts": st.EventCounts})
		for _, h := range st.SampleHist {
			if len(h) >= 4 {
				rep.AddSample(map[string]any{"part": "manager", "cfg": r.cfg, "history": h})
				break
			}
		}
	}
	return exhaustive
}

func replayManager(t *testing.T, rep *vx.Report, raw json.RawMessage) {
	var doc struct {
		Cfg     mgrCfg   `json:"cfg"`
		History []string `json:"history"`
	}
	_ = json.Unmarshal(raw, &doc)
	vPrefer = doc.Cfg.Prefer
	var verr error
	for i := 0; i < 5; i++ {
		var e error
		synctest.Test(t, func(*testing.T) {
			s := newMgrSys(doc.Cfg)
			defer s.Close()
			for _, ev := range doc.History {
				if e = s.Apply(ev); e != nil {
					return
				}
			}
		})
		if i > 0 && fmt.Sprint(e) != fmt.Sprint(verr) {
			t.Fatalf("NONDETERMINISM: %v vs %v", e, verr)
		}
		verr = e
	}
	rep.Count(5, 2, 1, int64(len(doc.History)))
	rep.AddSample(doc)
	if verr != nil {
		fmt.Printf("REPLAY-RESULT violation reproduced 5/5: %v\n", verr)
		rep.Violation(vSigOf(verr), verr.Error(), doc)
	} else {
		fmt.Println("REPLAY-RESULT no violation")
	}
}
