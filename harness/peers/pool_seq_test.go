package peers

// C17, part B: explicit-state BFS over operation sequences on the real pool (no
// concurrency) against a boring reference model (status map + cool-down deadlines).
// The reference model encodes the property: a peer is offered only while active, counts
// are right, a peer on cool-down is not offered before the cool-down elapsed, a waiting
// caller is woken when a peer becomes available.

import (
	"context"
	"encoding/json"
	"fmt"
	"sort"
	"strings"
	"testing"
	"testing/synctest"
	"time"

	"github.com/libp2p/go-libp2p/core/peer"

	"github.com/celestiaorg/celestia-node/verifx/vsched"
	"github.com/celestiaorg/celestia-node/verifx/vx"
)

type poolSeqSys struct {
	p      *pool
	peers  []string
	err    error
	ctx    context.Context
	cancel context.CancelFunc

	// reference model
	status   map[string]string    // "active" | "cooldown"; absent = not in pool
	until    map[string]time.Time // cool-down end of the LATEST putOnCooldown
	waiter   <-chan peer.ID       // pending next() call, if any
	waitSeen bool
	nAdv     int
	maxAdv   int
}

func newPoolSeqSys(peers []string, maxAdv int) *poolSeqSys {
	ctx, cancel := context.WithCancel(context.Background())
	s := &poolSeqSys{p: newPool(vTTL), peers: peers, status: map[string]string{}, until: map[string]time.Time{},
		ctx: ctx, cancel: cancel, maxAdv: maxAdv}
	inner := s.p.cooldown.onPop
	s.p.cooldown.onPop = func(id peer.ID) {
		defer func() {
			if x := recover(); x != nil && s.err == nil {
				s.err = fmt.Errorf("C17/pool-seq/panic/cooldown-expiry: %v", x)
			}
		}()
		inner(id)
	}
	// the first peer is already in the pool (saves one level of depth)
	s.p.add(peer.ID(peers[0]))
	s.status[peers[0]] = "active"
	return s
}

func (s *poolSeqSys) Enabled() []string {
	if s.err != nil {
		return nil
	}
	var ev []string
	for _, p := range s.peers {
		ev = append(ev, "add:"+p, "remove:"+p, "cool:"+p)
	}
	ev = append(ev, "get")
	if s.waiter == nil {
		ev = append(ev, "wait")
	}
	if s.nAdv < s.maxAdv {
		ev = append(ev, "half", "full")
	}
	return ev
}

func (s *poolSeqSys) modelActive() []string {
	var a []string
	for p, st := range s.status {
		if st == "active" {
			a = append(a, p)
		}
	}
	sort.Strings(a)
	return a
}

func (s *poolSeqSys) expire() {
	now := time.Now()
	for p, st := range s.status {
		if st == "cooldown" && !now.Before(s.until[p]) {
			s.status[p] = "active"
		}
	}
}

// underSched runs one operation (and everything it wakes up: the next() goroutine, timer
// callbacks) under the cooperative scheduler with the default schedule, so that a loop that
// never blocks shows up as a step horizon instead of hanging the check.
func (s *poolSeqSys) underSched(op func(), advance time.Duration) error {
	sch := vsched.New(func(n int, label string, costs []int) int { return 0 })
	sch.MaxSteps = 2000
	sch.OnAbort = s.cancel
	sch.Go("op", op)
	if advance > 0 {
		done := false
		sch.AddAction(vsched.ExtraAction{Name: "advance", Must: true, Idle: true, Enabled: func() bool { return !done },
			Do: func() { done = true; time.Sleep(advance) }})
	}
	res := sch.Run()
	if res.Deadlock {
		return fmt.Errorf("C17/pool-seq/deadlock: %s", res.Stuck)
	}
	if res.Horizon {
		return fmt.Errorf("C17/pool-seq/no-termination: operation did not quiesce within %d scheduling steps (busy loop)", sch.MaxSteps)
	}
	return nil
}

func (s *poolSeqSys) Apply(ev string) error {
	var inner error
	adv := time.Duration(0)
	switch ev {
	case "half":
		adv = vTTL / 2
	case "full":
		adv = vTTL
	}
	if err := s.underSched(func() { inner = s.apply(ev) }, adv); err != nil {
		s.err = err
		return err
	}
	if inner != nil {
		return inner
	}
	if s.err != nil {
		return s.err
	}
	synctest.Wait()
	s.expire()
	// waiter: must have been served iff a peer is/was available
	if s.waiter != nil {
		select {
		case id := <-s.waiter:
			s.waiter = nil
			if st := s.status[string(id)]; st != "active" {
				s.err = fmt.Errorf("C17/pool-seq/waiter-got-inactive: next() delivered %s whose status is %q", id, st)
				return s.err
			}
		default:
			if act := s.modelActive(); len(act) > 0 {
				s.err = fmt.Errorf("C17/pool-seq/lost-wakeup: next() still waiting although %v active", act)
				return s.err
			}
		}
	}
	return s.Check()
}

func (s *poolSeqSys) apply(ev string) error {
	parts := strings.Split(ev, ":")
	switch parts[0] {
	case "add":
		s.p.add(peer.ID(parts[1]))
		if _, ok := s.status[parts[1]]; !ok {
			s.status[parts[1]] = "active"
		}
	case "remove":
		s.p.remove(peer.ID(parts[1]))
		delete(s.status, parts[1])
	case "cool":
		s.p.putOnCooldown(peer.ID(parts[1]))
		if s.status[parts[1]] == "active" {
			s.status[parts[1]] = "cooldown"
			s.until[parts[1]] = time.Now().Add(vTTL)
		}
	case "get":
		id, ok := s.p.tryGet()
		act := s.modelActive()
		if ok != (len(act) > 0) {
			s.err = fmt.Errorf("C17/pool-seq/get-availability: tryGet ok=%v but the model has active peers %v", ok, act)
			return s.err
		}
		if ok && s.status[string(id)] != "active" {
			s.err = fmt.Errorf("C17/pool-seq/offered-inactive: tryGet returned %s whose status is %q (active: %v)", id, s.status[string(id)], act)
			return s.err
		}
	case "wait":
		s.waiter = s.p.next(s.ctx)
	case "half", "full":
		s.nAdv++
	}
	return nil
}

func (s *poolSeqSys) Check() error {
	if s.err != nil {
		return s.err
	}
	act := s.modelActive()
	if n := s.p.len(); n != len(act) {
		s.err = fmt.Errorf("C17/pool-seq/count: len()=%d but the model has %d active peers %v", n, len(act), act)
		return s.err
	}
	for _, p := range s.peers {
		_, in := s.status[p]
		if s.p.has(peer.ID(p)) != in {
			s.err = fmt.Errorf("C17/pool-seq/has: has(%s)=%v but model membership=%v", p, !in, in)
			return s.err
		}
	}
	if _, err := poolState(s.p); err != nil {
		s.err = fmt.Errorf("%s", strings.Replace(err.Error(), "C17/pool-", "C17/pool-seq/internal-", 1))
		return s.err
	}
	return nil
}

func (s *poolSeqSys) Fingerprint() string {
	var b strings.Builder
	// real structure (order and cursor matter for future tryGet results)
	fmt.Fprintf(&b, "list=%v idx=%d st=", s.p.peersList, s.p.nextIdx)
	for _, p := range s.peers {
		st, ok := s.p.statuses[peer.ID(p)]
		fmt.Fprintf(&b, "%s:%v/%d,", p, ok, st)
	}
	now := time.Now()
	b.WriteString(" q=")
	for _, it := range s.p.cooldown.items {
		fmt.Fprintf(&b, "%s@%v,", it.ID, it.createdAt.Add(vTTL).Sub(now))
	}
	b.WriteString(" model=")
	for _, p := range s.peers {
		fmt.Fprintf(&b, "%s:%s", p, s.status[p])
		if s.status[p] == "cooldown" {
			fmt.Fprintf(&b, "@%v", s.until[p].Sub(now))
		}
		b.WriteByte(',')
	}
	fmt.Fprintf(&b, " waiter=%v adv=%d", s.waiter != nil, s.nAdv)
	return b.String()
}

func (s *poolSeqSys) Close() {
	s.cancel()
	synctest.Wait()
}

func poolSeq(t *testing.T, rep *vx.Report, deadline time.Time) bool {
	type run struct {
		peers []string
		depth int
		adv   int
	}
	runs := []run{{[]string{"p1", "p2"}, 6, 3}}
	if rep.Tier == "thorough" {
		runs = []run{{[]string{"p1", "p2"}, 8, 4}, {[]string{"p1", "p2", "p3"}, 6, 3}}
	}
	exhaustive := true
	for i, r := range runs {
		r := r
		st := vx.BFS(vx.BFSOpts{MaxDepth: r.depth, Deadline: deadline, Workers: 1, // one scheduler per process
			RunInstance: func(f func()) { synctest.Test(t, func(*testing.T) { f() }) }},
			func() vx.Sys { return newPoolSeqSys(r.peers, r.adv) },
			func(hist []string, err error) {
				rep.Violation(vSigOf(err), err.Error(), map[string]any{"part": "pool-seq", "peers": r.peers, "max_adv": r.adv, "history": hist})
			})
		if st.Capped != "" {
			exhaustive = false
		}
		rep.Count(st.Replays, int64(st.States), int64(st.States), st.Transitions)
		rep.Set(fmt.Sprintf("pool_seq_%d", i), map[string]any{"peers": r.peers, "depth_bound": r.depth, "depth_completed": st.DepthDone,
			"states": st.States, "transitions": st.Transitions, "capped": st.Capped, "states_per_depth": st.PerDepth})
		for _, h := range st.SampleHist {
			if len(h) >= 4 {
				rep.AddSample(map[string]any{"part": "pool-seq", "history": h})
				break
			}
		}
	}
	return exhaustive
}

func replayOther(t *testing.T, rep *vx.Report, part string, raw json.RawMessage) {
	switch part {
	case "pool-seq":
		var doc struct {
			Peers   []string `json:"peers"`
			MaxAdv  int      `json:"max_adv"`
			History []string `json:"history"`
		}
		_ = json.Unmarshal(raw, &doc)
		var verr error
		for i := 0; i < 5; i++ {
			var e error
			synctest.Test(t, func(*testing.T) {
				s := newPoolSeqSys(doc.Peers, doc.MaxAdv)
				defer s.Close()
				for _, ev := range doc.History {
					if e = s.Apply(ev); e != nil {
						return
					}
				}
			})
			if i > 0 && fmt.Sprint(e) != fmt.Sprint(verr) {
				t.Fatalf("NONDETERMINISM: %v vs %v", e, verr)
			}
			verr = e
		}
		rep.Count(5, 2, 1, int64(len(doc.History)))
		rep.AddSample(doc)
		if verr != nil {
			fmt.Printf("REPLAY-RESULT violation reproduced 5/5: %v\n", verr)
			rep.Violation(vSigOf(verr), verr.Error(), doc)
		} else {
			fmt.Println("REPLAY-RESULT no violation")
		}
	case "manager":
		replayManager(t, rep, raw)
	default:
		t.Fatalf("unknown replay part %q", part)
	}
}
