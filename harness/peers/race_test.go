package peers

// Free-running pass of the C17 pool scenarios under the race detector (thorough tier; run by
// bin/check before the schedule search). No scheduler is active, so the shims pass through to
// the real sync primitives. Assumption check of the schedule search, not the deciding step.

import (
	"context"
	"fmt"
	"sync"
	"testing"
	"time"

	logging "github.com/ipfs/go-log/v2"
	"github.com/libp2p/go-libp2p/core/peer"
)

func TestVerifC17Race(t *testing.T) {
	logging.SetAllLoggers(logging.LevelFatal)
	iters := 0
	for _, sc := range poolScenarios("thorough") {
		for it := 0; it < 300; it++ {
			p := newPool(2 * time.Millisecond)
			for _, id := range sc.Init {
				p.add(peer.ID(id))
			}
			ctx, cancel := context.WithTimeout(context.Background(), 50*time.Millisecond)
			var wg sync.WaitGroup
			for _, script := range sc.Threads {
				wg.Add(1)
				go func(script []vOp) {
					defer wg.Done()
					for _, o := range script {
						if o.Kind == "wait" {
							select {
							case <-p.next(ctx):
							case <-ctx.Done():
							}
							continue
						}
						applyOp(p, o, ctx)
					}
				}(script)
			}
			wg.Wait()
			time.Sleep(3 * time.Millisecond) // let cool-down timers fire concurrently with the next iteration's setup
			cancel()
			iters++
		}
	}
	fmt.Printf("VERIF-RACE-PASS iterations=%d\n", iters)
}
