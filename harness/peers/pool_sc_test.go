package peers

// C17, part A: schedule search over the real pool + timedQueue.
//
// `sync` in pool.go / timedqueue.go is import-rewritten to verifx/vsync, so every lock
// operation is a scheduling point of the cooperative scheduler (verifx/vsched). For each
// scenario (2-3 harness threads with short op scripts + the cool-down timer callback thread +
// the "advance the clock" environment action) every interleaving within the preemption
// bound is executed; oracles: no deadlock, every operation returns, internal counters
// consistent at quiescence, and the outcome (return values + final peer statuses) equals the
// outcome of SOME sequential order of the same operations on the real pool that respects the
// observed real-time order (brute-force linearisability, reference = the structure itself
// run sequentially).

import (
	"context"
	"encoding/json"
	"errors"
	"fmt"
	"os"
	"os/exec"
	"path/filepath"
	"runtime"
	"runtime/debug"
	"sort"
	"strconv"
	"strings"
	"sync"
	"testing"
	"testing/synctest"
	"time"

	logging "github.com/ipfs/go-log/v2"
	"github.com/libp2p/go-libp2p/core/peer"

	"github.com/celestiaorg/celestia-node/verifx/vsched"
	"github.com/celestiaorg/celestia-node/verifx/vx"
)

const vTTL = time.Second

type vOp struct {
	Kind string `json:"k"` // add remove get cool len wait
	Peer string `json:"p,omitempty"`
}

type vScenario struct {
	Name    string   `json:"name"`
	Init    []string `json:"init"`    // peers added before the threads start
	Threads [][]vOp  `json:"threads"` // op scripts
	Advance int      `json:"advance"` // how many times the clock may be advanced by the TTL
}

type vOpRec struct {
	key         string // "T<thread>.<idx>" or "X.expire:<peer>.<n>" (cool-down expiry callback)
	thread, idx int
	op          vOp
	ret         string
	call, end   int
	doneFlag    bool
}

func applyOp(p *pool, o vOp, ctx context.Context) string {
	switch o.Kind {
	case "add":
		p.add(peer.ID(o.Peer))
		return ""
	case "remove":
		p.remove(peer.ID(o.Peer))
		return ""
	case "get":
		id, ok := p.tryGet()
		return fmt.Sprintf("%s/%v", id, ok)
	case "cool":
		p.putOnCooldown(peer.ID(o.Peer))
		return ""
	case "len":
		return fmt.Sprint(p.len())
	case "has":
		return fmt.Sprint(p.has(peer.ID(o.Peer)))
	}
	panic("unknown op " + o.Kind)
}

// observable final state: statuses by peer, counter, hasPeer flag consistency
func poolState(p *pool) (string, error) {
	var act, cool []string
	n := 0
	for id, st := range p.statuses {
		switch st {
		case active:
			act = append(act, string(id))
			n++
		case cooldown:
			cool = append(cool, string(id))
		}
	}
	sort.Strings(act)
	sort.Strings(cool)
	st := fmt.Sprintf("active=%v cooldown=%v", act, cool)
	if p.activeCount != n {
		return st, fmt.Errorf("C17/pool-count: activeCount=%d but %d peers have status active (%s)", p.activeCount, n, st)
	}
	if p.hasPeer != (n > 0) {
		return st, fmt.Errorf("C17/pool-haspeer: hasPeer=%v with %d active peers (%s)", p.hasPeer, n, st)
	}
	open := true
	select {
	case <-p.hasPeerCh:
		open = false
	default:
	}
	if open == (n > 0) {
		return st, fmt.Errorf("C17/pool-haspeer-chan: hasPeerCh closed=%v with %d active peers", !open, n)
	}
	seen := map[peer.ID]bool{}
	for _, id := range p.peersList {
		if seen[id] {
			return st, fmt.Errorf("C17/pool-duplicate: %s listed twice", id)
		}
		seen[id] = true
	}
	for id, s := range p.statuses {
		if s != removed && !seen[id] {
			return st, fmt.Errorf("C17/pool-unlisted: %s has status %d but is not in peersList", id, s)
		}
	}
	return st, nil
}

// sequential reference: the same scenario executed under the same scheduler in *atomic-op*
// mode - a thread is never switched away from while it can proceed, except at the explicit
// yield in front of every operation; the timer callback thread and the clock advance are
// scheduled like operations. Every such execution is one sequential order of (operations,
// clock advance, expiry callback); all of them are enumerated.
type seqOutcome struct {
	order []string // op keys in execution order
	advAt []int    // number of ops executed before each clock advance
	rets  map[string]string
	final string
}

func flatten(sc vScenario) (ops []vOp, first []int) {
	for _, s := range sc.Threads {
		first = append(first, len(ops))
		ops = append(ops, s...)
	}
	return
}

func seqOutcomes(t *testing.T, sc vScenario, deadline time.Time) ([]seqOutcome, error) {
	var out []seqOutcome
	var ferr error
	seen := map[string]bool{}
	st := vx.DFS(vx.DFSOpts{Bound: 1 << 30, Deadline: deadline}, func(e *vx.Exec) (string, error) {
		r := runScenario(t, sc, e, false, true)
		if r.err != nil {
			return "ERR", r.err
		}
		o := seqOutcome{rets: map[string]string{}, final: r.final}
		recs := append([]*vOpRec(nil), r.recs...)
		sort.SliceStable(recs, func(i, j int) bool { return recs[i].call < recs[j].call })
		for _, rec := range recs {
			o.order = append(o.order, rec.key)
			o.rets[rec.key] = rec.ret
		}
		for _, st := range r.advStep {
			n := 0
			for _, rec := range recs {
				if rec.call < st {
					n++
				}
			}
			o.advAt = append(o.advAt, n)
		}
		key := fmt.Sprint(o.order, o.advAt, o.rets, o.final)
		if !seen[key] {
			seen[key] = true
			out = append(out, o)
		}
		return key, nil
	}, func(e *vx.Exec, err error) {
		if ferr == nil {
			ferr = err // e.g. the lock-order deadlock also shows with atomic operations
		}
	})
	if ferr == nil && !st.Complete {
		return nil, errSeqCut
	}
	return out, ferr
}

// errSeqCut: the sequential reference of a scenario could not be completed in its budget; the
// scenario is then not judged at all (an incomplete reference would raise false alarms).
var errSeqCut = errors.New("harness-budget: sequential reference not completed")

type scExecResult struct {
	res     vsched.Result
	recs    []*vOpRec
	advStep []int
	final   string
	err     error
	outcome string
	trace   []string
}

// one concurrent execution under the scheduler
func runScenario(t *testing.T, sc vScenario, e *vx.Exec, keepTrace, atomicOps bool) (r scExecResult) {
	debug.SetGCPercent(-1)
	defer func() {
		debug.SetGCPercent(100)
	}()
	var leaked any
	func() {
		defer func() { leaked = recover() }()
		synctest.Test(t, func(*testing.T) {
			p := newPool(vTTL)
			for _, id := range sc.Init {
				p.add(peer.ID(id))
			}
			s := vsched.New(e.ChooseCost)
			s.KeepTrace = keepTrace
			s.AtomicOps = atomicOps
			// every cool-down expiry (afterCooldown of one peer) is an operation of its own
			nExp := map[peer.ID]int{}
			inner := p.cooldown.onPop
			p.cooldown.onPop = func(id peer.ID) {
				if vsched.Active() == nil {
					inner(id)
					return
				}
				if atomicOps {
					vsched.Yield("op")
				}
				var rec *vOpRec
				s.Update(func() {
					rec = &vOpRec{key: fmt.Sprintf("X.expire:%s.%d", string(id), nExp[id]), thread: -1, call: s.Steps}
					nExp[id]++
					r.recs = append(r.recs, rec)
				})
				func() {
					defer func() {
						if x := recover(); x != nil && r.err == nil {
							r.err = fmt.Errorf("C17/panic/cooldown-expiry: %v", x)
						}
					}()
					inner(id)
				}()
				rec.end = s.Steps
				rec.doneFlag = true
			}
			ctx, cancel := context.WithCancel(context.Background())
			defer cancel()
			s.OnAbort = cancel
			live := 0
			waiting := 0
			for ti, script := range sc.Threads {
				ti, script := ti, script
				live++
				s.Go(fmt.Sprintf("T%d", ti), func() {
					defer func() { s.Update(func() { live-- }) }()
					for oi, o := range script {
						if atomicOps {
							vsched.Yield("op")
						}
						rec := &vOpRec{key: fmt.Sprintf("T%d.%d", ti, oi), thread: ti, idx: oi, op: o, call: s.Steps}
						s.Update(func() { r.recs = append(r.recs, rec) })
						if o.Kind == "wait" {
							ch := p.next(ctx)
							s.Update(func() { waiting++ })
							select {
							case id := <-ch:
								rec.ret = "got:" + string(id)
							case <-ctx.Done():
								rec.ret = "cancelled"
							}
							s.Update(func() { waiting-- })
						} else {
							rec.ret = applyOp(p, o, ctx)
						}
						rec.end = s.Steps
						rec.doneFlag = true
					}
				})
			}
			advLeft := sc.Advance
			s.AddAction(vsched.ExtraAction{Name: "advance", Enabled: func() bool { return advLeft > 0 }, Do: func() {
				advLeft--
				r.advStep = append(r.advStep, s.Steps)
				time.Sleep(vTTL)
			}})
			// a waiter that is still blocked when everybody else is done: lost wake-up if a peer is
			// active, otherwise the harness cancels it
			s.AddAction(vsched.ExtraAction{Name: "cancel-wait", Idle: true, Enabled: func() bool { return waiting > 0 && live == waiting && advLeft == 0 }, Do: func() {
				if p.activeCount > 0 && r.err == nil {
					r.err = fmt.Errorf("C17/lost-wakeup: a caller of next() is still waiting although %d peer(s) are active", p.activeCount)
				}
				cancel()
			}})
			r.res = s.Run()
			cancel()
			synctest.Wait()
			r.trace = s.Trace
			var err error
			r.final, err = poolState(p)
			if r.err == nil && err != nil && !r.res.Deadlock {
				r.err = err
			}
		})
	}()
	if leaked != nil && r.err == nil && !r.res.Deadlock {
		r.err = fmt.Errorf("harness: bubble did not end cleanly: %v", leaked)
	}
	if r.res.Deadlock {
		kinds := map[string]bool{}
		for _, part := range strings.Split(r.res.Stuck, "; ") {
			if i := strings.Index(part, "waits "); i >= 0 {
				k := part[i+6:]
				if j := strings.Index(k, "("); j > 0 {
					k = k[:j]
				}
				kinds[k] = true
			}
		}
		ks := vx.SortedKeys(kinds)
		if len(r.res.Cycle) > 0 {
			ks = r.res.Cycle // only the operations on the wait-for cycle, not the bystanders
		}
		r.err = fmt.Errorf("C17/deadlock/%s: %s", strings.Join(ks, "+"), r.res.Stuck)
	}
	if r.res.Horizon && r.err == nil {
		r.err = fmt.Errorf("C17/no-termination: step horizon reached")
	}
	return r
}

// linearisable: is there a sequential outcome with the same results whose order respects the
// observed real-time order (a returned before b was called => a precedes b; an operation that
// returned before the clock advanced precedes the advance; one called after it follows it)?
func linearisable(sc vScenario, r scExecResult, seqs []seqOutcome) bool {
	recOf := map[string]*vOpRec{}
	for _, rec := range r.recs {
		recOf[rec.key] = rec
	}
	for _, so := range seqs {
		ok := len(so.advAt) == len(r.advStep) && so.final == r.final && len(so.rets) == len(recOf)
		if !ok {
			continue
		}
		for id, ret := range so.rets {
			rec := recOf[id]
			if rec == nil || rec.ret != ret {
				ok = false
				break
			}
		}
		if !ok {
			continue
		}
		posOf := map[string]int{}
		for i, x := range so.order {
			posOf[x] = i
		}
		for a, ra := range recOf {
			for b, rb := range recOf {
				if a != b && ra.doneFlag && ra.end < rb.call && posOf[a] > posOf[b] {
					ok = false
				}
			}
		}
		for i, st := range r.advStep {
			for a, ra := range recOf {
				if ra.doneFlag && ra.end < st && posOf[a] >= so.advAt[i] {
					ok = false // returned before the clock advanced, but the reference runs it after
				}
				if ra.call > st && posOf[a] < so.advAt[i] {
					ok = false // called after the clock advanced, but the reference runs it before
				}
			}
		}
		if ok {
			return true
		}
	}
	return false
}

func poolScenarios(tier string) []vScenario {
	P := func(k, p string) vOp { return vOp{Kind: k, Peer: p} }
	sc := []vScenario{
		{Name: "cool-vs-expiry", Init: []string{"p1", "p2"}, Advance: 1,
			Threads: [][]vOp{{P("cool", "p1"), P("cool", "p2")}, {P("get", ""), P("len", "")}}},
		{Name: "add-remove-get", Init: []string{"p1", "p2"},
			Threads: [][]vOp{{P("add", "p3"), P("remove", "p2")}, {P("remove", "p1"), P("get", "")}, {P("get", ""), P("len", "")}}},
		{Name: "waiter-woken-by-add", Init: nil,
			Threads: [][]vOp{{P("wait", "")}, {P("add", "p1")}, {P("len", "")}}},
		{Name: "waiter-woken-by-expiry", Init: []string{"p1"}, Advance: 1,
			Threads: [][]vOp{{P("cool", "p1"), P("wait", "")}, {P("len", ""), P("get", "")}}},
		{Name: "cool-remove-readd", Init: []string{"p1"}, Advance: 1,
			Threads: [][]vOp{{P("cool", "p1"), P("remove", "p1")}, {P("add", "p1"), P("get", "")}}},
	}
	if tier == "thorough" {
		sc = append(sc,
			vScenario{Name: "three-way-cool", Init: []string{"p1", "p2", "p3"}, Advance: 2,
				Threads: [][]vOp{{P("cool", "p1"), P("get", "")}, {P("cool", "p2"), P("remove", "p3")}, {P("get", ""), P("len", "")}}},
			vScenario{Name: "waiter-vs-remove", Init: []string{"p1"},
				Threads: [][]vOp{{P("remove", "p1"), P("wait", "")}, {P("add", "p2"), P("remove", "p2")}, {P("add", "p3")}}},
			vScenario{Name: "cool-cool-expiry-get", Init: []string{"p1", "p2"}, Advance: 2,
				Threads: [][]vOp{{P("cool", "p1"), P("get", "")}, {P("cool", "p2"), P("get", "")}, {P("has", "p1"), P("len", "")}}},
		)
	}
	return sc
}

type poolSCViolation struct {
	Sig    string `json:"sig"`
	What   string `json:"what"`
	Replay any    `json:"replay"`
}

type poolSCResult struct {
	Completed  int               `json:"completed"`
	Executions int64             `json:"executions"`
	Points     int64             `json:"points"`
	Outcomes   int               `json:"outcomes"`
	SeqOrders  int               `json:"seq_orders"`
	Exhaustive bool              `json:"exhaustive"`
	Violations []poolSCViolation `json:"violations"`
	Infra      []string          `json:"infra"`
}

// poolSCExplore: the whole exploration of one scenario in this process (single P).
func poolSCExplore(t *testing.T, sc vScenario, bounds []int, deadline time.Time) poolSCResult {
	runtime.GOMAXPROCS(1)
	res := poolSCResult{Completed: -1, Exhaustive: true}
	seen := map[string]bool{}
	viol := func(sig, what string, replay any) {
		if !seen[sig] {
			seen[sig] = true
			res.Violations = append(res.Violations, poolSCViolation{sig, what, replay})
		}
	}
	// the reference may use at most half of the scenario's budget
	seqs, serr := seqOutcomes(t, sc, time.Now().Add(time.Until(deadline)/2))
	if serr == errSeqCut {
		res.Exhaustive = false
		return res
	}
	if serr != nil {
		viol(vSigOf(serr), serr.Error(), map[string]any{"part": "pool-sc", "scenario": sc, "atomic": true})
		res.Exhaustive = false
		return res
	}
	res.SeqOrders = len(seqs)
	outcomes := map[string]int64{}
	for _, b := range bounds {
		st := vx.DFS(vx.DFSOpts{Bound: b, Deadline: deadline}, func(e *vx.Exec) (string, error) {
			r := runScenario(t, sc, e, false, false)
			var rets []string
			for _, rec := range r.recs {
				rets = append(rets, rec.key+"="+rec.ret)
			}
			sort.Strings(rets)
			outcome := strings.Join(rets, ",") + "|" + r.final
			if r.err != nil {
				return "ERR:" + vSigOf(r.err), r.err
			}
			if !linearisable(sc, r, seqs) {
				return "NONLIN", fmt.Errorf("C17/not-linearisable/%s: results %s match no sequential order of the operations (of %d orders)", sc.Name, outcome, len(seqs))
			}
			return outcome, nil
		}, func(e *vx.Exec, err error) {
			sig := vSigOf(err)
			if strings.HasPrefix(sig, "harness") {
				res.Infra = append(res.Infra, fmt.Sprintf("%v scenario=%s choices=%v", err, sc.Name, e.Choices))
				return
			}
			viol(sig, err.Error(), map[string]any{"part": "pool-sc", "scenario": sc, "choices": e.Choices, "trace": e.Trace()})
		})
		res.Executions, res.Points = st.Executions, st.ChoicePoints // bound b re-explores everything below it
		for k, v := range st.Outcomes {
			outcomes[k] = v
		}
		if !st.Complete {
			res.Exhaustive = false
			break
		}
		res.Completed = b
	}
	res.Outcomes = len(outcomes)
	return res
}

// poolSC runs one shard process per scenario (each with a single P and the whole budget).
func poolSC(t *testing.T, rep *vx.Report, deadline time.Time) bool {
	scs := poolScenarios(rep.Tier)
	tmp := os.Getenv("VERIF_TMP")
	if tmp == "" {
		tmp = t.TempDir()
	}
	results := make([]*poolSCResult, len(scs))
	errs := make([]string, len(scs))
	var wg sync.WaitGroup
	sem := make(chan struct{}, vx.Workers())
	for i, sc := range scs {
		wg.Add(1)
		go func(i int, sc vScenario) {
			defer wg.Done()
			sem <- struct{}{}
			defer func() { <-sem }()
			out := filepath.Join(tmp, fmt.Sprintf("c17-shard-%d.json", i))
			cmd := exec.Command(os.Args[0], "-test.run=^TestVerifC17$", "-test.count=1", "-test.timeout=0")
			cmd.Env = append(os.Environ(), "VERIF_C17_SCENARIO="+sc.Name, "VERIF_C17_OUT="+out,
				fmt.Sprintf("VERIF_C17_DEADLINE_MS=%d", deadline.UnixMilli()), "VERIF_EVIDENCE=", "GOMAXPROCS=1")
			ob, err := cmd.CombinedOutput()
			if err != nil {
				tail := string(ob)
				if len(tail) > 1200 {
					tail = tail[len(tail)-1200:]
				}
				errs[i] = fmt.Sprintf("shard %s: %v: %s", sc.Name, err, tail)
				return
			}
			b, err := os.ReadFile(out)
			var r poolSCResult
			if err == nil {
				err = json.Unmarshal(b, &r)
			}
			if err != nil {
				errs[i] = fmt.Sprintf("shard %s: %v", sc.Name, err)
				return
			}
			results[i] = &r
		}(i, sc)
	}
	wg.Wait()
	exhaustive := true
	for i, sc := range scs {
		if errs[i] != "" {
			rep.Infra(errs[i])
			exhaustive = false
			continue
		}
		r := results[i]
		for _, inf := range r.Infra {
			rep.Infra(inf)
		}
		for _, v := range r.Violations {
			rep.Violation(v.Sig, v.What, v.Replay)
		}
		exhaustive = exhaustive && r.Exhaustive
		// stateless search: states = distinct terminal outcomes, transitions = scheduling decisions taken
		rep.Count(r.Executions, int64(r.Outcomes), int64(r.Outcomes), r.Points)
		rep.Set("pool_sc_"+sc.Name, map[string]any{
			"threads": sc.Threads, "init": sc.Init, "advance": sc.Advance,
			"preemption_bound_completed": r.Completed, "executions_at_last_bound": r.Executions,
			"distinct_outcomes": r.Outcomes, "sequential_reference_orders": r.SeqOrders, "scheduling_decisions": r.Points,
		})
	}
	return exhaustive
}

func vSigOf(err error) string {
	msg := err.Error()
	if i := strings.Index(msg, ":"); i > 0 {
		return msg[:i]
	}
	return msg
}

func replayPoolSC(t *testing.T, rep *vx.Report, raw json.RawMessage) {
	var doc struct {
		Scenario vScenario `json:"scenario"`
		Choices  []int     `json:"choices"`
	}
	if err := json.Unmarshal(raw, &doc); err != nil {
		t.Fatal(err)
	}
	runtime.GOMAXPROCS(1)
	seqs, _ := seqOutcomes(t, doc.Scenario, time.Time{})
	var first string
	var verr error
	for i := 0; i < 5; i++ {
		e := vx.NewExec(doc.Choices)
		r := runScenario(t, doc.Scenario, e, true, false)
		err := r.err
		if err == nil && !linearisable(doc.Scenario, r, seqs) {
			err = fmt.Errorf("C17/not-linearisable/%s: final %s", doc.Scenario.Name, r.final)
		}
		obs := fmt.Sprintf("%v|%v|%s", err, r.trace, r.final)
		if i == 0 {
			first = obs
			fmt.Printf("REPLAY-TRACE %s\n", strings.Join(r.trace, " -> "))
		} else if obs != first {
			t.Fatalf("NONDETERMINISM: replay %d differs:\n%s\n%s", i, first, obs)
		}
		verr = err
	}
	rep.Count(5, 2, 0, 0)
	rep.AddSample(doc)
	if verr != nil {
		fmt.Printf("REPLAY-RESULT violation reproduced 5/5: %v\n", verr)
		rep.Violation(vSigOf(verr), verr.Error(), doc)
	} else {
		fmt.Println("REPLAY-RESULT no violation")
	}
}

func TestVerifC17(t *testing.T) {
	logging.SetAllLoggers(logging.LevelFatal)
	rep := vx.NewReport("C17", "model_checking")
	rep.Rule = "part A: every interleaving (preemption bound per scenario in coverage) of 2-3 harness threads + timer-callback thread + clock-advance action over the real pool/timedQueue with sync import-rewritten to a cooperative scheduler; " +
		"part B: BFS over all operation sequences (add/remove/get/cool/len/advance half-TTL) on the real pool against a list+status reference model; " +
		"part C: BFS over manager event histories. distinct_nontrivial counts distinct outcomes (return values + final statuses) / distinct model states"
	rep.Assumptions = []string{
		"scheduling points at lock/atomic/sync.Map operations are sufficient because the pool has no unsynchronised shared accesses (free-running -race pass in thorough tier)",
		"RWMutex writer preference modelled by arrival order",
	}
	if rp := os.Getenv("VERIF_REPLAY"); rp != "" {
		b, err := os.ReadFile(rp)
		if err != nil {
			t.Fatal(err)
		}
		var doc struct {
			Replay json.RawMessage `json:"replay"`
		}
		_ = json.Unmarshal(b, &doc)
		var part struct {
			Part string `json:"part"`
		}
		_ = json.Unmarshal(doc.Replay, &part)
		switch part.Part {
		case "pool-sc":
			replayPoolSC(t, rep, doc.Replay)
		default:
			replayOther(t, rep, part.Part, doc.Replay)
		}
		rep.Finish()
		return
	}
	// shard process of part A: one scenario, result to a file, nothing else
	if name := os.Getenv("VERIF_C17_SCENARIO"); name != "" {
		bounds := []int{0, 1, 2}
		if rep.Tier == "thorough" {
			bounds = []int{0, 1, 2, 3}
		}
		for _, sc := range poolScenarios(rep.Tier) {
			if sc.Name == name {
				dl, _ := strconv.ParseInt(os.Getenv("VERIF_C17_DEADLINE_MS"), 10, 64)
				res := poolSCExplore(t, sc, bounds, time.UnixMilli(dl))
				b, _ := json.Marshal(res)
				if err := os.WriteFile(os.Getenv("VERIF_C17_OUT"), b, 0o644); err != nil {
					t.Fatal(err)
				}
			}
		}
		return
	}
	deadline := rep.Deadline(80*time.Second, 18*time.Minute)
	// each part gets its own share of the budget (a cut part must not starve the others)
	total := time.Until(deadline)
	start := time.Now()
	ex := managerEV(t, rep, start.Add(total*4/10))
	ex = poolSeq(t, rep, start.Add(total*6/10)) && ex
	ex = poolSC(t, rep, deadline) && ex
	rep.SetExhaustive(ex)
	if rep.Finish() > 0 {
		t.Fail()
	}
}
