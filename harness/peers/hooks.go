package peers

import (
	"context"
	"time"

	"github.com/libp2p/go-libp2p/core/peer"
)

// vPrefer owns the pseudo-random choice Go's select makes in Manager.Peer when the hash pool
// and the discovered-nodes pool both deliver a peer to a blocked caller at the same instant.
// 0 = untouched (production behaviour), 1 = the hash pool wins, 2 = the node pool wins.
// The losing channel's value is forwarded one nanosecond of (fake) time later, i.e. only after
// the bubble became quiescent, so the winner is taken whenever both were ready together.
// Injected by a textual overlay rewrite of the two `case peerID = <-….next(ctx):` lines.
var vPrefer int

func vDelay(ctx context.Context, which int, ch <-chan peer.ID) <-chan peer.ID {
	if vPrefer == 0 || vPrefer == which {
		return ch
	}
	out := make(chan peer.ID, 1)
	go func() {
		select {
		case v := <-ch:
			time.Sleep(time.Nanosecond)
			out <- v
		case <-ctx.Done():
		}
	}()
	return out
}

// vSorted owns the Go map iteration order of pool.peers() where it decides the order in which
// peers are appended to the discovered-nodes list (validatedPool).
func vSorted(ps []peer.ID) []peer.ID {
	out := append([]peer.ID(nil), ps...)
	for i := 1; i < len(out); i++ {
		for j := i; j > 0 && out[j] < out[j-1]; j-- {
			out[j], out[j-1] = out[j-1], out[j]
		}
	}
	return out
}
