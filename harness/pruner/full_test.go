package pruner

// Part C of the C14 harness: the real full.ShareAvailability.Prune (the pruner.Pruner of bridge
// nodes) on a real store.Store, archival vs pruned, for every listed square width and scenario.

import (
	"bytes"
	"context"
	"encoding/binary"
	"fmt"
	"os"
	"runtime/debug"

	"github.com/ipfs/go-datastore"
	"github.com/ipfs/go-datastore/namespace"
	"github.com/celestiaorg/celestia-app/v9/pkg/wrapper"
	libshare "github.com/celestiaorg/go-square/v4/share"
	"github.com/celestiaorg/rsmt2d"

	"github.com/celestiaorg/celestia-node/header"
	"github.com/celestiaorg/celestia-node/share"
	fullavail "github.com/celestiaorg/celestia-node/share/availability/full"
	"github.com/celestiaorg/celestia-node/share/shwap"
	"github.com/celestiaorg/celestia-node/store"
)

type fullCase struct {
	Width    int    `json:"ods_width"` // 0 = empty block
	Archival bool   `json:"archival"`
	Repeat   int    `json:"prunes"`    // how often the height is pruned (the Service may prune a height again)
	Other    string `json:"neighbour"` // what else is stored: "none", "same-width", "empty", "both"
}

func (c fullCase) String() string {
	return fmt.Sprintf("ods=%d archival=%v prunes=%d neighbour=%s", c.Width, c.Archival, c.Repeat, c.Other)
}

// detEDS builds a deterministic square: one namespace, payload = counter (so any misplaced
// share would be visible).
func detEDS(width int, seed byte) (*rsmt2d.ExtendedDataSquare, error) {
	ns, err := libshare.NewV0Namespace(bytes.Repeat([]byte{seed}, libshare.NamespaceVersionZeroIDSize))
	if err != nil {
		return nil, err
	}
	raw := make([][]byte, width*width)
	for i := range raw {
		b := make([]byte, libshare.ShareSize)
		copy(b, ns.Bytes())
		b[libshare.NamespaceSize] = 0x01 // share version 0, sequence start
		binary.BigEndian.PutUint32(b[libshare.NamespaceSize+1:], uint32(libshare.ShareSize))
		for j := libshare.NamespaceSize + 5; j+3 < len(b); j += 4 {
			binary.BigEndian.PutUint16(b[j:], uint16(i))
			b[j+2] = seed
			b[j+3] = byte(j)
		}
		raw[i] = b
	}
	return rsmt2d.ComputeExtendedDataSquare(raw, share.DefaultRSMT2DCodec(), wrapper.NewConstructor(uint64(width)))
}

type fullBlock struct {
	h     uint64
	eds   *rsmt2d.ExtendedDataSquare
	roots *share.AxisRoots
	eh    *header.ExtendedHeader
	empty bool
}

func mkBlock(h uint64, width int, seed byte) (*fullBlock, error) {
	var eds *rsmt2d.ExtendedDataSquare
	var err error
	if width == 0 {
		eds = share.EmptyEDS()
	} else if eds, err = detEDS(width, seed); err != nil {
		return nil, err
	}
	roots, err := share.NewAxisRoots(eds)
	if err != nil {
		return nil, err
	}
	eh := pHeader(h, pT0)
	eh.DAH = roots
	return &fullBlock{h, eds, roots, eh, width == 0}, nil
}

// servable checks that everything a peer may ask for about the block is still answered from
// the store and verifies against the reference square.
func servable(ctx context.Context, st *store.Store, b *fullBlock) error {
	acc, err := st.GetByHeight(ctx, b.h)
	if err != nil {
		return fmt.Errorf("GetByHeight(%d): %v", b.h, err)
	}
	defer acc.Close()
	n := int(b.eds.Width())
	for r := 0; r < n; r++ {
		for c := 0; c < n; c++ {
			smp, err := acc.Sample(ctx, shwap.SampleCoords{Row: r, Col: c})
			if err != nil {
				return fmt.Errorf("Sample(%d,%d): %v", r, c, err)
			}
			if !bytes.Equal(smp.Share.ToBytes(), b.eds.GetCell(uint(r), uint(c))) {
				return fmt.Errorf("Sample(%d,%d) returns other bytes than the square holds", r, c)
			}
			if err := smp.Verify(b.roots, r, c); err != nil {
				return fmt.Errorf("Sample(%d,%d) does not verify: %v", r, c, err)
			}
		}
	}
	for _, axis := range []rsmt2d.Axis{rsmt2d.Row, rsmt2d.Col} {
		for i := 0; i < n; i++ {
			half, err := acc.AxisHalf(ctx, axis, i)
			if err != nil {
				return fmt.Errorf("AxisHalf(%v,%d): %v", axis, i, err)
			}
			ext, err := half.Extended()
			if err != nil {
				return fmt.Errorf("AxisHalf(%v,%d).Extended: %v", axis, i, err)
			}
			var want [][]byte
			if axis == rsmt2d.Row {
				want = b.eds.Row(uint(i))
			} else {
				want = b.eds.Col(uint(i))
			}
			if len(ext) != len(want) {
				return fmt.Errorf("AxisHalf(%v,%d): %d shares, want %d", axis, i, len(ext), len(want))
			}
			for k := range ext {
				if !bytes.Equal(ext[k].ToBytes(), want[k]) {
					return fmt.Errorf("AxisHalf(%v,%d) share %d differs from the square", axis, i, k)
				}
			}
		}
	}
	shs, err := acc.Shares(ctx)
	if err != nil {
		return fmt.Errorf("Shares: %v", err)
	}
	ods := n / 2
	if len(shs) != ods*ods {
		return fmt.Errorf("Shares: %d shares, want %d", len(shs), ods*ods)
	}
	for i, s := range shs {
		if !bytes.Equal(s.ToBytes(), b.eds.GetCell(uint(i/ods), uint(i%ods))) {
			return fmt.Errorf("Shares: share %d differs from the square", i)
		}
	}
	byHash, err := st.GetByHash(ctx, b.roots.Hash())
	if err != nil {
		return fmt.Errorf("GetByHash: %v", err)
	}
	return byHash.Close()
}

func runFullCase(c fullCase, dir string) (outcome string, err error) {
	defer func() {
		if r := recover(); r != nil {
			err = fmt.Errorf("C14/panic/full-prune: Prune of the full-availability pruner (or a read after it) panics: %s", panicMsg(r, debug.Stack()))
		}
	}()
	ctx := context.Background()
	d, e := os.MkdirTemp(dir, "c14full")
	if e != nil {
		return "", fmt.Errorf("harness: %v", e)
	}
	defer os.RemoveAll(d)
	st, e := store.NewStore(store.DefaultParameters(), d)
	if e != nil {
		return "", fmt.Errorf("harness: NewStore: %v", e)
	}
	defer st.Stop(ctx)

	target, e := mkBlock(5, c.Width, 0x11)
	if e != nil {
		return "", fmt.Errorf("harness: %v", e)
	}
	var others []*fullBlock
	if c.Other == "same-width" || c.Other == "both" {
		w := c.Width
		if w == 0 {
			w = 2
		}
		b, e := mkBlock(6, w, 0x22)
		if e != nil {
			return "", fmt.Errorf("harness: %v", e)
		}
		others = append(others, b)
	}
	if c.Other == "empty" || c.Other == "both" {
		b, e := mkBlock(7, 0, 0)
		if e != nil {
			return "", fmt.Errorf("harness: %v", e)
		}
		others = append(others, b)
	}
	for _, b := range append([]*fullBlock{target}, others...) {
		if e := st.PutODSQ4(ctx, b.roots, b.h, b.eds); e != nil {
			return "", fmt.Errorf("harness: PutODSQ4(%d): %v", b.h, e)
		}
	}
	// positive control: everything is servable before
	for _, b := range append([]*fullBlock{target}, others...) {
		if e := servable(ctx, st, b); e != nil {
			return "", fmt.Errorf("harness: block %d not servable before any prune: %v", b.h, e)
		}
	}
	var opts []fullavail.Option
	if c.Archival {
		opts = append(opts, fullavail.WithArchivalMode())
	}
	fa := fullavail.NewShareAvailability(st, nil, opts...)
	var p Pruner = fa
	for i := 0; i < c.Repeat; i++ {
		if e := p.Prune(ctx, target.eh); e != nil {
			return "", fmt.Errorf("C14/full-prune/error-on-prune-%d: Prune(height %d) #%d failed: %v (the Service prunes a height again after a partial failure, so a repeated prune must succeed)",
				min(i+1, 2), target.h, i+1, e)
		}
	}
	hasH, _ := st.HasByHeight(ctx, target.h)
	hasHash, _ := st.HasByHash(ctx, target.roots.Hash())
	hasQ4, _ := st.HasQ4ByHash(ctx, target.roots.Hash())
	if c.Archival {
		if c.Width > 0 && hasQ4 {
			return "", fmt.Errorf("C14/full-prune/archival-keeps-q4: after an archival prune the Q4 file of height %d is still there", target.h)
		}
		if !hasH || !hasHash {
			return "", fmt.Errorf("C14/full-prune/archival-removes-ods: after an archival prune height %d: byHeight=%v byHash=%v", target.h, hasH, hasHash)
		}
		if e := servable(ctx, st, target); e != nil {
			return "", fmt.Errorf("C14/full-prune/archival-not-servable: after an archival prune height %d is no longer fully servable: %v", target.h, e)
		}
	} else {
		if hasH {
			return "", fmt.Errorf("C14/full-prune/pruned-keeps-height: after a prune height %d is still stored", target.h)
		}
		if c.Width > 0 && (hasHash || hasQ4) {
			return "", fmt.Errorf("C14/full-prune/pruned-keeps-files: after a prune of height %d: ODS by hash=%v Q4=%v", target.h, hasHash, hasQ4)
		}
	}
	for _, b := range others {
		if e := servable(ctx, st, b); e != nil {
			return "", fmt.Errorf("C14/full-prune/neighbour-damaged: pruning height %d (archival=%v) damaged height %d: %v", target.h, c.Archival, b.h, e)
		}
		if q4, _ := st.HasQ4ByHash(ctx, b.roots.Hash()); !q4 && !b.empty {
			return "", fmt.Errorf("C14/full-prune/neighbour-damaged: pruning height %d removed the Q4 file of height %d", target.h, b.h)
		}
	}
	return fmt.Sprintf("archival=%v byHeight=%v byHash=%v q4=%v", c.Archival, hasH, hasHash, hasQ4), nil
}

// runConvertCases: the one-way archival -> pruned switch (full.ConvertFromArchivalToPruned).
func runConvertCases() (n int, outcomes map[string]int, err error) {
	defer func() {
		if r := recover(); r != nil {
			err = fmt.Errorf("C14/panic/convert: ConvertFromArchivalToPruned panics: %s", panicMsg(r, debug.Stack()))
		}
	}()
	ctx := context.Background()
	outcomes = map[string]int{}
	for _, prev := range []string{"archival", "pruned"} {
		for _, nowArchival := range []bool{true, false} {
			for _, twice := range []bool{false, true} {
				n++
				ds := datastore.NewMapDatastore()
				if e := namespace.Wrap(ds, datastore.NewKey("full_avail")).Put(ctx, datastore.NewKey("previous_mode"), []byte(prev)); e != nil {
					return n, outcomes, fmt.Errorf("harness: %v", e)
				}
				conv, e := fullavail.ConvertFromArchivalToPruned(ctx, ds, nowArchival)
				want := prev == "archival" && !nowArchival
				wantErr := prev == "pruned" && nowArchival
				if (e != nil) != wantErr || conv != want {
					return n, outcomes, fmt.Errorf("C14/convert/wrong-answer: previous mode %s, now archival=%v: convert=%v err=%v, want convert=%v err=%v", prev, nowArchival, conv, e, want, wantErr)
				}
				if twice && e == nil {
					conv2, e2 := fullavail.ConvertFromArchivalToPruned(ctx, ds, nowArchival)
					if conv2 || e2 != nil {
						return n, outcomes, fmt.Errorf("C14/convert/not-once: second start (previous mode %s, archival=%v) converts again: %v %v", prev, nowArchival, conv2, e2)
					}
					if want {
						// and the node can no longer go back
						if _, e3 := fullavail.ConvertFromArchivalToPruned(ctx, ds, true); e3 == nil {
							return n, outcomes, fmt.Errorf("C14/convert/revert-allowed: after converting to pruned the node may start as archival again")
						}
					}
				}
				outcomes[fmt.Sprintf("convert=%v err=%v", conv, e != nil)]++
			}
		}
	}
	return n, outcomes, nil
}
