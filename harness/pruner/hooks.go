package pruner

import (
	"runtime/debug"
	"sort"
	"sync"
)

// pRetryOrder / pFailedKeys own the iteration order of
// `for failed := range s.checkpoint.FailedHeaders` in Service.retryFailed. Go's map order is
// random; with a blocking fake Pruner it decides which retry call is pending first, so event
// histories would not be replayable. 0 = ascending heights, 1 = descending. Iterating over a
// snapshot of the keys is equivalent to the original loop, which only ever deletes the key it
// is currently visiting.
var pRetryOrder int

func pFailedKeys(m map[uint64]struct{}) []uint64 {
	ks := make([]uint64, 0, len(m))
	for k := range m {
		ks = append(ks, k)
	}
	sort.Slice(ks, func(i, j int) bool {
		if pRetryOrder == 1 {
			return ks[i] > ks[j]
		}
		return ks[i] < ks[j]
	})
	return ks
}

// pGuardGo runs f (Service.run, started by Service.Start with `go s.run()`) and turns a panic
// of that goroutine - which the harness cannot recover because the code under test creates the
// goroutine itself - into an entry of pPanics keyed by the Service. Deferred functions of the
// panicking frames (mutex unlock, close(doneCh)) have already run when the entry is stored.
// Injected by the overlay rewrite of `go s.run()`.
var pPanics sync.Map // *Service -> pPanic

type pPanic struct {
	Value any
	Stack []byte
}

func pGuardGo(s *Service, f func()) {
	defer func() {
		if r := recover(); r != nil {
			pPanics.Store(s, pPanic{r, debug.Stack()})
		}
	}()
	f()
}
