package pruner

import "sort"

// pRetryOrder / pFailedKeys own the iteration order of
// `for failed := range s.checkpoint.FailedHeaders` in Service.retryFailed. Go's map order is
// random; with a blocking fake Pruner it decides which retry call is pending first, so event
// histories would not be replayable. 0 = ascending heights, 1 = descending. Iterating over a
// snapshot of the keys is equivalent to the original loop, which only ever deletes the key it
// is currently visiting.
var pRetryOrder int

func pFailedKeys(m map[uint64]struct{}) []uint64 {
	ks := make([]uint64, 0, len(m))
	for k := range m {
		ks = append(ks, k)
	}
	sort.Slice(ks, func(i, j int) bool {
		if pRetryOrder == 1 {
			return ks[i] > ks[j]
		}
		return ks[i] < ks[j]
	})
	return ks
}
