package pruner

// Part A of the C14 harness: bounded-exhaustive enumeration of header chains x window x batch
// limit x initial tail x head schedule x per-height failure plan, each run through the real
// Service.prune (synchronously, as the package's own tests call it).

import (
	"context"
	"fmt"
	"sync"
	"sync/atomic"
	"time"
)

type seqCase struct {
	Cfg   pCfg  `json:"cfg"`
	Plan  []int `json:"plan"`  // index = height; 0 ok, 1 fails once then ok, 2 fails always
	Sched int   `json:"sched"` // 0 head = N from the start; 1 head grows by one before every cycle; 2 as 0 with a crash-restart before every cycle
}

func (c seqCase) String() string {
	return fmt.Sprintf("%s plan=%v sched=%d", c.Cfg, c.Plan[1:], c.Sched)
}

func ceilDiv(a, b int) int { return (a + b - 1) / b }

// runSeqCase executes one case. maxHeadersPerLoop and pRetryOrder must already be set.
func runSeqCase(c seqCase) (outcome string, calls int64, err error) {
	cfg := c.Cfg
	w := newPWorld(cfg)
	w.plan = c.Plan
	ctx, cancel := context.WithCancel(context.Background())
	defer cancel()

	var svc *Service
	mk := func() error {
		w.handlers = nil
		var s *Service
		var e error
		if pe := pGuard("load", func() {
			s, e = NewService(pPruner{w}, w.window(), pStore{w}, w.ds, pBT, WithPruneCycle(pCycle))
		}); pe != nil {
			return pe
		}
		if e != nil {
			return fmt.Errorf("harness: NewService: %v", e)
		}
		s.ctx, s.cancel = ctx, cancel
		if pe := pGuard("load", func() {
			s.checkpointMu.Lock()
			defer s.checkpointMu.Unlock()
			e = s.loadCheckpoint(ctx)
		}); pe != nil {
			return pe
		}
		if e != nil {
			return fmt.Errorf("harness: loadCheckpoint: %v", e)
		}
		if svc != nil && w.persisted != nil {
			// restart: what is loaded is what was persisted
			if s.checkpoint.LastPrunedHeight != w.persisted.LastPrunedHeight || cpString(s.checkpoint) != cpString(w.persisted) {
				return fmt.Errorf("C14/checkpoint-lost-on-restart: loaded %s but persisted was %s", cpString(s.checkpoint), cpString(w.persisted))
			}
		}
		svc = s
		return nil
	}
	nonTerm := false
	cycle := func() error {
		w.callsInCycle = 0
		w.cycleLog = w.cycleLog[:0]
		w.onBound = func() { nonTerm = true; cancel() }
		before := svc.checkpoint.LastPrunedHeight
		if pe := pGuard("cycle", func() { svc.prune(ctx) }); pe != nil {
			// the instance is poisoned (it may still hold its mutex): the case ends here and the
			// next case builds a fresh one
			return pe
		}
		if nonTerm {
			detail := nonTermDetail(w.cycleLog, cfg.Batch)
			return fmt.Errorf("C14/cycle-no-termination/%s: one pruning cycle issued more than %d Prune calls (chain of %d headers, batch limit %d) and was still going; last calls %v",
				detail, w.callBound, cfg.N(), cfg.Batch, tailLog(w.cycleLog, 2*cfg.Batch))
		}
		if w.viol != "" {
			return fmt.Errorf("%s", w.viol)
		}
		if svc.checkpoint.LastPrunedHeight < before {
			return fmt.Errorf("C14/checkpoint-moved-backwards/memory: in-memory last pruned height went %d -> %d in one cycle", before, svc.checkpoint.LastPrunedHeight)
		}
		return nil
	}
	step := func() error {
		if c.Sched == 2 {
			if e := mk(); e != nil {
				return e
			}
		}
		return cycle()
	}

	if e := mk(); e != nil {
		return "", w.calls, e
	}
	if c.Sched == 1 {
		for {
			if e := step(); e != nil {
				return "", w.calls, e
			}
			if w.head >= cfg.N() {
				break
			}
			w.head++
		}
	}
	k := ceilDiv(int(cfg.N()), cfg.Batch) + 1
	for i := 0; i < k; i++ {
		if e := step(); e != nil {
			return "", w.calls, e
		}
	}
	req := w.required()
	for _, h := range req {
		if _, f := svc.checkpoint.FailedHeaders[h]; !w.pruned[h] && !f {
			return "", w.calls, fmt.Errorf("C14/never-pruned/%s: after %d terminating cycles height %d (age %v > window %v + blocktime %v, start point %d) is neither pruned nor in the failed set; checkpoint %s",
				w.unprunedMechanism(h, svc.checkpoint), k, h, w.age(h), w.window(), pBT, w.start, cpString(svc.checkpoint))
		}
		if _, f := w.persisted.FailedHeaders[h]; !w.pruned[h] && !f {
			return "", w.calls, fmt.Errorf("C14/never-pruned/failed-not-persisted: height %d is failed in memory but the persisted checkpoint %s does not record it", h, cpString(w.persisted))
		}
	}
	// two more cycles: transient failures are over, persistent ones must be retried every cycle
	for i := 0; i < 2; i++ {
		if e := step(); e != nil {
			return "", w.calls, e
		}
	}
	nf := 0
	for _, h := range req {
		if c.Plan[h] != 2 {
			if !w.pruned[h] {
				return "", w.calls, fmt.Errorf("C14/never-pruned/%s: height %d (age %v > window %v + blocktime) whose prune succeeds from the 2nd attempt on is still not pruned after %d cycles; checkpoint %s",
					w.unprunedMechanism(h, svc.checkpoint), h, w.age(h), w.window(), k+2, cpString(svc.checkpoint))
			}
			continue
		}
		nf++
		if _, f := svc.checkpoint.FailedHeaders[h]; !f {
			return "", w.calls, fmt.Errorf("C14/never-pruned/%s: persistently failing height %d is not in the failed set; checkpoint %s",
				w.unprunedMechanism(h, svc.checkpoint), h, cpString(svc.checkpoint))
		}
		seen := false
		for _, l := range w.cycleLog {
			if l.H == h {
				seen = true
			}
		}
		if !seen {
			return "", w.calls, fmt.Errorf("C14/failed-not-retried: height %d is recorded as failed but the last cycle made no Prune call for it; calls %v", h, w.cycleLog)
		}
	}
	np := 0
	for h := range w.pruned {
		_ = h
		np++
	}
	return fmt.Sprintf("required=%d pruned=%d stillfailed=%d", len(req), np, nf), w.calls, nil
}

func tailLog(l []pLog, n int) []pLog {
	if len(l) > n {
		return l[len(l)-n:]
	}
	return l
}

// seqSpace describes one enumeration.
type seqSpace struct {
	MinN, MaxN int
	GapAlpha   []int
	Wins       []int
	Batches    []int
	Tails      []uint64
	Scheds     []int
	PlanAlpha  []int // per candidate height; {0} = no failures
}

type seqStats struct {
	Cases, Nontrivial, Calls int64
	Outcomes                 map[string]int64
	Complete                 bool
	Sample                   []seqCase
	PerN                     map[int]int64
}

// enumSeq enumerates the whole space; report is called for every violating case.
func enumSeq(sp seqSpace, deadline time.Time, workers int, report func(c seqCase, err error)) seqStats {
	st := seqStats{Outcomes: map[string]int64{}, Complete: true, PerN: map[int]int64{}}
	var mu sync.Mutex
	var stop atomic.Bool
	for _, batch := range sp.Batches {
		maxHeadersPerLoop = batch
		pRetryOrder = 0
		ch := make(chan seqCase, 256)
		var wg sync.WaitGroup
		for i := 0; i < workers; i++ {
			wg.Add(1)
			go func() {
				defer wg.Done()
				local := map[string]int64{}
				var cases, nontriv, calls int64
				for c := range ch {
					if stop.Load() {
						continue
					}
					var out string
					var n int64
					var err error
					if pe := pGuard("harness", func() { out, n, err = runSeqCase(c) }); pe != nil {
						err = fmt.Errorf("harness: panic outside the guarded phases: %v", pe)
					}
					cases++
					calls += n
					if n > 0 {
						nontriv++
					}
					if err != nil {
						out = "VIOLATION"
						report(c, err)
					}
					local[out]++
				}
				mu.Lock()
				st.Cases += cases
				st.Nontrivial += nontriv
				st.Calls += calls
				for k, v := range local {
					st.Outcomes[k] += v
				}
				mu.Unlock()
			}()
		}
		var produced int64
		for n := sp.MinN; n <= sp.MaxN && !stop.Load(); n++ {
			gaps := make([]int, n-1)
			var recGaps func(i int)
			recGaps = func(i int) {
				if stop.Load() {
					return
				}
				if i == len(gaps) {
					for _, win := range sp.Wins {
						for _, tail := range sp.Tails {
							if int(tail) >= n {
								continue
							}
							cfg := pCfg{Gaps: append([]int(nil), gaps...), Win: win, Batch: batch, Tail0: tail, Head0: uint64(n)}
							// candidate heights: prunable at the final head
							w := newPWorld(cfg)
							var cand []uint64
							for h := tail; h <= uint64(n); h++ {
								if (h > tail || h == 1) && w.age(h) >= w.window() {
									cand = append(cand, h)
								}
							}
							plan := make([]int, n+1)
							var recPlan func(j int)
							recPlan = func(j int) {
								if j == len(cand) {
									for _, sched := range sp.Scheds {
										c := seqCase{Cfg: cfg, Plan: append([]int(nil), plan...), Sched: sched}
										if sched == 1 {
											c.Cfg.Head0 = tail
										}
										ch <- c
										produced++
										mu.Lock()
										st.PerN[n]++
										if produced%9973 == 1 && len(st.Sample) < 4 {
											st.Sample = append(st.Sample, c)
										}
										mu.Unlock()
									}
									if produced%512 == 0 && time.Now().After(deadline) {
										stop.Store(true)
									}
									return
								}
								for _, p := range sp.PlanAlpha {
									if stop.Load() {
										return
									}
									plan[cand[j]] = p
									recPlan(j + 1)
								}
								plan[cand[j]] = 0
							}
							recPlan(0)
						}
					}
					return
				}
				for _, g := range sp.GapAlpha {
					gaps[i] = g
					recGaps(i + 1)
				}
			}
			recGaps(0)
		}
		close(ch)
		wg.Wait()
	}
	if stop.Load() {
		st.Complete = false
	}
	return st
}
