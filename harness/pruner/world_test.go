package pruner

// Shared part of the C14 harness: header chain, fake header store, datastore wrapper with a
// checkpoint hook, fake Pruner, ground truth and the oracles that are evaluated at the moment
// something happens (a Prune call, a checkpoint write).

import (
	"context"
	"encoding/json"
	"errors"
	"fmt"
	"os"
	"runtime/debug"
	"sort"
	"strings"
	"sync"
	"time"

	"github.com/cometbft/cometbft/types"
	"github.com/ipfs/go-datastore"
	ds_sync "github.com/ipfs/go-datastore/sync"

	libhead "github.com/celestiaorg/go-header"

	"github.com/celestiaorg/celestia-node/header"
	"github.com/celestiaorg/celestia-node/share"
)

const (
	pBT    = 10 * time.Second // configured block time handed to the Service
	pUnit  = pBT / 2          // gaps and windows are given in this unit
	pCycle = time.Hour        // prune cycle of the Service (fake clock in bubbles)
)

var pT0 = time.Unix(1_700_000_000, 0).UTC()

// pCfg is one configuration of the world.
type pCfg struct {
	Gaps       []int  `json:"gaps"`  // gap between header i and i+1 in units of blockTime/2; heights 1..len(Gaps)+1
	Win        int    `json:"win"`   // availability window in units of blockTime/2
	Batch      int    `json:"batch"` // maxHeadersPerLoop
	Tail0      uint64 `json:"tail0"`
	Head0      uint64 `json:"head0"`
	RetryOrder int    `json:"retry_order"`
	Crash      bool   `json:"crash"`
	Convert    bool   `json:"convert"`
}

func (c pCfg) N() uint64 { return uint64(len(c.Gaps) + 1) }

func (c pCfg) String() string {
	g := make([]string, len(c.Gaps))
	for i, x := range c.Gaps {
		g[i] = map[int]string{1: "h", 2: "1", 6: "3"}[x]
		if g[i] == "" {
			g[i] = fmt.Sprint(x)
		}
	}
	return fmt.Sprintf("gaps=%s(x blocktime; h=1/2),window=%gbt,batch=%d,tail0=%d,head0=%d,retryorder=%d,crash=%v,convert=%v",
		strings.Join(g, ""), float64(c.Win)/2, c.Batch, c.Tail0, c.Head0, c.RetryOrder, c.Crash, c.Convert)
}

func pHeader(h uint64, t time.Time) *header.ExtendedHeader {
	return &header.ExtendedHeader{
		Commit:    &types.Commit{},
		RawHeader: header.RawHeader{Height: int64(h), Time: t},
		DAH:       &share.AxisRoots{RowRoots: make([][]byte, 0)},
	}
}

// ---------------------------------------------------------------- world

type pCall struct {
	h    uint64
	kind string // "c" = pruning cycle (retry or batch), "d" = on-delete handler
	seq  int
	ans  chan error
}

type pLog struct {
	H    uint64
	Kind string
	OK   bool
}

type pWorld struct {
	cfg   pCfg
	chain []*header.ExtendedHeader // index = height, chain[0] unused
	head  uint64
	tail  uint64

	handlers []func(context.Context, uint64) error
	ds       *pDatastore

	// answer mode: plan != nil => synchronous answers from a per-height plan
	// (0 ok, 1 fails once then ok, 2 fails always); otherwise calls block until answered.
	plan     []int
	attempts map[uint64]int
	dead     bool // process is gone / instance being torn down: calls fail at once, nothing is recorded

	mu      sync.Mutex
	pending []*pCall
	seq     int

	// ground truth
	start     uint64          // the pruner's starting point
	pruned    map[uint64]bool // Prune(h) answered ok at least once (in the current mode)
	wasFailed map[uint64]bool // h has been in a checkpoint's failed set
	calls     int64
	callsInCycle int
	cycleLog  []pLog
	callBound int
	onBound   func() // called once when callsInCycle exceeds callBound

	persisted    *checkpoint
	persistedRaw string
	puts         int
	inReset      bool
	resets       int

	viol string // first violation (sticky)
}

func newPWorld(cfg pCfg) *pWorld {
	w := &pWorld{cfg: cfg, head: cfg.Head0, tail: cfg.Tail0, start: cfg.Tail0,
		pruned: map[uint64]bool{}, wasFailed: map[uint64]bool{}, attempts: map[uint64]int{}}
	n := cfg.N()
	w.chain = make([]*header.ExtendedHeader, n+1)
	t := pT0
	for h := uint64(1); h <= n; h++ {
		w.chain[h] = pHeader(h, t)
		if h < n {
			t = t.Add(time.Duration(cfg.Gaps[h-1]) * pUnit)
		}
	}
	w.ds = &pDatastore{Datastore: ds_sync.MutexWrap(datastore.NewMapDatastore()), w: w}
	// generous bound on Prune calls of one terminating cycle: every stored header may be
	// retried once and attempted in at most one batch per cursor position
	w.callBound = int(n)*(cfg.Batch+1) + cfg.Batch + 2
	if cfg.Batch > int(n) {
		w.callBound = int(n)*(int(n)+1) + 2
	}
	return w
}

func (w *pWorld) window() time.Duration { return time.Duration(w.cfg.Win) * pUnit }

func (w *pWorld) age(h uint64) time.Duration { return w.chain[w.head].Time().Sub(w.chain[h].Time()) }

func (w *pWorld) violate(format string, a ...any) {
	if w.viol == "" {
		w.viol = fmt.Sprintf(format, a...)
	}
}

// required: heights after the starting point that are older than window+blockTime w.r.t. the
// current store head.
func (w *pWorld) required() []uint64 {
	var out []uint64
	for h := w.start + 1; h <= w.head; h++ {
		if w.age(h) > w.window()+pBT {
			out = append(out, h)
		}
	}
	return out
}

// ---------------------------------------------------------------- fake Pruner

type pDelKey struct{}

type pPruner struct{ w *pWorld }

var errPruneFailed = errors.New("verif: prune failed")

func (p pPruner) Prune(ctx context.Context, eh *header.ExtendedHeader) error {
	w := p.w
	if w.dead {
		return errors.New("verif: process gone")
	}
	h := eh.Height()
	kind := "c"
	if ctx.Value(pDelKey{}) != nil {
		kind = "d"
	}
	w.mu.Lock()
	w.calls++
	// ---- safety oracle: never inside the window measured from the current store head
	if h < 1 || h >= uint64(len(w.chain)) || w.chain[h] != eh {
		w.violate("C14/prune-unknown-header: Prune called with a header (height %d) that is not the stored header of that height", h)
	} else if age := w.age(h); age < w.window() {
		k := map[string]string{"c": "cycle", "d": "on-delete"}[kind]
		w.violate("C14/pruned-inside-window/%s: Prune(height %d, time +%v) while store head is %d (time +%v): age %v < window %v",
			k, h, w.chain[h].Time().Sub(pT0), w.head, w.chain[w.head].Time().Sub(pT0), age, w.window())
	}
	if kind == "c" {
		w.callsInCycle++
		if w.callsInCycle > w.callBound && w.onBound != nil {
			f := w.onBound
			w.onBound = nil
			w.mu.Unlock()
			f()
			w.mu.Lock()
		}
	}
	if w.plan != nil {
		// synchronous mode
		ok := true
		switch w.plan[h] {
		case 1:
			ok = w.attempts[h] >= 1
		case 2:
			ok = false
		}
		w.attempts[h]++
		w.record(h, kind, ok)
		w.mu.Unlock()
		if ok {
			return nil
		}
		return errPruneFailed
	}
	c := &pCall{h: h, kind: kind, seq: w.seq, ans: make(chan error)}
	w.seq++
	w.pending = append(w.pending, c)
	w.mu.Unlock()
	return <-c.ans
}

// record must be called with w.mu held.
func (w *pWorld) record(h uint64, kind string, ok bool) {
	if ok {
		w.pruned[h] = true
	}
	if kind == "c" {
		w.cycleLog = append(w.cycleLog, pLog{h, kind, ok})
	}
}

func (w *pWorld) pendingSorted() []*pCall {
	w.mu.Lock()
	defer w.mu.Unlock()
	p := append([]*pCall(nil), w.pending...)
	sort.SliceStable(p, func(i, j int) bool {
		if p[i].kind != p[j].kind {
			return p[i].kind < p[j].kind
		}
		if p[i].h != p[j].h {
			return p[i].h < p[j].h
		}
		return p[i].seq < p[j].seq
	})
	return p
}

// answer releases a blocked call. ok/fail are recorded in the ground truth; "dead" is not.
func (w *pWorld) answer(c *pCall, a string) {
	w.mu.Lock()
	for i, p := range w.pending {
		if p == c {
			w.pending = append(w.pending[:i:i], w.pending[i+1:]...)
			break
		}
	}
	var err error
	switch a {
	case "ok":
		w.record(c.h, c.kind, true)
	case "fail":
		w.record(c.h, c.kind, false)
		err = errPruneFailed
	default:
		err = errors.New("verif: process gone")
	}
	w.mu.Unlock()
	c.ans <- err
}

// ---------------------------------------------------------------- fake header store

// pStore mirrors the parts of go-header's store (v0.8.6) the Service relies on:
// GetRangeByHeight(from, to) returns heights from.Height()+1 .. to-1 and fails on an empty or
// partly missing range; GetByHeight fails outside [tail, head]; an OnDelete handler runs while
// the header is still readable and the header is removed (tail moves) only if it returned nil.
type pStore struct{ w *pWorld }

func (s pStore) Head(context.Context, ...libhead.HeadOption[*header.ExtendedHeader]) (*header.ExtendedHeader, error) {
	return s.w.chain[s.w.head], nil
}
func (s pStore) Tail(context.Context) (*header.ExtendedHeader, error) {
	return s.w.chain[s.w.tail], nil
}
func (s pStore) GetByHeight(ctx context.Context, h uint64) (*header.ExtendedHeader, error) {
	if h < s.w.tail || h > s.w.head {
		return nil, libhead.ErrNotFound
	}
	return s.w.chain[h], nil
}
func (s pStore) GetRangeByHeight(ctx context.Context, from *header.ExtendedHeader, to uint64) ([]*header.ExtendedHeader, error) {
	lo := from.Height() + 1
	if lo >= to {
		return nil, fmt.Errorf("header/store: invalid range(%d,%d)", lo, to)
	}
	if lo < s.w.tail || to-1 > s.w.head {
		return nil, libhead.ErrNotFound
	}
	return append([]*header.ExtendedHeader(nil), s.w.chain[lo:to]...), nil
}
func (s pStore) OnDelete(fn func(context.Context, uint64) error) {
	s.w.handlers = append(s.w.handlers, fn)
}
func (s pStore) Get(context.Context, libhead.Hash) (*header.ExtendedHeader, error) { panic("unused") }
func (s pStore) Height() uint64                                                     { return s.w.head }
func (s pStore) Has(context.Context, libhead.Hash) (bool, error)                    { panic("unused") }
func (s pStore) HasAt(context.Context, uint64) bool                                 { panic("unused") }
func (s pStore) Append(context.Context, ...*header.ExtendedHeader) error            { panic("unused") }
func (s pStore) GetRange(context.Context, uint64, uint64) ([]*header.ExtendedHeader, error) {
	panic("unused")
}
func (s pStore) DeleteRange(context.Context, uint64, uint64) error { panic("unused") }

// deleteTail is what the header store does for DeleteRange(tail, tail+1).
func (w *pWorld) deleteTail(ctx context.Context) error {
	h := w.tail
	for _, fn := range w.handlers {
		if err := fn(context.WithValue(ctx, pDelKey{}, true), h); err != nil {
			return err
		}
	}
	w.tail = h + 1
	return nil
}

// ---------------------------------------------------------------- datastore

// pDatastore deliberately exposes only datastore.Datastore (no Batching, no transactions): the
// Service then writes its checkpoint directly. frozen = the process is dead, writes are lost.
type pDatastore struct {
	datastore.Datastore
	w      *pWorld
	frozen bool
}

func (d *pDatastore) Put(ctx context.Context, k datastore.Key, v []byte) error {
	if d.frozen {
		return nil
	}
	if strings.HasSuffix(k.String(), "/checkpoint") {
		d.w.onCheckpoint(v)
	}
	return d.Datastore.Put(ctx, k, v)
}

func (w *pWorld) onCheckpoint(v []byte) {
	var cp *checkpoint
	if err := json.Unmarshal(v, &cp); err != nil || cp == nil {
		w.violate("C14/checkpoint-unreadable: persisted checkpoint %q does not decode: %v", string(v), err)
		return
	}
	w.puts++
	isReset := w.inReset && len(cp.FailedHeaders) == 0 && cp.LastPrunedHeight == w.tail
	if isReset {
		// the explicit reset (archival -> pruned) defines a new starting point: the tail at that moment
		w.resets++
		w.start = cp.LastPrunedHeight
	}
	if w.persisted != nil && cp.LastPrunedHeight < w.persisted.LastPrunedHeight && !isReset {
		w.violate("C14/checkpoint-moved-backwards/persisted: persisted last_pruned_height went %d -> %d (not a reset)",
			w.persisted.LastPrunedHeight, cp.LastPrunedHeight)
	}
	for h := range cp.FailedHeaders {
		w.wasFailed[h] = true
	}
	w.persisted = cp
	w.persistedRaw = string(v)
}

func cpString(cp *checkpoint) string {
	if cp == nil {
		return "nil"
	}
	ks := make([]uint64, 0, len(cp.FailedHeaders))
	for k := range cp.FailedHeaders {
		ks = append(ks, k)
	}
	sort.Slice(ks, func(i, j int) bool { return ks[i] < ks[j] })
	return fmt.Sprintf("{last:%d failed:%v}", cp.LastPrunedHeight, ks)
}

func cpCopy(cp *checkpoint) *checkpoint {
	if cp == nil {
		return nil
	}
	c := newCheckpoint(cp.LastPrunedHeight)
	for k := range cp.FailedHeaders {
		c.FailedHeaders[k] = struct{}{}
	}
	return c
}

// unprunedMechanism names why a required height is neither pruned nor recorded.
func (w *pWorld) unprunedMechanism(h uint64, mem *checkpoint) string {
	switch {
	case h < w.tail && w.wasFailed[h]:
		return "failed-height-dropped-on-header-delete"
	case h < w.tail || (mem != nil && h <= mem.LastPrunedHeight):
		// the checkpoint covers (or covered, when the header was deleted) a height nobody pruned
		return "checkpoint-covers-unpruned-height"
	default:
		return "left-behind-cursor-not-advancing"
	}
}

// nonTermDetail classifies a cycle that does not end from its last calls.
func nonTermDetail(l []pLog, b int) string {
	n := len(l)
	if b > n/2 {
		return "other"
	}
	allFail := true
	for i := n - 2*b; i < n; i++ {
		if i >= n-b && l[i].H != l[i-b].H {
			return "other"
		}
		if l[i].OK {
			allFail = false
		}
	}
	if allFail {
		return "full-batch-all-fail"
	}
	return "full-batch-cursor-not-advancing"
}

// ---------------------------------------------------------------- panics of the code under test

// panicMsg renders a recovered panic: the value and the innermost frame that belongs to the
// repository (not to the harness, the engine packages or the runtime).
func panicMsg(r any, stack []byte) string {
	lines := strings.Split(string(stack), "\n")
	start := 0
	for i, l := range lines {
		if strings.HasPrefix(l, "panic(") {
			start = i
		}
	}
	frame := "unknown frame"
	for i := start; i+1 < len(lines); i++ {
		fn := lines[i]
		if !strings.HasPrefix(fn, "github.com/celestiaorg/celestia-node/") || strings.Contains(fn, "/verifx/") {
			continue
		}
		file := strings.TrimSpace(lines[i+1])
		if strings.Contains(file, "zz_verif_") || strings.Contains(file, "/verif/") {
			continue
		}
		if j := strings.Index(file, " +0x"); j > 0 {
			file = file[:j]
		}
		if root := os.Getenv("VERIF_REPO"); root != "" {
			file = strings.TrimPrefix(file, strings.TrimSuffix(root, "/")+"/")
		}
		if j := strings.LastIndex(fn, "("); j > 0 {
			fn = fn[:j]
		}
		frame = strings.TrimPrefix(fn, "github.com/celestiaorg/celestia-node/") + " (" + file + ")"
		break
	}
	return fmt.Sprintf("%v, raised at %s", r, frame)
}

// pGuard runs code under test and converts a panic into a C14 violation: a panic in a cycle
// means the blocks that were due are not pruned and nothing is recorded as failed; in
// production the panic of the run() goroutine takes the whole node down.
func pGuard(phase string, f func()) (err error) {
	defer func() {
		if r := recover(); r != nil {
			err = fmt.Errorf("C14/panic/%s: the pruner panics (%s): %s", phase, phase, panicMsg(r, debug.Stack()))
		}
	}()
	f()
	return nil
}
