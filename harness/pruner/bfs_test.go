package pruner

// Part B of the C14 harness: the real, started pruner.Service inside a testing/synctest bubble,
// driven one environment event at a time (vx.BFS), with two bounded-liveness drains from every
// new state.

import (
	"context"
	"fmt"
	"sort"
	"strconv"
	"strings"
	"testing"
	"testing/synctest"
	"time"

	"github.com/celestiaorg/celestia-node/verifx/vx"
)

type pPhase int

const (
	pRunning pPhase = iota
	pStopping
	pStopped
)

type pDel struct {
	h    uint64
	done chan error
}

type pSys struct {
	t   *testing.T
	cfg pCfg
	w   *pWorld
	svc *Service

	ph        pPhase
	stopDone  chan error
	del       *pDel
	resetDone chan error
	converted bool
	crashed   bool

	memAtStop *checkpoint // in-memory checkpoint right after a clean Stop returned
	memLast   uint64      // last observed in-memory last pruned height of the current instance
	memResets int

	cycleActive  bool
	cycleStartFP string
	cycleEvents  []string

	err    error
	closed bool
	// poisoned: code under test panicked in this instance. Nothing may wait for it any more; it
	// is only torn down (its mutex is force-released if the panic left it locked).
	poisoned bool
}

func newPSys(t *testing.T, cfg pCfg) *pSys {
	s := &pSys{t: t, cfg: cfg, w: newPWorld(cfg), ph: pStopped}
	s.apply("start")
	return s
}

func (s *pSys) fail(format string, a ...any) {
	if s.err == nil {
		s.err = fmt.Errorf(format, a...)
	}
}

// ---------------------------------------------------------------- life cycle

func (s *pSys) start(convert bool) {
	w := s.w
	w.ds.frozen = false
	w.dead = false
	w.handlers = nil
	if convert {
		// the node is restarted in pruned mode: what the archival instance "pruned" was only Q4
		w.start = w.tail
		w.pruned = map[uint64]bool{}
		w.wasFailed = map[uint64]bool{}
		s.converted = true
	}
	var svc *Service
	var err error
	if pe := pGuard("load", func() {
		svc, err = NewService(pPruner{w}, w.window(), pStore{w}, w.ds, pBT, WithPruneCycle(pCycle))
	}); pe != nil {
		s.panicked(pe)
		return
	}
	if err != nil {
		s.fail("harness: NewService: %v", err)
		return
	}
	persistedBefore := cpCopy(w.persisted)
	if s.memAtStop != nil && !s.crashed {
		if cpString(persistedBefore) != cpString(s.memAtStop) {
			s.fail("C14/checkpoint-lost-on-restart: checkpoint at clean stop was %s but %s is what a restart loads", cpString(s.memAtStop), cpString(persistedBefore))
		}
	}
	w.callsInCycle = 0
	w.cycleLog = nil
	s.svc = svc
	if pe := pGuard("load", func() { err = svc.Start(context.Background()) }); pe != nil {
		s.panicked(pe)
		return
	}
	if err != nil {
		s.fail("harness: Start: %v", err)
		return
	}
	s.ph = pRunning
	s.crashed = false
	s.memAtStop = nil
	synctest.Wait()
	s.poll()
	if s.poisoned {
		return
	}
	if persistedBefore != nil && svc.checkpoint.LastPrunedHeight < persistedBefore.LastPrunedHeight {
		s.fail("C14/checkpoint-moved-backwards/restart: persisted last pruned height %d, after restart the service works from %d",
			persistedBefore.LastPrunedHeight, svc.checkpoint.LastPrunedHeight)
	}
	s.memLast = svc.checkpoint.LastPrunedHeight
	s.memResets = w.resets
	if convert {
		// nodebuilder/pruner.convertToPruned runs as a start hook after Service.Start
		s.resetDone = make(chan error, 1)
		done := s.resetDone
		go func() {
			var err error
			if pe := pGuard("reset", func() {
				_, err = svc.LastPruned(context.Background())
				if err == nil {
					w.inReset = true
					err = svc.ResetCheckpoint(context.Background())
				}
			}); pe != nil {
				err = pe
			}
			w.inReset = false
			done <- err
		}()
		synctest.Wait()
	}
}

func (s *pSys) beginStop() {
	s.stopDone = make(chan error, 1)
	svc := s.svc
	done := s.stopDone
	go func() {
		var err error
		if pe := pGuard("stop", func() { err = svc.Stop(context.Background()) }); pe != nil {
			err = pe
		}
		done <- err
	}()
	s.ph = pStopping
	synctest.Wait()
}

func isPanicErr(err error) bool { return err != nil && strings.HasPrefix(err.Error(), "C14/panic/") }

// panicked records a panic of the code under test as the instance's violation and poisons it.
func (s *pSys) panicked(err error) {
	s.poisoned = true
	if !s.closed {
		s.fail("%v", err)
	}
}

func (s *pSys) poll() {
	if s.svc != nil {
		if v, ok := pPanics.LoadAndDelete(s.svc); ok {
			// the run() goroutine of the Service died: no further cycle will ever run
			pp := v.(pPanic)
			s.panicked(fmt.Errorf("C14/panic/cycle: the pruning cycle panics, the run() goroutine is gone (in production the node goes down): %s", panicMsg(pp.Value, pp.Stack)))
		}
	}
	if s.ph == pStopping {
		select {
		case err := <-s.stopDone:
			switch {
			case isPanicErr(err):
				s.panicked(err)
			case err != nil && !s.closed:
				s.fail("harness: Stop returned %v", err)
			}
			s.ph = pStopped
			s.memAtStop = cpCopy(s.svc.checkpoint)
		default:
		}
	}
	if s.del != nil {
		select {
		case err := <-s.del.done:
			if isPanicErr(err) {
				s.panicked(err)
			}
			s.del = nil
		default:
		}
	}
	if s.resetDone != nil {
		select {
		case err := <-s.resetDone:
			switch {
			case isPanicErr(err):
				s.panicked(err)
			case err != nil && !s.closed:
				s.fail("harness: ResetCheckpoint returned %v", err)
			}
			s.resetDone = nil
		default:
		}
	}
}

// teardown stops the instance as a dying process would: nothing it does is recorded.
func (s *pSys) teardown() {
	w := s.w
	w.ds.frozen = true
	if s.ph == pRunning {
		s.beginStop() // cancels the service context first
	}
	w.dead = true
	for i := 0; i < 10000; i++ {
		synctest.Wait()
		s.poll()
		p := w.pendingSorted()
		if len(p) > 0 {
			w.answer(p[0], "dead")
			continue
		}
		inFlight := s.ph == pStopping || s.del != nil || s.resetDone != nil
		if inFlight && s.poisoned && s.svc != nil && s.svc.checkpointMu.Locked() {
			// a panic left the service mutex locked: whoever waits for it is let through so
			// that the bubble can end; nothing of this is observed any more
			s.svc.checkpointMu.Unlock()
			continue
		}
		break
	}
	synctest.Wait()
	s.poll()
	if s.ph == pStopping || s.del != nil || s.resetDone != nil {
		if !s.closed {
			s.fail("harness: instance does not shut down (phase %d, delete in flight %v, reset in flight %v)", s.ph, s.del != nil, s.resetDone != nil)
		}
	}
}

func (s *pSys) Close() {
	s.closed = true
	saved := s.err
	if s.ph != pStopped || s.del != nil || s.resetDone != nil {
		s.teardown()
	}
	if s.ph == pStopping {
		// last resort so that the bubble can end
		<-s.stopDone
		s.ph = pStopped
	}
	s.err = saved
}

// ---------------------------------------------------------------- events

func callName(c *pCall) string { return c.kind + strconv.FormatUint(c.h, 10) }

func (s *pSys) Enabled() []string {
	if s.err != nil {
		return nil
	}
	w := s.w
	var ev []string
	for _, c := range w.pendingSorted() {
		ev = append(ev, "ok:"+callName(c), "fail:"+callName(c))
	}
	switch s.ph {
	case pRunning:
		if !s.cycleActive {
			ev = append(ev, "tick")
		}
		if w.head < s.cfg.N() {
			ev = append(ev, "head+1")
		}
		if s.del == nil && w.tail < w.head && w.age(w.tail) >= w.window() {
			ev = append(ev, "tail+1")
		}
		if s.del == nil && s.resetDone == nil {
			ev = append(ev, "stop")
			if s.cfg.Crash {
				ev = append(ev, "crash")
			}
		}
	case pStopped:
		ev = append(ev, "start")
		if s.cfg.Convert && !s.converted {
			ev = append(ev, "convert")
		}
	}
	return ev
}

func (s *pSys) findCall(name string) *pCall {
	for _, c := range s.w.pendingSorted() {
		if callName(c) == name {
			return c
		}
	}
	return nil
}

func (s *pSys) Apply(ev string) error {
	if err := s.apply(ev); err != nil {
		return err
	}
	return s.err
}

func (s *pSys) apply(ev string) error {
	w := s.w
	var before string
	if !s.cycleActive && (ev == "tick" || ev == "start" || ev == "convert") {
		before = s.baseFP()
	}
	parts := strings.SplitN(ev, ":", 2)
	switch parts[0] {
	case "ok", "fail":
		c := s.findCall(parts[1])
		if c == nil {
			return fmt.Errorf("harness: no pending call %s", parts[1])
		}
		w.answer(c, parts[0])
	case "tick":
		w.callsInCycle = 0
		w.cycleLog = nil
		time.Sleep(pCycle)
	case "head+1":
		w.head++
	case "tail+1":
		d := &pDel{h: w.tail, done: make(chan error, 1)}
		s.del = d
		go func() {
			var err error
			if pe := pGuard("header-delete-hook", func() { err = w.deleteTail(context.Background()) }); pe != nil {
				err = pe
			}
			d.done <- err
		}()
	case "stop":
		s.beginStop()
	case "crash":
		s.teardown()
		s.crashed = true
		w.dead = false
	case "start":
		s.start(false)
	case "convert":
		s.start(true)
	default:
		return fmt.Errorf("harness: unknown event %q", ev)
	}
	synctest.Wait()
	s.poll()
	// cycle tracking (the pruning cycle holds checkpointMu from its first to its last step)
	active := s.ph != pStopped && s.svc != nil && s.svc.checkpointMu.Locked()
	switch {
	case active && !s.cycleActive:
		s.cycleStartFP = before
		s.cycleEvents = []string{ev}
	case active:
		s.cycleEvents = append(s.cycleEvents, ev)
	default:
		s.cycleStartFP, s.cycleEvents = "", nil
	}
	s.cycleActive = active
	s.observe()
	return nil
}

// ---------------------------------------------------------------- oracles on states

func (s *pSys) observe() {
	w := s.w
	if s.err != nil {
		return
	}
	if w.viol != "" {
		s.fail("%s", w.viol)
		return
	}
	if s.ph == pStopped || s.svc == nil || s.svc.checkpoint == nil {
		return
	}
	cp := s.svc.checkpoint
	for h := range cp.FailedHeaders {
		w.wasFailed[h] = true
	}
	if w.resets != s.memResets {
		s.memResets = w.resets
		s.memLast = cp.LastPrunedHeight
	}
	if cp.LastPrunedHeight < s.memLast {
		s.fail("C14/checkpoint-moved-backwards/memory: in-memory last pruned height went %d -> %d without a reset", s.memLast, cp.LastPrunedHeight)
		return
	}
	s.memLast = cp.LastPrunedHeight
	if w.callsInCycle > w.callBound {
		s.fail("C14/cycle-no-termination/%s: one pruning cycle issued %d Prune calls (bound %d for %d headers, batch limit %d); last calls %v",
			s.nonTermDetail(), w.callsInCycle, w.callBound, s.cfg.N(), s.cfg.Batch, tailLog(w.cycleLog, 2*s.cfg.Batch))
	}
}

func (s *pSys) nonTermDetail() string { return nonTermDetail(s.w.cycleLog, s.cfg.Batch) }

func (s *pSys) Check() error { return s.err }

func (s *pSys) baseFP() string {
	w := s.w
	var b strings.Builder
	fmt.Fprintf(&b, "ph=%d head=%d tail=%d start=%d conv=%v crashed=%v persisted=%s", s.ph, w.head, w.tail, w.start, s.converted, s.crashed, w.persistedRaw)
	if s.ph != pStopped && s.svc != nil {
		fmt.Fprintf(&b, " mem=%s", cpString(s.svc.checkpoint))
	}
	b.WriteString(" pend=")
	for _, c := range w.pendingSorted() {
		b.WriteString(callName(c) + ",")
	}
	if s.del != nil {
		fmt.Fprintf(&b, " del=%d", s.del.h)
	}
	if s.resetDone != nil {
		b.WriteString(" reset-in-flight")
	}
	b.WriteString(" pruned=")
	for _, h := range vx.SortedKeys(w.pruned) {
		if h > w.start || h == 1 {
			fmt.Fprintf(&b, "%d,", h)
		}
	}
	b.WriteString(" wasFailed=")
	for _, h := range vx.SortedKeys(w.wasFailed) {
		fmt.Fprintf(&b, "%d,", h)
	}
	return b.String()
}

func (s *pSys) Fingerprint() string {
	fp := s.baseFP()
	if s.cycleActive {
		// the cycle's local state (cursor, failed set of the batch, position in the batch, the
		// batch itself) is a function of the state it started from and of what happened since
		fp += " || cycle from [" + s.cycleStartFP + "] events " + strings.Join(s.cycleEvents, " ")
	}
	return fp
}

// ---------------------------------------------------------------- bounded liveness

// settle answers everything that is pending with a, restarts a stopped instance and returns
// once the instance is running, idle and nothing is in flight. Every cycle must stay within
// the call bound.
func (s *pSys) settle(a string) error {
	w := s.w
	for i := 0; i < 100000; i++ {
		if s.err != nil {
			return s.err
		}
		if p := w.pendingSorted(); len(p) > 0 {
			w.answer(p[0], a)
			synctest.Wait()
			s.poll()
			s.cycleActive = s.ph != pStopped && s.svc.checkpointMu.Locked()
			s.observe()
			continue
		}
		switch s.ph {
		case pStopping:
			return fmt.Errorf("harness: Stop does not return although nothing is pending")
		case pStopped:
			s.apply("start")
			continue
		}
		if s.del != nil || s.resetDone != nil || s.cycleActive {
			return fmt.Errorf("harness: quiescent with nothing pending but delete=%v reset=%v cycle=%v in flight", s.del != nil, s.resetDone != nil, s.cycleActive)
		}
		return nil
	}
	return fmt.Errorf("harness: settle did not finish")
}

// drainOK: every further Prune succeeds. Within ceil(n/batch)+1 further cycles every required
// height must be pruned.
func (s *pSys) drainOK() error {
	w := s.w
	k := ceilDiv(int(s.cfg.N()), s.cfg.Batch) + 1
	for c := 0; ; c++ {
		if err := s.settle("ok"); err != nil {
			return err
		}
		missing := uint64(0)
		for _, h := range w.required() {
			if !w.pruned[h] {
				missing = h
				break
			}
		}
		if missing == 0 {
			return nil
		}
		if c >= k {
			return fmt.Errorf("C14/never-pruned/%s: with every further Prune succeeding, after %d more complete cycles height %d (age %v > window %v + blocktime %v; start point %d, tail %d, head %d) is still not pruned; checkpoint %s",
				w.unprunedMechanism(missing, s.svc.checkpoint), k, missing, w.age(missing), w.window(), pBT, w.start, w.tail, w.head, cpString(s.svc.checkpoint))
		}
		s.apply("tick")
	}
}

// drainFail: every further Prune fails. Every cycle must terminate within the call bound;
// afterwards every required height is pruned or recorded as failed, and every recorded height
// whose header is still stored is retried in the next cycle.
func (s *pSys) drainFail() error {
	w := s.w
	if err := s.settle("fail"); err != nil {
		return err
	}
	for i := 0; i < 2; i++ {
		s.apply("tick")
		if err := s.settle("fail"); err != nil {
			return err
		}
		if i == 0 {
			continue
		}
	}
	cp := s.svc.checkpoint
	for _, h := range w.required() {
		if w.pruned[h] {
			continue
		}
		if _, f := cp.FailedHeaders[h]; !f {
			return fmt.Errorf("C14/never-pruned/%s: with every further Prune failing, after two more complete cycles height %d (age %v > window %v + blocktime; start point %d, tail %d, head %d) is neither pruned nor in the failed set; checkpoint %s",
				w.unprunedMechanism(h, cp), h, w.age(h), w.window(), w.start, w.tail, w.head, cpString(cp))
		}
		if _, f := w.persisted.FailedHeaders[h]; !f {
			return fmt.Errorf("C14/never-pruned/failed-not-persisted: height %d is failed in memory but not in the persisted checkpoint %s", h, cpString(w.persisted))
		}
	}
	var failed []uint64
	for h := range cp.FailedHeaders {
		if h >= w.tail && h <= w.head {
			failed = append(failed, h)
		}
	}
	sort.Slice(failed, func(i, j int) bool { return failed[i] < failed[j] })
	s.apply("tick")
	if err := s.settle("fail"); err != nil {
		return err
	}
	for _, h := range failed {
		seen := false
		for _, l := range w.cycleLog {
			if l.H == h {
				seen = true
			}
		}
		if !seen {
			return fmt.Errorf("C14/failed-not-retried: height %d is recorded as failed (header stored) but the next cycle made no Prune call for it; calls %v", h, w.cycleLog)
		}
	}
	return nil
}

// runHistory positions a fresh instance (to be run inside a bubble).
func runHistory(t *testing.T, cfg pCfg, hist []string, trace bool) (*pSys, error) {
	s := newPSys(t, cfg)
	if s.err != nil {
		return s, s.err
	}
	for _, ev := range hist {
		ok := false
		for _, e := range s.Enabled() {
			if e == ev {
				ok = true
			}
		}
		if !ok {
			return s, fmt.Errorf("DIVERGENCE: event %q not enabled (enabled %v)", ev, s.Enabled())
		}
		err := s.Apply(ev)
		if trace {
			fmt.Printf("REPLAY-STEP %s -> %s\n", ev, s.Fingerprint())
		}
		if err != nil {
			return s, err
		}
	}
	return s, nil
}
