package pruner

import (
	"encoding/json"
	"fmt"
	"os"
	"strings"
	"sync"
	"testing"
	"testing/synctest"
	"time"

	logging "github.com/ipfs/go-log/v2"

	"github.com/celestiaorg/celestia-node/verifx/vx"
)

func pSig(err error) string {
	msg := err.Error()
	if i := strings.Index(msg, ":"); i > 0 {
		return msg[:i]
	}
	return msg
}

type bfsRun struct {
	cfg   pCfg
	depth int
}

type pReplay struct {
	Kind    string    `json:"kind"` // "seq" | "bfs" | "full"
	Seq     *seqCase  `json:"seq,omitempty"`
	Cfg     *pCfg     `json:"cfg,omitempty"`
	History []string  `json:"history,omitempty"`
	Full    *fullCase `json:"full,omitempty"`
}

// bfsCheckState: invariant + both drains for one history; returns the first violation.
func bfsDrains(t *testing.T, cfg pCfg, s *pSys, hist []string) error {
	if err := s.drainOK(); err != nil {
		return err
	}
	s.Close()
	s2, err := runHistory(t, cfg, hist, false)
	defer s2.Close()
	if err != nil {
		return fmt.Errorf("DIVERGENCE: second replay of an accepted history failed: %v", err)
	}
	return s2.drainFail()
}

func TestVerifC14(t *testing.T) {
	logging.SetAllLoggers(logging.LevelFatal)
	rep := vx.NewReport("C14", "model_checking")
	rep.Rule = "three exhaustive enumerations on the real code. A: every header chain (gaps 1/2, 1 or 3 configured block times) x window x batch limit x initial tail x head schedule x per-height failure plan over the heights that become prunable (ok / fails once / fails always), each run through the real Service.prune; a case is non-trivial when at least one Prune call is made; cases are distinct by construction. " +
		"B: explicit-state BFS over event histories of the real started Service in a synctest bubble (events: tick, ok/fail answer of the pending Prune call of the cycle or of the on-delete handler, head+1, tail+1, stop, crash, start, convert); a state is distinct when its canonical fingerprint (phase, head, tail, start point, persisted and in-memory checkpoint, pending calls, operations in flight, pruned set, and - while a cycle is running - the state the cycle started from plus everything that happened since) was not seen before; from every new state two bounded-liveness drains (every further prune succeeds / fails) are run. " +
		"C: every (square width, archival|pruned, 1 or 2 prunes, neighbouring blocks) case of the real full.ShareAvailability.Prune on a real store, and every case of the archival->pruned conversion flag."
	rep.Assumptions = []string{
		"header store semantics as in go-header v0.8.6: GetRangeByHeight(from,to) = heights from+1..to-1; an OnDelete handler runs while the header is readable; the header disappears and the tail moves only after the handler returned nil",
		"the header store deletes a header only when it is at least one availability window older than the store head (nodebuilder rejects Syncer.PruningWindow < storage window)",
		"checkpoint datastore without batching/transactions (plain map datastore); a crash loses exactly the writes after it",
		"Service.checkpointMu is replaced by a channel mutex with sync.Mutex semantics (overlay rewrite) so that synctest sees lock waiting; Go map order in retryFailed is explored ascending and descending only",
		"stop/crash are not taken while an on-delete handler or a checkpoint reset is in flight; the mode switch resets the checkpoint right after Start, as nodebuilder does",
		"the pruner's starting point is the checkpoint created at the first start (store tail) or at the reset; a Prune of an already pruned height is a no-op that succeeds (checked in part C)",
	}
	oldMax := maxHeadersPerLoop
	defer func() { maxHeadersPerLoop = oldMax }()

	if rp := os.Getenv("VERIF_REPLAY"); rp != "" {
		replayC14(t, rep, rp)
		return
	}

	quick := rep.Tier == "quick"
	deadline := rep.Deadline(80*time.Second, 17*time.Minute)
	start := time.Now()
	exhaustive := true
	var mu sync.Mutex
	outcomes := map[string]int64{}

	// warm-up outside any bubble (lazily initialised globals)
	_, _, _ = runSeqCase(seqCase{Cfg: pCfg{Gaps: []int{2, 2, 2, 2}, Win: 2, Batch: 2, Tail0: 1, Head0: 5}, Plan: make([]int, 6)})

	// ------------------------------------------------------------ part C
	{
		widths := []int{0, 1, 2, 4}
		if !quick {
			widths = append(widths, 8)
		}
		dir := os.Getenv("VERIF_TMP")
		if dir == "" {
			dir = t.TempDir()
		}
		n, nontriv := int64(0), int64(0)
		co := map[string]int64{}
		for _, w := range widths {
			for _, arch := range []bool{true, false} {
				for _, r := range []int{1, 2} {
					for _, o := range []string{"none", "same-width", "empty", "both"} {
						c := fullCase{w, arch, r, o}
						out, err := runFullCase(c, dir)
						n++
						if err != nil {
							if strings.HasPrefix(err.Error(), "harness") {
								rep.Infra(fmt.Sprintf("part C %s: %v", c, err))
							} else {
								rep.Violation(pSig(err), err.Error()+" ["+c.String()+"]", pReplay{Kind: "full", Full: &c})
							}
							out = "VIOLATION"
						}
						if w > 0 {
							nontriv++
						}
						co[out]++
						if n == 7 {
							rep.AddSample(map[string]any{"part": "C", "case": c.String(), "outcome": out})
						}
					}
				}
			}
		}
		cn, cout, err := runConvertCases()
		if err != nil {
			rep.Violation(pSig(err), err.Error(), pReplay{Kind: "full"})
		}
		rep.Count(n+int64(cn), nontriv+int64(cn), 0, 0)
		rep.Set("partC_full_prune", map[string]any{"cases": n, "ods_widths": widths, "outcomes": co, "convert_cases": cn, "convert_outcomes": cout})
	}

	// ------------------------------------------------------------ part A
	{
		type spRun struct {
			name string
			sp   seqSpace
		}
		var runs []spRun
		gaps := []int{1, 2, 6}
		if quick {
			runs = []spRun{
				{"failure-plans", seqSpace{MinN: 2, MaxN: 6, GapAlpha: gaps, Wins: []int{4, 8}, Batches: []int{2, 3}, Tails: []uint64{1, 2}, Scheds: []int{0, 1, 2}, PlanAlpha: []int{0, 1, 2}}},
				{"long-chains-no-failures", seqSpace{MinN: 7, MaxN: 8, GapAlpha: gaps, Wins: []int{3, 4, 8}, Batches: []int{2, 3, 512}, Tails: []uint64{1, 2}, Scheds: []int{0, 1}, PlanAlpha: []int{0}}},
			}
		} else {
			runs = []spRun{
				{"failure-plans", seqSpace{MinN: 2, MaxN: 7, GapAlpha: gaps, Wins: []int{3, 4, 8}, Batches: []int{2, 3, 512}, Tails: []uint64{1, 2, 3}, Scheds: []int{0, 1, 2}, PlanAlpha: []int{0, 1, 2}}},
				{"long-chains-no-failures", seqSpace{MinN: 8, MaxN: 10, GapAlpha: gaps, Wins: []int{3, 4, 8, 12}, Batches: []int{2, 3, 4, 512}, Tails: []uint64{1, 2}, Scheds: []int{0, 1, 2}, PlanAlpha: []int{0}}},
			}
		}
		share := time.Until(deadline) * 2 / 5 // part A gets at most 40% of the budget
		aDeadline := time.Now().Add(share)
		for _, r := range runs {
			st := enumSeq(r.sp, aDeadline, vx.Workers(), func(c seqCase, err error) {
				mu.Lock()
				defer mu.Unlock()
				if strings.HasPrefix(err.Error(), "harness") {
					rep.Infra(fmt.Sprintf("part A %s: %v", c, err))
					return
				}
				rep.Violation(pSig(err), err.Error()+" [case "+c.String()+"]", pReplay{Kind: "seq", Seq: &c})
			})
			if !st.Complete {
				exhaustive = false
			}
			rep.Count(st.Cases, st.Nontrivial, 0, 0)
			for k, v := range st.Outcomes {
				outcomes["A:"+k] += v
			}
			rep.Set("partA_"+r.name, map[string]any{
				"space": r.sp, "cases": st.Cases, "nontrivial": st.Nontrivial, "prune_calls": st.Calls, "complete": st.Complete,
				"cases_per_chain_length": st.PerN, "distinct_outcomes": len(st.Outcomes),
			})
			for _, c := range st.Sample {
				rep.AddSample(map[string]any{"part": "A", "case": c.String()})
				break
			}
		}
	}

	// ------------------------------------------------------------ part B
	{
		var runs []bfsRun
		if quick {
			runs = []bfsRun{
				{pCfg{Gaps: []int{2, 2, 2, 2, 2, 2}, Win: 4, Batch: 2, Tail0: 2, Head0: 5, Crash: true}, 9},
				{pCfg{Gaps: []int{6, 1, 1, 2, 6, 2}, Win: 4, Batch: 2, Tail0: 1, Head0: 6, RetryOrder: 1, Convert: true}, 8},
				{pCfg{Gaps: []int{1, 1, 1, 1, 1, 1, 1}, Win: 4, Batch: 3, Tail0: 2, Head0: 7, Crash: true}, 8},
				{pCfg{Gaps: []int{2, 2, 2, 2, 2, 2}, Win: 4, Batch: 2, Tail0: 2, Head0: 4, RetryOrder: 1}, 9},
			}
		} else {
			type gw struct {
				g   []int
				win int
			}
			for _, x := range []gw{{[]int{2, 2, 2, 2, 2, 2}, 4}, {[]int{6, 1, 1, 2, 6, 2}, 4}, {[]int{1, 1, 1, 1, 1, 1, 1}, 4}, {[]int{2, 1, 2, 1, 2, 6, 1, 2}, 8}} {
				for _, b := range []int{2, 3} {
					for _, ro := range []int{0, 1} {
						for _, t0 := range []uint64{1, 2} {
							n := uint64(len(x.g) + 1)
							h0 := n - 1
							if ro == 1 {
								h0 = n - 3 // the node is further behind
							}
							runs = append(runs, bfsRun{pCfg{Gaps: x.g, Win: x.win, Batch: b, Tail0: t0, Head0: h0, RetryOrder: ro, Crash: ro == 0, Convert: ro == 1}, 10})
						}
					}
				}
			}
		}
		allEvents := map[string]int64{}
		for i, r := range runs {
			cfg := r.cfg
			maxHeadersPerLoop = cfg.Batch
			pRetryOrder = cfg.RetryOrder
			left := time.Until(deadline)
			key := fmt.Sprintf("partB_run_%02d", i)
			if left <= 0 {
				exhaustive = false
				rep.Set(key, map[string]any{"cfg": cfg.String(), "skipped": "budget exhausted"})
				continue
			}
			runDeadline := time.Now().Add(left / time.Duration(len(runs)-i))
			if i == 0 {
				// determinism self-check: the same history twice gives the same observations
				if err := selfCheck(t, cfg); err != nil {
					rep.Infra(err.Error())
					t.Fail()
				}
			}
			st := vx.BFS(vx.BFSOpts{
				MaxDepth: r.depth,
				Deadline: runDeadline,
				Workers:  vx.Workers(),
				RunInstance: func(f func()) {
					// a bubble that cannot end (goroutines left blocked) panics in synctest.Test: that
					// is an infrastructure error of this run, never a crash of the whole check
					if pe := pGuard("harness", func() { synctest.Test(t, func(*testing.T) { f() }) }); pe != nil {
						mu.Lock()
						rep.Infra(fmt.Sprintf("part B bubble: %v cfg=%s", pe, cfg))
						mu.Unlock()
					}
				},
				Drain: func(s vx.Sys, hist []string) error { return bfsDrains(t, cfg, s.(*pSys), hist) },
			}, func() vx.Sys { return newPSys(t, cfg) }, func(hist []string, err error) {
				mu.Lock()
				defer mu.Unlock()
				sig := pSig(err)
				if !strings.HasPrefix(sig, "C14/") {
					rep.Infra(fmt.Sprintf("part B %v hist=%v cfg=%s", err, hist, cfg))
					return
				}
				rep.Violation(sig, err.Error()+" [cfg "+cfg.String()+" history "+strings.Join(hist, " ")+"]", pReplay{Kind: "bfs", Cfg: &cfg, History: hist})
			})
			if st.Capped != "" {
				exhaustive = false
			}
			rep.Count(st.Replays+2*int64(st.States), int64(st.States), int64(st.States), st.Transitions)
			for k, v := range st.EventCounts {
				allEvents[k] += v
			}
			rep.Set(key, map[string]any{
				"cfg": cfg.String(), "states": st.States, "transitions": st.Transitions, "depth_completed": st.DepthDone,
				"depth_bound": r.depth, "frontier_emptied": st.Complete, "capped": st.Capped, "states_per_depth": st.PerDepth,
				"events_applied": st.EventsApplied, "drains_all_succeed": st.States, "drains_all_fail": st.States, "violating_transitions": st.Violations,
			})
			for _, h := range st.SampleHist {
				if len(h) >= 4 {
					rep.AddSample(map[string]any{"part": "B", "cfg": cfg.String(), "history": h})
					break
				}
			}
		}
		rep.Set("partB_event_class_counts", allEvents)
	}
	rep.Set("distinct_outcomes", outcomes)
	rep.Set("explanation", "part A and C are complete enumerations of the stated spaces; part B is exhaustive to 'depth_completed' events per configuration unless 'capped' is set")
	rep.Set("wall_parts_s", time.Since(start).Seconds())
	rep.SetExhaustive(exhaustive)
	if rep.Finish() > 0 {
		t.Fail()
	}
}

// selfCheck: follow a fixed script (always the k-th enabled event) twice and compare.
func selfCheck(t *testing.T, cfg pCfg) error {
	run := func() []string {
		var log []string
		synctest.Test(t, func(*testing.T) {
			s := newPSys(t, cfg)
			defer s.Close()
			for i := 0; i < 14; i++ {
				en := s.Enabled()
				if len(en) == 0 {
					break
				}
				ev := en[(i*7+3)%len(en)]
				err := s.Apply(ev)
				log = append(log, fmt.Sprintf("%s -> %s err=%v", ev, s.Fingerprint(), err))
				if err != nil {
					break
				}
			}
		})
		return log
	}
	a, b := run(), run()
	if strings.Join(a, "\n") != strings.Join(b, "\n") {
		return fmt.Errorf("NONDETERMINISM: the same scripted history gave different observations:\n%s\n---\n%s", strings.Join(a, "\n"), strings.Join(b, "\n"))
	}
	return nil
}

func replayC14(t *testing.T, rep *vx.Report, path string) {
	b, err := os.ReadFile(path)
	if err != nil {
		t.Fatalf("replay: %v", err)
	}
	var doc struct {
		Replay pReplay `json:"replay"`
	}
	if err := json.Unmarshal(b, &doc); err != nil {
		t.Fatalf("replay: %v", err)
	}
	r := doc.Replay
	var verr error
	for i := 0; i < 5; i++ {
		var e error
		switch r.Kind {
		case "seq":
			maxHeadersPerLoop = r.Seq.Cfg.Batch
			pRetryOrder = r.Seq.Cfg.RetryOrder
			_, _, e = runSeqCase(*r.Seq)
		case "full":
			if r.Full != nil {
				_, e = runFullCase(*r.Full, t.TempDir())
			} else {
				_, _, e = runConvertCases()
			}
		case "bfs":
			maxHeadersPerLoop = r.Cfg.Batch
			pRetryOrder = r.Cfg.RetryOrder
			synctest.Test(t, func(*testing.T) {
				s, err := runHistory(t, *r.Cfg, r.History, i == 0)
				if err != nil {
					s.Close()
					e = err
					return
				}
				e = bfsDrains(t, *r.Cfg, s, r.History)
				s.Close()
			})
		default:
			t.Fatalf("replay: unknown kind %q", r.Kind)
		}
		if i > 0 && (e == nil) != (verr == nil) {
			t.Fatalf("NONDETERMINISM: replay %d gave %v, earlier %v", i, e, verr)
		}
		verr = e
	}
	rep.Count(5, 1, 1, int64(len(r.History)))
	rep.AddSample(r)
	rep.SetExhaustive(false)
	if verr != nil {
		fmt.Printf("REPLAY-RESULT violation reproduced 5/5: %v\n", verr)
		rep.Violation(pSig(verr), verr.Error(), r)
	} else {
		fmt.Println("REPLAY-RESULT no violation")
	}
	rep.Finish()
}
