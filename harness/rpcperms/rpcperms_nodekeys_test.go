package rpc

// Node-keys part of the C19 check: the matrix injects its own signer/verifier, so the node's
// start-up key handling would never run. Here signer and verifier come out of the node's own fx
// wiring (nodebuilder/node.ConstructModule -> jwtSignerAndVerifier(keystore)) over a fresh FS
// keystore (first start), the same directory re-opened (restart) and the in-memory keystore; an
// rpc.Server built by the node's constructor around THAT pair is then driven with tokens signed with
// the secret read back from the keystore, tokens minted by the node's own node.AuthNew, and tokens
// signed with foreign keys. Oracle unchanged.

import (
	"bytes"
	"context"
	"fmt"
	"os"
	"path/filepath"
	"strings"
	"time"

	"github.com/cristalhq/jwt/v5"
	"github.com/filecoin-project/go-jsonrpc/auth"
	"go.uber.org/fx"

	"github.com/celestiaorg/celestia-node/api/rpc/perms"
	"github.com/celestiaorg/celestia-node/libs/authtoken"
	"github.com/celestiaorg/celestia-node/libs/keystore"
	"github.com/celestiaorg/celestia-node/nodebuilder/node"
)

var vKeyScenarios = []string{"fs-keystore/first-start", "fs-keystore/restart", "map-keystore/first-start", "map-keystore/second-construction"}

type vNodeKeys struct {
	signer   jwt.Signer
	verifier jwt.Verifier
	mod      node.Module
	secret   []byte // the secret as read back from the keystore AFTER the node built its signer/verifier
}

// vNodeWiring runs the node's own construction of signer, verifier and node module over ks.
func vNodeWiring(ks keystore.Keystore) (k vNodeKeys, err error) {
	defer func() {
		if r := recover(); r != nil {
			err = fmt.Errorf("panic in the node's key wiring: %v", r)
		}
	}()
	app := fx.New(
		fx.NopLogger,
		fx.Supply(fx.Annotate(ks, fx.As(new(keystore.Keystore)))),
		node.ConstructModule(node.Light),
		fx.Populate(&k.signer, &k.verifier, &k.mod),
	)
	if err := app.Err(); err != nil {
		return k, err
	}
	return k, nil
}

// vBuildKeyScenario returns the node-built keys for a scenario plus the secret read back from the
// keystore through a fresh handle.
func vBuildKeyScenario(scn, dir string) (vNodeKeys, error) {
	var k vNodeKeys
	var err error
	switch scn {
	case "fs-keystore/first-start", "fs-keystore/restart":
		path := filepath.Join(dir, "keys")
		ks, err := keystore.NewFSKeystore(path, nil)
		if err != nil {
			return k, err
		}
		if k, err = vNodeWiring(ks); err != nil {
			return k, err
		}
		if scn == "fs-keystore/restart" {
			ks2, err := keystore.NewFSKeystore(path, nil)
			if err != nil {
				return k, err
			}
			if k, err = vNodeWiring(ks2); err != nil {
				return k, err
			}
		}
		// what another process (the CLI's `auth` command, the next start) finds on disk
		ks3, err := keystore.NewFSKeystore(path, nil)
		if err != nil {
			return k, err
		}
		pk, err := ks3.Get(node.SecretName)
		if err != nil {
			return k, fmt.Errorf("the node did not persist its JWT secret: %v", err)
		}
		k.secret = append([]byte(nil), pk.Body...)
	case "map-keystore/first-start", "map-keystore/second-construction":
		ks := keystore.NewMapKeystore()
		if k, err = vNodeWiring(ks); err != nil {
			return k, err
		}
		if scn == "map-keystore/second-construction" {
			if k, err = vNodeWiring(ks); err != nil {
				return k, err
			}
		}
		pk, err := ks.Get(node.SecretName)
		if err != nil {
			return k, fmt.Errorf("the node did not store its JWT secret: %v", err)
		}
		k.secret = append([]byte(nil), pk.Body...)
	default:
		return k, fmt.Errorf("unknown key scenario %q", scn)
	}
	if len(k.secret) == 0 {
		return k, fmt.Errorf("empty JWT secret in the keystore")
	}
	return k, nil
}

// vKeyCredentials: the reduced credential alphabet of the node-keys part.
func vKeyCredentials(k vNodeKeys) ([]vCred, error) {
	cs := []vCred{{Name: "none", Kind: "none"}}
	lvName := []string{"public", "read", "read+write", "admin"}
	lvPerms := [][]auth.Permission{perms.DefaultPerms, perms.ReadPerms, perms.ReadWritePerms, perms.AllPerms}
	secretSigner, err := jwt.NewSignerHS(jwt.HS256, k.secret)
	if err != nil {
		return nil, err
	}
	foreign := []struct {
		name string
		key  []byte
	}{
		{"all-zero-32", make([]byte, 32)},
		{"all-0xff-32", bytes.Repeat([]byte{0xff}, 32)},
		{"one-byte-0x00", []byte{0}},
		{"one-byte-0x01", []byte{1}},
		{"all-zero-64", make([]byte, 64)},
		{"other-random-32", []byte("\x8f\x13\xc2\x5e\x07\xa9\x3b\xd4\x61\xee\x90\x2c\x7a\x18\xf5\x4d\xb6\x29\x03\xcb\x5f\x84\xe1\x36\x9d\x42\x70\xaf\x1b\xd8\x65\x0e")},
	}
	for i, lv := range lvName {
		p := lvPerms[i]
		// signed with the secret as persisted in the keystore (what `celestia <type> auth` does)
		tok, err := authtoken.NewSignedJWT(secretSigner, p, 0)
		if err != nil {
			return nil, err
		}
		cs = append(cs, vBearer("persisted-secret("+lv+")", "signed", p, tok))
		cs = append(cs, vBearer("persisted-secret,literal-claims("+lv+")", "signed", p,
			vRawJWT(vJWTHeader, `{"Allow":`+vAllowJSON(i+1)+`,"Nonce":"AAAA"}`, k.secret)))
		cs = append(cs, vBearer("persisted-secret,literal-claims,expired("+lv+")", "bad", nil,
			vRawJWT(vJWTHeader, `{"Allow":`+vAllowJSON(i+1)+`,"Nonce":"AAAA","ExpiresAt":"`+vLitPast+`"}`, k.secret)))
		// minted by the node's own module with the provided signer
		tok, err = k.mod.AuthNew(context.Background(), p)
		if err != nil {
			return nil, fmt.Errorf("node.AuthNew: %v", err)
		}
		cs = append(cs, vBearer("node.AuthNew("+lv+")", "signed", p, tok))
		tok, err = k.mod.AuthNewWithExpiry(context.Background(), p, 24*time.Hour)
		if err != nil {
			return nil, fmt.Errorf("node.AuthNewWithExpiry: %v", err)
		}
		cs = append(cs, vBearer("node.AuthNewWithExpiry(+24h,"+lv+")", "signed", p, tok))
		tok, err = k.mod.AuthNewWithExpiry(context.Background(), p, -time.Hour)
		if err != nil {
			return nil, fmt.Errorf("node.AuthNewWithExpiry: %v", err)
		}
		cs = append(cs, vBearer("node.AuthNewWithExpiry(-1h,"+lv+")", "bad", nil, tok))
		// signed with the provided signer directly
		tok, err = authtoken.NewSignedJWT(k.signer, p, 0)
		if err != nil {
			return nil, err
		}
		cs = append(cs, vBearer("provided-signer("+lv+")", "signed", p, tok))
		// foreign keys grant nothing
		for _, f := range foreign {
			if bytes.Equal(f.key, k.secret) {
				// reported through the oracle: a node secret equal to a well-known key is the defect itself
				f.name += ",EQUALS-THE-NODE-SECRET"
			}
			cs = append(cs, vBearer("foreign-key-"+f.name+"("+lv+")", "bad", nil,
				vRawJWT(vJWTHeader, `{"Allow":`+vAllowJSON(i+1)+`,"Nonce":"AAAA"}`, f.key)))
		}
	}
	return cs, nil
}

type vKeyStats struct {
	Scenarios   []string
	Cells       int64
	Decisive    int64
	Contexts    int64
	Outcomes    map[string]int64
	PerScenario map[string]map[string]int64
	Reached     int64
	KeptOut     int64
	Creds       int
	Methods     []string
	Complete    bool
	Infra       []string
	Wall        float64
	Sample      any
}

// vRunKeyScenario drives one scenario; onCell receives every judged cell.
func vRunKeyScenario(scn, dir string, onCell func(tr string, c vCred, m *vMethod, o vObs, v *vVerdict, infra string)) (nCreds int, methods []string, err error) {
	k, err := vBuildKeyScenario(scn, dir)
	if err != nil {
		return 0, nil, err
	}
	s, err := newVServerKeys(vSrvCfg{}, k.signer, k.verifier)
	if err != nil {
		return 0, nil, err
	}
	defer s.Close()
	reps := vRepresentatives(s)
	for _, m := range reps {
		methods = append(methods, m.Name)
	}
	creds, err := vKeyCredentials(k)
	if err != nil {
		return 0, nil, err
	}
	for _, tr := range vTransports {
		for _, c := range creds {
			if tr == "http-query" && c.Query == "" {
				continue
			}
			obs, err := s.callAll(tr, c, reps)
			if err != nil {
				return len(creds), methods, fmt.Errorf("%s cred %q: %v", tr, c.Name, err)
			}
			for i, m := range reps {
				v, inf := vJudge(vSrvCfg{}, tr, c, m, obs[i])
				if v != nil {
					v.sig = strings.Replace(v.sig, vPropID+"/", vPropID+"/node-keys/"+scn+"/", 1)
					v.what = "server keyed by the node's own jwtSignerAndVerifier, scenario " + scn + ": " + v.what
				}
				onCell(tr, c, m, obs[i], v, inf)
			}
		}
	}
	return len(creds), methods, nil
}

func vRunKeyScenarios(tmp func() string, onViolation func(v *vVerdict, replay vCase)) vKeyStats {
	start := time.Now()
	st := vKeyStats{Scenarios: vKeyScenarios, Outcomes: map[string]int64{}, PerScenario: map[string]map[string]int64{}, Complete: true}
	for _, scn := range vKeyScenarios {
		st.PerScenario[scn] = map[string]int64{}
		dir := tmp()
		n, methods, err := vRunKeyScenario(scn, dir, func(tr string, c vCred, m *vMethod, o vObs, v *vVerdict, inf string) {
			st.Cells++
			st.Outcomes[o.Resp.Class]++
			st.PerScenario[scn][c.Kind+":"+o.Resp.Class]++
			if cl := o.Resp.Class; cl == "reached" || cl == "denied" || cl == "401" {
				st.Decisive++
			}
			if o.Hit {
				st.Reached++
			} else {
				st.KeptOut++
			}
			if inf != "" && len(st.Infra) < 5 {
				st.Infra = append(st.Infra, "node-keys "+scn+": "+inf)
				st.Complete = false
			}
			if v != nil {
				onViolation(v, vCase{Cfg: vSrvCfg{}, Transport: tr, Cred: c, Method: m.Name, KeyScenario: scn})
			}
			if st.Sample == nil && strings.HasPrefix(c.Name, "foreign-key-all-zero-32(admin)") && m.Tag == "admin" {
				h := c.Header
				if len(h) > 120 {
					h = h[:120] + "…"
				}
				st.Sample = map[string]any{"part": "node-keys", "scenario": scn, "transport": tr, "credential": c.Name, "authorization_header": h,
					"method": m.Name, "declared_perm": m.Tag, "reached": o.Hit, "response": o.Resp.Class}
			}
		})
		_ = os.RemoveAll(dir)
		if err != nil {
			st.Complete = false
			st.Infra = append(st.Infra, fmt.Sprintf("node-keys %s: %v", scn, err))
			continue
		}
		st.Creds, st.Methods = n, methods
		st.Contexts += int64(n * len(vTransports))
	}
	st.Wall = time.Since(start).Seconds()
	return st
}
