package rpc

// History part of the C19 check: the stateless matrix cannot see a server that REMEMBERS something
// about a credential between requests (a cache of verified tokens, permissions pinned to a
// connection). Here every sequence over a small event alphabet is executed on its own fresh server
// instance in real time with short-lived tokens; every use is judged by the stateless oracle
// evaluated at the time of the use.

import (
	"fmt"
	"strings"
	"sync"
	"time"

	"github.com/cristalhq/jwt/v5"
	"github.com/filecoin-project/go-jsonrpc/auth"

	"github.com/celestiaorg/celestia-node/api/rpc/perms"
	"github.com/celestiaorg/celestia-node/libs/authtoken"
)

var vHistAlphabet = []string{"use(T1)", "use(T2)", "use(expired-at-mint)", "use(none)", "wait(T1)", "wait(T2)"}

// Transport order inside one use: websocket first, so that the LAST request before a wait and a
// later request after it travel on the same keep-alive HTTP connection of the history's client
// (a cache that remembers only the last verified (connection, token) pair is then still hit).
var vHistTransports = []string{"ws", "http", "http-query", "http-batch"}

const (
	vHistTTL1   = 1000 * time.Millisecond
	vHistTTL2   = 2000 * time.Millisecond
	vHistMargin = 120 * time.Millisecond
)

// vHistories enumerates every sequence over the alphabet of length 1..maxLen that contains at
// least one wait.
func vHistories(maxLen int) [][]string {
	var out [][]string
	var rec func(cur []string, hasWait bool)
	rec = func(cur []string, hasWait bool) {
		if len(cur) > 0 && hasWait {
			out = append(out, append([]string(nil), cur...))
		}
		if len(cur) == maxLen {
			return
		}
		for _, e := range vHistAlphabet {
			rec(append(cur, e), hasWait || strings.HasPrefix(e, "wait"))
		}
	}
	rec(nil, false)
	return out
}

type vHistCell struct {
	Step      int    `json:"step"`
	Event     string `json:"event"`
	Transport string `json:"transport"`
	Method    string `json:"method"`
	Tag       string `json:"declared_perm"`
	// token state at the time of the use: valid | expired | inconclusive | none | expired-at-mint
	TokenState string `json:"token_state"`
	Hit        bool   `json:"reached"`
	Resp       string `json:"response"`
	// the state the history was written for (a use of T before any wait that outlasts T is meant to be valid)
	Intended string `json:"intended_token_state"`
	verdict    *vVerdict
	infra      string
}

type vHistResult struct {
	Events []string
	Cells  []vHistCell
	// number of cells where a token was used expired after the same token had been used while valid
	ExpiredAfterValidUse int
}

// vTokenExpiry reads the expiry out of the token's own claim bytes with the harness's reference
// reading (not with the repository's payload struct).
func vTokenExpiry(tok string) (time.Time, error) {
	_, exp, err := vRefTokenClaims(tok)
	return exp, err
}

// vRepresentatives picks one non-channel method per declared perm level.
func vRepresentatives(s *vServer) []*vMethod {
	var reps []*vMethod
	for _, lv := range vLevels {
		for i := range s.methods {
			if m := &s.methods[i]; m.Tag == string(lv) && !m.Chan {
				reps = append(reps, m)
				break
			}
		}
	}
	return reps
}

// vRunHistory executes one history on a fresh server instance.
// variant decides how the three tokens are built: bit 0 clear = T1 from literal claim bytes with the
// claim names the tree issues and T2 through the repository's minting helper, bit 0 set = the other
// way round; bit 1 clear = the expired-at-mint token from literal claim bytes, set = through the helper.
func vRunHistory(cfg vSrvCfg, events []string, variant int) (res vHistResult, err error) {
	res.Events = events
	s, err := newVServer(cfg)
	if err != nil {
		return res, err
	}
	defer s.Close()
	reps := vRepresentatives(s)
	if len(reps) == 0 {
		return res, fmt.Errorf("no representative methods")
	}
	signer := vSigner(jwt.HS256, vKey)
	allow := perms.ReadWritePerms
	type tok struct {
		cred vCred
		exp  time.Time
	}
	mk := func(name string, allow []auth.Permission, ttl time.Duration, literal bool) (tok, error) {
		var t string
		if literal {
			t = vLiteralTimedToken(allow, time.Now().Add(ttl), fmt.Sprintf("%s/%v/%d", name, events, variant))
		} else {
			var err error
			if t, err = authtoken.NewSignedJWT(signer, allow, ttl); err != nil {
				return tok{}, err
			}
		}
		exp, err := vTokenExpiry(t)
		if err != nil {
			return tok{}, err
		}
		if exp.IsZero() {
			return tok{}, fmt.Errorf("token %s carries no expiry the reference reading can see (claim names changed?)", name)
		}
		return tok{vBearer(name, "signed", allow, t), exp}, nil
	}
	toks := map[string]tok{}
	for _, d := range []struct {
		n       string
		a       []auth.Permission
		ttl     time.Duration
		literal bool
	}{{"T1", allow, vHistTTL1, variant&1 == 0}, {"T2", allow, vHistTTL2, variant&1 == 1}, {"expired-at-mint", perms.AllPerms, -time.Second, variant&2 == 0}} {
		t, err := mk(d.n, d.a, d.ttl, d.literal)
		if err != nil {
			return res, err
		}
		toks[d.n] = t
	}
	usedValid := map[string]bool{}
	waited := map[string]bool{}
	for step, ev := range events {
		arg := ev[strings.Index(ev, "(")+1 : len(ev)-1]
		if strings.HasPrefix(ev, "wait") {
			waited[arg] = true
			if arg == "T2" {
				waited["T1"] = true // T1 expires before T2
			}
			if d := time.Until(toks[arg].exp.Add(vHistMargin)); d > 0 {
				time.Sleep(d)
			}
			continue
		}
		for _, tr := range vHistTransports {
			var c vCred
			var exp time.Time
			if arg == "none" {
				if tr == "http-query" {
					continue // no ?token= form of "no token"
				}
				c = vCred{Name: "none", Kind: "none"}
			} else {
				c, exp = toks[arg].cred, toks[arg].exp
			}
			before := time.Now()
			obs, err := s.callAll(tr, c, reps)
			after := time.Now()
			if err != nil {
				return res, fmt.Errorf("step %d %s over %s: %v", step, ev, tr, err)
			}
			state := "none"
			eff := c // the credential as the stateless oracle sees it at the time of the use
			if arg != "none" {
				eb, ea := exp.Before(before), exp.Before(after)
				switch {
				case eb && ea:
					state = "expired"
					if arg == "expired-at-mint" {
						state = "expired-at-mint"
					}
					eff.Kind, eff.Allow = "bad", nil
				case !eb && !ea:
					state = "valid"
				default:
					state = "inconclusive" // the token expired while the request was in flight
				}
			}
			for i, m := range reps {
				cell := vHistCell{Step: step, Event: ev, Transport: tr, Method: m.Name, Tag: m.Tag, TokenState: state,
					Hit: obs[i].Hit, Resp: obs[i].Resp.Class, Intended: state}
				if arg == "T1" || arg == "T2" {
					cell.Intended = "valid"
					if waited[arg] {
						cell.Intended = "expired"
					}
				}
				if state == "expired" && usedValid[arg] {
					res.ExpiredAfterValidUse++
				}
				if state != "inconclusive" {
					cell.verdict, cell.infra = vJudgeHist(cfg, tr, eff, arg, state, usedValid[arg], m, obs[i], events, step)
				}
				res.Cells = append(res.Cells, cell)
			}
		}
		// a token counts as "used while valid" for the following steps
		for _, a := range []string{"T1", "T2"} {
			for _, cl := range res.Cells {
				if cl.Step == step && cl.Event == "use("+a+")" && cl.TokenState == "valid" {
					usedValid[a] = true
				}
			}
		}
	}
	return res, nil
}

func vJudgeHist(cfg vSrvCfg, tr string, eff vCred, tokName, state string, priorValid bool, m *vMethod, o vObs, events []string, step int) (*vVerdict, string) {
	for _, h := range o.Hits {
		if h.API != m.API || h.Method != m.Field {
			return nil, fmt.Sprintf("history: request for %s reached stub %s.%s", m.Name, h.API, h.Method)
		}
	}
	may, must := vExpect(cfg, tr, eff, m)
	where := fmt.Sprintf("step %d (%s) of history %v over %s, method %s (declared perm %q), token state at the time of the use: %s; response class %s %s",
		step, events[step], events, tr, m.Name, m.Tag, state, o.Resp.Class, o.Resp.Detail)
	pv := "no"
	if priorValid {
		pv = "yes"
	}
	switch {
	case o.Hit && !may && (state == "expired" || state == "expired-at-mint"):
		return &vVerdict{
			sig:  fmt.Sprintf("%s/history/reached-after-expiry/token=%s/prior-valid-use=%s", vPropID, tokName, pv),
			what: "a token past its own ExpiresAt reached the module implementation: " + where,
		}, ""
	case o.Hit && !may:
		return &vVerdict{
			sig:  fmt.Sprintf("%s/history/reached-without-permission/cred=%s", vPropID, tokName),
			what: "the call reached the module implementation without the permission: " + where,
		}, ""
	case !o.Hit && must:
		return &vVerdict{
			sig:  fmt.Sprintf("%s/history/denied-while-valid/token=%s", vPropID, tokName),
			what: "a still-valid token that carries the permission did not reach the module implementation: " + where,
		}, ""
	case o.Hit && o.Resp.Class != "reached", !o.Hit && o.Resp.Class == "reached", o.Resp.Class == "other":
		return nil, "history: response disagrees with the stub: " + where
	}
	return nil, ""
}

type vHistStats struct {
	MaxLen               int
	Planned              int
	Run                  int
	Cells                int64
	Decisive             int64
	Inconclusive         int64
	ByState              map[string]int64
	Outcomes             map[string]int64
	ExpiredAfterValidUse int64
	ReachedValid         int64
	KeptOutExpired       int64
	Uses                 int64
	AsIntended           int64
	NotAsIntended        int64
	Retries              int64
	Wall                 float64
	Complete             bool
	Sample               any
	Infra                []string
}

// vRunHistories executes all histories on a pool of workers (each history has its own server
// instance; most of a history's time is spent asleep).
func vRunHistories(cfg vSrvCfg, maxLen, workers int, deadline time.Time, onViolation func(v *vVerdict, replay vCase)) vHistStats {
	start := time.Now()
	hs := vHistories(maxLen)
	st := vHistStats{MaxLen: maxLen, Planned: len(hs), ByState: map[string]int64{}, Outcomes: map[string]int64{}, Complete: true}
	var mu sync.Mutex
	var wg sync.WaitGroup
	next := 0
	for w := 0; w < workers; w++ {
		wg.Add(1)
		go func(w int) {
			defer wg.Done()
			// stagger the workers so that their first uses do not all compete for the CPU at once
			time.Sleep(time.Duration(w) * 4 * time.Millisecond)
			for {
				mu.Lock()
				if next >= len(hs) {
					mu.Unlock()
					return
				}
				if time.Now().After(deadline) {
					st.Complete = false
					mu.Unlock()
					return
				}
				h, hi := hs[next], next
				next++
				mu.Unlock()
				variant := hi % 4
				res, err := vRunHistory(cfg, h, variant)
				retries := 0
				for err != nil && retries < 3 && vTransportError(err) {
					// a connection dropped under machine load is not an observation: run the history again on a fresh server
					retries++
					res, err = vRunHistory(cfg, h, variant)
				}
				mu.Lock()
				st.Retries += int64(retries)
				if err != nil {
					st.Complete = false
					if len(st.Infra) < 5 {
						st.Infra = append(st.Infra, fmt.Sprintf("history %v: %v", h, err))
					}
					mu.Unlock()
					continue
				}
				st.Run++
				st.ExpiredAfterValidUse += int64(res.ExpiredAfterValidUse)
				seenUse := map[int]bool{}
				for _, c := range res.Cells {
					st.Cells++
					st.ByState[c.TokenState]++
					if !seenUse[c.Step] {
						seenUse[c.Step] = true
						st.Uses++
					}
					if c.TokenState == "inconclusive" {
						st.Inconclusive++
						continue
					}
					if c.Intended == c.TokenState {
						st.AsIntended++
					} else {
						st.NotAsIntended++
					}
					st.Outcomes[c.Resp]++
					if c.Resp == "reached" || c.Resp == "denied" || c.Resp == "401" {
						st.Decisive++
					}
					if c.TokenState == "valid" && c.Hit {
						st.ReachedValid++
					}
					if (c.TokenState == "expired" || c.TokenState == "expired-at-mint") && !c.Hit {
						st.KeptOutExpired++
					}
					if c.infra != "" && len(st.Infra) < 5 {
						st.Infra = append(st.Infra, c.infra)
						st.Complete = false
					}
				}
				if st.Sample == nil && len(h) == maxLen && res.ExpiredAfterValidUse > 0 {
					st.Sample = map[string]any{"history": h, "ttl_T1_ms": vHistTTL1.Milliseconds(), "ttl_T2_ms": vHistTTL2.Milliseconds(), "token_variant": variant, "cells": res.Cells}
				}
				mu.Unlock()
				for _, c := range res.Cells {
					if c.verdict != nil {
						onViolation(c.verdict, vCase{Cfg: cfg, Transport: c.Transport, Method: c.Method, History: h, Step: c.Step, Variant: variant})
					}
				}
			}
		}(w)
	}
	wg.Wait()
	st.Wall = time.Since(start).Seconds()
	return st
}

// vTransportError: the request did not get an answer at all (connection refused / reset / closed).
func vTransportError(err error) bool {
	m := err.Error()
	for _, x := range []string{"EOF", "connection reset", "broken pipe", "connection refused", "i/o timeout", "use of closed network connection"} {
		if strings.Contains(m, x) {
			return true
		}
	}
	return false
}
