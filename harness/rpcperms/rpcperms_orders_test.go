package rpc

// Construction-order part of the C19 check: the permission proxy is installed while services are
// registered, and WithMetrics rebuilds parts of the server. Every start-up order the Server API
// allows is built and driven with a reduced credential set; the oracle is unchanged.

import (
	"fmt"
	"sync"
	"time"
)

var vOrders = []string{
	"register",                             // no metrics
	"metrics,register",                     // WithMetrics before RegisterService
	"register,metrics",                     // the order nodebuilder uses (registerEndpoints, then the metrics option)
	"register,metrics,metrics",             // WithMetrics twice
	"metrics,register,metrics",             //
	"register-half,metrics,register-rest", // register, metrics, register further services
}

var vOrderCreds = []string{"none", "class:public", "class:read", "class:read+write", "class:admin", "expired(admin,-1h0m0s)", "otherkey(admin)"}

type vOrderStats struct {
	Servers   []string
	CredNames []string
	Cells     int64
	Decisive  int64
	Contexts  int64
	Reached   int64
	KeptOut   int64
	PerServer map[string]map[string]int64
	Complete  bool
	Infra     []string
	Wall      float64
}

func vRunOrders(all []vCred, deadline time.Time, onViolation func(v *vVerdict, replay vCase)) vOrderStats {
	start := time.Now()
	st := vOrderStats{CredNames: vOrderCreds, PerServer: map[string]map[string]int64{}, Complete: true}
	var creds []vCred
	for _, n := range vOrderCreds {
		for _, c := range all {
			if c.Name == n {
				creds = append(creds, c)
			}
		}
	}
	if len(creds) != len(vOrderCreds) {
		st.Complete = false
		st.Infra = append(st.Infra, fmt.Sprintf("construction-order part: only %d of %d reduced credentials found in the alphabet", len(creds), len(vOrderCreds)))
		return st
	}
	// the split order needs the namespace of every API struct: learn it from a plain server
	if s, err := newVServer(vSrvCfg{}); err == nil {
		s.Close()
	}
	var mu sync.Mutex
	var wg sync.WaitGroup
	for _, authOff := range []bool{false, true} {
		for _, order := range vOrders {
			cfg := vSrvCfg{AuthOff: authOff, Order: order}
			st.Servers = append(st.Servers, cfg.String())
			st.PerServer[cfg.String()] = map[string]int64{}
			wg.Add(1)
			go func() {
				defer wg.Done()
				fail := func(msg string) {
					mu.Lock()
					st.Complete = false
					if len(st.Infra) < 6 {
						st.Infra = append(st.Infra, "construction-order "+cfg.String()+": "+msg)
					}
					mu.Unlock()
				}
				s, err := newVServer(cfg)
				if err != nil {
					fail(err.Error())
					return
				}
				defer s.Close()
				ms := make([]*vMethod, 0, len(s.methods))
				for i := range s.methods {
					ms = append(ms, &s.methods[i])
				}
				for _, tr := range vTransports {
					for _, c := range creds {
						if tr == "http-query" && c.Query == "" {
							continue
						}
						if time.Now().After(deadline) {
							mu.Lock()
							st.Complete = false
							mu.Unlock()
							return
						}
						obs, err := s.callAll(tr, c, ms)
						if err != nil {
							fail(fmt.Sprintf("%s cred %q: %v", tr, c.Name, err))
							continue
						}
						mu.Lock()
						st.Contexts++
						mu.Unlock()
						for i, m := range ms {
							v, inf := vJudge(cfg, tr, c, m, obs[i])
							mu.Lock()
							st.Cells++
							st.PerServer[cfg.String()][c.Kind+":"+obs[i].Resp.Class]++
							if cl := obs[i].Resp.Class; cl == "reached" || cl == "denied" || cl == "401" {
								st.Decisive++
							}
							if obs[i].Hit {
								st.Reached++
							} else {
								st.KeptOut++
							}
							mu.Unlock()
							if inf != "" {
								fail(inf)
							}
							if v != nil {
								v.sig += "/order=" + order
								onViolation(v, vCase{Cfg: cfg, Transport: tr, Cred: c, Method: m.Name})
							}
						}
					}
				}
			}()
		}
	}
	wg.Wait()
	st.Wall = time.Since(start).Seconds()
	return st
}
