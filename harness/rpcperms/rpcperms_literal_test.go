package rpc

// Literal-claims credentials for the C19 check: correctly signed tokens whose claim set is a fixed
// byte string, NOT produced by the repository's minting helpers or payload struct. They pin the
// claim names every token issued so far carries ({"Allow":[...],"Nonce":"...","ExpiresAt":"<RFC3339>"})
// and probe key-case, snake_case and duplicate-key variants. What such a claim set grants is
// computed by the harness's own small reference of the CURRENT decoding rule (object keys match the
// names Allow / Nonce / ExpiresAt case-insensitively, every occurrence overwrites the previous one,
// unknown keys are ignored); the server must grant exactly that.

import (
	"bytes"
	"encoding/base64"
	"encoding/json"
	"fmt"
	"strings"
	"time"

	"github.com/filecoin-project/go-jsonrpc/auth"
)

const (
	vLitPast   = "2001-02-03T04:05:06Z"
	vLitFuture = "2999-01-01T00:00:00Z"
	vJWTHeader = `{"alg":"HS256","typ":"JWT"}`
)

// vRefClaims is the reference reading of a claim set (independent of perms.JWTPayload).
func vRefClaims(payload []byte) (allow []auth.Permission, exp time.Time, err error) {
	dec := json.NewDecoder(bytes.NewReader(payload))
	t, err := dec.Token()
	if err != nil {
		return nil, exp, err
	}
	if d, ok := t.(json.Delim); !ok || d != '{' {
		return nil, exp, fmt.Errorf("claims are not an object")
	}
	for dec.More() {
		kt, err := dec.Token()
		if err != nil {
			return nil, exp, err
		}
		key, _ := kt.(string)
		var raw json.RawMessage
		if err := dec.Decode(&raw); err != nil {
			return nil, exp, err
		}
		isNull := string(bytes.TrimSpace(raw)) == "null"
		switch {
		case strings.EqualFold(key, "Allow"):
			if isNull {
				allow = nil
				continue
			}
			var l []string
			if err := json.Unmarshal(raw, &l); err != nil {
				return nil, exp, err
			}
			allow = allow[:0]
			for _, s := range l {
				allow = append(allow, auth.Permission(s))
			}
		case strings.EqualFold(key, "ExpiresAt"):
			if isNull {
				continue // null leaves a time value untouched
			}
			var s string
			if err := json.Unmarshal(raw, &s); err != nil {
				return nil, exp, err
			}
			if exp, err = time.Parse(time.RFC3339, s); err != nil {
				return nil, exp, err
			}
		case strings.EqualFold(key, "Nonce"):
			if !isNull {
				var s string
				if err := json.Unmarshal(raw, &s); err != nil {
					return nil, exp, err
				}
				if _, err := base64.StdEncoding.DecodeString(s); err != nil {
					return nil, exp, err
				}
			}
		}
	}
	return allow, exp, nil
}

// vRefTokenClaims applies the reference to the payload segment of a token.
func vRefTokenClaims(tok string) ([]auth.Permission, time.Time, error) {
	seg := strings.Split(tok, ".")
	if len(seg) != 3 {
		return nil, time.Time{}, fmt.Errorf("token does not have three segments")
	}
	raw, err := base64.RawURLEncoding.DecodeString(seg[1])
	if err != nil {
		return nil, time.Time{}, err
	}
	return vRefClaims(raw)
}

// vLiteralCred signs the literal claim bytes with the server's key and classifies the credential
// with the reference: expired => grants nothing, else exactly the listed levels.
func vLiteralCred(family, what, payload string) (vCred, error) {
	allow, exp, err := vRefClaims([]byte(payload))
	if err != nil {
		return vCred{}, fmt.Errorf("literal claims %s: %v", payload, err)
	}
	tok := vRawJWT(vJWTHeader, payload, vKey)
	name := fmt.Sprintf("%s(%s) claims=%s", family, what, payload)
	if !exp.IsZero() && exp.Before(time.Now()) {
		return vBearer(name, "bad", nil, tok), nil
	}
	if allow == nil {
		allow = []auth.Permission{}
	}
	return vBearer(name, "signed", allow, tok), nil
}

func vAllowJSON(n int) string {
	var q []string
	for _, l := range vLevels[:n] {
		q = append(q, `"`+string(l)+`"`)
	}
	return "[" + strings.Join(q, ",") + "]"
}

// vLiteralCredentials builds the family. Every claim set is a fixed byte string.
func vLiteralCredentials() ([]vCred, error) {
	var out []vCred
	add := func(family, what, payload string) error {
		c, err := vLiteralCred(family, what, payload)
		if err != nil {
			return err
		}
		out = append(out, c)
		return nil
	}
	lvName := []string{"public", "read", "read+write", "admin"}
	for n := 1; n <= 4; n++ {
		al, lv := vAllowJSON(n), lvName[n-1]
		// the claim names every token issued so far carries
		for _, e := range []struct{ what, claim string }{
			{"ExpiresAt past", `,"ExpiresAt":"` + vLitPast + `"`},
			{"ExpiresAt future", `,"ExpiresAt":"` + vLitFuture + `"`},
			{"ExpiresAt absent", ``},
			{"ExpiresAt zero", `,"ExpiresAt":"0001-01-01T00:00:00Z"`},
		} {
			if err := add("literal-issued-names", lv+","+e.what, `{"Allow":`+al+`,"Nonce":"AAAA"`+e.claim+`}`); err != nil {
				return nil, err
			}
		}
		// key-case variants
		for _, k := range []string{"allow", "ALLOW"} {
			if err := add("literal-keycase", lv+","+k, `{"`+k+`":`+al+`,"Nonce":"AAAA"}`); err != nil {
				return nil, err
			}
			if err := add("literal-keycase", lv+","+k+",ExpiresAt past", `{"`+k+`":`+al+`,"Nonce":"AAAA","ExpiresAt":"`+vLitPast+`"}`); err != nil {
				return nil, err
			}
		}
		for _, k := range []string{"expiresat", "EXPIRESAT", "expiresAt"} {
			for _, e := range []struct{ what, t string }{{"past", vLitPast}, {"future", vLitFuture}} {
				if err := add("literal-keycase", lv+","+k+" "+e.what, `{"Allow":`+al+`,"nonce":"AAAA","`+k+`":"`+e.t+`"}`); err != nil {
					return nil, err
				}
			}
		}
		// snake_case names (not the names the tree issues: "expires_at" is an unknown key today)
		for _, e := range []struct{ what, t string }{{"past", vLitPast}, {"future", vLitFuture}} {
			if err := add("literal-snake", lv+",expires_at "+e.what, `{"Allow":`+al+`,"Nonce":"AAAA","expires_at":"`+e.t+`"}`); err != nil {
				return nil, err
			}
			if err := add("literal-snake", lv+",allow+expires_at "+e.what, `{"allow":`+al+`,"nonce":"AAAA","expires_at":"`+e.t+`"}`); err != nil {
				return nil, err
			}
		}
	}
	// duplicate keys: the last occurrence that matches a name wins
	for _, n := range []int{2, 4} {
		al, lv := vAllowJSON(n), lvName[n-1]
		p, f := `"`+vLitPast+`"`, `"`+vLitFuture+`"`
		for _, d := range []struct{ what, claims string }{
			{"ExpiresAt past, expires_at future", `"ExpiresAt":` + p + `,"expires_at":` + f},
			{"expires_at future, ExpiresAt past", `"expires_at":` + f + `,"ExpiresAt":` + p},
			{"ExpiresAt future, expires_at past", `"ExpiresAt":` + f + `,"expires_at":` + p},
			{"expires_at past, ExpiresAt future", `"expires_at":` + p + `,"ExpiresAt":` + f},
			{"ExpiresAt past, expiresat future", `"ExpiresAt":` + p + `,"expiresat":` + f},
			{"expiresat future, ExpiresAt past", `"expiresat":` + f + `,"ExpiresAt":` + p},
			{"ExpiresAt future, ExpiresAt past", `"ExpiresAt":` + f + `,"ExpiresAt":` + p},
			{"ExpiresAt past, ExpiresAt future", `"ExpiresAt":` + p + `,"ExpiresAt":` + f},
		} {
			if err := add("literal-dupkey", lv+","+d.what, `{"Allow":`+al+`,"Nonce":"AAAA",`+d.claims+`}`); err != nil {
				return nil, err
			}
		}
	}
	for _, d := range []struct{ what, claims string }{
		{"Allow admin then allow public", `"Allow":` + vAllowJSON(4) + `,"allow":` + vAllowJSON(1)},
		{"allow public then Allow admin", `"allow":` + vAllowJSON(1) + `,"Allow":` + vAllowJSON(4)},
		{"Allow admin then Allow read", `"Allow":` + vAllowJSON(4) + `,"Allow":` + vAllowJSON(2)},
		{"Allow read then ALLOW admin", `"Allow":` + vAllowJSON(2) + `,"ALLOW":` + vAllowJSON(4)},
		{"Allow admin then allow null", `"Allow":` + vAllowJSON(4) + `,"allow":null`},
	} {
		if err := add("literal-dupkey", d.what, `{`+d.claims+`,"Nonce":"AAAA"}`); err != nil {
			return nil, err
		}
	}
	return out, nil
}

// vLiteralTimedToken builds a correctly signed token over the claim names the tree issues, with the
// given expiry (history part).
func vLiteralTimedToken(allow []auth.Permission, exp time.Time, nonce string) string {
	var q []string
	for _, l := range allow {
		q = append(q, `"`+string(l)+`"`)
	}
	payload := `{"Allow":[` + strings.Join(q, ",") + `],"Nonce":"` + base64.StdEncoding.EncodeToString([]byte(nonce)) + `","ExpiresAt":"` +
		exp.UTC().Format(time.RFC3339Nano) + `"}`
	return vRawJWT(vJWTHeader, payload, vKey)
}
