package rpc

// Verification harness for C19: RPC methods are reachable only with the permission they require.
//
// The REAL api/rpc.Server is built by the node's own constructor (`server`) and populated by the
// node's own registration function (`registerEndpoints`, called by reflection so that a new module
// parameter is noticed). Module implementations are reflective stubs (reflect.MakeFunc) that record
// "reached". The server listens on a loopback port; every method found in the server's own dispatch
// table is invoked over real HTTP / websocket connections for every credential of an explicit
// credential alphabet, for every server configuration. Nothing is sampled.

import (
	"bufio"
	"bytes"
	"context"
	"crypto/hmac"
	"crypto/sha256"
	"encoding/base64"
	"encoding/binary"
	"encoding/json"
	"fmt"
	"io"
	"net"
	"net/http"
	"net/url"
	"os"
	"path/filepath"
	"reflect"
	"runtime/debug"
	"sort"
	"strings"
	"sync"
	"testing"
	"time"

	sdkmath "cosmossdk.io/math"
	sdk "github.com/cosmos/cosmos-sdk/types"
	"github.com/cristalhq/jwt/v5"
	"github.com/filecoin-project/go-jsonrpc/auth"
	logging "github.com/ipfs/go-log/v2"
	"github.com/libp2p/go-libp2p/core/peer"

	libshare "github.com/celestiaorg/go-square/v4/share"

	apirpc "github.com/celestiaorg/celestia-node/api/rpc"
	"github.com/celestiaorg/celestia-node/api/rpc/perms"
	"github.com/celestiaorg/celestia-node/libs/authtoken"
	"github.com/celestiaorg/celestia-node/nodebuilder/blob"
	"github.com/celestiaorg/celestia-node/nodebuilder/blobstream"
	"github.com/celestiaorg/celestia-node/nodebuilder/das"
	"github.com/celestiaorg/celestia-node/nodebuilder/header"
	"github.com/celestiaorg/celestia-node/nodebuilder/node"
	"github.com/celestiaorg/celestia-node/nodebuilder/p2p"
	"github.com/celestiaorg/celestia-node/nodebuilder/share"
	"github.com/celestiaorg/celestia-node/nodebuilder/state"
	corestate "github.com/celestiaorg/celestia-node/state"
	"github.com/celestiaorg/celestia-node/verifx/vx"
)

const (
	vSentinel = "verif-stub-reached"
	vPropID   = "C19"
)

// ---------------------------------------------------------------- modules and stubs

// vModules maps the module interface types that registerEndpoints takes to the API struct the
// node registers for them. A parameter type of registerEndpoints missing here is an
// infrastructure error (a new module needs a line here and entries in the policy table).
var vModules = map[reflect.Type]func() any{
	reflect.TypeOf((*state.Module)(nil)).Elem():      func() any { return &state.API{} },
	reflect.TypeOf((*share.Module)(nil)).Elem():      func() any { return &share.API{} },
	reflect.TypeOf((*header.Module)(nil)).Elem():     func() any { return &header.API{} },
	reflect.TypeOf((*das.Module)(nil)).Elem():        func() any { return &das.API{} },
	reflect.TypeOf((*p2p.Module)(nil)).Elem():        func() any { return &p2p.API{} },
	reflect.TypeOf((*node.Module)(nil)).Elem():       func() any { return &node.API{} },
	reflect.TypeOf((*blob.Module)(nil)).Elem():       func() any { return &blob.API{} },
	reflect.TypeOf((*blobstream.Module)(nil)).Elem(): func() any { return &blobstream.API{} },
}

type vHit struct {
	API    string // e.g. "*state.API"
	Method string
}

type vRecorder struct {
	mu   sync.Mutex
	hits []vHit
}

func (r *vRecorder) take() []vHit {
	r.mu.Lock()
	defer r.mu.Unlock()
	h := r.hits
	r.hits = nil
	return h
}

var vErrType = reflect.TypeOf((*error)(nil)).Elem()

// vFillStub fills every func field of api.Internal with a recording function that returns zero
// values and a sentinel error.
func vFillStub(api any, rec *vRecorder) {
	apiName := reflect.TypeOf(api).String()
	in := reflect.ValueOf(api).Elem().FieldByName("Internal")
	for i := 0; i < in.NumField(); i++ {
		f := in.Type().Field(i)
		if f.Type.Kind() != reflect.Func {
			continue
		}
		ft, name := f.Type, f.Name
		in.Field(i).Set(reflect.MakeFunc(ft, func(args []reflect.Value) []reflect.Value {
			rec.mu.Lock()
			rec.hits = append(rec.hits, vHit{API: apiName, Method: name})
			rec.mu.Unlock()
			out := make([]reflect.Value, ft.NumOut())
			for k := range out {
				out[k] = reflect.Zero(ft.Out(k))
			}
			if n := ft.NumOut(); n > 0 && ft.Out(n-1) == vErrType {
				err := fmt.Errorf("%s:%s.%s", vSentinel, apiName, name)
				out[n-1] = reflect.ValueOf(&err).Elem()
			}
			return out
		}))
	}
}

// ---------------------------------------------------------------- server under test

type vSrvCfg struct {
	AuthOff bool `json:"auth_off"`
	CORS    bool `json:"cors"`
	Metrics bool `json:"metrics"`
	// Order is the start-up order of the construction steps, comma separated:
	// "register" (the node's registerEndpoints), "metrics" (Server.WithMetrics),
	// "register-half" / "register-rest" (Server.RegisterService for the first half / the rest of
	// the modules, same namespaces and API structs as registerEndpoints uses).
	// Empty = "metrics,register" when Metrics is set, else "register".
	Order string `json:"order,omitempty"`
}

// vNSByAPI remembers which namespace registerEndpoints gives each API struct ("*das.API" -> "das").
var (
	vNSMu    sync.Mutex
	vNSByAPI = map[string]string{}
)

func (c vSrvCfg) String() string {
	a := "auth=on"
	if c.AuthOff {
		a = "auth=off"
	}
	if c.CORS {
		a += ",cors"
	}
	if c.Metrics {
		a += ",metrics"
	}
	if c.Order != "" {
		a += ",order=" + strings.ReplaceAll(c.Order, ",", ">")
	}
	return a
}

type vMethod struct {
	Name   string // wire name "namespace.Method"
	NS     string
	Field  string
	API    string // "*state.API"
	Tag    string // declared perm tag
	Chan   bool   // returns a channel: only invocable over websocket
	Params json.RawMessage
}

type vServer struct {
	cfg     vSrvCfg
	srv     *apirpc.Server
	rec     *vRecorder
	addr    string
	methods []vMethod
	byName  map[string]*vMethod
	http    *http.Client
	reqID   int
}

var vKey = bytes.Repeat([]byte{0x5a}, 32)
var vOtherKey = bytes.Repeat([]byte{0xa5}, 32)

func vSigner(alg jwt.Algorithm, key []byte) jwt.Signer {
	s, err := jwt.NewSignerHS(alg, key)
	if err != nil {
		panic(err)
	}
	return s
}

func newVServer(cfg vSrvCfg) (*vServer, error) {
	verifier, err := jwt.NewVerifierHS(jwt.HS256, vKey)
	if err != nil {
		return nil, err
	}
	return newVServerKeys(cfg, vSigner(jwt.HS256, vKey), verifier)
}

// newVServerKeys builds the server under test around the given signer and verifier.
func newVServerKeys(cfg vSrvCfg, signer jwt.Signer, verifier jwt.Verifier) (s *vServer, err error) {
	defer func() {
		if r := recover(); r != nil {
			err = fmt.Errorf("panic while building the server: %v\n%s", r, debug.Stack())
		}
	}()
	c := DefaultConfig()
	c.Address, c.Port, c.SkipAuth = "127.0.0.1", "0", cfg.AuthOff
	if cfg.CORS {
		c.CORS = CORSConfig{Enabled: true, AllowedOrigins: []string{"https://example.com"},
			AllowedMethods: []string{"GET", "POST", "OPTIONS"}, AllowedHeaders: []string{"Content-Type", "Authorization"}}
	}
	if err := c.Validate(); err != nil {
		return nil, err
	}
	srv := server(&c, signer, verifier)
	s = &vServer{cfg: cfg, srv: srv, rec: &vRecorder{}, byName: map[string]*vMethod{}}

	// the node's own registration path, called by reflection
	fn := reflect.ValueOf(registerEndpoints)
	args := make([]reflect.Value, fn.Type().NumIn())
	apis := map[string]reflect.Type{} // "*state.API" -> Internal struct type
	type vMod struct {
		api  string
		stub any
		mk   func() any
	}
	var mods []vMod
	for i := range args {
		pt := fn.Type().In(i)
		if pt == reflect.TypeOf(srv) {
			args[i] = reflect.ValueOf(srv)
			continue
		}
		mk, ok := vModules[pt]
		if !ok {
			return nil, fmt.Errorf("registerEndpoints takes %s, which the harness has no stub for (new module: add it to vModules and to the policy table)", pt)
		}
		stub := mk()
		vFillStub(stub, s.rec)
		if !reflect.TypeOf(stub).Implements(pt) {
			return nil, fmt.Errorf("%T does not implement %s", stub, pt)
		}
		args[i] = reflect.ValueOf(stub)
		in, _ := reflect.TypeOf(stub).Elem().FieldByName("Internal")
		apis[reflect.TypeOf(stub).String()] = in.Type
		mods = append(mods, vMod{reflect.TypeOf(stub).String(), stub, mk})
	}
	order := cfg.Order
	if order == "" {
		order = "register"
		if cfg.Metrics {
			order = "metrics,register"
		}
	}
	sort.Slice(mods, func(i, j int) bool { return mods[i].api < mods[j].api })
	if strings.Contains(order, "register-") {
		vNSMu.Lock()
		known := len(vNSByAPI) > 0
		vNSMu.Unlock()
		if !known { // learn the namespaces from a plain server first
			if p, err := newVServerKeys(vSrvCfg{}, signer, verifier); err == nil {
				p.Close()
			}
		}
	}
	direct := func(ms []vMod) error {
		vNSMu.Lock()
		defer vNSMu.Unlock()
		for _, m := range ms {
			ns, ok := vNSByAPI[m.api]
			if !ok {
				return fmt.Errorf("namespace of %s not known yet", m.api)
			}
			srv.RegisterService(ns, m.stub, m.mk())
		}
		return nil
	}
	for _, step := range strings.Split(order, ",") {
		switch step {
		case "register":
			fn.Call(args) // the node's own registration path
		case "metrics":
			if err := srv.WithMetrics(); err != nil {
				return nil, err
			}
		case "register-half":
			if err := direct(mods[:len(mods)/2]); err != nil {
				return nil, err
			}
		case "register-rest":
			if err := direct(mods[len(mods)/2:]); err != nil {
				return nil, err
			}
		default:
			return nil, fmt.Errorf("unknown construction step %q", step)
		}
	}

	// the universe of methods is the server's own dispatch table
	names, err := vDispatchNames(srv)
	if err != nil {
		return nil, err
	}
	byNS := map[string][]string{}
	for _, n := range names {
		ns, m, ok := strings.Cut(n, ".")
		if !ok {
			return nil, fmt.Errorf("dispatch table entry %q has no namespace", n)
		}
		byNS[ns] = append(byNS[ns], m)
	}
	used := map[string]string{}
	for _, ns := range vx.SortedKeys(byNS) {
		ms := byNS[ns]
		sort.Strings(ms)
		var match []string
		for an, it := range apis {
			var fs []string
			for i := 0; i < it.NumField(); i++ {
				fs = append(fs, it.Field(i).Name)
			}
			sort.Strings(fs)
			if strings.Join(fs, ",") == strings.Join(ms, ",") {
				match = append(match, an)
			}
		}
		if len(match) != 1 {
			return nil, fmt.Errorf("namespace %q (methods %v) matches %d API structs %v: cannot attribute its methods to perm tags", ns, ms, len(match), match)
		}
		if prev, dup := used[match[0]]; dup {
			return nil, fmt.Errorf("API %s registered under two namespaces %q and %q", match[0], prev, ns)
		}
		used[match[0]] = ns
		it := apis[match[0]]
		for _, m := range ms {
			f, _ := it.FieldByName(m)
			vm := vMethod{Name: ns + "." + m, NS: ns, Field: m, API: match[0], Tag: f.Tag.Get("perm")}
			ft := f.Type
			if ft.NumOut() > 0 && ft.Out(0).Kind() == reflect.Chan {
				vm.Chan = true
			}
			first := 0
			if ft.NumIn() > 0 && ft.In(0) == reflect.TypeOf((*context.Context)(nil)).Elem() {
				first = 1
			}
			var ps []json.RawMessage
			for k := first; k < ft.NumIn(); k++ {
				p, err := vParamJSON(ft.In(k))
				if err != nil {
					return nil, fmt.Errorf("%s param %d: %v", vm.Name, k, err)
				}
				ps = append(ps, p)
			}
			if ps == nil {
				ps = []json.RawMessage{}
			}
			vm.Params, _ = json.Marshal(ps)
			s.methods = append(s.methods, vm)
		}
	}
	if len(used) != len(apis) {
		return nil, fmt.Errorf("%d module stubs passed to registerEndpoints but only %d namespaces in the dispatch table", len(apis), len(used))
	}
	sort.Slice(s.methods, func(i, j int) bool { return s.methods[i].Name < s.methods[j].Name })
	for i := range s.methods {
		s.byName[s.methods[i].Name] = &s.methods[i]
	}
	vNSMu.Lock()
	for _, m := range s.methods {
		vNSByAPI[m.API] = m.NS
	}
	vNSMu.Unlock()
	if err := srv.Start(context.Background()); err != nil {
		return nil, err
	}
	s.addr = srv.ListenAddr()
	s.http = &http.Client{Timeout: 30 * time.Second, Transport: &http.Transport{MaxIdleConnsPerHost: 4}}
	return s, nil
}

func (s *vServer) Close() {
	ctx, cancel := context.WithTimeout(context.Background(), 5*time.Second)
	defer cancel()
	_ = s.srv.Stop(ctx)
	s.http.CloseIdleConnections()
}

// vDispatchNames reads the method names out of the jsonrpc server's dispatch table
// (Server.rpc.handler.methods), read-only, by reflection.
func vDispatchNames(srv *apirpc.Server) (names []string, err error) {
	defer func() {
		if r := recover(); r != nil {
			err = fmt.Errorf("cannot read the dispatch table of the rpc server (library layout changed?): %v", r)
		}
	}()
	h := reflect.ValueOf(srv).Elem().FieldByName("rpc").Elem().FieldByName("handler").Elem()
	for _, k := range h.FieldByName("methods").MapKeys() {
		names = append(names, k.String())
	}
	if n := h.FieldByName("aliasedMethods").Len(); n != 0 {
		return nil, fmt.Errorf("%d aliased methods registered; the harness does not enumerate aliases", n)
	}
	sort.Strings(names)
	return names, nil
}

// vParamJSON produces a JSON value that the server decodes into t without error.
func vParamJSON(t reflect.Type) (json.RawMessage, error) {
	var v any
	switch t {
	case reflect.TypeOf(peer.ID("")):
		id, err := peer.Decode("12D3KooWPjceQrSwdWXPyLLeABRXmuqt69Rg3sBYbU1Nft9HyQ6X")
		if err != nil {
			return nil, err
		}
		v = id
	case reflect.TypeOf(peer.AddrInfo{}):
		id, err := peer.Decode("12D3KooWPjceQrSwdWXPyLLeABRXmuqt69Rg3sBYbU1Nft9HyQ6X")
		if err != nil {
			return nil, err
		}
		v = peer.AddrInfo{ID: id}
	case reflect.TypeOf(libshare.Namespace{}):
		v = libshare.MustNewV0Namespace(bytes.Repeat([]byte{1}, libshare.NamespaceVersionZeroIDSize))
	default:
		if ov, ok := vParamOverride(t); ok {
			v = ov
		} else {
			v = reflect.Zero(t).Interface()
		}
	}
	b, err := json.Marshal(v)
	if err != nil {
		return nil, fmt.Errorf("marshal %s: %v", t, err)
	}
	if err := json.Unmarshal(b, reflect.New(t).Interface()); err != nil {
		return nil, fmt.Errorf("the JSON %s does not decode into %s: %v", b, t, err)
	}
	return b, nil
}

// vParamOverride gives non-zero values for parameter types whose zero value does not survive the
// JSON round trip.
func vParamOverride(t reflect.Type) (any, bool) {
	switch t {
	case reflect.TypeOf(corestate.Address{}):
		return corestate.Address{Address: sdk.AccAddress(bytes.Repeat([]byte{7}, 20))}, true
	case reflect.TypeOf(sdk.AccAddress{}):
		return sdk.AccAddress(bytes.Repeat([]byte{7}, 20)), true
	case reflect.TypeOf(sdk.ValAddress{}):
		return sdk.ValAddress(bytes.Repeat([]byte{7}, 20)), true
	case reflect.TypeOf(sdkmath.Int{}):
		return sdkmath.NewInt(1), true
	}
	return nil, false
}

// ---------------------------------------------------------------- credentials

type vCred struct {
	Name string `json:"name"`
	// Kind: none | signed (validly signed, unexpired, carries Allow) | bad (expired, wrongly signed, malformed)
	Kind   string            `json:"kind"`
	Allow  []auth.Permission `json:"allow,omitempty"`
	Header string            `json:"header"`          // full Authorization header value ("" = no header)
	Query  string            `json:"query,omitempty"` // value for ?token= ("" = transport not applicable)
}

var vLevels = []auth.Permission{"public", "read", "write", "admin"}

func vB64(b []byte) string { return base64.RawURLEncoding.EncodeToString(b) }

// vRawJWT assembles header.payload.signature with an HS256 MAC over the given key.
func vRawJWT(headerJSON, payloadJSON string, key []byte) string {
	msg := vB64([]byte(headerJSON)) + "." + vB64([]byte(payloadJSON))
	m := hmac.New(sha256.New, key)
	m.Write([]byte(msg))
	return msg + "." + vB64(m.Sum(nil))
}

func vBearer(name, kind string, allow []auth.Permission, tok string) vCred {
	return vCred{Name: name, Kind: kind, Allow: allow, Header: "Bearer " + tok, Query: tok}
}

// vCredentials builds the credential alphabet. depth 0 = quick, 1 = thorough.
func vCredentials(depth int) ([]vCred, error) {
	signer := vSigner(jwt.HS256, vKey)
	var cs []vCred
	cs = append(cs, vCred{Name: "none", Kind: "none"})

	mint := func(s jwt.Signer, allow []auth.Permission, ttl time.Duration) (string, error) {
		return authtoken.NewSignedJWT(s, allow, ttl)
	}
	// every subset of the four permission levels, minted by the repository's own minting function
	for mask := 0; mask < 16; mask++ {
		allow := []auth.Permission{}
		var nm []string
		for i, l := range vLevels {
			if mask&(1<<i) != 0 {
				allow = append(allow, l)
				nm = append(nm, string(l))
			}
		}
		tok, err := mint(signer, allow, 0)
		if err != nil {
			return nil, err
		}
		name := "signed{" + strings.Join(nm, ",") + "}"
		cs = append(cs, vBearer(name, "signed", allow, tok))
	}
	// the four named classes through the other minting function (perms.NewTokenWithPerms)
	for _, nc := range []struct {
		n string
		p []auth.Permission
	}{{"class:public", perms.DefaultPerms}, {"class:read", perms.ReadPerms}, {"class:read+write", perms.ReadWritePerms}, {"class:admin", perms.AllPerms}} {
		b, err := perms.NewTokenWithPerms(signer, nc.p)
		if err != nil {
			return nil, err
		}
		cs = append(cs, vBearer(nc.n, "signed", nc.p, string(b)))
	}
	// unexpired token with an expiry (valid: positive control for the expiry comparison)
	tok, err := mint(signer, perms.AllPerms, 24*time.Hour)
	if err != nil {
		return nil, err
	}
	cs = append(cs, vBearer("admin,expires-in-24h", "signed", perms.AllPerms, tok))
	// unknown permission names grant exactly what they list
	for _, a := range [][]auth.Permission{{"ADMIN"}, {"*"}, {"root", "read"}, {"admin "}, {""}} {
		tok, err := mint(signer, a, 0)
		if err != nil {
			return nil, err
		}
		cs = append(cs, vBearer(fmt.Sprintf("signed%q", a), "signed", a, tok))
	}
	cs = append(cs, vBearer("signed,Allow=null", "signed", nil,
		vRawJWT(`{"alg":"HS256","typ":"JWT"}`, `{"Allow":null,"Nonce":"AAAA","ExpiresAt":"0001-01-01T00:00:00Z"}`, vKey)))

	// --- correctly signed tokens over LITERAL claim bytes (not built by the repository's helpers)
	lits, err := vLiteralCredentials()
	if err != nil {
		return nil, err
	}
	cs = append(cs, lits...)

	// --- credentials that must grant nothing
	admin, err := mint(signer, perms.AllPerms, 0)
	if err != nil {
		return nil, err
	}
	read, err := mint(signer, perms.ReadPerms, 0)
	if err != nil {
		return nil, err
	}
	for _, ttl := range []time.Duration{-time.Hour, -24 * 365 * 100 * time.Hour} {
		tok, err := mint(signer, perms.AllPerms, ttl)
		if err != nil {
			return nil, err
		}
		cs = append(cs, vBearer(fmt.Sprintf("expired(admin,%s)", ttl), "bad", nil, tok))
	}
	b, err := perms.NewTokenWithTTL(signer, perms.AllPerms, -time.Minute)
	if err != nil {
		return nil, err
	}
	cs = append(cs, vBearer("expired(admin,-1m,NewTokenWithTTL)", "bad", nil, string(b)))
	tok, err = mint(vSigner(jwt.HS256, vOtherKey), perms.AllPerms, 0)
	if err != nil {
		return nil, err
	}
	cs = append(cs, vBearer("otherkey(admin)", "bad", nil, tok))
	tok, err = mint(vSigner(jwt.HS256, []byte{0}), perms.AllPerms, 0)
	if err != nil {
		return nil, err
	}
	cs = append(cs, vBearer("otherkey(admin,one zero byte)", "bad", nil, tok))
	for _, alg := range []jwt.Algorithm{jwt.HS384, jwt.HS512} {
		tok, err = mint(vSigner(alg, vKey), perms.AllPerms, 0)
		if err != nil {
			return nil, err
		}
		cs = append(cs, vBearer("otheralg("+string(alg)+",same key,admin)", "bad", nil, tok))
	}
	adminPayload := `{"Allow":["public","read","write","admin"],"Nonce":"AAAA","ExpiresAt":"0001-01-01T00:00:00Z"}`
	cs = append(cs, vBearer("alg=none(admin)", "bad", nil,
		vB64([]byte(`{"alg":"none","typ":"JWT"}`))+"."+vB64([]byte(adminPayload))+"."))
	cs = append(cs, vBearer("alg=none(admin),sig-of-HS256", "bad", nil,
		vRawJWT(`{"alg":"none","typ":"JWT"}`, adminPayload, vKey)))
	cs = append(cs, vBearer("hs256-header,unsigned(admin)", "bad", nil,
		vB64([]byte(`{"alg":"HS256","typ":"JWT"}`))+"."+vB64([]byte(adminPayload))+"."))
	// payload of the admin token under the signature of the read token
	ap, rp := strings.Split(admin, "."), strings.Split(read, ".")
	if len(ap) != 3 || len(rp) != 3 {
		return nil, fmt.Errorf("minted token does not have three segments")
	}
	cs = append(cs, vBearer("payload-swap(admin payload, read signature)", "bad", nil, rp[0]+"."+ap[1]+"."+rp[2]))
	cs = append(cs, vBearer("signature-stripped(admin)", "bad", nil, ap[0]+"."+ap[1]+"."))
	cs = append(cs, vBearer("two-segments(admin)", "bad", nil, ap[0]+"."+ap[1]))
	cs = append(cs, vBearer("four-segments(admin)", "bad", nil, admin+"."+ap[2]))
	cs = append(cs, vBearer("correctly signed, payload not an object", "bad", nil, vRawJWT(`{"alg":"HS256","typ":"JWT"}`, `"admin"`, vKey)))
	cs = append(cs, vBearer("correctly signed, payload not JSON", "bad", nil, vRawJWT(`{"alg":"HS256","typ":"JWT"}`, `admin`, vKey)))
	cs = append(cs, vBearer("correctly signed, Allow is a string", "bad", nil,
		vRawJWT(`{"alg":"HS256","typ":"JWT"}`, `{"Allow":"admin"}`, vKey)))
	for _, g := range []string{"garbage", "a.b.c", "..", "null", "admin", strings.Repeat("A", 5000)} {
		n := g
		if len(n) > 12 {
			n = n[:12] + "…"
		}
		cs = append(cs, vBearer("garbage("+n+")", "bad", nil, g))
	}
	// header-level malformations (not expressible as ?token=)
	cs = append(cs, vCred{Name: "empty bearer", Kind: "bad", Header: "Bearer "})
	cs = append(cs, vCred{Name: "admin token without Bearer prefix", Kind: "bad", Header: admin})
	cs = append(cs, vCred{Name: "lower-case bearer prefix(admin)", Kind: "bad", Header: "bearer " + admin})
	cs = append(cs, vCred{Name: "Basic scheme(admin)", Kind: "bad", Header: "Basic " + admin})
	cs = append(cs, vCred{Name: "double space after Bearer(admin)", Kind: "bad", Header: "Bearer  " + admin})
	cs = append(cs, vCred{Name: "Bearer Bearer(admin)", Kind: "bad", Header: "Bearer Bearer " + admin})

	// --- byte-level forgeries of the admin token: every truncation, and single-bit flips
	for n := 0; n < len(admin); n++ {
		cs = append(cs, vBearer(fmt.Sprintf("truncate(admin,%d)", n), "bad", nil, admin[:n]))
	}
	segName := []string{"header", "payload", "signature"}
	for si := 0; si < 3; si++ {
		raw, err := base64.RawURLEncoding.DecodeString(ap[si])
		if err != nil {
			return nil, fmt.Errorf("segment %d of a minted token is not base64url: %v", si, err)
		}
		for bi := 0; bi < len(raw); bi++ {
			for bit := 0; bit < 8; bit++ {
				if depth == 0 && !(si == 2 && bit == bi%8) && !(si != 2 && bi%4 == 0 && bit == (bi/4)%8) {
					continue // quick: one bit per signature byte, one bit every 4 header/payload bytes
				}
				mut := append([]byte(nil), raw...)
				mut[bi] ^= 1 << bit
				seg := append([]string(nil), ap...)
				seg[si] = vB64(mut)
				cs = append(cs, vBearer(fmt.Sprintf("bitflip(admin,%s,byte %d,bit %d)", segName[si], bi, bit), "bad", nil, strings.Join(seg, ".")))
			}
		}
	}
	return cs, nil
}

// ---------------------------------------------------------------- transports

var vTransports = []string{"http", "http-query", "http-batch", "ws"}

type vResp struct {
	Class  string // reached | denied | 401 | nochan | other
	Detail string
}

type vRPCResp struct {
	ID     json.RawMessage `json:"id"`
	Result json.RawMessage `json:"result"`
	Error  *struct {
		Code    int    `json:"code"`
		Message string `json:"message"`
	} `json:"error"`
}

func vClassify(r *vRPCResp) vResp {
	if r.Error == nil {
		return vResp{"other", "result without error: " + string(r.Result)}
	}
	m := r.Error.Message
	switch {
	case strings.Contains(m, vSentinel):
		return vResp{"reached", m}
	case strings.Contains(m, "missing permission to invoke"):
		return vResp{"denied", m}
	case strings.Contains(m, "no out channel support"):
		return vResp{"nochan", m}
	}
	return vResp{"other", m}
}

func (s *vServer) nextID() int { s.reqID++; return s.reqID }

func (s *vServer) reqBody(m *vMethod, id int) []byte {
	return []byte(fmt.Sprintf(`{"jsonrpc":"2.0","id":%d,"method":%q,"params":%s}`, id, m.Name, m.Params))
}

// post sends one HTTP POST and returns the HTTP status and body.
func (s *vServer) post(c vCred, viaQuery bool, body []byte) (int, []byte, error) {
	u := "http://" + s.addr + "/"
	if viaQuery {
		u += "?token=" + url.QueryEscape(c.Query)
	}
	req, err := http.NewRequest(http.MethodPost, u, bytes.NewReader(body))
	if err != nil {
		return 0, nil, err
	}
	req.Header.Set("Content-Type", "application/json")
	if !viaQuery && c.Header != "" {
		req.Header["Authorization"] = []string{c.Header}
	}
	resp, err := s.http.Do(req)
	if err != nil {
		return 0, nil, err
	}
	defer resp.Body.Close()
	b, err := io.ReadAll(resp.Body)
	return resp.StatusCode, b, err
}

// vObs is what one (transport, credential, method) cell showed.
type vObs struct {
	Hit  bool
	Hits []vHit
	Resp vResp
}

// callAll invokes every method in ms with credential c over transport tr and returns one
// observation per method. Calls on one server are strictly sequential, so stub hits are attributed
// to the request in flight.
func (s *vServer) callAll(tr string, c vCred, ms []*vMethod) ([]vObs, error) {
	out := make([]vObs, len(ms))
	s.rec.take()
	switch tr {
	case "http", "http-query":
		for i, m := range ms {
			id := s.nextID()
			st, body, err := s.post(c, tr == "http-query", s.reqBody(m, id))
			if err != nil {
				return nil, fmt.Errorf("%s %s: %v", tr, m.Name, err)
			}
			out[i] = s.observe(m, st, body, id)
		}
	case "http-batch":
		ids := make([]int, len(ms))
		var parts []string
		for i, m := range ms {
			ids[i] = s.nextID()
			parts = append(parts, string(s.reqBody(m, ids[i])))
		}
		st, body, err := s.post(c, false, []byte("["+strings.Join(parts, ",")+"]"))
		if err != nil {
			return nil, fmt.Errorf("batch: %v", err)
		}
		hits := s.rec.take()
		hitBy := map[string][]vHit{}
		for _, h := range hits {
			hitBy[h.API+"."+h.Method] = append(hitBy[h.API+"."+h.Method], h)
		}
		var rs []vRPCResp
		if st != 401 {
			if err := json.Unmarshal(body, &rs); err != nil {
				return nil, fmt.Errorf("batch response (status %d) is not a JSON array: %v: %.200s", st, err, body)
			}
		}
		byID := map[string]*vRPCResp{}
		for k := range rs {
			byID[string(rs[k].ID)] = &rs[k]
		}
		for i, m := range ms {
			o := vObs{Hits: hitBy[m.API+"."+m.Field]}
			o.Hit = len(o.Hits) > 0
			delete(hitBy, m.API+"."+m.Field)
			switch {
			case st == 401:
				o.Resp = vResp{"401", ""}
			case byID[fmt.Sprint(ids[i])] == nil:
				o.Resp = vResp{"other", "no response item for the request"}
			default:
				o.Resp = vClassify(byID[fmt.Sprint(ids[i])])
			}
			out[i] = o
		}
		if len(hitBy) > 0 {
			return nil, fmt.Errorf("batch: stub hits that belong to no request of the batch: %v", hitBy)
		}
	case "ws":
		conn, status, err := vwsDial(s.addr, c.Header)
		if err != nil {
			return nil, fmt.Errorf("ws dial: %v", err)
		}
		if status != http.StatusSwitchingProtocols {
			if status == 401 {
				for i := range ms {
					out[i] = vObs{Resp: vResp{"401", ""}}
				}
				if h := s.rec.take(); len(h) > 0 {
					return nil, fmt.Errorf("ws: handshake refused but stubs were hit: %v", h)
				}
				return out, nil
			}
			return nil, fmt.Errorf("ws handshake: unexpected status %d", status)
		}
		defer conn.Close()
		for i, m := range ms {
			id := s.nextID()
			if err := conn.WriteText(s.reqBody(m, id)); err != nil {
				return nil, fmt.Errorf("ws write %s: %v", m.Name, err)
			}
			var r vRPCResp
			for {
				msg, err := conn.ReadText()
				if err != nil {
					return nil, fmt.Errorf("ws read %s: %v", m.Name, err)
				}
				r = vRPCResp{}
				if err := json.Unmarshal(msg, &r); err != nil {
					return nil, fmt.Errorf("ws frame is not JSON: %.200s", msg)
				}
				if string(r.ID) == fmt.Sprint(id) {
					break
				}
			}
			hits := s.rec.take()
			out[i] = vObs{Hit: len(hits) > 0, Hits: hits, Resp: vClassify(&r)}
		}
		conn.SendClose()
	default:
		return nil, fmt.Errorf("unknown transport %q", tr)
	}
	return out, nil
}

func (s *vServer) observe(m *vMethod, status int, body []byte, id int) vObs {
	hits := s.rec.take()
	o := vObs{Hit: len(hits) > 0, Hits: hits}
	if status == 401 {
		o.Resp = vResp{"401", ""}
		return o
	}
	var r vRPCResp
	if err := json.Unmarshal(body, &r); err != nil {
		o.Resp = vResp{"other", fmt.Sprintf("status %d, body not JSON-RPC: %.200s", status, body)}
		return o
	}
	if string(r.ID) != fmt.Sprint(id) {
		o.Resp = vResp{"other", fmt.Sprintf("response id %s for request id %d: %.200s", r.ID, id, body)}
		return o
	}
	o.Resp = vClassify(&r)
	return o
}

// ---------------------------------------------------------------- minimal websocket client (RFC 6455)
//
// Hand-written so that the harness imports nothing the repository does not already require directly.

type vwsConn struct {
	c  net.Conn
	br *bufio.Reader
}

// vwsDial performs the opening handshake. It returns the HTTP status; the connection is only
// usable when the status is 101.
func vwsDial(addr, authHeader string) (*vwsConn, int, error) {
	c, err := net.DialTimeout("tcp", addr, 10*time.Second)
	if err != nil {
		return nil, 0, err
	}
	_ = c.SetDeadline(time.Now().Add(20 * time.Second))
	var b strings.Builder
	b.WriteString("GET / HTTP/1.1\r\nHost: " + addr + "\r\nUpgrade: websocket\r\nConnection: Upgrade\r\n")
	b.WriteString("Sec-WebSocket-Key: dmVyaWYtYzE5LWhhcm5lcw==\r\nSec-WebSocket-Version: 13\r\n")
	if authHeader != "" {
		b.WriteString("Authorization: " + authHeader + "\r\n")
	}
	b.WriteString("\r\n")
	if _, err := io.WriteString(c, b.String()); err != nil {
		c.Close()
		return nil, 0, err
	}
	br := bufio.NewReader(c)
	resp, err := http.ReadResponse(br, &http.Request{Method: http.MethodGet})
	if err != nil {
		c.Close()
		return nil, 0, err
	}
	if resp.StatusCode != http.StatusSwitchingProtocols {
		_, _ = io.Copy(io.Discard, io.LimitReader(resp.Body, 1<<16))
		resp.Body.Close()
		c.Close()
		return nil, resp.StatusCode, nil
	}
	return &vwsConn{c: c, br: br}, resp.StatusCode, nil
}

func (w *vwsConn) writeFrame(opcode byte, payload []byte) error {
	_ = w.c.SetWriteDeadline(time.Now().Add(20 * time.Second))
	hdr := []byte{0x80 | opcode}
	n := len(payload)
	switch {
	case n < 126:
		hdr = append(hdr, 0x80|byte(n))
	case n < 1<<16:
		hdr = append(hdr, 0x80|126, byte(n>>8), byte(n))
	default:
		hdr = append(hdr, 0x80|127)
		var l [8]byte
		binary.BigEndian.PutUint64(l[:], uint64(n))
		hdr = append(hdr, l[:]...)
	}
	mask := [4]byte{0x12, 0x34, 0x56, 0x78}
	hdr = append(hdr, mask[:]...)
	buf := make([]byte, 0, len(hdr)+n)
	buf = append(buf, hdr...)
	for i, p := range payload {
		buf = append(buf, p^mask[i%4])
	}
	_, err := w.c.Write(buf)
	return err
}

func (w *vwsConn) WriteText(p []byte) error { return w.writeFrame(1, p) }

// ReadText returns the next complete text/binary message, answering pings on the way.
func (w *vwsConn) ReadText() ([]byte, error) {
	var msg []byte
	for {
		_ = w.c.SetReadDeadline(time.Now().Add(20 * time.Second))
		var h [2]byte
		if _, err := io.ReadFull(w.br, h[:]); err != nil {
			return nil, err
		}
		fin, opcode := h[0]&0x80 != 0, h[0]&0x0f
		masked := h[1]&0x80 != 0
		n := uint64(h[1] & 0x7f)
		switch n {
		case 126:
			var l [2]byte
			if _, err := io.ReadFull(w.br, l[:]); err != nil {
				return nil, err
			}
			n = uint64(binary.BigEndian.Uint16(l[:]))
		case 127:
			var l [8]byte
			if _, err := io.ReadFull(w.br, l[:]); err != nil {
				return nil, err
			}
			n = binary.BigEndian.Uint64(l[:])
		}
		if n > 64<<20 {
			return nil, fmt.Errorf("ws frame of %d bytes", n)
		}
		var mask [4]byte
		if masked {
			if _, err := io.ReadFull(w.br, mask[:]); err != nil {
				return nil, err
			}
		}
		p := make([]byte, n)
		if _, err := io.ReadFull(w.br, p); err != nil {
			return nil, err
		}
		if masked {
			for i := range p {
				p[i] ^= mask[i%4]
			}
		}
		switch opcode {
		case 9: // ping
			if err := w.writeFrame(10, p); err != nil {
				return nil, err
			}
		case 10: // pong
		case 8:
			return nil, fmt.Errorf("ws closed by server: %q", p)
		case 0, 1, 2:
			msg = append(msg, p...)
			if fin {
				return msg, nil
			}
		default:
			return nil, fmt.Errorf("ws: unknown opcode %d", opcode)
		}
	}
}

func (w *vwsConn) SendClose() { _ = w.writeFrame(8, []byte{0x03, 0xe8}) }
func (w *vwsConn) Close()     { _ = w.c.Close() }

// ---------------------------------------------------------------- oracle

func vHas(allow []auth.Permission, p string) bool {
	for _, a := range allow {
		if string(a) == p {
			return true
		}
	}
	return false
}

// vExpect: mayReach = the property allows the call to reach the implementation;
// mustReach = the property demands that it does.
func vExpect(cfg vSrvCfg, tr string, c vCred, m *vMethod) (mayReach, mustReach bool) {
	switch {
	case cfg.AuthOff:
		mayReach = true
	case c.Kind == "none":
		mayReach = m.Tag == "public"
	case c.Kind == "signed":
		mayReach = vHas(c.Allow, m.Tag)
	default: // bad: grants nothing; what an anonymous caller may reach anyway is not constrained
		if m.Tag == "public" {
			return true, false
		}
		mayReach = false
	}
	mustReach = mayReach
	if m.Chan && tr != "ws" {
		mustReach = false // channel-returning methods exist only over websocket
	}
	return mayReach, mustReach
}

func vLevelIdx(l string) int {
	for i, x := range vLevels {
		if string(x) == l {
			return i
		}
	}
	return -1
}

type vPolicy struct {
	Min      string
	Category string
}

func vLoadPolicy() (map[string]vPolicy, string, error) {
	dir := os.Getenv("VERIF_DIR")
	if dir == "" {
		dir = "/verif"
	}
	path := filepath.Join(dir, "policy", "rpc_min_perms.txt")
	f, err := os.Open(path)
	if err != nil {
		return nil, path, err
	}
	defer f.Close()
	pol := map[string]vPolicy{}
	sc := bufio.NewScanner(f)
	ln := 0
	for sc.Scan() {
		ln++
		line := strings.TrimSpace(sc.Text())
		if i := strings.Index(line, "#"); i >= 0 {
			line = strings.TrimSpace(line[:i])
		}
		if line == "" {
			continue
		}
		fs := strings.Fields(line)
		if len(fs) < 2 {
			return nil, path, fmt.Errorf("%s:%d: want '<namespace.Method> <any|read|write|admin> [category]'", path, ln)
		}
		min := fs[1]
		if min == "any" {
			min = "public"
		}
		if vLevelIdx(min) < 0 {
			return nil, path, fmt.Errorf("%s:%d: unknown level %q", path, ln, fs[1])
		}
		if _, dup := pol[fs[0]]; dup {
			return nil, path, fmt.Errorf("%s:%d: duplicate entry %s", path, ln, fs[0])
		}
		pol[fs[0]] = vPolicy{Min: min, Category: strings.Join(fs[2:], " ")}
	}
	return pol, path, sc.Err()
}

// ---------------------------------------------------------------- driver

type vCase struct {
	Cfg       vSrvCfg `json:"cfg"`
	Transport string  `json:"transport"`
	Cred      vCred   `json:"cred"`
	Method    string  `json:"method"`
	// history part only
	History []string `json:"history,omitempty"`
	Step    int      `json:"step,omitempty"`
	Variant int      `json:"token_variant,omitempty"`
	// node-keys part only
	KeyScenario string `json:"key_scenario,omitempty"`
}

type vVerdict struct {
	sig, what string
}

// vJudge applies the oracle to one observation. ok=false with infra!="" is a harness problem.
func vJudge(cfg vSrvCfg, tr string, c vCred, m *vMethod, o vObs) (v *vVerdict, infra string) {
	for _, h := range o.Hits {
		if h.API != m.API || h.Method != m.Field {
			return nil, fmt.Sprintf("request for %s reached stub %s.%s", m.Name, h.API, h.Method)
		}
	}
	if len(o.Hits) > 1 {
		return nil, fmt.Sprintf("request for %s reached its stub %d times", m.Name, len(o.Hits))
	}
	may, must := vExpect(cfg, tr, c, m)
	mode := "auth=on"
	if cfg.AuthOff {
		mode = "auth=off"
	}
	ck := c.Kind
	if ck == "bad" {
		ck = "bad:" + vCredClass(c.Name)
	}
	if o.Hit && !may {
		return &vVerdict{
			sig: fmt.Sprintf("%s/reached-without-permission/%s/cred=%s", vPropID, mode, ck),
			what: fmt.Sprintf("%s (declared perm %q) reached the module implementation for credential %q (kind %s, allow %v) over %s on server %s; response class %s %s",
				m.Name, m.Tag, c.Name, c.Kind, c.Allow, tr, cfg, o.Resp.Class, o.Resp.Detail),
		}, ""
	}
	if !o.Hit && must {
		return &vVerdict{
			sig: fmt.Sprintf("%s/denied-with-permission/%s/cred=%s", vPropID, mode, ck),
			what: fmt.Sprintf("%s (declared perm %q) did NOT reach the module implementation for credential %q (kind %s, allow %v) over %s on server %s; response class %s %s",
				m.Name, m.Tag, c.Name, c.Kind, c.Allow, tr, cfg, o.Resp.Class, o.Resp.Detail),
		}, ""
	}
	// the response must tell the same story as the stub
	switch {
	case o.Hit && o.Resp.Class != "reached":
		return nil, fmt.Sprintf("%s reached its stub but the response is %s %s (cred %q, %s, %s)", m.Name, o.Resp.Class, o.Resp.Detail, c.Name, tr, cfg)
	case !o.Hit && o.Resp.Class == "reached":
		return nil, fmt.Sprintf("%s response carries the stub sentinel but the stub was not hit (cred %q, %s, %s)", m.Name, c.Name, tr, cfg)
	case o.Resp.Class == "other":
		return nil, fmt.Sprintf("%s: undecidable response %q (cred %q, %s, %s)", m.Name, o.Resp.Detail, c.Name, tr, cfg)
	}
	return nil, ""
}

func vCredClass(name string) string {
	if i := strings.IndexAny(name, "(,"); i > 0 {
		return strings.ReplaceAll(name[:i], " ", "-")
	}
	return strings.ReplaceAll(name, " ", "-")
}

func TestVerifC19(t *testing.T) {
	logging.SetAllLoggers(logging.LevelFatal)
	rep := vx.NewReport(vPropID, "model_checking")
	rep.Rule = "complete product: every method in the dispatch table of the real rpc.Server (populated by the node's registerEndpoints) x every credential of an " +
		"explicit alphabet (no token; tokens minted by the repository's own functions for all 16 subsets of {public,read,write,admin}, the four named classes, " +
		"unknown permission names; correctly signed tokens over LITERAL claim bytes - the claim names issued so far with ExpiresAt past/future/absent/zero per level, key-case, snake_case and duplicate-key variants, judged against the harness's own reference reading of the claims; expired, other key, other algorithm, alg=none, unsigned, payload swap, non-object payloads, garbage, header malformations, " +
		"every truncation of an admin token and single-bit flips of it (quick: one bit per signature byte and one per 4 header/payload bytes; thorough: every bit)) x transport {http header, http ?token=, http batch, websocket} x server configuration " +
		"{auth on, auth on + CORS, auth off (+ metrics in thorough)}. A cell is distinct by (configuration, transport, credential, method) and non-trivial when the " +
		"server gave a decisive answer (stub reached / 'missing permission' / 401); channel methods over plain http are counted as trivial. " +
		"History part: see coverage.history_part. Node-keys part: see coverage.node_keys_part. Construction-order part: see coverage.construction_order_part"
	rep.Assumptions = []string{
		"module implementations are reflective stubs behind the real API structs; the permission proxy, auth handler, token verification, dispatch and transports are the real code",
		"the perm tag of a method is read from the API struct the node registers; namespaces are attributed to API structs by their exact method sets",
		"matrix and history part: HS256 with a fixed 32-byte key injected by the harness; node-keys part: signer and verifier built by the node's own jwtSignerAndVerifier over FS and in-memory keystores; HMAC/SHA-256 strength itself is not examined",
		"which methods are sensitive is fixed by the committed table /verif/policy/rpc_min_perms.txt (a reading of the property text); methods not listed there are reported UNCLASSIFIED",
		"literal-claims credentials: what a claim set grants is computed by the harness's reference of the current decoding rule (keys match Allow/Nonce/ExpiresAt case-insensitively, last occurrence wins, unknown keys such as expires_at ignored); a deliberate change of the claim names needs that reference updated",
		"expiry uses the real clock: in the matrix expired tokens are at least one minute in the past, valid ones 24 h in the future",
		"history part: real time, no wall-clock step during a run; a use whose token expires while the request is in flight is not judged; waits sleep until ExpiresAt + margin",
	}

	if rp := os.Getenv("VERIF_REPLAY"); rp != "" {
		vReplay(t, rep, rp)
		return
	}

	depth := 0
	cfgs := []vSrvCfg{{}, {CORS: true}, {AuthOff: true}}
	if rep.Tier == "thorough" {
		depth = 1
		cfgs = append(cfgs, vSrvCfg{Metrics: true}, vSrvCfg{CORS: true, Metrics: true}, vSrvCfg{AuthOff: true, Metrics: true})
	}
	deadline := rep.Deadline(85*time.Second, 15*time.Minute)

	creds, err := vCredentials(depth)
	if err != nil {
		rep.Infra("building credentials: " + err.Error())
		rep.Finish()
		t.FailNow()
	}
	pol, polPath, err := vLoadPolicy()
	if err != nil {
		rep.Infra("policy table: " + err.Error())
		rep.Finish()
		t.FailNow()
	}

	type cellKey struct{ cfg, tr, cred, method string }
	var (
		mu          sync.Mutex
		evals       int64
		contexts    int64
		nontrivial  = map[cellKey]struct{}{}
		outcomes    = map[string]int64{}
		posControls int64
		selfChecks  int64
		negControls int64
		exhaustive  = true
		infraSeen   = map[string]bool{}
		// effective[method][cfg] = lowest named class that reached it
		reachedBy = map[string]map[string]bool{}
		perCfg    = map[string]map[string]int64{}
		methodsOf = map[string][]vMethod{}
	)
	infra := func(msg string) {
		mu.Lock()
		defer mu.Unlock()
		if !infraSeen[msg] && len(infraSeen) < 20 {
			rep.Infra(msg)
		}
		infraSeen[msg] = true
	}

	var wg sync.WaitGroup
	for _, cfg := range cfgs {
		wg.Add(1)
		go func(cfg vSrvCfg) {
			defer wg.Done()
			s, err := newVServer(cfg)
			if err != nil {
				infra(fmt.Sprintf("server %s: %v", cfg, err))
				return
			}
			defer s.Close()
			mu.Lock()
			methodsOf[cfg.String()] = append([]vMethod(nil), s.methods...)
			perCfg[cfg.String()] = map[string]int64{}
			mu.Unlock()
			// VERIF_SEED only rotates the order
			rot := 0
			if n := len(s.methods); n > 0 {
				rot = int(uint64(rep.Seed) % uint64(n))
			}
			ms := make([]*vMethod, 0, len(s.methods))
			for i := range s.methods {
				ms = append(ms, &s.methods[(i+rot)%len(s.methods)])
			}
			// determinism self-check: the same context driven twice must give identical observations
			for _, tr := range vTransports {
				for _, cn := range []string{"class:read", "expired(admin,-1h0m0s)"} {
					for _, c := range creds {
						if c.Name != cn {
							continue
						}
						a, err1 := s.callAll(tr, c, ms)
						b, err2 := s.callAll(tr, c, ms)
						if err1 != nil || err2 != nil {
							infra(fmt.Sprintf("%s %s cred %q: %v %v", cfg, tr, c.Name, err1, err2))
							continue
						}
						for i := range a {
							if a[i].Hit != b[i].Hit || a[i].Resp.Class != b[i].Resp.Class {
								infra(fmt.Sprintf("NONDETERMINISM: %s %s cred %q method %s: %v/%s then %v/%s", cfg, tr, c.Name, ms[i].Name,
									a[i].Hit, a[i].Resp.Class, b[i].Hit, b[i].Resp.Class))
							}
						}
						mu.Lock()
						selfChecks += int64(len(a))
						mu.Unlock()
					}
				}
			}
			for _, tr := range vTransports {
				for _, c := range creds {
					if tr == "http-query" && c.Query == "" {
						continue // no ?token= form of this credential
					}
					if time.Now().After(deadline) {
						mu.Lock()
						exhaustive = false
						mu.Unlock()
						return
					}
					obs, err := s.callAll(tr, c, ms)
					if err != nil {
						infra(fmt.Sprintf("%s %s cred %q: %v", cfg, tr, c.Name, err))
						mu.Lock()
						exhaustive = false
						mu.Unlock()
						continue
					}
					mu.Lock()
					contexts++
					mu.Unlock()
					for i, m := range ms {
						v, inf := vJudge(cfg, tr, c, m, obs[i])
						mu.Lock()
						evals++
						outcomes[obs[i].Resp.Class]++
						perCfg[cfg.String()][c.Kind+":"+obs[i].Resp.Class]++
						if cl := obs[i].Resp.Class; cl == "reached" || cl == "denied" || cl == "401" {
							nontrivial[cellKey{cfg.String(), tr, c.Name, m.Name}] = struct{}{}
						}
						if obs[i].Hit {
							if _, must := vExpect(cfg, tr, c, m); must {
								posControls++
							}
							if strings.HasPrefix(c.Name, "class:") || c.Name == "none" {
								k := cfg.String() + "|" + m.Name
								if reachedBy[k] == nil {
									reachedBy[k] = map[string]bool{}
								}
								reachedBy[k][c.Name] = true
							}
						} else if may, _ := vExpect(cfg, tr, c, m); !may {
							negControls++
						}
						mu.Unlock()
						if inf != "" {
							infra(inf)
						}
						if v != nil {
							rep.Violation(v.sig, v.what, vCase{Cfg: cfg, Transport: tr, Cred: c, Method: m.Name})
						}
					}
				}
			}
		}(cfg)
	}
	wg.Wait()

	// ---- construction-order part: every start-up order of registration and WithMetrics
	ost := vRunOrders(creds, deadline, func(v *vVerdict, replay vCase) { rep.Violation(v.sig, v.what, replay) })
	for _, m := range ost.Infra {
		infra(m)
	}
	if !ost.Complete {
		exhaustive = false
	}

	// ---- history part: does the server remember anything about a credential between requests?
	histLen := 4
	if rep.Tier == "thorough" {
		histLen = 5
	}
	hst := vRunHistories(vSrvCfg{}, histLen, 256, deadline, func(v *vVerdict, replay vCase) {
		rep.Violation(v.sig, v.what, replay)
	})
	for _, m := range hst.Infra {
		infra(m)
	}
	if !hst.Complete {
		exhaustive = false
	}

	// ---- node-keys part: signer/verifier built by the node's own start-up path
	kst := vRunKeyScenarios(func() string { return t.TempDir() }, func(v *vVerdict, replay vCase) {
		rep.Violation(v.sig, v.what, replay)
	})
	for _, m := range kst.Infra {
		infra(m)
	}
	if !kst.Complete {
		exhaustive = false
	}

	// ---- the policy itself: effective level of every method against the committed table
	classOrder := []string{"none", "class:public", "class:read", "class:read+write", "class:admin"}
	classLevel := []string{"public", "public", "read", "write", "admin"}
	effective := map[string]string{}
	declared := map[string]string{}
	unclassified := []string{}
	var base []vMethod
	for _, cfg := range cfgs {
		if !cfg.AuthOff {
			if ms, ok := methodsOf[cfg.String()]; ok {
				base = ms
				break
			}
		}
	}
	seenInTable := map[string]bool{}
	for _, m := range base {
		declared[m.Name] = m.Tag
		for _, cfg := range cfgs {
			if cfg.AuthOff {
				continue
			}
			rb := reachedBy[cfg.String()+"|"+m.Name]
			eff := "unreachable"
			for i, cn := range classOrder {
				if rb[cn] {
					eff = classLevel[i]
					break
				}
			}
			if prev, ok := effective[m.Name]; !ok || vLevelIdx(eff) < vLevelIdx(prev) || prev == "unreachable" {
				if !(ok && eff == "unreachable") {
					effective[m.Name] = eff
				}
			}
		}
		p, ok := pol[m.Name]
		if !ok {
			unclassified = append(unclassified, m.Name)
			continue
		}
		seenInTable[m.Name] = true
		for _, lv := range []struct{ what, level string }{{"declared perm tag", m.Tag}, {"lowest credential class that reached it", effective[m.Name]}} {
			if lv.level == "unreachable" {
				continue // (also the case when the deadline cut the matrix short)
			}
			if vLevelIdx(lv.level) < vLevelIdx(p.Min) {
				rep.Violation(fmt.Sprintf("%s/policy/under-protected/%s/needs=%s/has=%s", vPropID, m.Name, p.Min, lv.level),
					fmt.Sprintf("%s (%s) must require at least %q according to %s, but its %s is %q", m.Name, p.Category, p.Min, polPath, lv.what, lv.level),
					map[string]any{"method": m.Name, "policy_min": p.Min, "category": p.Category, "declared": m.Tag, "effective": effective[m.Name]})
				break
			}
		}
	}
	sort.Strings(unclassified)
	for _, u := range unclassified {
		rep.Infra(fmt.Sprintf("UNCLASSIFIED method %s (declared perm %q): add it to %s with the minimum level the property text demands", u, declared[u], polPath))
	}
	var stale []string
	for k := range pol {
		if !seenInTable[k] && len(base) > 0 {
			stale = append(stale, k)
		}
	}
	sort.Strings(stale)
	for _, k := range stale {
		fmt.Printf("VERIF-NOTE policy entry %s names a method that is not registered\n", k)
	}

	// ---- evidence
	if len(infraSeen) > 0 {
		exhaustive = false
	}
	rep.Count(evals, int64(len(nontrivial)), contexts, evals)
	rep.Count(hst.Cells, hst.Decisive, int64(hst.Run), hst.Cells)
	rep.Count(kst.Cells, kst.Decisive, kst.Contexts, kst.Cells)
	rep.Count(ost.Cells, ost.Decisive, ost.Contexts, ost.Cells)
	rep.Set("construction_order_part", map[string]any{
		"what": "for auth on and auth off, every listed start-up order of the node's registerEndpoints / Server.RegisterService and Server.WithMetrics (global OTel meter provider, as " +
			"nodebuilder's settings use) builds its own server; each is driven with the reduced credential set x every method of the dispatch table x 4 transports; oracle unchanged",
		"orders": vOrders, "credentials": ost.CredNames, "servers": ost.Servers, "cells": ost.Cells, "cells_decisive": ost.Decisive,
		"outcomes_per_server": ost.PerServer, "cells_reached": ost.Reached, "cells_kept_out": ost.KeptOut, "complete": ost.Complete, "wall_s": ost.Wall,
	})
	rep.Set("node_keys_part", map[string]any{
		"what": "signer, verifier and node module come out of the node's own fx wiring (node.ConstructModule -> jwtSignerAndVerifier(keystore)); the rpc.Server built by the " +
			"node's constructor around that pair is driven with tokens signed with the secret read back from the keystore, tokens minted by node.AuthNew / AuthNewWithExpiry, " +
			"tokens from the provided signer, and tokens signed with foreign keys (all-zero, all-0xff, one byte, other random) for each of the four levels x one representative " +
			"method per declared perm level x 4 transports; oracle unchanged",
		"scenarios": kst.Scenarios, "credentials_per_scenario": kst.Creds, "methods": kst.Methods, "cells": kst.Cells, "cells_decisive": kst.Decisive,
		"outcome_histogram": kst.Outcomes, "outcomes_per_scenario": kst.PerScenario, "cells_reached": kst.Reached, "cells_kept_out": kst.KeptOut,
		"complete": kst.Complete, "wall_s": kst.Wall,
	})
	if kst.Sample != nil {
		rep.AddSample(kst.Sample)
	}
	rep.Set("history_part", map[string]any{
		"what": "every sequence over the event alphabet of length 1..max_len that contains at least one wait, each on its own fresh server (auth on), " +
			"real time; every use = 1 representative method per declared perm level x 4 transports, judged by the stateless oracle at the time of the use " +
			"(expired iff the token's own ExpiresAt is before the instant measured right before AND right after the request; disagreement = inconclusive, not judged)",
		"alphabet": vHistAlphabet, "max_len": hst.MaxLen, "histories_planned": hst.Planned, "histories_run": hst.Run, "uses": hst.Uses,
		"cells": hst.Cells, "cells_decisive": hst.Decisive, "cells_inconclusive_not_judged": hst.Inconclusive, "cells_by_token_state": hst.ByState,
		"outcome_histogram": hst.Outcomes, "cells_token_expired_after_a_valid_use_of_it": hst.ExpiredAfterValidUse,
		"valid_token_cells_reached": hst.ReachedValid, "expired_token_cells_kept_out": hst.KeptOutExpired,
		"cells_with_token_state_as_the_history_intends": hst.AsIntended, "cells_token_state_shifted_by_scheduling_delay(judged_by_actual_state)": hst.NotAsIntended,
		"histories_rerun_after_transport_error": hst.Retries,
		"ttl_T1_ms": vHistTTL1.Milliseconds(), "ttl_T2_ms": vHistTTL2.Milliseconds(), "wait_margin_ms": vHistMargin.Milliseconds(),
		"token_perms": "T1,T2: public+read+write; expired-at-mint: all four",
		"token_construction": "history index mod 4: bit0 clear = T1 signed over literal claim bytes {Allow,Nonce,ExpiresAt} and T2 minted by authtoken.NewSignedJWT, bit0 set = the reverse; bit1 clear = expired-at-mint token from literal claim bytes, set = minted by the helper; expiry always read by the harness's reference reading of the claim bytes", "complete": hst.Complete, "wall_s": hst.Wall,
	})
	if hst.Sample != nil {
		rep.AddSample(hst.Sample)
	}
	rep.Set("states_are", "caller contexts: (server configuration, transport, credential) combinations that were set up and driven")
	rep.Set("transitions_are", "method invocations made from those contexts (equals evaluations)")
	rep.Set("server_configurations", func() []string {
		var o []string
		for _, c := range cfgs {
			o = append(o, c.String())
		}
		return o
	}())
	rep.Set("transports", vTransports)
	rep.Set("credentials", len(creds))
	credKinds := map[string]int{}
	for _, c := range creds {
		k := c.Kind
		if k == "bad" {
			k = "bad:" + vCredClass(c.Name)
		}
		credKinds[k]++
	}
	rep.Set("credential_classes", credKinds)
	rep.Set("methods", len(base))
	perNS := map[string]int{}
	tagHist := map[string]int{}
	for _, m := range base {
		perNS[m.NS]++
		tagHist[m.Tag]++
	}
	rep.Set("methods_per_namespace", perNS)
	rep.Set("declared_tag_histogram", tagHist)
	rep.Set("declared_perm", declared)
	rep.Set("effective_min_level", effective)
	rep.Set("outcome_histogram", outcomes)
	rep.Set("distinct_outcomes", len(outcomes))
	rep.Set("outcomes_per_configuration", perCfg)
	rep.Set("positive_controls_reached_as_demanded", posControls)
	rep.Set("negative_controls_kept_out", negControls)
	rep.Set("determinism_selfcheck_cells_compared", selfChecks)
	rep.Set("policy_table", polPath)
	rep.Set("policy_entries", len(pol))
	rep.Set("unclassified_methods", unclassified)
	rep.Set("stale_policy_entries", stale)
	rep.Set("bounds_completed", fmt.Sprintf("%d methods x %d credentials x %d transports x %d configurations (credential depth %d)", len(base), len(creds), len(vTransports), len(cfgs), depth))
	rep.Set("explanation", "finite space, enumerated completely unless exhaustive=false (deadline or infrastructure error)")
	if len(base) > 0 && len(creds) > 20 {
		for _, pick := range []struct{ ci, mi int }{{0, 0}, {16, len(base) / 2}, {len(creds) - 1, len(base) - 1}, {24, 3}} {
			c, m := creds[pick.ci%len(creds)], base[pick.mi%len(base)]
			may, must := vExpect(cfgs[0], "http", c, &m)
			h := c.Header
			if len(h) > 90 {
				h = h[:90] + "…"
			}
			rep.AddSample(map[string]any{"cfg": cfgs[0].String(), "transport": "http", "credential": c.Name, "authorization_header": h,
				"method": m.Name, "params": string(m.Params), "declared_perm": m.Tag, "may_reach": may, "must_reach": must})
		}
	}
	rep.SetExhaustive(exhaustive)
	if posControls == 0 && len(infraSeen) == 0 {
		rep.Infra("no positive control was reached: the exploration is vacuous")
	}
	if rep.Finish() > 0 || len(infraSeen) > 0 || len(unclassified) > 0 {
		t.Fail()
	}
}

func vReplay(t *testing.T, rep *vx.Report, path string) {
	b, err := os.ReadFile(path)
	if err != nil {
		t.Fatalf("replay: %v", err)
	}
	var doc struct {
		Signature string `json:"signature"`
		Replay    vCase  `json:"replay"`
	}
	if err := json.Unmarshal(b, &doc); err != nil {
		t.Fatalf("replay: %v", err)
	}
	cs := doc.Replay
	if cs.KeyScenario != "" {
		got := 0
		var last *vVerdict
		for i := 0; i < 5; i++ {
			hit := false
			_, _, err := vRunKeyScenario(cs.KeyScenario, t.TempDir(), func(tr string, c vCred, m *vMethod, o vObs, v *vVerdict, inf string) {
				if tr != cs.Transport || c.Name != cs.Cred.Name || m.Name != cs.Method {
					return
				}
				if i == 0 {
					fmt.Printf("REPLAY-STEP %s %s cred=%q %s -> hit=%v response=%s %s\n", cs.KeyScenario, tr, c.Name, m.Name, o.Hit, o.Resp.Class, o.Resp.Detail)
				}
				if v != nil {
					last, hit = v, true
				}
			})
			if err != nil {
				t.Fatalf("replay: %v", err)
			}
			if hit {
				got++
			}
		}
		rep.Count(5, 2, 5, 5)
		rep.AddSample(cs)
		switch {
		case got == 5:
			fmt.Printf("REPLAY-RESULT violation reproduced 5/5: %s\n", last.what)
			rep.Violation(last.sig, last.what, cs)
		case got == 0:
			fmt.Println("REPLAY-RESULT no violation")
		default:
			t.Fatalf("NONDETERMINISM: violation reproduced %d/5", got)
		}
		rep.Finish()
		return
	}
	if len(cs.History) > 0 {
		got := 0
		var last *vVerdict
		for i := 0; i < 5; i++ {
			res, err := vRunHistory(cs.Cfg, cs.History, cs.Variant)
			if err != nil {
				t.Fatalf("replay: %v", err)
			}
			hit := false
			for _, c := range res.Cells {
				if i == 0 {
					fmt.Printf("REPLAY-STEP %d %s %s %s token=%s -> reached=%v response=%s\n", c.Step, c.Event, c.Transport, c.Method, c.TokenState, c.Hit, c.Resp)
				}
				if c.verdict != nil && c.verdict.sig == doc.Signature {
					last, hit = c.verdict, true
				}
			}
			if hit {
				got++
			}
		}
		rep.Count(5, 2, 5, int64(5*len(cs.History)))
		rep.AddSample(cs)
		switch {
		case got == 5:
			fmt.Printf("REPLAY-RESULT violation reproduced 5/5: %s\n", last.what)
			rep.Violation(last.sig, last.what, cs)
		case got == 0:
			fmt.Println("REPLAY-RESULT no violation")
		default:
			fmt.Printf("REPLAY-RESULT violation reproduced only %d/5 (timing-dependent history)\n", got)
			rep.Violation(last.sig, last.what, cs)
		}
		rep.Finish()
		return
	}
	if cs.Method == "" || cs.Transport == "" {
		fmt.Println("REPLAY-RESULT not an invocation case (policy finding): re-run the check to re-evaluate the policy table")
		rep.Count(1, 2, 1, 1)
		rep.AddSample(doc.Replay)
		rep.Finish()
		return
	}
	// regenerate the credential by name where possible (fresh nonce), else use the recorded literal
	if creds, err := vCredentials(1); err == nil {
		for _, c := range creds {
			if c.Name == cs.Cred.Name && c.Kind == "signed" {
				cs.Cred = c
			}
		}
	}
	var first *vVerdict
	for i := 0; i < 5; i++ {
		s, err := newVServer(cs.Cfg)
		if err != nil {
			t.Fatalf("replay: %v", err)
		}
		m := s.byName[cs.Method]
		if m == nil {
			s.Close()
			t.Fatalf("replay: method %s is not registered", cs.Method)
		}
		obs, err := s.callAll(cs.Transport, cs.Cred, []*vMethod{m})
		s.Close()
		if err != nil {
			t.Fatalf("replay: %v", err)
		}
		v, inf := vJudge(cs.Cfg, cs.Transport, cs.Cred, m, obs[0])
		if v != nil && cs.Cfg.Order != "" {
			v.sig += "/order=" + cs.Cfg.Order
		}
		if i == 0 {
			fmt.Printf("REPLAY-STEP %s %s cred=%q -> hit=%v response=%s %s\n", cs.Cfg, cs.Transport, cs.Cred.Name, obs[0].Hit, obs[0].Resp.Class, obs[0].Resp.Detail)
			first = v
		} else if (v == nil) != (first == nil) {
			t.Fatalf("NONDETERMINISM: replay %d gave %v, earlier %v", i, v, first)
		}
		if inf != "" {
			rep.Infra(inf)
		}
	}
	rep.Count(5, 2, 1, 5)
	rep.AddSample(cs)
	if first != nil {
		fmt.Printf("REPLAY-RESULT violation reproduced 5/5: %s\n", first.what)
		rep.Violation(first.sig, first.what, cs)
	} else {
		fmt.Println("REPLAY-RESULT no violation")
	}
	rep.Finish()
}
