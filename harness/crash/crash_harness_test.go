package store

// C07: a crash during a store write or removal never leaves a readable-but-wrong block.
//
// CR layer (DESIGN.md §3.4): package os is import-rewritten to verifx/vos in store/ and
// store/file/, so every file-system effect of the REAL put/remove path is counted per thread
// (main goroutine, Q4 writer goroutine). For a history of store operations the last one is the
// crashing one: it is executed once unbounded to count its effects, then once per
// (main budget, q4 budget, torn-write variant): a thread that used up its budget parks; when
// the whole process is quiescent (synctest) the session is marked crashed - nothing the code
// still attempts reaches the disk. The directory is then handed to a fresh NewStore and judged:
// lookup in {absent, complete-and-correct}, re-put (ODSQ4 and ODS flavour) succeeds and leaves
// the block fully readable, no height link to a partial file, removal works.

import (
	"bytes"
	"context"
	"crypto/sha256"
	"encoding/hex"
	"encoding/json"
	"errors"
	"fmt"
	"io/fs"
	"os"
	"path/filepath"
	"sort"
	"strings"
	"testing"
	"testing/synctest"
	"time"

	logging "github.com/ipfs/go-log/v2"

	libshare "github.com/celestiaorg/go-square/v4/share"
	"github.com/celestiaorg/rsmt2d"

	"github.com/celestiaorg/celestia-node/share"
	"github.com/celestiaorg/celestia-node/share/eds"
	"github.com/celestiaorg/celestia-node/share/shwap"
	"github.com/celestiaorg/celestia-node/verifx/sq"
	"github.com/celestiaorg/celestia-node/verifx/vos"
	"github.com/celestiaorg/celestia-node/verifx/vx"
)

type crOp struct {
	Kind   string `json:"kind"` // putq4 | putods | remove | removeq4
	Height uint64 `json:"height"`
	Sq     string `json:"sq"` // square key ("empty" or a layout name)
}

type crHistory struct {
	Name string `json:"name"`
	Ops  []crOp `json:"ops"` // the last one is the crashing operation
}

type crCut struct {
	Main, Q4 int // budgets; -1 = unlimited
	Tear     int // 0 = none; >0: the first write beyond the budget of TearThread is applied for Tear bytes
	TearTh   int
	// Align: the torn prefix is the longest one that leaves a whole number of shares in the file
	// (size ≡ AlignRem mod 512): the partial file a size-based check is most likely to accept
	Align    bool
	AlignRem int
}

type crSquares map[string]*sq.Square

func crBuildSquares(tier string) (crSquares, error) {
	out := crSquares{}
	specs := map[string]string{
		"w2tail": "w2:A2,B1,TAIL1",
		"w4":     "w4:TX1,A6p1,B5,TAIL4",
		"w4full": "w4:A8,B8",
	}
	for k, l := range specs {
		ls := sq.MustParse(l)
		s, err := sq.Build(ls[0], 0)
		if err != nil {
			return nil, err
		}
		out[k] = s
	}
	// a square large enough for several 64 KiB buffered flushes per file: ODS 16x16 shares
	big := fmt.Sprintf("w16:A%d,B%d,TAIL%d", 100, 120, 36)
	ls := sq.MustParse(big)
	s, err := sq.Build(ls[0], 0)
	if err != nil {
		return nil, err
	}
	out["w16"] = s
	return out, nil
}

func crRoots(s *sq.Square) *share.AxisRoots {
	return s.DAH
}

func crApply(st *Store, op crOp, sqs crSquares) error {
	ctx := context.Background()
	if op.Kind == "reopen" {
		// a restart: NewStore regenerates the empty-block files (remove + create + write) - crashable too
		_, err := NewStore(&Parameters{RecentBlocksCacheSize: 2}, st.basepath)
		return err
	}
	if op.Sq == "empty" {
		switch op.Kind {
		case "putq4":
			return st.PutODSQ4(ctx, share.EmptyEDSRoots(), op.Height, eds.EmptyAccessor.ExtendedDataSquare)
		case "putods":
			return st.PutODS(ctx, share.EmptyEDSRoots(), op.Height, eds.EmptyAccessor.ExtendedDataSquare)
		case "remove":
			return st.RemoveODSQ4(ctx, op.Height, share.EmptyEDSDataHash())
		case "removeq4":
			return st.RemoveQ4(ctx, op.Height, share.EmptyEDSDataHash())
		}
	}
	s := sqs[op.Sq]
	switch op.Kind {
	case "putq4":
		return st.PutODSQ4(ctx, crRoots(s), op.Height, s.EDS)
	case "putods":
		return st.PutODS(ctx, crRoots(s), op.Height, s.EDS)
	case "remove":
		return st.RemoveODSQ4(ctx, op.Height, crRoots(s).Hash())
	case "removeq4":
		return st.RemoveQ4(ctx, op.Height, crRoots(s).Hash())
	}
	return fmt.Errorf("unknown op %v", op)
}

// crReadOut reads the block of a height through every kind of read and compares it with the
// reference square. full=false only checks what an ODS-only representation must serve too
// (everything: parity is recomputed), so there is no difference in what is demanded.
func crReadOut(st *Store, height uint64, ref *rsmt2d.ExtendedDataSquare, roots *share.AxisRoots) (err error) {
	defer func() {
		if x := recover(); x != nil {
			err = fmt.Errorf("panic while reading: %v", x)
		}
	}()
	ctx := context.Background()
	acc, err := st.GetByHeight(ctx, height)
	if err != nil {
		return fmt.Errorf("GetByHeight: %w", err)
	}
	defer acc.Close()
	n := int(ref.Width())
	if sz, err := acc.Size(ctx); err != nil || sz != n {
		return fmt.Errorf("Size=%d,%v want %d", sz, err, n)
	}
	dh, err := acc.DataHash(ctx)
	if err != nil || !bytes.Equal(dh, roots.Hash()) {
		return fmt.Errorf("DataHash mismatch (%v)", err)
	}
	ar, err := acc.AxisRoots(ctx)
	if err != nil || !ar.Equals(roots) {
		return fmt.Errorf("AxisRoots mismatch (%v)", err)
	}
	shs, err := acc.Shares(ctx)
	if err != nil {
		return fmt.Errorf("Shares: %w", err)
	}
	w := n / 2
	if len(shs) != w*w {
		return fmt.Errorf("Shares: %d shares, want %d", len(shs), w*w)
	}
	for i, sh := range shs {
		if !bytes.Equal(sh.ToBytes(), ref.GetCell(uint(i/w), uint(i%w))) {
			return fmt.Errorf("Shares: share %d differs from the stored square", i)
		}
	}
	// samples: every coordinate for small squares, a lattice for the large one (all quadrants)
	step := 1
	if n > 8 {
		step = n/4 - 1
	}
	for r := 0; r < n; r += step {
		for c := 0; c < n; c += step {
			smp, err := acc.Sample(ctx, shwap.SampleCoords{Row: r, Col: c})
			if err != nil {
				return fmt.Errorf("Sample(%d,%d): %w", r, c, err)
			}
			if !bytes.Equal(smp.Share.ToBytes(), ref.GetCell(uint(r), uint(c))) {
				return fmt.Errorf("Sample(%d,%d): wrong share", r, c)
			}
			if err := smp.Verify(roots, r, c); err != nil {
				return fmt.Errorf("Sample(%d,%d) does not verify: %w", r, c, err)
			}
		}
	}
	for _, ax := range []rsmt2d.Axis{rsmt2d.Row, rsmt2d.Col} {
		for i := 0; i < n; i += step {
			half, err := acc.AxisHalf(ctx, ax, i)
			if err != nil {
				return fmt.Errorf("AxisHalf(%v,%d): %w", ax, i, err)
			}
			full, err := half.Extended()
			if err != nil {
				return fmt.Errorf("AxisHalf(%v,%d).Extended: %w", ax, i, err)
			}
			for k, sh := range full {
				var want []byte
				if ax == rsmt2d.Row {
					want = ref.GetCell(uint(i), uint(k))
				} else {
					want = ref.GetCell(uint(k), uint(i))
				}
				if !bytes.Equal(sh.ToBytes(), want) {
					return fmt.Errorf("AxisHalf(%v,%d): share %d differs", ax, i, k)
				}
			}
		}
	}
	// one namespace: the namespace of the first share
	ns := shs[0].Namespace()
	for r := 0; r < w; r += step {
		rnd, err := acc.RowNamespaceData(ctx, ns, r)
		if err != nil {
			continue // a row that does not contain the namespace reports an error; not judged here
		}
		for _, sh := range rnd.Shares {
			if !sh.Namespace().Equals(ns) {
				return fmt.Errorf("RowNamespaceData(row %d): foreign share", r)
			}
		}
	}
	return nil
}

var _ = libshare.ShareSize

// crDirState is a canonical description of the store directory (names, sizes, link targets, inodes).
func crDirState(dir string) string {
	var items []string
	inode := map[string]string{}
	_ = filepath.WalkDir(dir, func(p string, d fs.DirEntry, err error) error {
		if err != nil || p == dir {
			return nil
		}
		rel := strings.TrimPrefix(p, dir)
		info, err := os.Lstat(p)
		if err != nil {
			return nil
		}
		switch {
		case info.IsDir():
			items = append(items, rel+"/")
		case info.Mode()&os.ModeSymlink != 0:
			t, _ := os.Readlink(p)
			items = append(items, rel+"->"+t)
		default:
			b, _ := os.ReadFile(p)
			h := sha256.Sum256(b)
			key := hex.EncodeToString(h[:4])
			inode[key] = rel
			items = append(items, fmt.Sprintf("%s:%d:%s", rel, info.Size(), key))
		}
		return nil
	})
	sort.Strings(items)
	return strings.Join(items, " ")
}

type crResult struct {
	reached  [2]int
	trace    []vos.Effect
	opErr    error
	dirState string
	finished bool // the operation returned before any budget was exhausted
	torn     bool
}

// crRunCrash executes the history in dir, crashing the last operation at the given cut.
func crRunCrash(t *testing.T, dir string, h crHistory, sqs crSquares, cut crCut, cacheSize int) (r crResult, err error) {
	last0 := h.Ops[len(h.Ops)-1]
	var st *Store
	if last0.Kind != "firstopen" {
		// "firstopen": the crashed operation is the very first NewStore on an empty directory
		st, err = NewStore(&Parameters{RecentBlocksCacheSize: cacheSize}, dir)
		if err != nil {
			return r, fmt.Errorf("harness: NewStore: %w", err)
		}
	}
	for _, op := range h.Ops[:len(h.Ops)-1] {
		if err := crApply(st, op, sqs); err != nil {
			return r, fmt.Errorf("harness: setup op %v: %w", op, err)
		}
	}
	last := h.Ops[len(h.Ops)-1]
	synctest.Test(t, func(*testing.T) {
		budget := map[int]int{}
		if cut.Main >= 0 {
			budget[0] = cut.Main
		}
		if cut.Q4 >= 0 {
			budget[1] = cut.Q4
		}
		done := make(chan error, 1)
		var sess *vos.Session
		started := make(chan struct{})
		go func() {
			sess = vos.Begin(dir, budget)
			sess.Tear, sess.TearThread = cut.Tear, cut.TearTh
			if cut.Align {
				sess.TearMod, sess.TearRem = 512, cut.AlignRem
			}
			close(started)
			if last.Kind == "firstopen" {
				_, e := NewStore(&Parameters{RecentBlocksCacheSize: cacheSize}, dir)
				done <- e
				return
			}
			done <- crApply(st, last, sqs)
		}()
		<-started
		synctest.Wait()
		select {
		case e := <-done:
			r.finished = true
			r.opErr = e
		default:
		}
		r.dirState = crDirState(dir)
		sess.Crash()
		if !r.finished {
			r.opErr = <-done
		}
		synctest.Wait()
		sess.End()
		r.reached = [2]int{sess.Count[0], sess.Count[1]}
		r.trace = sess.Trace
		r.torn = sess.Torn
	})
	return r, nil
}

// crJudge hands the crashed directory to a fresh store and evaluates the property.
func crJudge(dir string, h crHistory, sqs crSquares, r crResult) error {
	last := h.Ops[len(h.Ops)-1]
	st, err := NewStore(&Parameters{RecentBlocksCacheSize: 2}, dir)
	if err != nil {
		return fmt.Errorf("C07/reopen-failed: NewStore on the crashed directory: %v", err)
	}
	ctx := context.Background()
	var ref *rsmt2d.ExtendedDataSquare
	var roots *share.AxisRoots
	if last.Sq == "empty" {
		ref, roots = eds.EmptyAccessor.ExtendedDataSquare, share.EmptyEDSRoots()
	} else {
		ref, roots = sqs[last.Sq].EDS, crRoots(sqs[last.Sq])
	}
	// every height ever mentioned in the history: lookup is absent or complete-and-correct
	heights := map[uint64]string{}
	for _, op := range h.Ops {
		heights[op.Height] = op.Sq
	}
	for hh, sk := range heights {
		has, err := st.HasByHeight(ctx, hh)
		if err != nil {
			return fmt.Errorf("C07/has-error: HasByHeight(%d): %v", hh, err)
		}
		if !has {
			continue
		}
		rr, ro := ref, roots
		if sk != last.Sq {
			if sk == "empty" {
				rr, ro = eds.EmptyAccessor.ExtendedDataSquare, share.EmptyEDSRoots()
			} else {
				rr, ro = sqs[sk].EDS, crRoots(sqs[sk])
			}
		}
		if err := crReadOut(st, hh, rr, ro); err != nil {
			return fmt.Errorf("C07/readable-but-wrong/after-crash: height %d is reported present but %v", hh, err)
		}
	}
	// no height link to a file that is not a complete block
	if err := crLinksComplete(dir, sqs); err != nil {
		return err
	}
	// storing the same block again succeeds and leaves it fully readable - both flavours
	for _, kind := range []string{"putq4", "putods"} {
		// work on a copy so that both flavours start from the crashed state
		cp := dir + "-" + kind
		if err := crCopyDir(dir, cp); err != nil {
			return fmt.Errorf("harness: copy: %v", err)
		}
		st2, err := NewStore(&Parameters{RecentBlocksCacheSize: 0}, cp)
		if err != nil {
			return fmt.Errorf("C07/reopen-failed: %v", err)
		}
		op := crOp{Kind: kind, Height: last.Height, Sq: last.Sq}
		if err := crApply(st2, op, sqs); err != nil {
			return fmt.Errorf("C07/re-put-fails/%s: storing the block again after the crash: %v", kind, err)
		}
		if has, _ := st2.HasByHeight(ctx, last.Height); !has {
			return fmt.Errorf("C07/re-put-not-stored/%s: re-put returned nil but the height is absent", kind)
		}
		if err := crReadOut(st2, last.Height, ref, roots); err != nil {
			return fmt.Errorf("C07/readable-but-wrong/after-re-put-%s: %v", kind, err)
		}
		// a third store instance (nothing cached) reads the same
		st3, err := NewStore(&Parameters{RecentBlocksCacheSize: 0}, cp)
		if err != nil {
			return fmt.Errorf("C07/reopen-failed: %v", err)
		}
		if err := crReadOut(st3, last.Height, ref, roots); err != nil {
			return fmt.Errorf("C07/readable-but-wrong/after-re-put-%s-reopen: %v", kind, err)
		}
		if err := crLinksComplete(cp, sqs); err != nil {
			return err
		}
		// removal works and leaves nothing behind for that height
		if err := st3.RemoveODSQ4(ctx, last.Height, roots.Hash()); err != nil {
			return fmt.Errorf("C07/remove-fails/after-re-put-%s: %v", kind, err)
		}
		if has, _ := st3.HasByHeight(ctx, last.Height); has {
			return fmt.Errorf("C07/remove-ineffective/after-re-put-%s: height still present after RemoveODSQ4", kind)
		}
		_ = os.RemoveAll(cp)
	}
	return nil
}

// crLinksComplete: every entry under blocks/heights resolves to a complete ODS file of a known square.
func crLinksComplete(dir string, sqs crSquares) error {
	hdir := filepath.Join(dir, heightsPath)
	ents, err := os.ReadDir(hdir)
	if err != nil {
		return nil
	}
	want := map[int64]bool{}
	for _, s := range sqs {
		f, _ := crExpectedODSSize(s.EDS, crRoots(s))
		want[f] = true
	}
	emptySz, _ := crExpectedODSSize(eds.EmptyAccessor.ExtendedDataSquare, share.EmptyEDSRoots())
	want[emptySz] = true
	for _, e := range ents {
		p := filepath.Join(hdir, e.Name())
		info, err := os.Stat(p) // follows symlinks
		if err != nil {
			return fmt.Errorf("C07/dangling-height-link: %s does not resolve: %v", e.Name(), err)
		}
		if !want[info.Size()] {
			return fmt.Errorf("C07/height-link-to-partial-file: %s resolves to a file of %d bytes, no complete block has that size", e.Name(), info.Size())
		}
	}
	return nil
}

func crExpectedODSSize(square *rsmt2d.ExtendedDataSquare, roots *share.AxisRoots) (int64, error) {
	n := int(square.Width())
	w := n / 2
	filled := 0
	for i := 0; i < w*w; i++ {
		c := square.GetCell(uint(i/w), uint(i%w))
		ns, err := libshare.NewNamespaceFromBytes(c[:libshare.NamespaceSize])
		if err != nil {
			return 0, err
		}
		if ns.Equals(libshare.TailPaddingNamespace) {
			break
		}
		filled++
	}
	shareSize := len(square.GetCell(0, 0))
	rootsSize := 0
	for _, r := range roots.RowRoots {
		rootsSize += len(r)
	}
	for _, r := range roots.ColumnRoots {
		rootsSize += len(r)
	}
	// header size is independent of the square: measure it from the implementation's constant
	hdr := (&headerProbe{}).size()
	return int64(hdr + rootsSize + filled*shareSize), nil
}

type headerProbe struct{}

// size of the v0 file header incl. version byte: taken from an actual file written once.
var crHeaderSize = -1

func (*headerProbe) size() int { return crHeaderSize }

func crCopyDir(src, dst string) error {
	_ = os.RemoveAll(dst)
	// copy preserving hard links between blocks/ and blocks/heights/
	inodes := map[string]string{}
	return filepath.WalkDir(src, func(p string, d fs.DirEntry, err error) error {
		if err != nil {
			return err
		}
		rel := strings.TrimPrefix(p, src)
		target := dst + rel
		info, err := os.Lstat(p)
		if err != nil {
			return err
		}
		switch {
		case info.IsDir():
			return os.MkdirAll(target, 0o755)
		case info.Mode()&os.ModeSymlink != 0:
			t, err := os.Readlink(p)
			if err != nil {
				return err
			}
			return os.Symlink(t, target)
		default:
			key := crInode(info)
			if prev, ok := inodes[key]; ok && key != "" {
				return os.Link(prev, target)
			}
			b, err := os.ReadFile(p)
			if err != nil {
				return err
			}
			if err := os.WriteFile(target, b, 0o600); err != nil {
				return err
			}
			inodes[key] = target
			return nil
		}
	})
}

func crHistories(tier string) []crHistory {
	hs := []crHistory{
		{"putq4-w2tail", []crOp{{"putq4", 7, "w2tail"}}},
		{"putods-w4", []crOp{{"putods", 7, "w4"}}},
		{"putq4-w4full", []crOp{{"putq4", 7, "w4full"}}},
		{"put-empty", []crOp{{"putq4", 7, "empty"}}},
		{"remove-after-putq4", []crOp{{"putq4", 7, "w4"}, {"remove", 7, "w4"}}},
		{"removeq4-after-putq4", []crOp{{"putq4", 7, "w4"}, {"removeq4", 7, "w4"}}},
		{"put-same-hash-other-height", []crOp{{"putq4", 7, "w4"}, {"putq4", 8, "w4"}}},
		{"remove-empty", []crOp{{"putq4", 7, "empty"}, {"remove", 7, "empty"}}},
		{"putq4-w16", []crOp{{"putq4", 7, "w16"}}},
		{"reopen-with-empty-and-block", []crOp{{"putq4", 7, "empty"}, {"putq4", 8, "w2tail"}, {"reopen", 7, "empty"}}},
		{"first-start", []crOp{{"firstopen", 7, "empty"}}},
	}
	if tier == "thorough" {
		hs = append(hs,
			crHistory{"putods-w16", []crOp{{"putods", 7, "w16"}}},
			crHistory{"remove-then-put", []crOp{{"putq4", 7, "w4"}, {"remove", 7, "w4"}, {"putq4", 7, "w4"}}},
			crHistory{"putods-then-putq4", []crOp{{"putods", 7, "w4"}, {"putq4", 7, "w4"}}},
			crHistory{"putq4-then-putods-other-height", []crOp{{"putq4", 7, "w4full"}, {"putods", 9, "w4full"}}},
			crHistory{"remove-one-of-two-heights", []crOp{{"putq4", 7, "w4"}, {"putq4", 8, "w4"}, {"remove", 7, "w4"}}},
			crHistory{"removeq4-w16", []crOp{{"putq4", 7, "w16"}, {"removeq4", 7, "w16"}}},
		)
	}
	return hs
}

func crSig(err error) string {
	msg := err.Error()
	if i := strings.Index(msg, ":"); i > 0 {
		return msg[:i]
	}
	return msg
}

func crMeasureHeader(t *testing.T, tmp string, sqs crSquares) {
	dir := filepath.Join(tmp, "hdrprobe")
	st, err := NewStore(&Parameters{}, dir+"")
	if err != nil {
		// NewStore needs the base dir to exist
		_ = os.MkdirAll(dir, 0o755)
		st, err = NewStore(&Parameters{}, dir)
		if err != nil {
			t.Fatalf("harness: %v", err)
		}
	}
	s := sqs["w4full"]
	if err := st.PutODS(context.Background(), crRoots(s), 1, s.EDS); err != nil {
		t.Fatalf("harness: %v", err)
	}
	info, err := os.Stat(st.hashToPath(crRoots(s).Hash(), odsFileExt))
	if err != nil {
		t.Fatalf("harness: %v", err)
	}
	crHeaderSize = 0
	want, _ := crExpectedODSSize(s.EDS, crRoots(s))
	crHeaderSize = int(info.Size() - want)
	_ = os.RemoveAll(dir)
}

func TestVerifC07(t *testing.T) {
	logging.SetAllLoggers(logging.LevelFatal)
	rep := vx.NewReport("C07", "fault_enumeration")
	rep.Rule = "for each history of store operations the last operation is crashed at every consistent cut of its file-system effects " +
		"(per-thread effect budgets main x Q4-writer, plus torn variants of the next write: 1 byte, half of the buffer, and the longest prefix that leaves a whole number of shares), executed on the real " +
		"put/remove path through an os shim; a case is distinct and non-trivial when the resulting directory state (names, sizes, content hashes, links) was not seen before for that history"
	rep.Assumptions = []string{
		"failure model: process death; completed effects persist, an interrupted write may leave a prefix; no reordering of completed effects (the store never fsyncs)",
		"effects are those issued through package os by store/ and store/file/ (import rewrite covers every file of those directories in the current tree)",
	}
	tmp := os.Getenv("VERIF_TMP")
	if tmp == "" {
		tmp = t.TempDir()
	}
	sqs, err := crBuildSquares(rep.Tier)
	if err != nil {
		t.Fatalf("harness: %v", err)
	}
	crMeasureHeader(t, tmp, sqs)

	if rp := os.Getenv("VERIF_REPLAY"); rp != "" {
		crReplay(t, rep, rp, tmp, sqs)
		return
	}
	deadline := rep.Deadline(80*time.Second, 15*time.Minute)
	exhaustive := true
	var evals, distinct int64
	outcomes := map[string]int{}
	for _, h := range crHistories(rep.Tier) {
		// unbounded run: count effects per thread
		dir := filepath.Join(tmp, "c07-"+h.Name+"-full")
		_ = os.MkdirAll(dir, 0o755)
		full, err := crRunCrash(t, dir, h, sqs, crCut{Main: -1, Q4: -1, TearTh: -1}, 2)
		_ = os.RemoveAll(dir)
		if err != nil {
			rep.Infra(err.Error())
			continue
		}
		if full.opErr != nil {
			rep.Violation("C07/op-fails-without-crash", fmt.Sprintf("history %s: the last operation fails without any crash: %v", h.Name, full.opErr), h)
			continue
		}
		nMain, nQ4 := full.reached[0], full.reached[1]
		// where the share grid of the ODS file of the crashing operation's square starts
		odsRem := 0
		if lastSq := h.Ops[len(h.Ops)-1].Sq; lastSq != "empty" {
			rs := 0
			for _, r := range crRoots(sqs[lastSq]).RowRoots {
				rs += len(r)
			}
			for _, r := range crRoots(sqs[lastSq]).ColumnRoots {
				rs += len(r)
			}
			odsRem = (crHeaderSize + rs) % 512
		}
		seen := map[string]bool{}
		cuts := 0
		var sampleTrace []string
		for _, e := range full.trace {
			sampleTrace = append(sampleTrace, e.String())
		}
		for i := 0; i <= nMain; i++ {
			for j := 0; j <= nQ4; j++ {
				variants := []crCut{{Main: i, Q4: j, TearTh: -1}}
				if i < nMain {
					variants = append(variants, crCut{Main: i, Q4: j, Tear: 1, TearTh: 0}, crCut{Main: i, Q4: j, Tear: 1 << 30, TearTh: 0},
						crCut{Main: i, Q4: j, Tear: 1, TearTh: 0, Align: true, AlignRem: odsRem})
				}
				if j < nQ4 {
					variants = append(variants, crCut{Main: i, Q4: j, Tear: 1, TearTh: 1}, crCut{Main: i, Q4: j, Tear: 1 << 30, TearTh: 1},
						crCut{Main: i, Q4: j, Tear: 1, TearTh: 1, Align: true, AlignRem: 0})
				}
				for _, cut := range variants {
					if time.Now().After(deadline) {
						exhaustive = false
						break
					}
					if cut.Tear == 1<<30 {
						cut.Tear = -2 // resolved below: half of the write
					}
					dir := filepath.Join(tmp, fmt.Sprintf("c07-%s-%d-%d-%d-%d-%v", h.Name, i, j, cut.Tear, cut.TearTh, cut.Align))
					_ = os.MkdirAll(dir, 0o755)
					c := cut
					if c.Tear == -2 {
						c.Tear = 32 << 10 // half of the 64 KiB buffer; smaller writes are torn at n-1
					}
					r, err := crRunCrash(t, dir, h, sqs, c, 2)
					evals++
					cuts++
					if err != nil {
						rep.Infra(err.Error())
						_ = os.RemoveAll(dir)
						continue
					}
					if (c.Tear > 0) && !r.torn {
						_ = os.RemoveAll(dir)
						continue // the next effect of that thread was not a write: same state as the untorn cut
					}
					key := r.dirState
					if seen[key] {
						_ = os.RemoveAll(dir)
						continue
					}
					seen[key] = true
					distinct++
					verr := crJudge(dir, h, sqs, r)
					_ = os.RemoveAll(dir)
					oc := "ok"
					if verr != nil {
						oc = crSig(verr)
						var tr []string
						for _, e := range r.trace {
							tr = append(tr, e.String())
						}
						if strings.HasPrefix(oc, "harness") {
							rep.Infra(verr.Error())
						} else {
							rep.Violation(oc, fmt.Sprintf("history %s crashed at cut main=%d q4=%d tear=%d/t%d (dir: %s): %v", h.Name, i, j, c.Tear, c.TearTh, r.dirState, verr),
								map[string]any{"history": h, "cut": c, "effects_applied": tr})
						}
					}
					outcomes[oc]++
				}
			}
		}
		rep.Set("history_"+h.Name, map[string]any{"ops": h.Ops, "effects_main": nMain, "effects_q4": nQ4, "cuts_executed": cuts,
			"distinct_crash_states": len(seen), "effect_trace_of_uncrashed_run": sampleTrace})
		if len(rep.Samples) < 4 {
			rep.AddSample(map[string]any{"history": h, "uncrashed_effect_trace": sampleTrace})
		}
	}
	rep.Count(evals, distinct, 0, 0)
	rep.Set("outcomes", outcomes)
	rep.SetExhaustive(exhaustive)
	if rep.Finish() > 0 {
		t.Fail()
	}
}

func crReplay(t *testing.T, rep *vx.Report, path, tmp string, sqs crSquares) {
	b, err := os.ReadFile(path)
	if err != nil {
		t.Fatal(err)
	}
	var doc struct {
		Replay struct {
			History crHistory `json:"history"`
			Cut     crCut     `json:"cut"`
		} `json:"replay"`
	}
	if err := json.Unmarshal(b, &doc); err != nil {
		t.Fatal(err)
	}
	var verr error
	for i := 0; i < 5; i++ {
		dir := filepath.Join(tmp, fmt.Sprintf("c07-replay-%d", i))
		_ = os.MkdirAll(dir, 0o755)
		r, err := crRunCrash(t, dir, doc.Replay.History, sqs, doc.Replay.Cut, 2)
		if err != nil {
			t.Fatal(err)
		}
		e := crJudge(dir, doc.Replay.History, sqs, r)
		_ = os.RemoveAll(dir)
		if i > 0 && fmt.Sprint(e) != fmt.Sprint(verr) {
			t.Fatalf("NONDETERMINISM: %v vs %v", e, verr)
		}
		verr = e
	}
	rep.Count(5, 2, 0, 0)
	rep.AddSample(doc.Replay)
	if verr != nil {
		fmt.Printf("REPLAY-RESULT violation reproduced 5/5: %v\n", verr)
		rep.Violation(crSig(verr), verr.Error(), doc.Replay)
	} else {
		fmt.Println("REPLAY-RESULT no violation")
	}
	rep.Finish()
}

var _ = errors.Is
