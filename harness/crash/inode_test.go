package store

import (
	"fmt"
	"os"
	"syscall"
)

func crInode(info os.FileInfo) string {
	if st, ok := info.Sys().(*syscall.Stat_t); ok {
		return fmt.Sprintf("%d:%d", st.Dev, st.Ino)
	}
	return ""
}
