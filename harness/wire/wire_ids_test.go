package shwap

// C18 harness, part 2: share identifiers.
//
//   op=id       constructor-accepted value -> MarshalBinary/FromBinary, WriteTo/ReadFrom (and JSON for
//               SampleID) must give back an equal value; acceptance for a size implies a position
//               inside the square of that size.
//   op=idbytes  arbitrary bytes -> decoder never panics; acceptance implies right length, fields that
//               pass the type's own Validate, and a canonical encoding (re-encoding gives the input).

import (
	"bytes"
	"encoding/json"
	"fmt"
	"io"

	libshare "github.com/celestiaorg/go-square/v4/share"
)

type vwFields struct {
	H    uint64
	A, B int
	Ns   []byte
}

func (f vwFields) eq(g vwFields) string {
	switch {
	case f.H != g.H:
		return "height"
	case f.A != g.A:
		return "a"
	case f.B != g.B:
		return "b"
	case !bytes.Equal(f.Ns, g.Ns):
		return "namespace"
	}
	return ""
}

type vwIDKind struct {
	name    string
	size    int
	useA    bool
	useB    bool
	useNs   bool
	useSize bool
	rng     bool // A/B are flat from/to of a range over an ODS of width size
	fitMax  int  // >0: the encoding cannot hold larger field values, so refusing them is legitimate
	ctor    func(f vwFields, size int) (any, error)
	fromBin func(b []byte) (any, error)
	readFrm func(r io.Reader) (any, int64, error)
	marshal func(v any) ([]byte, error)
	writeTo func(v any, w io.Writer) (int64, error)
	fields  func(v any) vwFields
	valid   func(v any) error
	verify  func(v any, size int) error // nil when the type has no Verify
}

func vwNsOf(b []byte) libshare.Namespace {
	ns, err := libshare.NewNamespaceFromBytes(b)
	if err != nil {
		panic("harness: namespace alphabet entry not constructible: " + err.Error())
	}
	return ns
}

var vwIDKinds = []*vwIDKind{
	{
		name: "EdsID", size: EdsIDSize,
		ctor:    func(f vwFields, _ int) (any, error) { v, err := NewEdsID(f.H); return v, err },
		fromBin: func(b []byte) (any, error) { v, err := EdsIDFromBinary(b); return v, err },
		readFrm: func(r io.Reader) (any, int64, error) { var v EdsID; n, err := v.ReadFrom(r); return v, n, err },
		marshal: func(v any) ([]byte, error) { return v.(EdsID).MarshalBinary() },
		writeTo: func(v any, w io.Writer) (int64, error) { return v.(EdsID).WriteTo(w) },
		fields:  func(v any) vwFields { return vwFields{H: v.(EdsID).height} },
		valid:   func(v any) error { return v.(EdsID).Validate() },
	},
	{
		name: "RowID", size: RowIDSize, useA: true, useSize: true,
		ctor:    func(f vwFields, s int) (any, error) { v, err := NewRowID(f.H, f.A, s); return v, err },
		fromBin: func(b []byte) (any, error) { v, err := RowIDFromBinary(b); return v, err },
		readFrm: func(r io.Reader) (any, int64, error) { var v RowID; n, err := v.ReadFrom(r); return v, n, err },
		marshal: func(v any) ([]byte, error) { return v.(RowID).MarshalBinary() },
		writeTo: func(v any, w io.Writer) (int64, error) { return v.(RowID).WriteTo(w) },
		fields:  func(v any) vwFields { x := v.(RowID); return vwFields{H: x.height, A: x.RowIndex} },
		valid:   func(v any) error { return v.(RowID).Validate() },
		verify:  func(v any, s int) error { return v.(RowID).Verify(s) },
	},
	{
		name: "SampleID", size: SampleIDSize, useA: true, useB: true, useSize: true,
		ctor: func(f vwFields, s int) (any, error) {
			v, err := NewSampleID(f.H, SampleCoords{Row: f.A, Col: f.B}, s)
			return v, err
		},
		fromBin: func(b []byte) (any, error) { v, err := SampleIDFromBinary(b); return v, err },
		readFrm: func(r io.Reader) (any, int64, error) { var v SampleID; n, err := v.ReadFrom(r); return v, n, err },
		marshal: func(v any) ([]byte, error) { return v.(SampleID).MarshalBinary() },
		writeTo: func(v any, w io.Writer) (int64, error) { return v.(SampleID).WriteTo(w) },
		fields: func(v any) vwFields {
			x := v.(SampleID)
			return vwFields{H: x.height, A: x.RowIndex, B: x.ShareIndex}
		},
		valid:  func(v any) error { return v.(SampleID).Validate() },
		verify: func(v any, s int) error { return v.(SampleID).Verify(s) },
	},
	{
		name: "NamespaceDataID", size: NamespaceDataIDSize, useNs: true,
		ctor:    func(f vwFields, _ int) (any, error) { v, err := NewNamespaceDataID(f.H, vwNsOf(f.Ns)); return v, err },
		fromBin: func(b []byte) (any, error) { v, err := NamespaceDataIDFromBinary(b); return v, err },
		readFrm: func(r io.Reader) (any, int64, error) {
			var v NamespaceDataID
			n, err := v.ReadFrom(r)
			return v, n, err
		},
		marshal: func(v any) ([]byte, error) { return v.(NamespaceDataID).MarshalBinary() },
		writeTo: func(v any, w io.Writer) (int64, error) { return v.(NamespaceDataID).WriteTo(w) },
		fields: func(v any) vwFields {
			x := v.(NamespaceDataID)
			return vwFields{H: x.height, Ns: x.DataNamespace.Bytes()}
		},
		valid: func(v any) error { return v.(NamespaceDataID).Validate() },
	},
	{
		name: "RowNamespaceDataID", size: RowNamespaceDataIDSize, useA: true, useNs: true, useSize: true,
		ctor: func(f vwFields, s int) (any, error) {
			v, err := NewRowNamespaceDataID(f.H, f.A, vwNsOf(f.Ns), s)
			return v, err
		},
		fromBin: func(b []byte) (any, error) { v, err := RowNamespaceDataIDFromBinary(b); return v, err },
		readFrm: func(r io.Reader) (any, int64, error) {
			var v RowNamespaceDataID
			n, err := v.ReadFrom(r)
			return v, n, err
		},
		marshal: func(v any) ([]byte, error) { return v.(RowNamespaceDataID).MarshalBinary() },
		writeTo: func(v any, w io.Writer) (int64, error) { return v.(RowNamespaceDataID).WriteTo(w) },
		fields: func(v any) vwFields {
			x := v.(RowNamespaceDataID)
			return vwFields{H: x.height, A: x.RowIndex, Ns: x.DataNamespace.Bytes()}
		},
		valid:  func(v any) error { return v.(RowNamespaceDataID).Validate() },
		verify: func(v any, s int) error { return v.(RowNamespaceDataID).Verify(s) },
	},
	{
		name: "RangeNamespaceDataID", size: RangeNamespaceDataIDSize, useA: true, useB: true, useSize: true, rng: true,
		ctor: func(f vwFields, s int) (any, error) {
			v, err := NewRangeNamespaceDataID(EdsID{height: f.H}, f.A, f.B, s)
			return v, err
		},
		fromBin: func(b []byte) (any, error) { v, err := RangeNamespaceDataIDFromBinary(b); return v, err },
		readFrm: func(r io.Reader) (any, int64, error) {
			var v RangeNamespaceDataID
			n, err := v.ReadFrom(r)
			return v, n, err
		},
		marshal: func(v any) ([]byte, error) { return v.(RangeNamespaceDataID).MarshalBinary() },
		writeTo: func(v any, w io.Writer) (int64, error) { return v.(RangeNamespaceDataID).WriteTo(w) },
		fields: func(v any) vwFields {
			x := v.(RangeNamespaceDataID)
			return vwFields{H: x.height, A: x.From, B: x.To}
		},
		valid:  func(v any) error { return v.(RangeNamespaceDataID).Validate() },
		verify: func(v any, s int) error { return v.(RangeNamespaceDataID).Verify(s) },
	},
	{
		name: "RangeNamespaceDataIDV0", size: RangeNamespaceDataIDV0Size, useA: true, useB: true, useSize: true, rng: true,
		fitMax: 65535,
		ctor: func(f vwFields, s int) (any, error) {
			v, err := NewRangeNamespaceDataIDV0(EdsID{height: f.H}, f.A, f.B, s)
			return v, err
		},
		fromBin: func(b []byte) (any, error) { v, err := RangeNamespaceDataIDV0FromBinary(b); return v, err },
		readFrm: func(r io.Reader) (any, int64, error) {
			var v RangeNamespaceDataIDV0
			n, err := v.ReadFrom(r)
			return v, n, err
		},
		marshal: func(v any) ([]byte, error) { return v.(RangeNamespaceDataIDV0).MarshalBinary() },
		writeTo: func(v any, w io.Writer) (int64, error) { return v.(RangeNamespaceDataIDV0).WriteTo(w) },
		fields: func(v any) vwFields {
			x := v.(RangeNamespaceDataIDV0)
			return vwFields{H: x.height, A: x.From, B: x.To}
		},
		valid:  func(v any) error { return v.(RangeNamespaceDataIDV0).Validate() },
		verify: func(v any, s int) error { return v.(RangeNamespaceDataIDV0).Verify(s) },
	},
}

func vwKind(name string) *vwIDKind {
	for _, k := range vwIDKinds {
		if k.name == name {
			return k
		}
	}
	return nil
}

func (k *vwIDKind) mkCase(f vwFields, size int) vwCase {
	return vwCase{Op: "id", Type: k.name, H: f.H, A: f.A, B: f.B, Ns: vwHex(f.Ns), Size: size}
}

// inside reports "" when the fields address a position inside a square of the given size
// (EDS width for row/sample identifiers, ODS width for ranges).
func (k *vwIDKind) inside(f vwFields, size int) string {
	if k.rng {
		n := size * size
		if !(0 <= f.A && f.A < f.B && f.B <= n) {
			return fmt.Sprintf("range [%d,%d) not inside an ODS of %d shares", f.A, f.B, n)
		}
		return ""
	}
	if k.useA && !(0 <= f.A && f.A < size) {
		return fmt.Sprintf("row index %d not in [0,%d)", f.A, size)
	}
	if k.useB && !(0 <= f.B && f.B < size) {
		return fmt.Sprintf("share index %d not in [0,%d)", f.B, size)
	}
	return ""
}

// expectAccept: the honest case the constructor has to accept (positive control).
func (k *vwIDKind) expectAccept(f vwFields, size int, nsUsable bool) bool {
	if f.H == 0 {
		return false
	}
	if k.useNs && !nsUsable {
		return false
	}
	if k.fitMax > 0 && (f.A > k.fitMax || f.B > k.fitMax) {
		return false // "unchanged or refused": refusing what the 16-bit encoding cannot hold is fine
	}
	if k.useSize {
		if size <= 0 {
			return false
		}
		return k.inside(f, size) == ""
	}
	return true
}

// vwCheckID executes one op=id case.
func vwCheckID(k *vwIDKind, f vwFields, size int, nsUsable bool, acc *vwAcc) {
	acc.evals++
	var v any
	var err error
	if p := vwGuard(func() { v, err = k.ctor(f, size) }); p != "" {
		// not a decoder: outside what the property states; recorded, not reported as a violation
		acc.o("id/" + k.name + "/constructor-panic")
		return
	}
	acc.trans++
	if err != nil {
		acc.o("id/" + k.name + "/refused")
		if k.expectAccept(f, size, nsUsable) {
			acc.viol("C18/refuses-valid/"+k.name,
				fmt.Sprintf("%s constructor refuses the in-range value height=%d a=%d b=%d size=%d: %v", k.name, f.H, f.A, f.B, size, err),
				k.mkCase(f, size))
		}
		return
	}
	acc.nontriv++
	acc.states++
	acc.o("id/" + k.name + "/accepted")
	if k.useSize {
		if why := k.inside(f, size); why != "" {
			acc.viol("C18/accepts-outside-square/"+k.name,
				fmt.Sprintf("%s accepted for size %d but %s", k.name, size, why), k.mkCase(f, size))
		}
	}
	// what the constructor stored must be what was asked for
	if d := k.fields(v).eq(f); d != "" {
		acc.viol("C18/lossy/"+k.name+"/constructor", fmt.Sprintf("%s constructor altered field %s: asked %+v got %+v", k.name, d, f, k.fields(v)), k.mkCase(f, size))
	}

	// binary form
	var enc []byte
	if p := vwGuard(func() { enc, err = k.marshal(v) }); p != "" {
		acc.o("id/" + k.name + "/encoder-panic")
		return
	}
	acc.trans++
	if err != nil {
		acc.o("id/" + k.name + "/encode-refused") // refusing is allowed; silently altering is not
		return
	}
	var back any
	if p := vwGuard(func() { back, err = k.fromBin(enc) }); p != "" {
		acc.viol("C18/panic/"+k.name+"FromBinary", fmt.Sprintf("decoder panics on the encoder's own output %x: %s", enc, p), k.mkCase(f, size))
		return
	}
	acc.trans++
	if err != nil {
		acc.viol("C18/lossy/"+k.name,
			fmt.Sprintf("%s{height=%d a=%d b=%d} accepted for size %d encodes to %x which its decoder refuses (%v): a field was altered by the encoder", k.name, f.H, f.A, f.B, size, enc, err),
			k.mkCase(f, size))
	} else if d := k.fields(back).eq(f); d != "" {
		acc.viol("C18/lossy/"+k.name,
			fmt.Sprintf("%s{height=%d a=%d b=%d} accepted for size %d encodes to %x which decodes to %+v (field %s differs)", k.name, f.H, f.A, f.B, size, enc, k.fields(back), d),
			k.mkCase(f, size))
	} else {
		acc.o("id/" + k.name + "/roundtrip-bin-ok")
	}

	// stream form
	var buf bytes.Buffer
	var n int64
	if p := vwGuard(func() { n, err = k.writeTo(v, &buf) }); p != "" {
		acc.o("id/" + k.name + "/encoder-panic")
		return
	}
	acc.trans++
	if err != nil {
		acc.o("id/" + k.name + "/encode-refused")
		return
	}
	if int(n) != buf.Len() {
		acc.viol("C18/stream-count/"+k.name, fmt.Sprintf("WriteTo reports %d bytes, wrote %d", n, buf.Len()), k.mkCase(f, size))
	}
	wrote := buf.Len()
	buf.WriteByte(0xA5) // a following byte that must stay unread
	if p := vwGuard(func() { back, n, err = k.readFrm(&buf) }); p != "" {
		acc.viol("C18/panic/"+k.name+".ReadFrom", fmt.Sprintf("decoder panics on the encoder's own output: %s", p), k.mkCase(f, size))
		return
	}
	acc.trans++
	if err != nil {
		acc.viol("C18/lossy/"+k.name,
			fmt.Sprintf("%s{height=%d a=%d b=%d} accepted for size %d: WriteTo output is refused by ReadFrom (%v)", k.name, f.H, f.A, f.B, size, err), k.mkCase(f, size))
	} else if d := k.fields(back).eq(f); d != "" {
		acc.viol("C18/lossy/"+k.name,
			fmt.Sprintf("%s{height=%d a=%d b=%d} accepted for size %d: WriteTo/ReadFrom gives %+v (field %s differs)", k.name, f.H, f.A, f.B, size, k.fields(back), d), k.mkCase(f, size))
	} else if int(n) != wrote || buf.Len() != 1 {
		acc.viol("C18/stream-count/"+k.name, fmt.Sprintf("ReadFrom consumed %d (reports %d) of %d bytes", wrote+1-buf.Len(), n, wrote), k.mkCase(f, size))
	} else {
		acc.o("id/" + k.name + "/roundtrip-stream-ok")
	}

	// JSON form (SampleID only)
	if sid, ok := v.(SampleID); ok {
		var js []byte
		var out SampleID
		if p := vwGuard(func() {
			js, err = json.Marshal(sid)
			if err == nil {
				err = json.Unmarshal(js, &out)
			}
		}); p != "" {
			acc.viol("C18/panic/SampleID.json", "panic in JSON round trip: "+p, k.mkCase(f, size))
			return
		}
		acc.trans += 2
		if err != nil {
			acc.viol("C18/lossy/SampleID.json", fmt.Sprintf("JSON %s refused by own decoder: %v", js, err), k.mkCase(f, size))
		} else if d := k.fields(out).eq(f); d != "" {
			acc.viol("C18/lossy/SampleID.json", fmt.Sprintf("JSON %s decodes to %+v (field %s differs)", js, k.fields(out), d), k.mkCase(f, size))
		} else {
			acc.o("id/SampleID/roundtrip-json-ok")
		}
	}
}

// sizes a decoded identifier is verified against (EDS widths / ODS widths up to the protocol maximum)
var vwVerifySizes = []int{0, 1, 2, 4, 8, 16, 32, 64, 128, 256, 512, 1024}

// vwCheckIDBytes executes one op=idbytes case: in is fed to the binary decoder (mode bin) or the
// stream decoder (mode stream).
func vwCheckIDBytes(k *vwIDKind, mode string, in []byte, acc *vwAcc) {
	acc.evals++
	acc.states++
	mk := func() vwCase { return vwCase{Op: "idbytes", Type: k.name, Mode: mode, Input: vwHex(in)} }
	var v any
	var err error
	var n int64
	rd := bytes.NewReader(in)
	p := vwGuard(func() {
		if mode == "bin" {
			v, err = k.fromBin(in)
		} else {
			v, n, err = k.readFrm(rd)
		}
	})
	acc.trans++
	dec := k.name + "FromBinary"
	if mode != "bin" {
		dec = k.name + ".ReadFrom"
	}
	if p != "" {
		acc.nontriv++
		acc.viol("C18/panic/"+dec, fmt.Sprintf("decoder panics on input %s: %s", vwShort(in), p), mk())
		return
	}
	if len(in) == k.size || (mode != "bin" && len(in) > k.size) {
		acc.nontriv++ // reaches the field checks, not only the length check
	}
	if err != nil {
		acc.o("idbytes/" + k.name + "/" + mode + "/rejected")
		return
	}
	acc.o("idbytes/" + k.name + "/" + mode + "/accepted")
	if mode == "bin" && len(in) != k.size {
		acc.viol("C18/accepts-wrong-length/"+dec, fmt.Sprintf("%d bytes accepted, the encoding has %d", len(in), k.size), mk())
		return
	}
	if mode != "bin" {
		if len(in) < k.size {
			acc.viol("C18/accepts-wrong-length/"+dec, fmt.Sprintf("%d bytes accepted, the encoding has %d", len(in), k.size), mk())
			return
		}
		if int(n) != k.size || rd.Len() != len(in)-k.size {
			acc.viol("C18/stream-count/"+k.name, fmt.Sprintf("ReadFrom consumed %d (reports %d), encoding has %d bytes", len(in)-rd.Len(), n, k.size), mk())
		}
	}
	if verr := k.valid(v); verr != nil {
		acc.viol("C18/accepts-invalid/"+k.name,
			fmt.Sprintf("decoder accepts %s although the decoded value fails its own Validate: %v", vwShort(in), verr), mk())
	}
	var enc []byte
	if p := vwGuard(func() { enc, err = k.marshal(v) }); p != "" || err != nil {
		acc.viol("C18/guess/"+k.name, fmt.Sprintf("value decoded from %s cannot be encoded again (%v %s)", vwShort(in), err, p), mk())
	} else if !bytes.Equal(enc, in[:k.size]) {
		acc.viol("C18/guess/"+k.name, fmt.Sprintf("input %x decodes to a value that encodes to %x: the decoder did not take the input literally", in[:k.size], enc), mk())
	}
	acc.trans++
	if k.verify != nil {
		f := k.fields(v)
		for _, s := range vwVerifySizes {
			var verr error
			if p := vwGuard(func() { verr = k.verify(v, s) }); p != "" {
				acc.o("idbytes/" + k.name + "/verify-panic")
				continue
			}
			acc.trans++
			if verr == nil {
				if why := k.inside(f, s); why != "" {
					acc.viol("C18/accepts-outside-square/"+k.name, fmt.Sprintf("decoded %s verifies for size %d but %s", k.name, s, why), mk())
				}
			}
		}
	}
}
