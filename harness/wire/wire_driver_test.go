package shwap

// C18 harness, part 6: driver (units for containers and decoders, replay, evidence).

import (
	"encoding/json"
	"fmt"
	"os"
	"sort"
	"strings"
	"sync"
	"testing"
	"time"

	logging "github.com/ipfs/go-log/v2"

	libshare "github.com/celestiaorg/go-square/v4/share"

	"github.com/celestiaorg/celestia-node/verifx/vx"
)

// vwEnc is a valid encoding picked as the base for mutation.
type vwEnc struct {
	c      *vwCont
	sqIdx  int
	cIdx   int
	form   string
	enc    []byte
	allPos bool // byte operators at every position (else: outside share-payload interiors)
}

func (r *vwRun) containerUnits(tier string, squares []*vwSquare, bases *[]vwEnc, samples *[]any) []vwUnit {
	var units []vwUnit
	var mu sync.Mutex
	for sqIdx, sq := range squares {
		sq := sq
		units = append(units, vwUnit{"container/" + sq.name, func(acc *vwAcc) {
			conts := sq.containers()
			seenShape := map[string]bool{}
			for i, c := range conts {
				// positive control of the generator itself: the container verifies before any encoding
				if err := c.verify(c.val); err != nil {
					r.rep.Infra(fmt.Sprintf("generator: %s %v of square %s does not verify: %v", c.kind, c.params, sq.name, err))
					return
				}
				acc.trans++
				first := !seenShape[c.shape]
				seenShape[c.shape] = true
				for _, form := range vwForms {
					enc := vwCheckContainer(c, form, acc)
					if enc == nil {
						continue
					}
					pick, allPos := false, false
					switch {
					case sq.w <= 2:
						pick, allPos = first || tier == "thorough", true
					case sq.w == 4:
						pick, allPos = first, tier == "thorough"
					default:
						pick = first
					}
					if form == "json" && ((sq.w > 1 && tier != "thorough") || sq.w > 2) {
						allPos = false // JSON text of wider squares: positions inside base64 share payloads are left out
					}
					if pick {
						mu.Lock()
						*bases = append(*bases, vwEnc{c, sqIdx, i, form, enc, allPos})
						mu.Unlock()
					}
					if first && form == "json" && sq.w == 2 {
						mu.Lock()
						if len(*samples) < 4 {
							*samples = append(*samples, map[string]any{"case": c.mkCase(form), "shape": c.shape, "encoded_bytes": len(enc), "outcome": "decode(encode(x)) == x and still verifies"})
						}
						mu.Unlock()
					}
				}
				if i&0x1f == 0 && r.expired() {
					return
				}
			}
			acc.s("containers", "squares_done", 1)
			acc.s("containers", "containers_generated", int64(len(conts)))
			acc.s("containers", "shape_classes/"+sq.name, int64(len(seenShape)))
			for _, c := range conts {
				acc.s("containers", "kind/"+c.kind, 1)
			}
		}})
	}
	return units
}

func (r *vwRun) decodeUnits(tier string, bases []vwEnc) []vwUnit {
	var units []vwUnit
	// deterministic order, big ones first so that the pool is well packed
	sort.SliceStable(bases, func(i, j int) bool { return len(bases[i].enc) > len(bases[j].enc) })
	for _, b := range bases {
		b := b
		name := fmt.Sprintf("decode/%s/%s/%s%v", b.c.sq.name, b.c.kind, b.form, b.c.params)
		units = append(units, vwUnit{name + "/bytes", func(acc *vwAcc) {
			var pos []int
			if !b.allPos {
				_, sh := vwSharesOf(b.c)
				pos = vwStructuralPositions(b.enc, b.form, sh)
				acc.s("decode_bounds", "bases_structural_positions_only", 1)
				acc.s("decode_bounds", "positions_skipped_inside_share_payloads", int64(len(b.enc)-len(pos)))
			} else {
				acc.s("decode_bounds", "bases_all_positions", 1)
			}
			n := vwByteMutants(b.enc, pos, r.expired, func(m []byte) { vwCheckDecode(b.c.kind, b.form, m, acc) })
			acc.s("decode_bounds", "byte_mutants/"+b.form, int64(n))
		}})
		units = append(units, vwUnit{name + "/fields", func(acc *vwAcc) {
			switch b.form {
			case "json":
				n := 0
				vwJSONMutants(b.enc, func(m []byte, _ string) { vwCheckDecode(b.c.kind, "json", m, acc); n++ })
				acc.s("decode_bounds", "json_field_mutants", int64(n))
			case "pb":
				ms := vwCraftedPB(b.c.kind, b.enc)
				for _, m := range ms {
					vwCheckDecode(b.c.kind, "pb", m, acc)
					// the same message as a length-delimited frame, alone / followed by the valid one / after it
					if b.c.kind != "nd" {
						vwCheckDecode(b.c.kind, "stream", vwFrame(m), acc)
						vwCheckDecode(b.c.kind, "stream", append(vwFrame(m), vwFrame(b.enc)...), acc)
						vwCheckDecode(b.c.kind, "stream", append(vwFrame(b.enc), vwFrame(m)...), acc)
					}
					if b.c.kind == "rnd" {
						for _, k := range []string{"nd", "range"} {
							vwCheckDecode(k, "stream", vwFrame(m), acc)
							vwCheckDecode(k, "stream", append(vwFrame(b.enc), vwFrame(m)...), acc)
							vwCheckDecode(k, "stream", append(append(vwFrame(b.enc), vwFrame(m)...), vwFrame(b.enc)...), acc)
						}
					}
				}
				acc.s("decode_bounds", "crafted_pb_messages", int64(len(ms)))
			}
			// type confusion: a valid encoding of one kind fed to every other decoder of the same form
			for _, d := range vwContainerDecoders {
				if d.form == b.form && d.kind != b.c.kind && d.kind != "sampleid" {
					vwCheckDecode(d.kind, d.form, b.enc, acc)
				}
			}
		}})
	}
	maxLen := 2
	if tier == "thorough" {
		maxLen = 3
	}
	for _, d := range vwContainerDecoders {
		d := d
		units = append(units, vwUnit{fmt.Sprintf("decode/%s/all-strings<=%d", vwDecoderName(d.kind, d.form), maxLen), func(acc *vwAcc) {
			vwAllStrings(maxLen, func(s []byte) bool { vwCheckDecode(d.kind, d.form, s, acc); return true }, r)
			if !r.capped.Load() {
				acc.s("decode_bounds", fmt.Sprintf("all-strings<=%d/%s", maxLen, vwDecoderName(d.kind, d.form)), 1)
			}
		}})
	}
	// SampleID JSON
	units = append(units, vwUnit{"decode/SampleID.UnmarshalJSON/mutants", func(acc *vwAcc) {
		for _, f := range []vwFields{{H: 1, A: 0, B: 0}, {H: 7, A: 3, B: 5}, {H: 1 << 40, A: 1023, B: 1023}} {
			sid, err := NewSampleID(f.H, SampleCoords{Row: f.A, Col: f.B}, 1024)
			if err != nil {
				panic(err)
			}
			js, err := json.Marshal(sid)
			if err != nil {
				panic(err)
			}
			vwCheckDecode("sampleid", "json", js, acc)
			vwJSONMutants(js, func(m []byte, _ string) { vwCheckDecode("sampleid", "json", m, acc) })
			vwByteMutants(js, nil, r.expired, func(m []byte) { vwCheckDecode("sampleid", "json", m, acc) })
		}
		for _, s := range []string{`{"height":0,"row_index":0,"share_index":0}`, `{"height":1,"row_index":-1,"share_index":0}`,
			`{"height":1,"row_index":0,"share_index":-1}`, `{"height":1,"row_index":70000,"share_index":0}`, `{"height":1}`, `{}`, `null`} {
			vwCheckDecode("sampleid", "json", []byte(s), acc)
		}
	}})
	units = append(units, r.jsonIntUnits(bases)...)
	return units
}

// vwJSONIntValues: the integer values written as JSON numbers (the whole index sweep plus 32/64-bit
// boundaries and values that overflow int64/uint64), and a few other notations of boundary values.
func vwJSONIntValues() (sweep []string, notations []string) {
	for i := -2; i <= 65538; i++ {
		sweep = append(sweep, fmt.Sprint(i))
	}
	for _, x := range vwBigInts() {
		sweep = append(sweep, fmt.Sprint(x))
	}
	sweep = append(sweep, "4294967296", "18446744073709551615", "18446744073709551616", "9223372036854775808", "-9223372036854775809", "-0")
	notations = []string{"3.0", "-2.0", "-1.0", "65535.0", "65536.0", "0.5", "-0.5", "1e3", "1E5", "1e19", "1e400", "-1e400", "1e-400", "7e0",
		`"3"`, `"-2"`, `"65536"`, `""`, "true", "null", "[3]", `{"x":3}`}
	return sweep, notations
}

// jsonIntUnits: every JSON decoder that has an integer field gets the index sweep -2..65538, the 32/64-bit
// boundaries, overflowing values and other notations for EACH integer field, the other fields at boundary values.
func (r *vwRun) jsonIntUnits(bases []vwEnc) []vwUnit {
	var units []vwUnit
	sweep, notations := vwJSONIntValues()
	all := append(append([]string(nil), sweep...), notations...)
	type tmpl struct {
		kind   string
		format string // three %s: the swept field gets the value, the others come from `others`
		fields int
		others [][]string
	}
	tmpls := []tmpl{
		{"sampleid", `{"height":%s,"row_index":%s,"share_index":%s}`, 3,
			[][]string{{"7", "3", "5"}, {"1", "0", "0"}, {"18446744073709551615", "65535", "65535"}, {"7", "-1", "65536"}, {"0", "1023", "-2"}}},
		{"samplecoords", `{"row":%s,"col":%s}`, 2, [][]string{{"3", "5"}, {"0", "0"}, {"-1", "1023"}, {"65536", "-2"}}},
	}
	for _, t := range tmpls {
		for fi := 0; fi < t.fields; fi++ {
			t, fi := t, fi
			units = append(units, vwUnit{fmt.Sprintf("decode/%s/json-int-sweep/field%d", vwDecoderName(t.kind, "json"), fi), func(acc *vwAcc) {
				n := 0
				for _, o := range t.others {
					for _, v := range all {
						args := make([]any, t.fields)
						for i := range args {
							args[i] = o[i]
						}
						args[fi] = v
						vwCheckDecode(t.kind, "json", []byte(fmt.Sprintf(t.format, args...)), acc)
						n++
					}
					if r.expired() {
						return
					}
				}
				acc.s("decode_bounds", "json_int_sweep_inputs/"+t.kind, int64(n))
			}})
		}
	}
	// containers: the integer fields of a Sample document (proof_type, proof.start, proof.end), one base per proof axis
	seen := map[string]bool{}
	for _, b := range bases {
		if b.c.kind != "sample" || b.form != "json" || seen[b.c.shape[:13]] {
			continue
		}
		seen[b.c.shape[:13]] = true
		b := b
		units = append(units, vwUnit{fmt.Sprintf("decode/Sample.UnmarshalJSON/json-int-sweep/%s%v", b.c.sq.name, b.c.params), func(acc *vwAcc) {
			var doc map[string]json.RawMessage
			if err := json.Unmarshal(b.enc, &doc); err != nil {
				panic(err)
			}
			var proof map[string]json.RawMessage
			if err := json.Unmarshal(doc["proof"], &proof); err != nil {
				panic(err)
			}
			vals := append(append([]string(nil), notations...), "-2", "-1", "0", "1", "2", "3", "255", "256", "65535", "65536",
				"2147483647", "2147483648", "4294967295", "4294967296", "4294967297", "-2147483648", "-2147483649", "-4294967296",
				"9223372036854775807", "9223372036854775808", "-9223372036854775808", "18446744073709551616")
			for i := 4; i <= 1100; i++ {
				vals = append(vals, fmt.Sprint(i))
			}
			n := 0
			emit := func(top map[string]json.RawMessage) {
				m, err := json.Marshal(top)
				if err != nil {
					return // not expressible as a document (e.g. 1e400 is, `[3]` is; invalid raw is skipped)
				}
				vwCheckDecode("sample", "json", m, acc)
				n++
			}
			for _, v := range vals {
				top := map[string]json.RawMessage{}
				for k, x := range doc {
					top[k] = x
				}
				top["proof_type"] = json.RawMessage(v)
				emit(top)
				for _, pf := range []string{"start", "end"} {
					pm := map[string]json.RawMessage{}
					for k, x := range proof {
						pm[k] = x
					}
					pm[pf] = json.RawMessage(v)
					pj, err := json.Marshal(pm)
					if err != nil {
						continue
					}
					top = map[string]json.RawMessage{}
					for k, x := range doc {
						top[k] = x
					}
					top["proof"] = pj
					emit(top)
				}
			}
			acc.s("decode_bounds", "json_int_sweep_inputs/sample", int64(n))
		}})
	}
	return units
}

func vwSharesOf(c *vwCont) (string, []libshare.Share) {
	switch v := c.val.(type) {
	case Sample:
		return "sample", []libshare.Share{v.Share}
	case Row:
		return "row", v.shares
	case RowNamespaceData:
		return "rnd", v.Shares
	case NamespaceData:
		return "nd", v.Flatten()
	case RangeNamespaceData:
		return "range", v.Flatten()
	}
	return "", nil
}

// vwRunCase re-executes one written-out case.
func vwRunCase(c vwCase, acc *vwAcc) {
	switch c.Op {
	case "id":
		k := vwKind(c.Type)
		ns := vwUnhex(c.Ns)
		usable := true
		for _, e := range vwNsAlphabet() {
			if string(e.b) == string(ns) {
				usable = e.usable
			}
		}
		vwCheckID(k, vwFields{H: c.H, A: c.A, B: c.B, Ns: ns}, c.Size, usable, acc)
	case "idbytes":
		vwCheckIDBytes(vwKind(c.Type), c.Mode, vwUnhex(c.Input), acc)
	case "decode":
		vwCheckDecode(c.Type, c.Mode, vwUnhex(c.Input), acc)
	case "container":
		for _, sq := range vwSquares("thorough") {
			if sq.name == c.Square {
				cc := sq.gen(c.Type, c.Params)
				if cc == nil {
					panic("replay: container cannot be generated")
				}
				vwCheckContainer(cc, c.Mode, acc)
				return
			}
		}
		panic("replay: unknown square " + c.Square)
	default:
		panic("replay: unknown op " + c.Op)
	}
}

func vwReplay(t *testing.T, rep *vx.Report, path string) {
	b, err := os.ReadFile(path)
	if err != nil {
		t.Fatalf("replay: %v", err)
	}
	var doc struct {
		Replay vwCase `json:"replay"`
	}
	if err := json.Unmarshal(b, &doc); err != nil {
		t.Fatalf("replay: %v", err)
	}
	var first []string
	var last *vwAcc
	for i := 0; i < 5; i++ {
		acc := newVwAcc()
		if p := vwGuard(func() { vwRunCase(doc.Replay, acc) }); p != "" {
			t.Fatalf("replay: harness panic: %s", p)
		}
		var sigs []string
		for _, v := range acc.viols {
			sigs = append(sigs, v.sig)
		}
		sort.Strings(sigs)
		if i == 0 {
			first = sigs
		} else if strings.Join(first, ",") != strings.Join(sigs, ",") {
			t.Fatalf("NONDETERMINISM: replay %d gave %v, earlier %v", i, sigs, first)
		}
		last = acc
	}
	rep.Count(5, 2, 1, last.trans)
	rep.AddSample(doc.Replay)
	rep.SetExhaustive(false)
	if len(last.viols) > 0 {
		for _, v := range last.viols {
			fmt.Printf("REPLAY-RESULT violation reproduced 5/5: %s: %s\n", v.sig, v.what)
			rep.Violation(v.sig, v.what, v.c)
		}
	} else {
		fmt.Println("REPLAY-RESULT no violation")
	}
	rep.Finish()
}

func TestVerifC18(t *testing.T) {
	logging.SetAllLoggers(logging.LevelFatal)
	rep := vx.NewReport("C18", "model_checking")
	rep.Rule = "bounded-exhaustive enumeration executed on the real codecs of share/shwap. (1) op=id: every identifier type x heights x every index value " +
		"-2..65538 plus 32/64-bit boundary values for one field with the others at boundary values x every listed square size -> constructor, binary, stream (and JSON) round trip. " +
		"(2) op=idbytes: decoder inputs = every value of every 16-bit field, 0..65538 plus boundaries of every 32-bit field, a namespace alphabet and every single-byte change of it, " +
		"every length 0..size+3, every byte string of length <= 2 (thorough: 3). (3) op=container: every sample (both proof axes), row (left/right/both), row namespace data " +
		"(inclusion and absence), namespace data and range (0-2 partial-row proofs) that the package's own constructors build from the listed squares, through protobuf, length-delimited stream and JSON. " +
		"(4) op=decode: every single-byte operator result (truncation to every length; substitution by 00,01,7f,80,ff,b^1,b+1,b-1; deletion; insertion of 00,01,7f,80,ff) on the picked valid encodings, " +
		"crafted protobuf messages (absent sub-messages, out-of-range enums, share lengths 0,1,28,29,511,513,1024, proof bounds at int64 limits), JSON documents with every node deleted / replaced by every " +
		"alphabet value, every valid encoding fed to every other decoder, every byte string of length <= 2 (thorough: 3); every JSON decoder with integer fields (SampleID, SampleCoords, Sample) gets, per field, every value -2..65538, " +
		"32/64-bit boundaries, int64/uint64 overflows and float/string/exponent notations, and an accepted value must be in range by the harness's own test and re-encode (binary/protobuf and JSON) to something that decodes equal. " +
		"A case is counted in distinct_nontrivial when it is distinct by construction (mutants are de-duplicated by content hash per base) and non-trivial: an identifier tuple the constructor accepted (so codecs ran), " +
		"a decoder input that is not rejected by the length check alone, a generated container, or a decoder input that was accepted or made the decoder panic. states = distinct values / byte strings the codecs were " +
		"exercised at; transitions = constructor / encode / decode / verify calls executed on the implementation."
	rep.Assumptions = []string{
		"square sizes up to the protocol maximum: ODS width <= 512 (appconsts.SquareSizeUpperBound), EDS width <= 1024",
		"containers are those the package's own constructors build from rsmt2d squares of the listed layouts; the square generator (rsmt2d, wrapper tree, nmt) is trusted",
		"equality of containers is decided by the harness field by field (share bytes, proof start/end/nodes/leaf hash/flag, side/axis); nil and empty node lists are equal; a row sent as 'both sides' in protobuf/stream form is compared after completing both rows",
		"'out-of-range field' is judged by the type's own Validate for identifiers, by ShareSize for shares, by the declared enum values for protobuf enums",
		"a length-delimited stream of rows (NamespaceData, RangeNamespaceData) carries no count: acceptance of a truncated stream is recorded, not judged",
		"bitswap CID framing and the shrex-sub notification live in other packages and are not covered by this check",
	}
	if rp := os.Getenv("VERIF_REPLAY"); rp != "" {
		vwReplay(t, rep, rp)
		return
	}
	run := &vwRun{rep: rep, tot: newVwAcc(), sigCount: map[string]int64{}, classSec: map[string]float64{}}
	run.deadline = rep.Deadline(85*time.Second, 15*time.Minute)
	tier := rep.Tier

	// determinism self-check: the same cases executed twice give identical observations
	{
		a, b := newVwAcc(), newVwAcc()
		for _, acc := range []*vwAcc{a, b} {
			vwCheckID(vwKind("SampleID"), vwFields{H: 5, A: 3, B: 2}, 8, true, acc)
			vwCheckID(vwKind("RangeNamespaceDataIDV0"), vwFields{H: 5, A: 3, B: 9}, 4, true, acc)
			vwCheckIDBytes(vwKind("RowID"), "bin", []byte{0, 0, 0, 0, 0, 0, 0, 1, 0, 3}, acc)
		}
		ja, _ := json.Marshal(a.out)
		jb, _ := json.Marshal(b.out)
		if string(ja) != string(jb) || a.trans != b.trans {
			rep.Infra("NONDETERMINISM in the self-check")
			t.FailNow()
		}
	}

	var squares []*vwSquare
	if p := vwGuard(func() { squares = vwSquares(tier) }); p != "" {
		rep.Infra("square generator: " + p)
		t.FailNow()
	}
	var bases []vwEnc
	var samples []any

	// phase 1: container round trips (they also pick the bases for mutation)
	units := run.containerUnits(tier, squares, &bases, &samples)
	run.runUnits(units)
	nUnits := len(units)
	// the bases for mutation, in generator order; the quick tier keeps one base per (square width, shape
	// class, form) instead of one per square
	sort.SliceStable(bases, func(i, j int) bool {
		if bases[i].sqIdx != bases[j].sqIdx {
			return bases[i].sqIdx < bases[j].sqIdx
		}
		return bases[i].cIdx < bases[j].cIdx
	})
	if tier != "thorough" {
		seen := map[string]bool{}
		kept := bases[:0]
		for _, b := range bases {
			k := fmt.Sprintf("%d/%s/%s", b.c.sq.w, b.c.shape, b.form)
			if !seen[k] {
				seen[k] = true
				kept = append(kept, b)
			}
		}
		bases = kept
	}
	// phase 2: decoders on mutated input, identifier decoders, identifier round trips
	units2 := run.decodeUnits(tier, bases)
	units2 = append(units2, run.idBytesUnits(tier)...)
	units2 = append(units2, run.idUnits(tier)...)
	run.runUnits(units2)
	nUnits += len(units2)

	tot := run.tot
	rep.Count(tot.evals, tot.nontriv, tot.states, tot.trans)

	// samples: real cases, written out
	rep.AddSample(map[string]any{"case": vwKind("SampleID").mkCase(vwFields{H: 1 << 32, A: 1023, B: 512}, 1024), "outcome": "accepted; binary, stream and JSON round trips equal"})
	rep.AddSample(map[string]any{"case": vwKind("RowID").mkCase(vwFields{H: 1, A: 65536}, 1024), "outcome": "refused by the constructor (index outside the square)"})
	rep.AddSample(map[string]any{"case": vwKind("RangeNamespaceDataIDV0").mkCase(vwFields{H: 1, A: 65535, B: 65536}, 256), "outcome": "see violations / known findings: to=65536 does not fit the 16-bit field"})
	rep.AddSample(map[string]any{"case": vwCase{Op: "idbytes", Type: "RowNamespaceDataID", Mode: "bin", Input: vwHex(append([]byte{0, 0, 0, 0, 0, 0, 0, 1, 0, 2}, libshare.ParitySharesNamespace.Bytes()...))}, "outcome": "decoder input with the parity namespace"})
	rep.AddSample(map[string]any{"case": vwCase{Op: "decode", Type: "row", Mode: "json", Input: vwHex([]byte(`{"shares":null,"side":"UNKNOWN"}`))}, "outcome": "JSON row with an unknown side string"})
	for _, s := range samples {
		rep.AddSample(s)
	}
	if len(bases) > 0 {
		b := bases[len(bases)/2]
		rep.AddSample(map[string]any{"mutation_base": b.c.mkCase(b.form), "bytes": len(b.enc), "all_positions": b.allPos})
	}

	outcomes := map[string]int64{}
	for _, k := range vwSortedKeys(tot.out) {
		outcomes[k] = tot.out[k]
	}
	rep.Set("outcome_histogram", outcomes)
	rep.Set("distinct_observed_outcomes", len(outcomes))
	for sec, m := range tot.sec {
		rep.Set(sec, m)
	}
	b := vwBoundsFor(tier)
	sqNames := []string{}
	for _, sq := range squares {
		sqNames = append(sqNames, fmt.Sprintf("%s=%s", sq.name, sq.layout))
	}
	rep.Set("bounds", map[string]any{
		"sweep_heights": fmt.Sprint(b.sweepHeights), "boundary_heights": fmt.Sprint(vwHeightsAll),
		"index_sweep": fmt.Sprintf("-2..%d plus %v", b.sweepMax, vwBigInts()),
		"eds_sizes_full_sweep": b.edsSizes, "eds_sizes_short_sweep(-2..1100+boundaries)": b.edsSizesLite, "ods_sizes_every_from_and_to": b.odsSizes,
		"squares": sqNames, "mutation_bases": len(bases),
	})
	rep.Set("violation_counts_by_signature", run.sigCount)
	rep.Set("violating_cases_total", tot.nviol)
	cs := map[string]float64{}
	for k, v := range run.classSec {
		cs[k] = float64(int(v*10)) / 10
	}
	rep.Set("unit_class_cpu_seconds", cs)
	rep.Set("units_total", nUnits)
	rep.Set("units_completed", len(run.done))
	if len(run.skipped) > 0 {
		sort.Strings(run.skipped)
		sk := run.skipped
		if len(sk) > 40 {
			sk = append(sk[:40:40], fmt.Sprintf("... and %d more", len(run.skipped)-40))
		}
		rep.Set("units_skipped_or_cut_by_deadline", sk)
	}
	positive := int64(0)
	for k, v := range tot.out {
		if strings.HasSuffix(k, "-ok") {
			positive += v
		}
	}
	rep.Set("positive_controls_passed", positive)
	rep.Set("explanation", "exhaustive within the stated bounds when 'exhaustive' is true; otherwise the units listed under units_skipped_or_cut_by_deadline were not completed")
	rep.SetExhaustive(!run.capped.Load())
	if positive == 0 {
		rep.Infra("no positive control passed: the run is vacuous")
	}
	if rep.Finish() > 0 {
		t.Fail()
	}
}
