package shwap

// Verification harness for C18 (share identifiers and containers survive the wire unchanged or
// are refused). Bounded-exhaustive enumeration executed on the real codecs of package shwap.
//
// This file: shared plumbing (accumulators, guarded calls, case descriptions, worker pool).

import (
	"encoding/hex"
	"fmt"
	"sort"
	"strings"
	"sync"
	"sync/atomic"
	"time"

	"github.com/celestiaorg/celestia-node/verifx/vx"
)

// vwCase is the written-out form of one explored case; it is what replay files and evidence
// samples contain, and vwRunCase re-executes it without the enumerators.
type vwCase struct {
	Op     string `json:"op"`                  // id | idbytes | container | decode
	Type   string `json:"type"`                // ID type / container kind / decoder name
	H      uint64 `json:"height,omitempty"`    // op=id
	A      int    `json:"a,omitempty"`         // op=id: row index / from
	B      int    `json:"b,omitempty"`         // op=id: share index / to
	Ns     string `json:"ns_hex,omitempty"`    // op=id: namespace bytes
	Size   int    `json:"size,omitempty"`      // op=id: square size handed to the constructor
	Mode   string `json:"mode,omitempty"`      // idbytes: bin|stream ; container: pb|stream|json
	Input  string `json:"input_hex,omitempty"` // idbytes/decode: the bytes fed to the decoder
	Square string `json:"square,omitempty"`    // container: generator square
	Params []int  `json:"params,omitempty"`    // container: generator parameters
	Note   string `json:"note,omitempty"`
}

type vwViol struct {
	sig  string
	what string
	c    vwCase
}

// vwAcc accumulates measured counts; one per work unit, merged under a lock.
type vwAcc struct {
	evals   int64 // oracle evaluations (cases executed)
	nontriv int64 // distinct cases that are non-trivial by the stated rule
	states  int64 // distinct values / byte strings the codecs were exercised at
	trans   int64 // encode / decode / verify operations executed on the implementation
	out     map[string]int64
	sec     map[string]map[string]int64 // section -> counter -> n
	viols   []vwViol
	nviol   int64
}

func newVwAcc() *vwAcc {
	return &vwAcc{out: map[string]int64{}, sec: map[string]map[string]int64{}}
}

func (a *vwAcc) o(k string) { a.out[k]++ }

func (a *vwAcc) s(section, k string, n int64) {
	m := a.sec[section]
	if m == nil {
		m = map[string]int64{}
		a.sec[section] = m
	}
	m[k] += n
}

func (a *vwAcc) viol(sig, what string, c vwCase) {
	a.nviol++
	// keep one written-out case per signature per unit; the count is kept in full
	for _, v := range a.viols {
		if v.sig == sig {
			return
		}
	}
	a.viols = append(a.viols, vwViol{sig, what, c})
}

func (a *vwAcc) merge(b *vwAcc) {
	a.evals += b.evals
	a.nontriv += b.nontriv
	a.states += b.states
	a.trans += b.trans
	for k, v := range b.out {
		a.out[k] += v
	}
	for s, m := range b.sec {
		for k, v := range m {
			a.s(s, k, v)
		}
	}
	a.nviol += b.nviol
	for _, v := range b.viols {
		dup := false
		for _, w := range a.viols {
			if w.sig == v.sig {
				dup = true
			}
		}
		if !dup {
			a.viols = append(a.viols, v)
		}
	}
}

// vwGuard runs f and converts a panic into a string.
func vwGuard(f func()) (pan string) {
	defer func() {
		if r := recover(); r != nil {
			pan = fmt.Sprint(r)
			if pan == "" {
				pan = "panic"
			}
		}
	}()
	f()
	return ""
}

// vwRun is one check run.
type vwRun struct {
	rep      *vx.Report
	deadline time.Time
	capped   atomic.Bool
	mu       sync.Mutex
	tot      *vwAcc
	sigCount map[string]int64
	skipped  []string
	done     []string
	classSec map[string]float64 // unit class -> summed unit wall seconds
}

func (r *vwRun) expired() bool {
	if r.capped.Load() {
		return true
	}
	if time.Now().After(r.deadline) {
		r.capped.Store(true)
		return true
	}
	return false
}

type vwUnit struct {
	name string
	run  func(acc *vwAcc) // must poll r.expired() and return early when set
}

// runUnits executes the units on a worker pool; a unit that starts after the deadline is skipped.
func (r *vwRun) runUnits(units []vwUnit) {
	var idx int64 = -1
	var wg sync.WaitGroup
	for w := 0; w < vx.Workers(); w++ {
		wg.Add(1)
		go func() {
			defer wg.Done()
			for {
				i := int(atomic.AddInt64(&idx, 1))
				if i >= len(units) {
					return
				}
				u := units[i]
				if r.expired() {
					r.mu.Lock()
					r.skipped = append(r.skipped, u.name)
					r.mu.Unlock()
					continue
				}
				acc := newVwAcc()
				t0 := time.Now()
				if p := vwGuard(func() { u.run(acc) }); p != "" {
					r.rep.Infra(fmt.Sprintf("harness panic in unit %s: %s", u.name, p))
				}
				r.mu.Lock()
				r.classSec[vwUnitClass(u.name)] += time.Since(t0).Seconds()
				r.tot.merge(acc)
				for _, v := range acc.viols {
					r.sigCount[v.sig]++
					r.rep.Violation(v.sig, v.what, v.c)
				}
				if r.capped.Load() {
					r.skipped = append(r.skipped, u.name+" (cut short)")
				} else {
					r.done = append(r.done, u.name)
				}
				r.mu.Unlock()
			}
		}()
	}
	wg.Wait()
}

func vwHex(b []byte) string { return hex.EncodeToString(b) }

func vwUnhex(s string) []byte {
	b, err := hex.DecodeString(s)
	if err != nil {
		panic("bad hex in replay case: " + err.Error())
	}
	return b
}

func vwSortedKeys(m map[string]int64) []string {
	ks := make([]string, 0, len(m))
	for k := range m {
		ks = append(ks, k)
	}
	sort.Strings(ks)
	return ks
}

func vwShort(b []byte) string {
	if len(b) <= 48 {
		return vwHex(b)
	}
	return fmt.Sprintf("%s..(%d bytes)", vwHex(b[:48]), len(b))
}

func vwUnitClass(name string) string {
	parts := strings.Split(name, "/")
	switch parts[0] {
	case "id", "idbytes":
		if len(parts) > 1 {
			return parts[0] + "/" + parts[1]
		}
	case "decode":
		return "decode/" + parts[len(parts)-1]
	}
	return parts[0]
}
