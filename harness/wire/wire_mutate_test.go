package shwap

// C18 harness, part 5: container decoders on arbitrary and mutated input.
//
//   op=decode  bytes -> decoder of (kind, form): never panics; returns a value or an error; an accepted
//              value holds only shares of exactly ShareSize bytes and no out-of-range enum was replaced
//              by a guess; SampleID's JSON decoder accepts only values that pass SampleID.Validate.

import (
	"bytes"
	"encoding/json"
	"fmt"
	"hash/maphash"
	"math"
	"sort"
	"strings"

	libshare "github.com/celestiaorg/go-square/v4/share"
	nmt_pb "github.com/celestiaorg/nmt/pb"

	"github.com/celestiaorg/celestia-node/share/shwap/pb"
)

type vwDecoderID struct{ kind, form string }

var vwContainerDecoders = []vwDecoderID{
	{"sample", "pb"}, {"row", "pb"}, {"rnd", "pb"}, {"range", "pb"},
	{"sample", "stream"}, {"row", "stream"}, {"rnd", "stream"}, {"nd", "stream"}, {"range", "stream"},
	{"sample", "json"}, {"row", "json"}, {"rnd", "json"}, {"nd", "json"}, {"range", "json"}, {"sampleid", "json"},
}

// vwCheckDecode executes one op=decode case.
func vwCheckDecode(kind, form string, in []byte, acc *vwAcc) {
	acc.evals++
	acc.states++
	name := vwDecoderName(kind, form)
	mk := func() vwCase { return vwCase{Op: "decode", Type: kind, Mode: form, Input: vwHex(in)} }
	var d vwDecoded
	var err error
	p := vwGuard(func() { d, err = vwDecode(kind, form, in) })
	acc.trans++
	if p != "" {
		acc.nontriv++
		acc.viol("C18/panic/"+name, fmt.Sprintf("decoder panics on input %s: %s", vwShortText(in, form), p), mk())
		return
	}
	if err != nil {
		acc.o("decode/" + name + "/rejected")
		return
	}
	acc.nontriv++ // the input got past every structural check of the decoder
	acc.o("decode/" + name + "/accepted")
	if d.note != "" {
		acc.o("decode/" + name + "/accepted-" + d.note)
	}
	for i, sh := range d.shares {
		if l := len(sh.ToBytes()); l != libshare.ShareSize {
			acc.viol("C18/accepts-wrong-length/"+name, fmt.Sprintf("accepted value holds share %d of %d bytes (input %s)", i, l, vwShortText(in, form)), mk())
			break
		}
	}
	if d.guess != "" {
		// the stream decoders go through the same FromProto conversion: one mechanism, one signature
		acc.viol("C18/guess/"+vwDecoderName(kind, "pb"), "out-of-range field replaced by a guess instead of being refused: "+d.guess, mk())
	}
	if sid, ok := d.val.(SampleID); ok {
		vwCheckAcceptedSampleID(sid, name, in, form, mk, acc)
	}
	if sc, ok := d.val.(SampleCoords); ok {
		vwCheckAcceptedCoords(sc, name, in, mk, acc)
	}
	if smp, ok := d.val.(Sample); ok && form == "json" && smp.Proof != nil && d.note == "" {
		vwCheckAcceptedSampleJSON(smp, name, in, mk, acc)
	}
	if form == "stream" && kind != "nd" && kind != "range" && d.rest == 0 && int(d.n) != len(in) {
		acc.viol("C18/stream-count/"+kind, fmt.Sprintf("ReadFrom reports %d bytes of %d consumed", d.n, len(in)), mk())
	}
}

func vwShortText(in []byte, form string) string {
	if form == "json" {
		s := string(in)
		if len(s) > 160 {
			s = s[:160] + fmt.Sprintf("..(%d bytes)", len(in))
		}
		return fmt.Sprintf("%q", s)
	}
	return vwShort(in)
}

// ---------------------------------------------------------------- byte operators

type vwSeen map[[2]uint64]struct{}

var vwSeedA, vwSeedB = maphash.MakeSeed(), maphash.MakeSeed()

// add reports whether b was not seen before (128-bit content hash; the seeds only decide which
// astronomically unlikely pair of inputs would collide, never what is executed).
func (s vwSeen) add(b []byte) bool {
	k := [2]uint64{maphash.Bytes(vwSeedA, b), maphash.Bytes(vwSeedB, b)}
	if _, ok := s[k]; ok {
		return false
	}
	s[k] = struct{}{}
	return true
}

var vwInsertBytes = []byte{0x00, 0x01, 0x7f, 0x80, 0xff}

// vwByteMutants yields every distinct result of one byte operator applied to enc:
// every truncation length, and at every listed position (nil = all) every substitution from
// {00,01,7f,80,ff,b^1,b+1,b-1}, the deletion of the byte and the insertion of each of {00,01,7f,80,ff}.
func vwByteMutants(enc []byte, positions []int, stop func() bool, yield func(m []byte)) (count int) {
	seen := vwSeen{}
	seen.add(enc)
	emit := func(m []byte) {
		if seen.add(m) {
			count++
			yield(m)
		}
	}
	for l := 0; l < len(enc); l++ {
		emit(append([]byte(nil), enc[:l]...))
		if l&0xff == 0 && stop() {
			return
		}
	}
	if positions == nil {
		positions = make([]int, len(enc))
		for i := range positions {
			positions[i] = i
		}
	}
	for n, i := range positions {
		b := enc[i]
		for _, v := range []byte{0x00, 0x01, 0x7f, 0x80, 0xff, b ^ 1, b + 1, b - 1} {
			if v == b {
				continue
			}
			m := append([]byte(nil), enc...)
			m[i] = v
			emit(m)
		}
		emit(append(append([]byte(nil), enc[:i]...), enc[i+1:]...))
		for _, v := range vwInsertBytes {
			m := make([]byte, 0, len(enc)+1)
			m = append(append(append(m, enc[:i]...), v), enc[i:]...)
			emit(m)
		}
		if n&0x3f == 0 && stop() {
			return
		}
	}
	for _, v := range vwInsertBytes {
		emit(append(append([]byte(nil), enc...), v))
	}
	return count
}

// vwStructuralPositions lists the positions of enc outside the interior of share payloads: for each
// share of the container the first 40 and the last 4 bytes of its occurrence in enc stay in, the rest of
// the payload is left out (used only for containers with more than two shares; said so in the evidence).
func vwStructuralPositions(enc []byte, form string, shares []libshare.Share) []int {
	skip := make([]bool, len(enc))
	for _, sh := range shares {
		needle := sh.ToBytes()
		head, tail := 40, 4
		if form == "json" {
			js, _ := json.Marshal(needle)
			needle = js[1 : len(js)-1]
			head, tail = 56, 8
		}
		from := 0
		for {
			i := bytes.Index(enc[from:], needle)
			if i < 0 {
				break
			}
			i += from
			for j := i + head; j < i+len(needle)-tail; j++ {
				skip[j] = true
			}
			from = i + len(needle)
		}
	}
	var out []int
	for i, s := range skip {
		if !s {
			out = append(out, i)
		}
	}
	return out
}

// ---------------------------------------------------------------- JSON field-level mutation

func vwJSONAlphabet() []any {
	return []any{nil, json.Number("0"), json.Number("-1"), json.Number("1.5"), json.Number("1e30"),
		json.Number("18446744073709551616"), json.Number("2"), json.Number("7"), "", "x", "LEFT", "left", "BOTH ", "UNKNOWN", "AAAA", "!!!!", true, false,
		[]any{}, map[string]any{}, []any{nil}, []any{"x"}, []any{json.Number("1")}}
}

// vwJSONMutants yields, for every node of the parsed document: the document without it, and the document
// with it replaced by every value of the alphabet (plus, for strings, a shortened / extended / re-cased one).
func vwJSONMutants(valid []byte, yield func(m []byte, what string)) {
	parse := func() any {
		dec := json.NewDecoder(bytes.NewReader(valid))
		dec.UseNumber()
		var doc any
		if err := dec.Decode(&doc); err != nil {
			panic("harness: own JSON does not parse: " + err.Error())
		}
		return doc
	}
	type step struct {
		key string
		idx int
	}
	var paths [][]step
	var walk func(n any, p []step)
	walk = func(n any, p []step) {
		paths = append(paths, append([]step(nil), p...))
		switch x := n.(type) {
		case map[string]any:
			ks := make([]string, 0, len(x))
			for k := range x {
				ks = append(ks, k)
			}
			sort.Strings(ks)
			for _, k := range ks {
				walk(x[k], append(p, step{key: k}))
			}
		case []any:
			for i := range x {
				walk(x[i], append(p, step{idx: i, key: ""}))
			}
		}
	}
	walk(parse(), nil)
	pathStr := func(p []step) string {
		var sb strings.Builder
		for _, s := range p {
			if s.key != "" {
				sb.WriteString("." + s.key)
			} else {
				fmt.Fprintf(&sb, "[%d]", s.idx)
			}
		}
		if sb.Len() == 0 {
			return "$"
		}
		return sb.String()
	}
	// apply f to the node at path p of a fresh copy of the document; f returns (replacement, delete?)
	apply := func(p []step, f func(old any) (any, bool)) []byte {
		doc := parse()
		if len(p) == 0 {
			nv, _ := f(doc)
			out, _ := json.Marshal(nv)
			return out
		}
		cur := doc
		for _, s := range p[:len(p)-1] {
			if s.key != "" {
				cur = cur.(map[string]any)[s.key]
			} else {
				cur = cur.([]any)[s.idx]
			}
		}
		last := p[len(p)-1]
		if last.key != "" {
			m := cur.(map[string]any)
			nv, del := f(m[last.key])
			if del {
				delete(m, last.key)
			} else {
				m[last.key] = nv
			}
		} else {
			// arrays: the parent has to be re-attached after a deletion
			arr := cur.([]any)
			nv, del := f(arr[last.idx])
			if del {
				arr = append(arr[:last.idx:last.idx], arr[last.idx+1:]...)
				// re-attach
				if len(p) == 1 {
					doc = arr
				} else {
					par := doc
					for _, s := range p[:len(p)-2] {
						if s.key != "" {
							par = par.(map[string]any)[s.key]
						} else {
							par = par.([]any)[s.idx]
						}
					}
					pl := p[len(p)-2]
					if pl.key != "" {
						par.(map[string]any)[pl.key] = arr
					} else {
						par.([]any)[pl.idx] = arr
					}
				}
			} else {
				arr[last.idx] = nv
			}
		}
		out, err := json.Marshal(doc)
		if err != nil {
			panic("harness: cannot re-marshal mutated JSON: " + err.Error())
		}
		return out
	}
	for _, p := range paths {
		ps := pathStr(p)
		if len(p) > 0 {
			yield(apply(p, func(any) (any, bool) { return nil, true }), "delete "+ps)
		}
		for _, v := range vwJSONAlphabet() {
			v := v
			yield(apply(p, func(any) (any, bool) { return v, false }), fmt.Sprintf("%s := %v", ps, v))
		}
		yield(apply(p, func(old any) (any, bool) {
			switch x := old.(type) {
			case string:
				if len(x) > 0 {
					return x[:len(x)-1], false
				}
				return "=", false
			case json.Number:
				if strings.TrimLeft(string(x), "-0") == "" {
					return json.Number("10"), false
				}
				return json.Number(string(x) + "0"), false
			case []any:
				return append(append([]any{}, x...), x...), false
			}
			return "was-" + fmt.Sprint(old), false
		}), "reshape "+ps)
		yield(apply(p, func(old any) (any, bool) {
			switch x := old.(type) {
			case string:
				return strings.ToLower(x) + "A", false
			case json.Number:
				if strings.HasPrefix(string(x), "-") {
					return json.Number(string(x)[1:]), false
				}
				return json.Number("-" + string(x)), false
			case []any:
				if len(x) > 0 {
					return x[:len(x)-1], false
				}
			}
			return []any{old}, false
		}), "reshape2 "+ps)
	}
}

// ---------------------------------------------------------------- crafted protobuf messages

func vwCraftedPB(kind string, valid []byte) [][]byte {
	var out [][]byte
	emit := func(m interface{ Marshal() ([]byte, error) }) {
		var b []byte
		var err error
		if p := vwGuard(func() { b, err = m.Marshal() }); p != "" || err != nil {
			return // the generator could not express it; nothing is claimed for it
		}
		out = append(out, b)
	}
	ints := []int64{-1, 1, 2, 3, 1 << 31, 1 << 32, 1 << 62, math.MaxInt64, math.MinInt64}
	shareLens := []int{0, 1, 28, 29, 511, 513, 1024}
	bad := func(l int) *pb.Share { return &pb.Share{Data: bytes.Repeat([]byte{0x42}, l)} }
	proofMut := func(get func() *nmt_pb.Proof, done func()) {
		for _, v := range ints {
			p := get()
			p.Start = v
			done()
			p = get()
			p.End = v
			done()
			p = get()
			p.Start, p.End = v, v
			done()
		}
		p := get()
		p.Nodes = nil
		done()
		p = get()
		p.Nodes = [][]byte{{}}
		done()
		p = get()
		p.Nodes = [][]byte{{1}, bytes.Repeat([]byte{9}, 89), bytes.Repeat([]byte{9}, 91)}
		done()
		p = get()
		p.Nodes = append(p.Nodes, p.Nodes...)
		done()
		p = get()
		p.LeafHash = []byte{1, 2, 3}
		done()
		p = get()
		p.LeafHash = bytes.Repeat([]byte{7}, 90)
		done()
		p = get()
		p.IsMaxNamespaceIgnored = !p.IsMaxNamespaceIgnored
		done()
		p = get()
		p.Start, p.End = 0, 0
		done()
	}
	switch kind {
	case "sample":
		fresh := func() *pb.Sample {
			var m pb.Sample
			if err := m.Unmarshal(valid); err != nil {
				panic(err)
			}
			if m.Proof == nil {
				m.Proof = &nmt_pb.Proof{}
			}
			return &m
		}
		m := fresh()
		m.Share = nil
		emit(m)
		m = fresh()
		m.Proof = nil
		emit(m)
		m = fresh()
		m.Share, m.Proof = nil, nil
		emit(m)
		emit(&pb.Sample{})
		for _, l := range shareLens {
			m = fresh()
			m.Share = bad(l)
			emit(m)
		}
		for _, v := range []int32{1, 2, 3, 7, -1, math.MaxInt32, math.MinInt32} {
			m = fresh()
			m.ProofType = pb.AxisType(v)
			emit(m)
		}
		var cur *pb.Sample
		proofMut(func() *nmt_pb.Proof { cur = fresh(); return cur.Proof }, func() { emit(cur) })
	case "row":
		fresh := func() *pb.Row {
			var m pb.Row
			if err := m.Unmarshal(valid); err != nil {
				panic(err)
			}
			return &m
		}
		emit(&pb.Row{})
		for _, v := range []int32{0, 1, 2, 3, 7, 100, -1, math.MaxInt32, math.MinInt32} {
			m := fresh()
			m.HalfSide = pb.Row_HalfSide(v)
			emit(m)
			emit(&pb.Row{HalfSide: pb.Row_HalfSide(v)})
		}
		for _, l := range shareLens {
			m := fresh()
			m.SharesHalf = append(m.SharesHalf, bad(l))
			emit(m)
			m = fresh()
			m.SharesHalf[0] = bad(l)
			emit(m)
		}
		m := fresh()
		m.SharesHalf = nil
		emit(m)
		m = fresh()
		m.SharesHalf = append(m.SharesHalf, &pb.Share{})
		emit(m)
		m = fresh()
		m.SharesHalf = append(m.SharesHalf, m.SharesHalf...)
		emit(m)
		m = fresh()
		m.SharesHalf = m.SharesHalf[:len(m.SharesHalf)-1]
		emit(m)
	case "rnd":
		fresh := func() *pb.RowNamespaceData {
			var m pb.RowNamespaceData
			if err := m.Unmarshal(valid); err != nil {
				panic(err)
			}
			if m.Proof == nil {
				m.Proof = &nmt_pb.Proof{}
			}
			return &m
		}
		emit(&pb.RowNamespaceData{})
		emit(&pb.RowNamespaceData{Proof: &nmt_pb.Proof{}})
		m := fresh()
		m.Proof = nil
		emit(m)
		m = fresh()
		m.Shares = nil
		emit(m)
		m = fresh()
		m.Shares = append(m.Shares, &pb.Share{})
		emit(m)
		for _, l := range shareLens {
			m = fresh()
			m.Shares = append(m.Shares, bad(l))
			emit(m)
		}
		var cur *pb.RowNamespaceData
		proofMut(func() *nmt_pb.Proof { cur = fresh(); return cur.Proof }, func() { emit(cur) })
	case "range":
		fresh := func() *pb.RangeNamespaceData {
			var m pb.RangeNamespaceData
			if err := m.Unmarshal(valid); err != nil {
				panic(err)
			}
			return &m
		}
		emit(&pb.RangeNamespaceData{})
		emit(&pb.RangeNamespaceData{Shares: []*pb.RowShares{{}}})
		emit(&pb.RangeNamespaceData{FirstIncompleteRowProof: &nmt_pb.Proof{}, LastIncompleteRowProof: &nmt_pb.Proof{}})
		m := fresh()
		m.Shares = append(m.Shares, &pb.RowShares{})
		emit(m)
		m = fresh()
		m.Shares = nil
		emit(m)
		m = fresh()
		m.Shares[0].Shares = append(m.Shares[0].Shares, &pb.Share{})
		emit(m)
		for _, l := range shareLens {
			m = fresh()
			m.Shares[0].Shares = append(m.Shares[0].Shares, bad(l))
			emit(m)
			m = fresh()
			m.Shares = append(m.Shares, &pb.RowShares{Shares: []*pb.Share{bad(l)}})
			emit(m)
		}
		m = fresh()
		m.FirstIncompleteRowProof, m.LastIncompleteRowProof = m.LastIncompleteRowProof, m.FirstIncompleteRowProof
		emit(m)
		m = fresh()
		m.FirstIncompleteRowProof, m.LastIncompleteRowProof = nil, nil
		emit(m)
		var cur *pb.RangeNamespaceData
		proofMut(func() *nmt_pb.Proof {
			cur = fresh()
			if cur.FirstIncompleteRowProof == nil {
				cur.FirstIncompleteRowProof = &nmt_pb.Proof{}
			}
			return cur.FirstIncompleteRowProof
		}, func() { emit(cur) })
		proofMut(func() *nmt_pb.Proof {
			cur = fresh()
			if cur.LastIncompleteRowProof == nil {
				cur.LastIncompleteRowProof = &nmt_pb.Proof{}
			}
			return cur.LastIncompleteRowProof
		}, func() { emit(cur) })
	}
	return out
}

// vwFrame wraps a message body as one length-delimited frame.
func vwFrame(body []byte) []byte {
	var hdr [10]byte
	n := 0
	x := uint64(len(body))
	for x >= 0x80 {
		hdr[n] = byte(x) | 0x80
		x >>= 7
		n++
	}
	hdr[n] = byte(x)
	n++
	return append(append([]byte(nil), hdr[:n]...), body...)
}

// vwCheckAcceptedSampleID judges a SampleID that a decoder without a square size (the JSON one) accepted.
// The range test is the harness's own (it does not rely on SampleID.Validate alone): a height of 0 or a
// negative index addresses no position of any square. Whatever was accepted has to survive the identifier's
// other forms: binary and JSON re-encodings decode to an equal value or are refused - never altered.
func vwCheckAcceptedSampleID(sid SampleID, name string, in []byte, form string, mk func() vwCase, acc *vwAcc) {
	if verr := sid.Validate(); verr != nil {
		acc.viol("C18/accepts-invalid/"+name, fmt.Sprintf("decoder accepts %s although the decoded value fails SampleID.Validate: %v", vwShortText(in, form), verr), mk())
	}
	f := vwFields{H: sid.height, A: sid.RowIndex, B: sid.ShareIndex}
	if f.H == 0 || f.A < 0 || f.B < 0 {
		acc.viol("C18/accepts-invalid/"+name,
			fmt.Sprintf("decoder accepts %s: height=%d row=%d col=%d addresses no position of any square (height 0 or negative index)", vwShortText(in, form), f.H, f.A, f.B), mk())
	}
	k := vwKind("SampleID")
	// binary form of the accepted value
	var enc []byte
	var err error
	if p := vwGuard(func() { enc, err = sid.MarshalBinary() }); p != "" {
		acc.o("decode/" + name + "/accepted-value-encoder-panic")
		return
	}
	acc.trans++
	if err == nil {
		var back SampleID
		if p := vwGuard(func() { back, err = SampleIDFromBinary(enc) }); p != "" {
			acc.viol("C18/panic/SampleIDFromBinary", "decoder panics on the encoder's own output: "+p, mk())
			return
		}
		acc.trans++
		if err != nil {
			acc.viol("C18/lossy/SampleID/binary-of-json-accepted",
				fmt.Sprintf("SampleID{height=%d row=%d col=%d} accepted from %s encodes to %x which the binary decoder refuses (%v): a field was altered by the encoder", f.H, f.A, f.B, vwShortText(in, form), enc, err), mk())
		} else if d := k.fields(back).eq(f); d != "" {
			acc.viol("C18/lossy/SampleID/binary-of-json-accepted",
				fmt.Sprintf("SampleID{height=%d row=%d col=%d} accepted from %s encodes to %x which decodes to %+v (field %s differs: truncated)", f.H, f.A, f.B, vwShortText(in, form), enc, k.fields(back), d), mk())
		} else {
			acc.o("decode/" + name + "/accepted-value-binary-roundtrip-ok")
		}
	} else {
		acc.o("decode/" + name + "/accepted-value-encode-refused")
	}
	// JSON form of the accepted value
	var js []byte
	var out SampleID
	if p := vwGuard(func() {
		js, err = json.Marshal(sid)
		if err == nil {
			err = json.Unmarshal(js, &out)
		}
	}); p != "" {
		acc.viol("C18/panic/SampleID.json", "panic in JSON round trip of an accepted value: "+p, mk())
		return
	}
	acc.trans += 2
	if err != nil {
		acc.viol("C18/lossy/SampleID.json", fmt.Sprintf("value accepted from %s re-encodes to %s which the decoder refuses: %v", vwShortText(in, form), js, err), mk())
	} else if d := k.fields(out).eq(f); d != "" {
		acc.viol("C18/lossy/SampleID.json", fmt.Sprintf("value accepted from %s re-encodes to %s which decodes to %+v (field %s differs)", vwShortText(in, form), js, k.fields(out), d), mk())
	}
}

// vwCheckAcceptedCoords: SampleCoords is the JSON parameter of the share module's GetSamples; it has no
// validation of its own, so: exact JSON round trip, and acceptance by SampleCoordsAs1DIndex for a size
// implies a position inside that square.
func vwCheckAcceptedCoords(sc SampleCoords, name string, in []byte, mk func() vwCase, acc *vwAcc) {
	js, err := json.Marshal(sc)
	var out SampleCoords
	if err == nil {
		err = json.Unmarshal(js, &out)
	}
	acc.trans += 2
	if err != nil || out != sc {
		acc.viol("C18/lossy/SampleCoords.json", fmt.Sprintf("%+v accepted from %s re-encodes to %s -> %+v (%v)", sc, vwShortText(in, "json"), js, out, err), mk())
	}
	for _, s := range vwVerifySizes {
		var idx int
		var ierr error
		if p := vwGuard(func() { idx, ierr = SampleCoordsAs1DIndex(sc, s) }); p != "" {
			acc.o("decode/" + name + "/as1d-panic")
			continue
		}
		acc.trans++
		if ierr == nil && !(0 <= sc.Row && sc.Row < s && 0 <= sc.Col && sc.Col < s && idx == sc.Row*s+sc.Col) {
			acc.viol("C18/accepts-outside-square/SampleCoords", fmt.Sprintf("SampleCoordsAs1DIndex(%+v, %d) = %d without error", sc, s, idx), mk())
		}
	}
}

// vwCheckAcceptedSampleJSON: a Sample accepted from JSON (share and proof present) re-encodes to JSON and to
// protobuf forms that decode to an equal value, or the encoders refuse - no field is silently altered.
func vwCheckAcceptedSampleJSON(smp Sample, name string, in []byte, mk func() vwCase, acc *vwAcc) {
	for _, form := range []string{"json", "pb"} {
		var enc []byte
		var err error
		if p := vwGuard(func() { enc, _, err = vwEncode("sample", form, smp) }); p != "" || err != nil {
			acc.o("decode/" + name + "/accepted-value-reencode-" + form + "-refused")
			continue
		}
		var d vwDecoded
		if p := vwGuard(func() { d, err = vwDecode("sample", form, enc) }); p != "" {
			acc.viol("C18/panic/"+vwDecoderName("sample", form), "decoder panics on the re-encoding of an accepted value: "+p, mk())
			continue
		}
		acc.trans += 2
		if err != nil {
			acc.o("decode/" + name + "/accepted-value-reencoded-" + form + "-rejected")
			continue
		}
		if diff := vwContDiff("sample", smp, d.val, false); diff != "" {
			acc.viol("C18/lossy/Sample/"+form+"-of-json-accepted",
				fmt.Sprintf("Sample accepted from %s re-encodes (%s) to a value that decodes differently: %s", vwShortText(in, "json"), form, diff), mk())
		}
	}
}
