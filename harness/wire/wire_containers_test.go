package shwap

// C18 harness, part 4: containers. Deterministic squares, every container the package's own
// constructors build from them, and the round trip through the protobuf, length-delimited stream
// and JSON forms.

import (
	"bytes"
	"encoding/binary"
	"encoding/json"
	"fmt"

	"github.com/celestiaorg/celestia-app/v9/pkg/wrapper"
	libshare "github.com/celestiaorg/go-square/v4/share"
	"github.com/celestiaorg/nmt"
	"github.com/celestiaorg/rsmt2d"

	"github.com/celestiaorg/celestia-node/share"
	"github.com/celestiaorg/celestia-node/share/shwap/pb"
)

type vwSquare struct {
	name   string
	w      int
	layout string
	eds    *rsmt2d.ExtendedDataSquare
	roots  *share.AxisRoots
	nsList []libshare.Namespace // namespaces asked for (present and absent ones)
}

func vwLayoutNs(code byte) libshare.Namespace {
	switch code {
	case 't':
		return libshare.TxNamespace
	case 'p':
		return libshare.PayForBlobNamespace
	case 'T':
		return libshare.TailPaddingNamespace
	}
	// 'A'..'H' -> user namespaces 0x0110, 0x0120, ... ; lower-case 'x' codes are never laid out
	return libshare.MustNewV0Namespace([]byte{0x01, 0x10 * (code - 'A' + 1)})
}

// absent namespaces that fall between laid-out ones (A<ab<B<bc<C), below and above all user data
func vwAbsentNs() []libshare.Namespace {
	return []libshare.Namespace{
		libshare.MustNewV0Namespace([]byte{0x01, 0x18}),
		libshare.MustNewV0Namespace([]byte{0x01, 0x28}),
		libshare.MustNewV0Namespace([]byte{0x01, 0x08}),
		libshare.MustNewV0Namespace([]byte{0x7f, 0x00}),
	}
}

func vwMakeShare(ns libshare.Namespace, cell int) libshare.Share {
	if ns.Equals(libshare.TailPaddingNamespace) {
		return libshare.TailPaddingShare()
	}
	raw := make([]byte, libshare.ShareSize)
	copy(raw, ns.Bytes())
	raw[libshare.NamespaceSize] = 0x01 // share version 0, sequence start
	binary.BigEndian.PutUint32(raw[libshare.NamespaceSize+1:], uint32(libshare.ShareSize-libshare.NamespaceSize-5))
	for i := libshare.NamespaceSize + 5; i < len(raw); i++ {
		raw[i] = byte(cell*31 + i*7 + 1) // a counter: a mis-placed share or byte is visible
	}
	binary.BigEndian.PutUint16(raw[libshare.NamespaceSize+5:], uint16(cell))
	sh, err := libshare.NewShare(raw)
	if err != nil {
		panic(err)
	}
	return sh
}

func vwBuildSquare(name string, w int, layout string) *vwSquare {
	if len(layout) != w*w {
		panic(fmt.Sprintf("harness: layout %q is not %dx%d", layout, w, w))
	}
	ods := make([]libshare.Share, w*w)
	seen := map[string]bool{}
	sq := &vwSquare{name: name, w: w, layout: layout}
	for i := range ods {
		ns := vwLayoutNs(layout[i])
		ods[i] = vwMakeShare(ns, i)
		if !seen[string(ns.Bytes())] && layout[i] != 'T' {
			seen[string(ns.Bytes())] = true
			sq.nsList = append(sq.nsList, ns)
		}
	}
	sq.nsList = append(sq.nsList, vwAbsentNs()...)
	eds, err := rsmt2d.ComputeExtendedDataSquare(libshare.ToBytes(ods), share.DefaultRSMT2DCodec(), wrapper.NewConstructor(uint64(w)))
	if err != nil {
		panic("harness: cannot extend square " + name + ": " + err.Error())
	}
	roots, err := share.NewAxisRoots(eds)
	if err != nil {
		panic(err)
	}
	sq.eds, sq.roots = eds, roots
	return sq
}

func vwSquares(tier string) []*vwSquare {
	out := []*vwSquare{
		vwBuildSquare("w1/A", 1, "A"),
		vwBuildSquare("w1/T", 1, "T"),
		vwBuildSquare("w2/AABB", 2, "AABB"),
		vwBuildSquare("w2/ACCT", 2, "ACCT"),
		vwBuildSquare("w2/AAAA", 2, "AAAA"),
		vwBuildSquare("w2/tpAC", 2, "tpAC"),
		vwBuildSquare("w4/mixed", 4, "AAAA"+"AABB"+"BBCC"+"CDTT"),
		vwBuildSquare("w4/long", 4, "tpAA"+"AAAA"+"AAAA"+"ACTT"),
		vwBuildSquare("w4/gap", 4, "ACCC"+"CCEE"+"EEEE"+"ETTT"),
	}
	if tier == "thorough" {
		out = append(out, vwBuildSquare("w4/full", 4, "AAAAAAAAAAAAAAAA"))
		l := "tp" + repeat('A', 10) + repeat('B', 17) + repeat('C', 8) + repeat('E', 20) + repeat('T', 7)
		out = append(out, vwBuildSquare("w8/mixed", 8, l))
	}
	return out
}

func repeat(c byte, n int) string { return string(bytes.Repeat([]byte{c}, n)) }

func (sq *vwSquare) rowShares(r int) []libshare.Share {
	s, err := libshare.FromBytes(sq.eds.Row(uint(r)))
	if err != nil {
		panic(err)
	}
	return s
}

func (sq *vwSquare) colShares(c int) []libshare.Share {
	s, err := libshare.FromBytes(sq.eds.Col(uint(c)))
	if err != nil {
		panic(err)
	}
	return s
}

// ---------------------------------------------------------------- container descriptions

// vwCont is one generated container. kind: sample | row | rnd | nd | range.
type vwCont struct {
	sq     *vwSquare
	kind   string
	params []int
	shape  string // shape class (used to pick representatives for byte-level mutation)
	val    any    // Sample | Row | RowNamespaceData | NamespaceData | RangeNamespaceData
	verify func(v any) error
}

func (c *vwCont) mkCase(form string) vwCase {
	return vwCase{Op: "container", Type: c.kind, Mode: form, Square: c.sq.name, Params: c.params}
}

func (sq *vwSquare) containers() []*vwCont {
	var out []*vwCont
	W := 2 * sq.w
	// samples: every coordinate, both proof axes
	for r := 0; r < W; r++ {
		for c := 0; c < W; c++ {
			for _, axis := range []rsmt2d.Axis{rsmt2d.Row, rsmt2d.Col} {
				if cc := sq.gen("sample", []int{r, c, int(axis)}); cc != nil {
					out = append(out, cc)
				}
			}
		}
	}
	for r := 0; r < W; r++ {
		for _, side := range []RowSide{Left, Right, Both} {
			out = append(out, sq.gen("row", []int{r, int(side)}))
		}
	}
	for r := 0; r < sq.w; r++ {
		for i := range sq.nsList {
			if cc := sq.gen("rnd", []int{r, i}); cc != nil {
				out = append(out, cc)
			}
		}
	}
	for i := range sq.nsList {
		if cc := sq.gen("nd", []int{i}); cc != nil {
			out = append(out, cc)
		}
	}
	// ranges: every [from,to) inside one namespace run of the ODS
	n := sq.w * sq.w
	for from := 0; from < n; from++ {
		if sq.layout[from] == 'T' {
			continue
		}
		for to := from + 1; to <= n && sq.layout[to-1] == sq.layout[from]; to++ {
			out = append(out, sq.gen("range", []int{from, to}))
		}
	}
	return out
}

// gen builds one container from its parameters with the package's own constructors
// (nil: the constructor legitimately has nothing to return, e.g. namespace outside the row's range).
func (sq *vwSquare) gen(kind string, p []int) *vwCont {
	c := &vwCont{sq: sq, kind: kind, params: p}
	switch kind {
	case "sample":
		r, col, axis := p[0], p[1], rsmt2d.Axis(p[2])
		axisIdx, shrIdx := r, col
		shares := sq.rowShares(r)
		if axis == rsmt2d.Col {
			axisIdx, shrIdx = col, r
			shares = sq.colShares(col)
		}
		s, err := SampleFromShares(shares, axis, SampleCoords{Row: axisIdx, Col: shrIdx})
		if err != nil {
			panic("harness: SampleFromShares: " + err.Error())
		}
		q := 0
		if r >= sq.w {
			q += 2
		}
		if col >= sq.w {
			q++
		}
		c.shape = fmt.Sprintf("sample/axis=%d/q%d", axis, q)
		c.val = s
		c.verify = func(v any) error { return v.(Sample).Verify(sq.roots, r, col) }
	case "row":
		r, side := p[0], RowSide(p[1])
		row, err := RowFromEDS(sq.eds, r, side)
		if err != nil {
			panic("harness: RowFromEDS: " + err.Error())
		}
		c.shape = fmt.Sprintf("row/side=%d/parity=%v", side, r >= sq.w)
		c.val = row
		c.verify = func(v any) error {
			x := v.(Row)
			x.shares = append([]libshare.Share(nil), x.shares...)
			return x.Verify(sq.roots, r)
		}
	case "rnd":
		r, ns := p[0], sq.nsList[p[1]]
		rnd, err := RowNamespaceDataFromShares(sq.rowShares(r), ns, r)
		if err != nil {
			return nil
		}
		c.shape = fmt.Sprintf("rnd/absence=%v/shares=%d", rnd.Proof.IsOfAbsence(), min(len(rnd.Shares), 2))
		c.val = rnd
		c.verify = func(v any) error { return v.(RowNamespaceData).Verify(sq.roots, ns, r) }
	case "nd":
		ns := sq.nsList[p[0]]
		rows, err := share.RowsWithNamespace(sq.roots, ns)
		if err != nil {
			panic(err)
		}
		nd := make(NamespaceData, 0, len(rows))
		for _, r := range rows {
			rnd, err := RowNamespaceDataFromShares(sq.rowShares(r), ns, r)
			if err != nil {
				panic("harness: RowNamespaceDataFromShares for a row listed by RowsWithNamespace: " + err.Error())
			}
			nd = append(nd, rnd)
		}
		c.shape = fmt.Sprintf("nd/rows=%d", min(len(nd), 3))
		c.val = nd
		c.verify = func(v any) error { return v.(NamespaceData).Verify(sq.roots, ns) }
	case "range":
		from, to := p[0], p[1]
		fc, err := SampleCoordsFrom1DIndex(from, sq.w)
		if err != nil {
			panic(err)
		}
		tc, err := SampleCoordsFrom1DIndex(to-1, sq.w)
		if err != nil {
			panic(err)
		}
		rows := make([][]libshare.Share, 0, tc.Row-fc.Row+1)
		for r := fc.Row; r <= tc.Row; r++ {
			rows = append(rows, sq.rowShares(r))
		}
		rd, err := RangeNamespaceDataFromShares(rows, fc, tc)
		if err != nil {
			panic("harness: RangeNamespaceDataFromShares: " + err.Error())
		}
		c.shape = fmt.Sprintf("range/first=%v/last=%v/rows=%d", rd.FirstIncompleteRowProof != nil, rd.LastIncompleteRowProof != nil, min(len(rd.Shares), 3))
		c.val = rd
		c.verify = func(v any) error {
			x := v.(RangeNamespaceData)
			return x.VerifyInclusion(fc, tc, sq.w, sq.roots.RowRoots[fc.Row:tc.Row+1])
		}
	default:
		panic("harness: unknown container kind " + kind)
	}
	return c
}

// ---------------------------------------------------------------- equality (harness side)

func vwSharesDiff(a, b []libshare.Share) string {
	if len(a) != len(b) {
		return fmt.Sprintf("%d shares vs %d", len(a), len(b))
	}
	for i := range a {
		if !bytes.Equal(a[i].ToBytes(), b[i].ToBytes()) {
			return fmt.Sprintf("share %d differs", i)
		}
	}
	return ""
}

func vwProofDiff(a, b *nmt.Proof) string {
	if (a == nil) != (b == nil) {
		return fmt.Sprintf("proof nil=%v vs nil=%v", a == nil, b == nil)
	}
	if a == nil {
		return ""
	}
	switch {
	case a.Start() != b.Start():
		return fmt.Sprintf("proof start %d vs %d", a.Start(), b.Start())
	case a.End() != b.End():
		return fmt.Sprintf("proof end %d vs %d", a.End(), b.End())
	case a.IsMaxNamespaceIDIgnored() != b.IsMaxNamespaceIDIgnored():
		return "proof ignore-max-namespace flag differs"
	case !bytes.Equal(a.LeafHash(), b.LeafHash()):
		return "proof leaf hash differs"
	case len(a.Nodes()) != len(b.Nodes()):
		return fmt.Sprintf("proof has %d nodes vs %d", len(a.Nodes()), len(b.Nodes()))
	}
	for i := range a.Nodes() {
		if !bytes.Equal(a.Nodes()[i], b.Nodes()[i]) {
			return fmt.Sprintf("proof node %d differs", i)
		}
	}
	return ""
}

func vwRNDDiff(a, b RowNamespaceData) string {
	if d := vwSharesDiff(a.Shares, b.Shares); d != "" {
		return d
	}
	return vwProofDiff(a.Proof, b.Proof)
}

// vwContDiff compares a decoded container with the original; semantic=true (row sent as "both sides"
// in a form that only carries one half) compares the full reconstructed row instead.
func vwContDiff(kind string, orig, got any, semantic bool) string {
	switch kind {
	case "sample":
		a, b := orig.(Sample), got.(Sample)
		if !bytes.Equal(a.Share.ToBytes(), b.Share.ToBytes()) {
			return "share differs"
		}
		if a.ProofType != b.ProofType {
			return fmt.Sprintf("proof type %d vs %d", a.ProofType, b.ProofType)
		}
		return vwProofDiff(a.Proof, b.Proof)
	case "row":
		a, b := orig.(Row), got.(Row)
		if semantic {
			ac := Row{shares: append([]libshare.Share(nil), a.shares...), side: a.side}
			bc := Row{shares: append([]libshare.Share(nil), b.shares...), side: b.side}
			as, err := ac.Shares()
			if err != nil {
				return "original row cannot be completed: " + err.Error()
			}
			bs, err := bc.Shares()
			if err != nil {
				return "decoded row cannot be completed: " + err.Error()
			}
			return vwSharesDiff(as, bs)
		}
		if a.side != b.side {
			return fmt.Sprintf("side %d vs %d", a.side, b.side)
		}
		return vwSharesDiff(a.shares, b.shares)
	case "rnd":
		return vwRNDDiff(orig.(RowNamespaceData), got.(RowNamespaceData))
	case "nd":
		a, b := orig.(NamespaceData), got.(NamespaceData)
		if len(a) != len(b) {
			return fmt.Sprintf("%d rows vs %d", len(a), len(b))
		}
		for i := range a {
			if d := vwRNDDiff(a[i], b[i]); d != "" {
				return fmt.Sprintf("row %d: %s", i, d)
			}
		}
		return ""
	case "range":
		a, b := orig.(RangeNamespaceData), got.(RangeNamespaceData)
		if len(a.Shares) != len(b.Shares) {
			return fmt.Sprintf("%d rows vs %d", len(a.Shares), len(b.Shares))
		}
		for i := range a.Shares {
			if d := vwSharesDiff(a.Shares[i], b.Shares[i]); d != "" {
				return fmt.Sprintf("row %d: %s", i, d)
			}
		}
		if d := vwProofDiff(a.FirstIncompleteRowProof, b.FirstIncompleteRowProof); d != "" {
			return "first-row " + d
		}
		if d := vwProofDiff(a.LastIncompleteRowProof, b.LastIncompleteRowProof); d != "" {
			return "last-row " + d
		}
		return ""
	}
	panic("harness: unknown kind " + kind)
}

// ---------------------------------------------------------------- encode / decode per form

var vwForms = []string{"pb", "stream", "json"}

// vwEncode returns the encoding of a container in one form ("" error = form not defined for the kind).
func vwEncode(kind, form string, v any) (enc []byte, defined bool, err error) {
	switch form {
	case "pb":
		switch kind {
		case "sample":
			enc, err = v.(Sample).ToProto().Marshal()
		case "row":
			enc, err = v.(Row).ToProto().Marshal()
		case "rnd":
			enc, err = v.(RowNamespaceData).ToProto().Marshal()
		case "range":
			x := v.(RangeNamespaceData)
			enc, err = x.ToProto().Marshal()
		default:
			return nil, false, nil // NamespaceData is only ever streamed
		}
	case "stream":
		var buf bytes.Buffer
		var n int64
		switch kind {
		case "sample":
			x := v.(Sample)
			n, err = x.WriteTo(&buf)
		case "row":
			x := v.(Row)
			n, err = x.WriteTo(&buf)
		case "rnd":
			n, err = v.(RowNamespaceData).WriteTo(&buf)
		case "nd":
			n, err = v.(NamespaceData).WriteTo(&buf)
		case "range":
			x := v.(RangeNamespaceData)
			n, err = x.WriteTo(&buf)
		}
		if err == nil && int(n) != buf.Len() {
			err = fmt.Errorf("WriteTo reports %d bytes, wrote %d", n, buf.Len())
		}
		enc = buf.Bytes()
	case "json":
		enc, err = json.Marshal(v)
	}
	return enc, true, err
}

// vwDecoded is what a container decoder accepted.
type vwDecoded struct {
	val    any
	shares []libshare.Share // every share of the value
	guess  string           // non-empty: the decoder replaced an out-of-range field by a guess
	note   string
	n      int64
	rest   int
}

// vwDecode feeds in to the decoder of (kind, form).
func vwDecode(kind, form string, in []byte) (d vwDecoded, err error) {
	switch form {
	case "pb":
		switch kind {
		case "sample":
			var m pb.Sample
			if err = m.Unmarshal(in); err != nil {
				return d, err
			}
			var s Sample
			if s, err = SampleFromProto(&m); err != nil {
				return d, err
			}
			if s.ProofType != rsmt2d.Axis(m.ProofType) {
				d.guess = fmt.Sprintf("proof_type %d on the wire became %d", m.ProofType, s.ProofType)
			}
			d.val, d.shares = s, []libshare.Share{s.Share}
		case "row":
			var m pb.Row
			if err = m.Unmarshal(in); err != nil {
				return d, err
			}
			var r Row
			if r, err = RowFromProto(&m); err != nil {
				return d, err
			}
			if m.HalfSide != pb.Row_LEFT && m.HalfSide != pb.Row_RIGHT {
				d.guess = fmt.Sprintf("half_side %d on the wire (only 0 and 1 exist) became side %d", m.HalfSide, r.side)
			}
			d.val, d.shares = r, r.shares
		case "rnd":
			var m pb.RowNamespaceData
			if err = m.Unmarshal(in); err != nil {
				return d, err
			}
			var r RowNamespaceData
			if r, err = RowNamespaceDataFromProto(&m); err != nil {
				return d, err
			}
			d.val, d.shares = r, r.Shares
		case "range":
			var m pb.RangeNamespaceData
			if err = m.Unmarshal(in); err != nil {
				return d, err
			}
			var r RangeNamespaceData
			if r, err = RangeNamespaceDataFromProto(&m); err != nil {
				return d, err
			}
			d.val, d.shares = r, r.Flatten()
		default:
			panic("harness: no pb decoder for " + kind)
		}
	case "stream":
		rd := bytes.NewReader(in)
		switch kind {
		case "sample":
			var s Sample
			if d.n, err = s.ReadFrom(rd); err != nil {
				return d, err
			}
			d.val, d.shares = s, []libshare.Share{s.Share}
		case "row":
			var r Row
			if d.n, err = r.ReadFrom(rd); err != nil {
				return d, err
			}
			d.val, d.shares = r, r.shares
			// inspect the frame the decoder consumed for an out-of-range enum
			if l, k := binary.Uvarint(in); k > 0 && int(l) <= len(in)-k {
				var m pb.Row
				if m.Unmarshal(in[k:k+int(l)]) == nil && m.HalfSide != pb.Row_LEFT && m.HalfSide != pb.Row_RIGHT {
					d.guess = fmt.Sprintf("half_side %d on the wire (only 0 and 1 exist) became side %d", m.HalfSide, r.side)
				}
			}
		case "rnd":
			var r RowNamespaceData
			if d.n, err = r.ReadFrom(rd); err != nil {
				return d, err
			}
			d.val, d.shares = r, r.Shares
		case "nd":
			var r NamespaceData
			if d.n, err = r.ReadFrom(rd); err != nil {
				return d, err
			}
			d.val, d.shares = r, r.Flatten()
		case "range":
			var r RangeNamespaceData
			if d.n, err = r.ReadFrom(rd); err != nil {
				return d, err
			}
			d.val, d.shares = r, r.Flatten()
		}
		d.rest = rd.Len()
	case "json":
		switch kind {
		case "sample":
			var s Sample
			if err = json.Unmarshal(in, &s); err != nil {
				return d, err
			}
			d.val = s
			if len(s.Share.ToBytes()) == 0 {
				d.note = "share-absent" // a missing field, not a wrong-length one
			} else {
				d.shares = []libshare.Share{s.Share}
			}
		case "row":
			var r Row
			if err = json.Unmarshal(in, &r); err != nil {
				return d, err
			}
			d.val, d.shares = r, r.shares
		case "rnd":
			var r RowNamespaceData
			if err = json.Unmarshal(in, &r); err != nil {
				return d, err
			}
			d.val, d.shares = r, r.Shares
		case "nd":
			var r NamespaceData
			if err = json.Unmarshal(in, &r); err != nil {
				return d, err
			}
			d.val, d.shares = r, r.Flatten()
		case "range":
			var r RangeNamespaceData
			if err = json.Unmarshal(in, &r); err != nil {
				return d, err
			}
			d.val, d.shares = r, r.Flatten()
		case "sampleid":
			var s SampleID
			if err = json.Unmarshal(in, &s); err != nil {
				return d, err
			}
			d.val = s
		case "samplecoords":
			var s SampleCoords
			if err = json.Unmarshal(in, &s); err != nil {
				return d, err
			}
			d.val = s
		}
	}
	return d, nil
}

func vwDecoderName(kind, form string) string {
	names := map[string]string{"sample": "Sample", "row": "Row", "rnd": "RowNamespaceData", "nd": "NamespaceData",
		"range": "RangeNamespaceData", "sampleid": "SampleID", "samplecoords": "SampleCoords"}
	switch form {
	case "pb":
		return names[kind] + "FromProto"
	case "stream":
		return names[kind] + ".ReadFrom"
	}
	return names[kind] + ".UnmarshalJSON"
}

// vwCheckContainer executes one op=container case: the three-form round trip of a generated container.
func vwCheckContainer(c *vwCont, form string, acc *vwAcc) (enc []byte) {
	acc.evals++
	var defined bool
	var err error
	if p := vwGuard(func() { enc, defined, err = vwEncode(c.kind, form, c.val) }); p != "" {
		acc.viol("C18/panic/encode/"+c.kind+"."+form, "encoder panics on a container built by the package's own constructor: "+p, c.mkCase(form))
		return nil
	}
	if !defined {
		acc.evals--
		return nil
	}
	acc.trans++
	acc.states++
	acc.nontriv++
	if err != nil {
		acc.viol("C18/roundtrip/"+c.kind+"."+form, "encoder refuses a container built by the package's own constructor: "+err.Error(), c.mkCase(form))
		return nil
	}
	var d vwDecoded
	if p := vwGuard(func() { d, err = vwDecode(c.kind, form, enc) }); p != "" {
		acc.viol("C18/panic/"+vwDecoderName(c.kind, form), "decoder panics on the encoder's own output: "+p, c.mkCase(form))
		return enc
	}
	acc.trans++
	if err != nil {
		acc.viol("C18/roundtrip/"+c.kind+"."+form, "decoder refuses the encoder's own output: "+err.Error(), c.mkCase(form))
		return enc
	}
	semantic := c.kind == "row" && c.val.(Row).side == Both && form != "json"
	if diff := vwContDiff(c.kind, c.val, d.val, semantic); diff != "" {
		acc.viol("C18/roundtrip/"+c.kind+"."+form, fmt.Sprintf("decode(encode(x)) != x: %s", diff), c.mkCase(form))
		return enc
	}
	if form == "stream" && (d.rest != 0 || int(d.n) != len(enc)) {
		acc.viol("C18/stream-count/"+c.kind, fmt.Sprintf("ReadFrom consumed %d (reports %d) of %d bytes", len(enc)-d.rest, d.n, len(enc)), c.mkCase(form))
	}
	// positive control: what came back is still the committed data
	var verr error
	if p := vwGuard(func() { verr = c.verify(d.val) }); p != "" || verr != nil {
		acc.viol("C18/roundtrip/"+c.kind+"."+form, fmt.Sprintf("decoded container no longer verifies against the square's roots: %v %s", verr, p), c.mkCase(form))
		return enc
	}
	acc.trans++
	acc.o("container/" + c.kind + "/" + form + "/roundtrip-ok")
	return enc
}
