package shwap

// C18 harness, part 3: enumerators for the identifier cases (work units).

import (
	"bytes"
	"encoding/binary"
	"fmt"
	"math"

	libshare "github.com/celestiaorg/go-square/v4/share"
)

type vwNsEntry struct {
	name   string
	b      []byte
	ctor   bool // a libshare.Namespace value with these bytes can be constructed
	usable bool // ValidateForData accepts it
}

func vwNsAlphabet() []vwNsEntry {
	user := libshare.MustNewV0Namespace([]byte{0x01, 0x10})
	userMax := libshare.MustNewV0Namespace(bytes.Repeat([]byte{0xff}, libshare.NamespaceVersionZeroIDSize))
	raw := func(version byte, fill byte, last byte) []byte {
		b := make([]byte, libshare.NamespaceSize)
		b[0] = version
		for i := 1; i < len(b); i++ {
			b[i] = fill
		}
		b[len(b)-1] = last
		return b
	}
	badPrefix := make([]byte, libshare.NamespaceSize)
	badPrefix[1] = 0x01 // version 0 with a non-zero byte inside the mandatory zero prefix
	badPrefix[libshare.NamespaceSize-1] = 0x07
	return []vwNsEntry{
		{"user", user.Bytes(), true, true},
		{"user-max", userMax.Bytes(), true, true},
		{"tx", libshare.TxNamespace.Bytes(), true, true},
		{"pfb", libshare.PayForBlobNamespace.Bytes(), true, true},
		{"primary-padding", libshare.PrimaryReservedPaddingNamespace.Bytes(), true, true},
		{"min-secondary", libshare.MinSecondaryReservedNamespace.Bytes(), true, true},
		{"tail-padding", libshare.TailPaddingNamespace.Bytes(), true, false},
		{"parity", libshare.ParitySharesNamespace.Bytes(), true, false},
		{"zero", raw(0, 0, 0), true, true},
		{"version-1", raw(1, 0, 9), false, false},
		{"version-254", raw(254, 0xff, 0xff), false, false},
		{"v0-bad-prefix", badPrefix, false, false},
		{"v255-other-id", raw(255, 0x11, 0x22), true, true},
	}
}

var vwHeightsAll = []uint64{0, 1, 2, 1 << 32, math.MaxUint64}

func vwBigInts() []int {
	return []int{32767, 32768, 65534, 65535, 65536, 65537, 131071, 131072, 262143, 262144, 262145,
		math.MaxInt32 - 1, math.MaxInt32, math.MaxInt32 + 1, math.MaxUint32 - 1, math.MaxUint32, math.MaxUint32 + 1,
		math.MaxUint32 + 65537, math.MaxInt64 - 1, math.MaxInt64, math.MinInt64, -65536, -2, -1}
}

func vwDedupInts(xs []int) []int {
	seen := map[int]bool{}
	out := xs[:0:0]
	for _, x := range xs {
		if !seen[x] {
			seen[x] = true
			out = append(out, x)
		}
	}
	return out
}

type vwIDBounds struct {
	sweepHeights []uint64
	edsSizes     []int // sizes for row / sample / row-namespace identifiers (full index sweep)
	edsSizesLite []int // further sizes, swept only over -2..1100 and the boundary values
	odsSizes     []int // sizes for range identifiers (every from and every to value)
	sweepMax     int   // index sweep covers -2..sweepMax
	quick        bool
}

func vwBoundsFor(tier string) vwIDBounds {
	b := vwIDBounds{sweepMax: 65538}
	for s := 2; s <= 1024; s *= 2 {
		b.edsSizes = append(b.edsSizes, s)
	}
	b.edsSizes = append(b.edsSizes, 0)
	for s := 1; s <= 512; s *= 2 {
		b.odsSizes = append(b.odsSizes, s)
	}
	b.odsSizes = append(b.odsSizes, 0, 3, 100)
	b.sweepHeights = []uint64{1}
	b.quick = tier != "thorough"
	if tier == "thorough" {
		b.sweepHeights = vwHeightsAll
		for s := 6; s <= 1024; s += 2 {
			if s&(s-1) != 0 {
				b.edsSizesLite = append(b.edsSizesLite, s)
			}
		}
		b.edsSizesLite = append(b.edsSizesLite, 1, 3, 1023, 1025, 1026, 2048, 65536)
		for s := 5; s <= 64; s++ {
			if s&(s-1) != 0 {
				b.odsSizes = append(b.odsSizes, s)
			}
		}
		b.odsSizes = append(b.odsSizes, 127, 129, 255, 257, 300, 511)
	}
	return b
}

func (r *vwRun) idUnits(tier string) []vwUnit {
	b := vwBoundsFor(tier)
	nsA := vwNsAlphabet()
	var ctorNs []vwNsEntry
	for _, e := range nsA {
		if e.ctor {
			ctorNs = append(ctorNs, e)
		}
	}
	var units []vwUnit
	add := func(name string, f func(acc *vwAcc)) { units = append(units, vwUnit{name, f}) }

	// ---- EdsID and NamespaceDataID: no index, no size
	add("id/EdsID", func(acc *vwAcc) {
		k := vwKind("EdsID")
		hs := []uint64{math.MaxUint32 - 1, math.MaxUint32, 1 << 32, 1<<32 + 1, 1 << 63, math.MaxUint64 - 1, math.MaxUint64}
		for h := uint64(0); h <= 70000; h++ {
			hs = append(hs, h)
		}
		for _, h := range hs {
			vwCheckID(k, vwFields{H: h}, 0, true, acc)
		}
		acc.s("id_bounds", "EdsID_heights", int64(len(hs)))
	})
	add("id/NamespaceDataID", func(acc *vwAcc) {
		k := vwKind("NamespaceDataID")
		hs := append([]uint64{3, 255, 256, 65535, 65536, 1<<32 - 1, 1 << 63}, vwHeightsAll...)
		for _, h := range hs {
			for _, ns := range ctorNs {
				vwCheckID(k, vwFields{H: h, Ns: ns.b}, 0, ns.usable, acc)
			}
		}
	})

	idxSweep := func(size int, lite bool) []int {
		var xs []int
		top := b.sweepMax
		if lite {
			top = 1100
		}
		for i := -2; i <= top; i++ {
			xs = append(xs, i)
		}
		xs = append(xs, vwBigInts()...)
		xs = append(xs, size-1, size, size+1, size*size-1, size*size)
		return vwDedupInts(xs)
	}
	bset := func(size int) []int {
		return vwDedupInts([]int{0, 1, size / 2, size - 1, size, -1, 65535, 65536, 65536 + size/2})
	}
	// the values the other coordinate takes while one coordinate is swept
	sweepOthers := func(size int) []int {
		if b.quick {
			return vwDedupInts([]int{0, size - 1, size})
		}
		return bset(size)
	}

	type szl struct {
		s    int
		lite bool
	}
	var sizes []szl
	for _, s := range b.edsSizes {
		sizes = append(sizes, szl{s, false})
	}
	for _, s := range b.edsSizesLite {
		sizes = append(sizes, szl{s, true})
	}
	for _, sz := range sizes {
		size, lite := sz.s, sz.lite
		add(fmt.Sprintf("id/RowID/size=%d", size), func(acc *vwAcc) {
			k := vwKind("RowID")
			xs := idxSweep(size, lite)
			for _, h := range b.sweepHeights {
				for _, a := range xs {
					vwCheckID(k, vwFields{H: h, A: a}, size, true, acc)
				}
				if r.expired() {
					return
				}
			}
			for _, h := range vwHeightsAll {
				for _, a := range bset(size) {
					vwCheckID(k, vwFields{H: h, A: a}, size, true, acc)
				}
			}
			acc.s("id_bounds", "RowID_sizes_done", 1)
		})
		add(fmt.Sprintf("id/SampleID/size=%d", size), func(acc *vwAcc) {
			k := vwKind("SampleID")
			xs := idxSweep(size, lite)
			bs := bset(size)
			for _, h := range b.sweepHeights {
				for _, o := range sweepOthers(size) {
					for _, a := range xs {
						vwCheckID(k, vwFields{H: h, A: a, B: o}, size, true, acc)
						vwCheckID(k, vwFields{H: h, A: o, B: a}, size, true, acc)
					}
					if r.expired() {
						return
					}
				}
			}
			for _, h := range vwHeightsAll {
				for _, a := range bs {
					for _, c := range bs {
						vwCheckID(k, vwFields{H: h, A: a, B: c}, size, true, acc)
					}
				}
			}
			// every position of the squares up to 64 wide (both coordinates together)
			if size > 0 && size <= 64 {
				for a := -1; a <= size; a++ {
					for c := -1; c <= size; c++ {
						vwCheckID(k, vwFields{H: 7, A: a, B: c}, size, true, acc)
					}
				}
			}
			acc.s("id_bounds", "SampleID_sizes_done", 1)
		})
		add(fmt.Sprintf("id/RowNamespaceDataID/size=%d", size), func(acc *vwAcc) {
			k := vwKind("RowNamespaceDataID")
			xs := idxSweep(size, lite)
			for _, h := range b.sweepHeights {
				for _, ns := range []vwNsEntry{ctorNs[0], ctorNs[len(ctorNs)-1]} {
					for _, a := range xs {
						vwCheckID(k, vwFields{H: h, A: a, Ns: ns.b}, size, ns.usable, acc)
					}
					if r.expired() {
						return
					}
				}
			}
			for _, h := range vwHeightsAll {
				for _, ns := range ctorNs {
					for _, a := range bset(size) {
						vwCheckID(k, vwFields{H: h, A: a, Ns: ns.b}, size, ns.usable, acc)
					}
				}
			}
			acc.s("id_bounds", "RowNamespaceDataID_sizes_done", 1)
		})
	}

	// ---- range identifiers, both encodings: every `to` and every `from` of every listed ODS width
	for _, kn := range []string{"RangeNamespaceDataID", "RangeNamespaceDataIDV0"} {
		for _, size := range b.odsSizes {
			n := size * size
			// split big sweeps into chunks so that 16 workers share them
			const chunk = 1 << 15
			for lo := -1; lo <= n+2; lo += chunk {
				hi := lo + chunk
				if hi > n+3 {
					hi = n + 3
				}
				add(fmt.Sprintf("id/%s/ods=%d/%d..%d", kn, size, lo, hi-1), func(acc *vwAcc) {
					k := vwKind(kn)
					for _, h := range b.sweepHeights {
						for x := lo; x < hi; x++ {
							// x as `to`
							froms := []int{-1, 0, 1, x / 2, x - 2, x - 1, x}
							tos := []int{x, x + 1, (x + n) / 2, n - 1, n, n + 1}
							if b.quick {
								froms, tos = []int{0, x / 2, x - 1, x}, []int{x + 1, n, n + 1}
							}
							for _, from := range vwDedupInts(froms) {
								vwCheckID(k, vwFields{H: h, A: from, B: x}, size, true, acc)
							}
							// x as `from`
							for _, to := range vwDedupInts(tos) {
								vwCheckID(k, vwFields{H: h, A: x, B: to}, size, true, acc)
							}
						}
						if r.expired() {
							return
						}
					}
					acc.s("id_bounds", kn+"_from_to_values_swept", int64(hi-lo))
				})
			}
			add(fmt.Sprintf("id/%s/ods=%d/boundary", kn, size), func(acc *vwAcc) {
				k := vwKind(kn)
				bs := vwDedupInts(append(vwBigInts(), 0, 1, 2, n-1, n, n+1, 254, 255, 256, 257))
				for _, h := range vwHeightsAll {
					for _, a := range bs {
						for _, c := range bs {
							vwCheckID(k, vwFields{H: h, A: a, B: c}, size, true, acc)
						}
					}
					for a := 0; a <= 16; a++ {
						for c := 0; c <= 17; c++ {
							vwCheckID(k, vwFields{H: h, A: a, B: c}, size, true, acc)
						}
					}
				}
				acc.s("id_bounds", kn+"_ods_sizes_done", 1)
			})
		}
	}
	return units
}

// ---------------------------------------------------------------- decoder inputs

// vwIDLayout describes where the harness puts field values when it builds decoder inputs. It is only a
// generator of byte strings: any byte string is a legitimate input, the oracle does not depend on it.
type vwIDLayout struct {
	f16 []int // offsets of 16-bit fields
	f32 []int // offsets of 32-bit fields
	ns  int   // offset of a namespace field, -1 if none
}

var vwLayouts = map[string]vwIDLayout{
	"EdsID":                  {ns: -1},
	"RowID":                  {f16: []int{8}, ns: -1},
	"SampleID":               {f16: []int{8, 10}, ns: -1},
	"NamespaceDataID":        {ns: 8},
	"RowNamespaceDataID":     {f16: []int{8}, ns: 10},
	"RangeNamespaceDataID":   {f32: []int{8, 12}, ns: -1},
	"RangeNamespaceDataIDV0": {f16: []int{8, 10}, ns: -1},
}

func (r *vwRun) idBytesUnits(tier string) []vwUnit {
	nsA := vwNsAlphabet()
	var units []vwUnit
	b16 := []uint16{0, 1, 2, 0x00ff, 0x0100, 0x03ff, 0x0400, 0x7fff, 0x8000, 0xfffe, 0xffff}
	b32 := []uint32{0, 1, 2, 0xffff, 0x10000, 0x10001, 0x3ffff, 0x40000, 0x40001, 0x7fffffff, 0x80000000, 0xfffffffe, 0xffffffff}
	// the values the other field takes while one field is swept, and the heights of the sweeps
	o16, o32, sweepH := b16, b32, vwHeightsAll
	if tier != "thorough" {
		o16 = []uint16{0, 1, 0x0400, 0xffff}
		o32 = []uint32{0, 1, 0x40000, 0xffffffff}
		sweepH = []uint64{0, 1, math.MaxUint64}
	}
	for _, k := range vwIDKinds {
		k := k
		lay := vwLayouts[k.name]
		for _, mode := range []string{"bin", "stream"} {
			mode := mode
			base := func(h uint64) []byte {
				in := make([]byte, k.size)
				binary.BigEndian.PutUint64(in, h)
				if lay.ns >= 0 {
					copy(in[lay.ns:], nsA[0].b)
				}
				return in
			}
			// field sweeps
			units = append(units, vwUnit{fmt.Sprintf("idbytes/%s/%s/fields", k.name, mode), func(acc *vwAcc) {
				for _, h := range sweepH {
					// every value of every 16-bit field, the other fields at their boundary values
					for fi, off := range lay.f16 {
						var others []uint16
						if len(lay.f16) > 1 {
							others = o16
						} else {
							others = []uint16{0}
						}
						for _, o := range others {
							for x := 0; x <= 0xffff; x++ {
								in := base(h)
								binary.BigEndian.PutUint16(in[off:], uint16(x))
								if len(lay.f16) > 1 {
									binary.BigEndian.PutUint16(in[lay.f16[1-fi]:], o)
								}
								vwCheckIDBytes(k, mode, in, acc)
							}
							if r.expired() {
								return
							}
						}
					}
					for fi, off := range lay.f32 {
						for _, o := range o32 {
							xs := make([]uint32, 0, 70000)
							for x := uint32(0); x <= 65538; x++ {
								xs = append(xs, x)
							}
							xs = append(xs, b32...)
							for _, x := range xs {
								in := base(h)
								binary.BigEndian.PutUint32(in[off:], x)
								binary.BigEndian.PutUint32(in[lay.f32[1-fi]:], o)
								vwCheckIDBytes(k, mode, in, acc)
							}
							if r.expired() {
								return
							}
						}
					}
					// namespace alphabet (with every boundary value of the index field, if any)
					if lay.ns >= 0 {
						for _, ns := range nsA {
							idx := []uint16{0}
							if len(lay.f16) > 0 {
								idx = b16
							}
							for _, x := range idx {
								in := base(h)
								copy(in[lay.ns:], ns.b)
								if len(lay.f16) > 0 {
									binary.BigEndian.PutUint16(in[lay.f16[0]:], x)
								}
								vwCheckIDBytes(k, mode, in, acc)
							}
						}
						// every single-byte change of the namespace field
						for p := 0; p < libshare.NamespaceSize; p++ {
							for _, v := range []byte{0x00, 0x01, 0x7f, 0x80, 0xfe, 0xff} {
								in := base(h)
								in[lay.ns+p] = v
								vwCheckIDBytes(k, mode, in, acc)
							}
						}
					}
					if len(lay.f16) == 0 && len(lay.f32) == 0 && lay.ns < 0 {
						vwCheckIDBytes(k, mode, base(h), acc)
					}
				}
				// all heights below 2^16 and every single-byte height
				for h := uint64(0); h < 1<<16; h++ {
					in := base(h)
					if len(lay.f16) > 0 {
						binary.BigEndian.PutUint16(in[lay.f16[0]:], 1)
					}
					if len(lay.f32) > 0 {
						binary.BigEndian.PutUint32(in[lay.f32[1]:], 5)
					}
					if len(lay.f16) > 1 && k.rng {
						binary.BigEndian.PutUint16(in[lay.f16[0]:], 1)
						binary.BigEndian.PutUint16(in[lay.f16[1]:], 5)
					}
					vwCheckIDBytes(k, mode, in, acc)
				}
				acc.s("idbytes_bounds", k.name+"/"+mode+"/field-sweep-done", 1)
			}})
			// lengths
			units = append(units, vwUnit{fmt.Sprintf("idbytes/%s/%s/lengths", k.name, mode), func(acc *vwAcc) {
				valid := base(9)
				if len(lay.f16) > 1 || len(lay.f32) > 1 { // ranges need from < to
					if len(lay.f16) > 1 {
						binary.BigEndian.PutUint16(in16(valid, lay.f16[1]), 3)
					} else {
						binary.BigEndian.PutUint32(valid[lay.f32[1]:], 3)
					}
				}
				for l := 0; l < k.size; l++ {
					vwCheckIDBytes(k, mode, append([]byte(nil), valid[:l]...), acc)
				}
				for extra := 1; extra <= 3; extra++ {
					for _, fill := range []byte{0x00, 0x01, 0xff} {
						in := append(append([]byte(nil), valid...), bytes.Repeat([]byte{fill}, extra)...)
						vwCheckIDBytes(k, mode, in, acc)
					}
				}
				vwCheckIDBytes(k, mode, valid, acc)
				acc.s("idbytes_bounds", k.name+"/"+mode+"/lengths-0.."+fmt.Sprint(k.size+3), 1)
			}})
			// all short byte strings
			maxLen := 2
			if tier == "thorough" {
				maxLen = 3
			}
			units = append(units, vwUnit{fmt.Sprintf("idbytes/%s/%s/all-strings<=%d", k.name, mode, maxLen), func(acc *vwAcc) {
				vwAllStrings(maxLen, func(s []byte) bool {
					vwCheckIDBytes(k, mode, s, acc)
					return true
				}, r)
				if !r.capped.Load() {
					acc.s("idbytes_bounds", fmt.Sprintf("%s/%s/all-strings<=%d", k.name, mode, maxLen), 1)
				}
			}})
		}
	}
	return units
}

func in16(b []byte, off int) []byte { return b[off:] }

// vwAllStrings yields every byte string of length 0..maxLen (a fresh slice each time).
func vwAllStrings(maxLen int, yield func([]byte) bool, r *vwRun) {
	yield([]byte{})
	for l := 1; l <= maxLen; l++ {
		total := 1 << (8 * l)
		for x := 0; x < total; x++ {
			s := make([]byte, l)
			for i := 0; i < l; i++ {
				s[i] = byte(x >> (8 * (l - 1 - i)))
			}
			if !yield(s) {
				return
			}
			if x&0xfff == 0 && r != nil && r.expired() {
				return
			}
		}
	}
}
