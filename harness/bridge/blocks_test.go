package core

// C15 harness, part 1: deterministic consensus blocks.
//
// A block is generated from an explicit content description (sizes of ordinary transactions,
// blob transactions with namespaces and blob sizes, application version, time class). The data
// hash of a *consistent* block is the hash of the data availability header of the square that a
// consensus node builds from exactly these transactions (go-square Construct + rsmt2d, the
// trusted base). The header is signed by a fixed three-validator set, so that the extended
// header the listener publishes can be put through the same header.Validate() the gossip
// network applies.

import (
	"bytes"
	"fmt"
	"sort"
	"strings"
	"time"

	"github.com/cometbft/cometbft/crypto/ed25519"
	"github.com/cometbft/cometbft/crypto/tmhash"
	tmproto "github.com/cometbft/cometbft/proto/tendermint/types"
	"github.com/cometbft/cometbft/proto/tendermint/version"
	"github.com/cometbft/cometbft/types"

	"github.com/celestiaorg/celestia-app/v9/pkg/appconsts"
	"github.com/celestiaorg/celestia-app/v9/pkg/da"
	"github.com/celestiaorg/celestia-app/v9/pkg/wrapper"
	squarev4 "github.com/celestiaorg/go-square/v4"
	libshare "github.com/celestiaorg/go-square/v4/share"
	squaretx "github.com/celestiaorg/go-square/v4/tx"
	"github.com/celestiaorg/rsmt2d"

	"github.com/celestiaorg/celestia-node/header"
	"github.com/celestiaorg/celestia-node/share"
	"github.com/celestiaorg/celestia-node/share/availability"
	"github.com/celestiaorg/celestia-node/verifx/sq"
)

const vChain = "private"

// vEpoch is the instant at which the fake clock of every testing/synctest bubble starts
// (asserted by the warm-up run). Block times are fixed relative to it, so blocks are generated
// once, outside any bubble, and shared read-only by all instances.
var vEpoch = time.Date(2000, 1, 1, 0, 0, 0, 0, time.UTC)

// vWindow is the window both ingest paths use (core.defaultParams and full.NewShareAvailability).
const vWindow = availability.StorageWindow

// time classes of a block
const (
	tcIn   = "in"   // one hour old at bubble start: inside the window for the whole history
	tcOut  = "out"  // window + 24h old: outside the window for the whole history
	tcEdge = "edge" // window - 5s old: inside at bubble start, outside once 5 fake seconds passed
)

func vBlockTime(tc string) time.Time {
	switch tc {
	case tcOut:
		return vEpoch.Add(-vWindow - 24*time.Hour)
	case tcEdge:
		return vEpoch.Add(-vWindow + 5*time.Second)
	default:
		return vEpoch.Add(-time.Hour)
	}
}

// ---------------------------------------------------------------- content

type vBlobSpec struct {
	NS   byte `json:"ns"`   // last byte of a version-0 namespace id
	Size int  `json:"size"` // blob size in bytes
}

// vContent describes the transactions of a block.
type vContent struct {
	Normal []int         `json:"normal,omitempty"` // sizes of ordinary transactions
	Blobs  [][]vBlobSpec `json:"blobs,omitempty"`  // one entry per blob transaction
}

func (c vContent) String() string {
	var sb strings.Builder
	sb.WriteString("tx[")
	for i, n := range c.Normal {
		if i > 0 {
			sb.WriteByte(',')
		}
		fmt.Fprintf(&sb, "%d", n)
	}
	sb.WriteString("]blob[")
	for i, b := range c.Blobs {
		if i > 0 {
			sb.WriteByte(';')
		}
		for j, x := range b {
			if j > 0 {
				sb.WriteByte('+')
			}
			fmt.Fprintf(&sb, "%02x:%d", x.NS, x.Size)
		}
	}
	sb.WriteString("]")
	return sb.String()
}

func (c vContent) isEmpty() bool { return len(c.Normal) == 0 && len(c.Blobs) == 0 }

// vFill produces payload bytes that name their owner (seed) and position.
func vFill(n int, seed int) []byte {
	b := make([]byte, n)
	for i := range b {
		b[i] = byte(0x80 | ((i*7 + seed*13 + 5) & 0x7f))
	}
	return b
}

// txs renders the transactions. salt makes the bytes of different heights differ, as real
// transactions do (signatures, sequence numbers), so two heights never share a data hash unless
// both are empty.
func (c vContent) txs(salt int) ([][]byte, error) {
	var out [][]byte
	for i, n := range c.Normal {
		// first byte 0xFF: never decodes as a protobuf BlobTx / fibre transaction
		t := append([]byte{0xFF, byte(salt), byte(i)}, vFill(n, salt*31+i)...)
		out = append(out, t[:max(n, 3)])
	}
	for i, bs := range c.Blobs {
		var blobs []*libshare.Blob
		for j, b := range bs {
			ns, err := libshare.NewV0Namespace([]byte{0xC1, 0x50, b.NS})
			if err != nil {
				return nil, err
			}
			bl, err := libshare.NewV0Blob(ns, vFill(b.Size, salt*131+i*17+j+1))
			if err != nil {
				return nil, err
			}
			blobs = append(blobs, bl)
		}
		inner := append([]byte{0xFF, 0x50, byte(salt), byte(i)}, vFill(40, salt*7+i)...)
		raw, err := squaretx.MarshalBlobTx(inner, blobs...)
		if err != nil {
			return nil, err
		}
		out = append(out, raw)
	}
	return out, nil
}

// ---------------------------------------------------------------- validators

var (
	vValSet *types.ValidatorSet
	vPrivs  map[string]ed25519.PrivKey // by validator address
)

func vInitValidators() {
	if vValSet != nil {
		return
	}
	vPrivs = map[string]ed25519.PrivKey{}
	var vals []*types.Validator
	for i := 0; i < 3; i++ {
		pk := ed25519.GenPrivKeyFromSecret([]byte(fmt.Sprintf("verif-c15-validator-%d", i)))
		v := types.NewValidator(pk.PubKey(), 10)
		vals = append(vals, v)
		vPrivs[string(v.Address)] = pk
	}
	vValSet = types.NewValidatorSet(vals)
}

func vDet32(tag string, h int64) []byte { return tmhash.Sum([]byte(fmt.Sprintf("%s-%d", tag, h))) }

func vCommit(h *types.Header) (*types.Commit, error) {
	bid := types.BlockID{Hash: h.Hash(), PartSetHeader: types.PartSetHeader{Total: 1, Hash: vDet32("parts", h.Height)}}
	sigs := make([]tmproto.CommitSig, len(vValSet.Validators))
	for i, val := range vValSet.Validators {
		v := &types.Vote{
			ValidatorAddress: val.Address,
			ValidatorIndex:   int32(i),
			Height:           h.Height,
			Round:            0,
			Timestamp:        h.Time,
			Type:             tmproto.PrecommitType,
			BlockID:          bid,
		}
		sg, err := vPrivs[string(val.Address)].Sign(types.VoteSignBytes(h.ChainID, v.ToProto()))
		if err != nil {
			return nil, err
		}
		v.Signature = sg
		cs := v.CommitSig()
		sigs[i] = tmproto.CommitSig{
			BlockIdFlag:      tmproto.BlockIDFlag(cs.BlockIDFlag),
			ValidatorAddress: cs.ValidatorAddress,
			Timestamp:        cs.Timestamp,
			Signature:        cs.Signature,
		}
	}
	return types.CommitFromProto(&tmproto.Commit{Height: h.Height, Round: 0, BlockID: bid.ToProto(), Signatures: sigs})
}

// ---------------------------------------------------------------- blocks

type vBlockSpec struct {
	Height  int64    `json:"height"`
	TC      string   `json:"time"`
	Content vContent `json:"content"`
	AppV    uint64   `json:"app_version,omitempty"` // 0 = current
	// Inconsistent: the header's data hash does not commit to the transactions (a block no
	// honest consensus node produces). Only "stored square == published header" is demanded.
	Inconsistent bool `json:"inconsistent,omitempty"`
	// Unbuildable: an ordinary transaction follows a blob transaction, so no square can be built
	// from the block (extending the block data fails): every ingest of it is a failed ingest.
	Unbuildable bool `json:"unbuildable,omitempty"`
	// Layout (instead of Content): the square is the sq layout of that name; there is no
	// consensus block for it, only the extended header the availability path is given.
	Layout string `json:"layout,omitempty"`
	// Salt (0 = the height) selects the payload bytes: two heights with the same content or
	// layout and the same salt carry the SAME non-empty square, hence the same data hash.
	Salt int `json:"salt,omitempty"`
	// Leftover: what an earlier put of this height, cut short by a crash, left in the store
	// directory before the node starts: "nolink" = ODS (and Q4) file complete, height link missing
	// (died between file creation and linking); "trunc" = ODS file cut in half, Q4 complete;
	// "trunc0" = only the first bytes of the ODS file, no Q4 (died right after creating it).
	Leftover string `json:"leftover,omitempty"`
}

func (s vBlockSpec) salt() int {
	if s.Salt != 0 {
		return s.Salt
	}
	return int(s.Height)
}

func (s vBlockSpec) String() string {
	x := ""
	if s.Inconsistent {
		x = ",inconsistent"
	}
	if s.Unbuildable {
		x += ",unbuildable"
	}
	if s.Salt != 0 {
		x += fmt.Sprintf(",payload#%d", s.Salt)
	}
	if s.Leftover != "" {
		x += ",leftover=" + s.Leftover
	}
	if s.Layout != "" {
		return fmt.Sprintf("h%d(%s,%s%s)", s.Height, s.TC, s.Layout, x)
	}
	return fmt.Sprintf("h%d(%s,v%d,%s%s)", s.Height, s.TC, s.AppV, s.Content, x)
}

// vBlock is a generated block with its reference data.
type vBlock struct {
	spec  vBlockSpec
	h     uint64
	sb    *SignedBlock
	eds   *rsmt2d.ExtendedDataSquare // the reference square
	roots *share.AxisRoots           // its data availability header
	ods   [][]byte                   // reference ODS shares, row-major
	eh    *header.ExtendedHeader     // what the header network hands to the availability check
	empty bool
}

// vRefSquare builds the reference square the way a consensus node does.
func vRefSquare(txs [][]byte, appV uint64) (*rsmt2d.ExtendedDataSquare, error) {
	if appV >= 8 {
		sq, err := squarev4.Construct(txs, appconsts.SquareSizeUpperBound, appconsts.SubtreeRootThreshold)
		if err != nil {
			return nil, err
		}
		raw := libshare.ToBytes(sq)
		w, err := squarev4.Size(len(raw))
		if err != nil {
			return nil, err
		}
		eds, err := rsmt2d.ComputeExtendedDataSquare(raw, appconsts.DefaultCodec(), wrapper.NewConstructor(uint64(w)))
		if err != nil {
			return nil, err
		}
		// cross-check the two library routes (harness self-check, not a verdict)
		eds2, err := da.ConstructEDS(txs, appV, -1)
		if err != nil {
			return nil, err
		}
		if !eds.Equals(eds2) {
			return nil, fmt.Errorf("harness: go-square/rsmt2d and da.ConstructEDS disagree for app version %d", appV)
		}
		return eds, nil
	}
	// older application versions use older go-square releases, reachable only through celestia-app
	return da.ConstructEDS(txs, appV, -1)
}

func vMakeBlock(spec vBlockSpec) (*vBlock, error) {
	vInitValidators()
	if spec.AppV == 0 {
		spec.AppV = appconsts.Version
	}
	var (
		txs   [][]byte
		eds   *rsmt2d.ExtendedDataSquare
		roots *share.AxisRoots
		err   error
	)
	switch {
	case spec.Layout != "":
		l, err := sq.ParseLayout(spec.Layout)
		if err != nil {
			return nil, err
		}
		sqr, err := sq.Build(l, spec.salt())
		if err != nil {
			return nil, err
		}
		eds = sqr.EDS
	case spec.Unbuildable:
		if txs, err = spec.Content.txs(spec.salt()); err != nil {
			return nil, err
		}
		if len(spec.Content.Blobs) == 0 {
			return nil, fmt.Errorf("harness: unbuildable block %s needs a blob transaction", spec)
		}
		txs = append(txs, []byte{0xFF, 0xEE, byte(spec.Height), 1, 2, 3})
		if _, err := da.ConstructEDS(txs, spec.AppV, -1); err == nil {
			return nil, fmt.Errorf("harness: block %s was meant to be unbuildable", spec)
		}
	default:
		if txs, err = spec.Content.txs(spec.salt()); err != nil {
			return nil, err
		}
		if eds, err = vRefSquare(txs, spec.AppV); err != nil {
			return nil, fmt.Errorf("harness: reference square of %s: %w", spec, err)
		}
	}
	dataHash := vDet32("not-the-data-hash", spec.Height)
	if eds != nil {
		if roots, err = share.NewAxisRoots(eds); err != nil {
			return nil, err
		}
		if !spec.Inconsistent {
			dataHash = roots.Hash()
		}
	}
	rh := &types.Header{
		Version:            version.Consensus{Block: 11, App: spec.AppV},
		ChainID:            vChain,
		Height:             spec.Height,
		Time:               vBlockTime(spec.TC),
		LastBlockID:        types.BlockID{Hash: vDet32("last", spec.Height), PartSetHeader: types.PartSetHeader{Total: 1, Hash: vDet32("lastparts", spec.Height)}},
		LastCommitHash:     vDet32("lastcommit", spec.Height),
		DataHash:           dataHash,
		ValidatorsHash:     vValSet.Hash(),
		NextValidatorsHash: vValSet.Hash(),
		ConsensusHash:      vDet32("consensus", spec.Height),
		AppHash:            vDet32("app", spec.Height),
		LastResultsHash:    vDet32("results", spec.Height),
		EvidenceHash:       tmhash.Sum([]byte{}),
		ProposerAddress:    vValSet.Validators[0].Address,
	}
	commit, err := vCommit(rh)
	if err != nil {
		return nil, err
	}
	ttxs := make(types.Txs, len(txs))
	for i := range txs {
		ttxs[i] = txs[i]
	}
	_ = commit.Hash() // memoised inside the commit: fill it before the block is shared
	b := &vBlock{spec: spec, h: uint64(spec.Height), eds: eds, roots: roots}
	if spec.Layout == "" {
		b.sb = &SignedBlock{Header: rh, Commit: commit, Data: &types.Data{Txs: ttxs}, ValidatorSet: vValSet}
	}
	if eds == nil {
		return b, nil
	}
	b.empty = bytes.Equal(roots.Hash(), share.EmptyEDSRoots().Hash())
	w := int(eds.Width()) / 2
	for r := 0; r < w; r++ {
		b.ods = append(b.ods, eds.Row(uint(r))[:w]...)
	}
	rcopy := *roots
	b.eh = &header.ExtendedHeader{RawHeader: *rh, Commit: commit, ValidatorSet: vValSet, DAH: &rcopy}
	if !spec.Inconsistent {
		if err := b.eh.Validate(); err != nil {
			return nil, fmt.Errorf("harness: generated header of %s does not validate: %w", spec, err)
		}
	}
	if spec.Layout == "" && spec.Content.isEmpty() != b.empty {
		return nil, fmt.Errorf("harness: %s: empty content %v but empty square %v", spec, spec.Content.isEmpty(), b.empty)
	}
	return b, nil
}

// vContentAlphabet enumerates every content with at most maxNormal ordinary transactions (sizes
// from normalSizes, all sequences) and at most maxBlobTx blob transactions (each one of blobTxs,
// all sequences).
func vContentAlphabet(normalSizes []int, maxNormal int, blobTxs [][]vBlobSpec, maxBlobTx int) []vContent {
	var normals [][]int
	var recN func(cur []int)
	recN = func(cur []int) {
		normals = append(normals, append([]int(nil), cur...))
		if len(cur) == maxNormal {
			return
		}
		for _, s := range normalSizes {
			recN(append(cur, s))
		}
	}
	recN(nil)
	var blobs [][][]vBlobSpec
	var recB func(cur [][]vBlobSpec)
	recB = func(cur [][]vBlobSpec) {
		blobs = append(blobs, append([][]vBlobSpec(nil), cur...))
		if len(cur) == maxBlobTx {
			return
		}
		for _, b := range blobTxs {
			recB(append(cur, b))
		}
	}
	recB(nil)
	var out []vContent
	for _, n := range normals {
		for _, b := range blobs {
			out = append(out, vContent{Normal: n, Blobs: b})
		}
	}
	sort.SliceStable(out, func(i, j int) bool {
		return len(out[i].Normal)+len(out[i].Blobs) < len(out[j].Normal)+len(out[j].Blobs)
	})
	return out
}
