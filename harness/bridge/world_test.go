package core

// C15 harness, part 2: the world. One bSys is one bridge node: a real store.Store on a fresh
// directory, a real core.Listener (built with NewListener, started with Start) fed by a real
// MultiSource over fake consensus endpoints, and a real full.ShareAvailability over the same
// store with a fake getter. Every blocking collaborator call (block fetch, sync status, square
// download) returns only when the explorer picks its answer. A small reference model of what
// the property allows (which heights may / must be stored, how often a header may be published)
// is advanced from the answers the explorer gave and compared with the real node after every
// event.

import (
	"bytes"
	"context"
	"errors"
	"fmt"
	"os"
	"path/filepath"
	"sort"
	"strconv"
	"strings"
	"sync"
	"sync/atomic"
	"testing/synctest"
	"time"

	pubsub "github.com/libp2p/go-libp2p-pubsub"
	"go.opentelemetry.io/otel"
	"go.opentelemetry.io/otel/attribute"
	"go.opentelemetry.io/otel/metric"
	"go.opentelemetry.io/otel/metric/noop"

	"github.com/celestiaorg/rsmt2d"

	libshare "github.com/celestiaorg/go-square/v4/share"

	"github.com/celestiaorg/celestia-node/header"
	nodep2p "github.com/celestiaorg/celestia-node/nodebuilder/p2p"
	"github.com/celestiaorg/celestia-node/share"
	"github.com/celestiaorg/celestia-node/share/availability"
	fullavail "github.com/celestiaorg/celestia-node/share/availability/full"
	"github.com/celestiaorg/celestia-node/share/eds/byzantine"
	"github.com/celestiaorg/celestia-node/share/shwap"
	"github.com/celestiaorg/celestia-node/share/shwap/p2p/shrex/shrexsub"
	"github.com/celestiaorg/celestia-node/store"
	"github.com/celestiaorg/celestia-node/verifx/bfault"
)

// ---------------------------------------------------------------- configuration

type bCfg struct {
	Name     string       `json:"name"`
	Archival bool         `json:"archival"`
	Blocks   []vBlockSpec `json:"blocks"`
	Sources  []string     `json:"sources"`
	// Queue: how many further announcements may be made while the listener is busy with one
	Queue int `json:"queue"`
	// FetchAns / SyncAns: answers offered for a pending block fetch / sync-status query
	FetchAns []string `json:"fetch_answers"`
	SyncAns  []string `json:"sync_answers"`
	// Faults: store effects that may be made to fail (one-shot, armed by an event)
	Faults []string `json:"faults,omitempty"`
	// Pauses: store effects at which an ingest may be parked INSIDE Store.put (one-shot, armed by
	// the event fault:pause-<kind>); while it is parked every other event stays enabled, then
	// resume:ok lets the effect happen and resume:fail makes it fail
	Pauses []string `json:"pauses,omitempty"`
	// RmFaults: removals that may be made to fail once (armed in addition to a fault, so that the
	// clean-up of a failed put cannot remove what it wants to): rm-ods, rm-q4 (the hash-named
	// files), rm-link (the height link)
	RmFaults []string `json:"rm_faults,omitempty"`
	// Avail: the availability path is driven too; GetAns are the getter answers offered
	Avail  bool     `json:"avail,omitempty"`
	GetAns []string `json:"get_answers,omitempty"`
	// Stop: stop and restart (fresh store and listener over the same directory) events
	Stop bool `json:"stop,omitempty"`
	Tick bool `json:"tick,omitempty"`
	// BcastErr: both broadcasters fail every call
	BcastErr bool `json:"bcast_err,omitempty"`
}

func (c bCfg) String() string {
	var bs []string
	for _, b := range c.Blocks {
		bs = append(bs, b.String())
	}
	return fmt.Sprintf("%s{archival=%v blocks=%s sources=%v queue=%d fetch=%v sync=%v faults=%v rm=%v pauses=%v avail=%v get=%v stop=%v bcastErr=%v}",
		c.Name, c.Archival, strings.Join(bs, " "), c.Sources, c.Queue, c.FetchAns, c.SyncAns, c.Faults, c.RmFaults, c.Pauses, c.Avail, c.GetAns, c.Stop, c.BcastErr)
}

// ---------------------------------------------------------------- block cache

var vBlockCache sync.Map // spec string -> *vBlock

func vGetBlock(spec vBlockSpec) (*vBlock, error) {
	k := fmt.Sprintf("%+v", spec)
	if b, ok := vBlockCache.Load(k); ok {
		return b.(*vBlock), nil
	}
	b, err := vMakeBlock(spec)
	if err != nil {
		return nil, err
	}
	act, _ := vBlockCache.LoadOrStore(k, b)
	return act.(*vBlock), nil
}

// ---------------------------------------------------------------- listener outcome reports
//
// The listener reports the terminal outcome of every block event through its own metrics
// ("core_block_events_total", labels source and result). The harness enables the listener's
// metrics (the exported WithMetrics option) and installs a meter provider whose only real
// instrument is that counter; the source label carries the world id.

var (
	bWorlds     sync.Map // world id -> *bSys
	bWorldSeq   atomic.Int64
	bMeterOnce  sync.Once
	bFaultOnce  sync.Once
	bReportSeen atomic.Int64
)

type bProvider struct{ noop.MeterProvider }

func (bProvider) Meter(string, ...metric.MeterOption) metric.Meter { return bMeter{} }

type bMeter struct{ noop.Meter }

func (bMeter) Int64Counter(name string, _ ...metric.Int64CounterOption) (metric.Int64Counter, error) {
	if name == "core_block_events_total" {
		return bEventCounter{}, nil
	}
	return noop.Int64Counter{}, nil
}

type bEventCounter struct{ noop.Int64Counter }

func (bEventCounter) Add(_ context.Context, _ int64, opts ...metric.AddOption) {
	set := metric.NewAddConfig(opts).Attributes()
	src, _ := set.Value(attribute.Key("source"))
	res, _ := set.Value(attribute.Key("result"))
	name, id, ok := strings.Cut(src.AsString(), "#")
	if !ok {
		return
	}
	n, _ := strconv.ParseInt(id, 10, 64)
	if w, ok := bWorlds.Load(n); ok {
		bReportSeen.Add(1)
		s := w.(*bSys)
		s.mu.Lock()
		s.reports = append(s.reports, bReport{src: name, result: res.AsString()})
		s.mu.Unlock()
	}
}

func bInstallGlobals() {
	bMeterOnce.Do(func() { otel.SetMeterProvider(bProvider{}) })
	bFaultOnce.Do(func() {
		bfault.SetHook(func(op, path string) error {
			i := strings.Index(path, "/blocks/")
			if i < 0 {
				return nil
			}
			w, ok := bDirs.Load(path[:i])
			if !ok {
				return nil
			}
			return w.(*bSys).onEffect(op, path)
		})
	})
}

var bDirs sync.Map // store directory -> *bSys

// ---------------------------------------------------------------- fakes

type bAns struct {
	blk     *SignedBlock
	syncing bool
	eds     *rsmt2d.ExtendedDataSquare
	err     error
}

type bCall struct {
	kind string // fetch | sync | get
	src  string
	h    uint64
	ctx  context.Context
	ans  chan bAns
}

type bReport struct{ src, result string }

// bPause is an ingest parked inside Store.put at one store effect.
type bPause struct {
	op, path string
	actor    string // listener | avail
	ch       chan error
}

type bAnn struct {
	H   uint64
	Src string
}

// bSource is one consensus endpoint (a blockSource leaf of the MultiSource).
type bSource struct {
	w    *bSys
	name string
	sub  chan BlockEvent
}

func (s *bSource) SubscribeNewBlockEvent(context.Context) (chan BlockEvent, error) {
	return s.sub, nil
}

func (s *bSource) GetSignedBlock(ctx context.Context, height int64) (*SignedBlock, error) {
	a := s.w.call(&bCall{kind: "fetch", src: s.name, h: uint64(height), ctx: ctx})
	return a.blk, a.err
}

func (s *bSource) ChainID(context.Context) (string, error) { return vChain, nil }

func (s *bSource) IsSyncing(ctx context.Context) (bool, error) {
	a := s.w.call(&bCall{kind: "sync", src: s.name, ctx: ctx})
	return a.syncing, a.err
}

// call parks a collaborator call until the explorer answers it. A call that starts with an
// already finished context fails at once, as a gRPC client does.
func (s *bSys) call(c *bCall) bAns {
	if err := c.ctx.Err(); err != nil {
		return bAns{err: err}
	}
	c.ans = make(chan bAns)
	s.mu.Lock()
	if c.kind == "get" {
		if s.gcall != nil {
			s.noteLocked("harness: two getter calls pending")
		}
		s.gcall = c
	} else {
		if s.lcall != nil {
			s.noteLocked("harness: two listener-side calls pending (%s for %d while %s pending)", c.kind, c.h, s.lcall.kind)
		}
		s.lcall = c
	}
	s.mu.Unlock()
	return <-c.ans
}

// header broadcaster
type bHeaderBcast struct{ w *bSys }

func (b bHeaderBcast) Broadcast(ctx context.Context, eh *header.ExtendedHeader, _ ...pubsub.PubOpt) error {
	b.w.onPublish(ctx, eh)
	if b.w.cfg.BcastErr {
		return errors.New("verif: header-sub is down")
	}
	return nil
}

// getter of the availability path
type bGetter struct{ w *bSys }

func (g bGetter) GetEDS(ctx context.Context, h *header.ExtendedHeader) (*rsmt2d.ExtendedDataSquare, error) {
	a := g.w.call(&bCall{kind: "get", h: h.Height(), ctx: ctx})
	return a.eds, a.err
}

func (bGetter) GetSamples(context.Context, *header.ExtendedHeader, []shwap.SampleCoords) ([]shwap.Sample, error) {
	return nil, errors.New("verif: unexpected GetSamples")
}

func (bGetter) GetRow(context.Context, *header.ExtendedHeader, int) (shwap.Row, error) {
	return shwap.Row{}, errors.New("verif: unexpected GetRow")
}

func (bGetter) GetNamespaceData(context.Context, *header.ExtendedHeader, libshare.Namespace) (shwap.NamespaceData, error) {
	return nil, errors.New("verif: unexpected GetNamespaceData")
}

func (bGetter) GetRangeNamespaceData(context.Context, *header.ExtendedHeader, int, int) (shwap.RangeNamespaceData, error) {
	return shwap.RangeNamespaceData{}, errors.New("verif: unexpected GetRangeNamespaceData")
}

// ---------------------------------------------------------------- the system

const (
	bRunning = iota
	bStopping
	bStopped
)

// listener time-out for an idle subscription = 5 * block time; large, so it only ever fires
// through the explicit tick event
const bBlockTime = time.Hour

type bSys struct {
	cfg    bCfg
	id     int64
	blocks map[uint64]*vBlock
	hs     []uint64
	dir    string

	st   *store.Store
	cl   *Listener
	fa   *fullavail.ShareAvailability
	srcs map[string]*bSource

	mu       sync.Mutex
	lcall    *bCall
	gcall    *bCall
	reports  []bReport
	note     string // first problem noticed inside a fake / recorder
	starting bool

	phase    int
	stopDone chan error

	// announcements delivered and not yet reported, oldest first; [0] is being handled
	queue []bAnn
	// what the explorer answered for queue[0]
	fetchAns, syncAns string
	actor             string            // who runs because of the event being applied: listener | avail | ""
	fired             map[string]string // actor -> fault kind that fired during the current event
	armed             string
	armedRm           string
	paused            *bPause
	resumed           string // actor whose parked put was released by the event being applied

	// availability path
	avRunning bool
	avH       uint64
	avCancel  context.CancelFunc
	avDone    chan error
	avGetAns  string
	avStored0 bool // model: stored when the call started

	// reference model
	stored map[uint64]bool // the property demands / allows the height to be stored
	pubs   map[uint64]int  // header broadcasts
	notifs map[uint64]int  // data-hash notifications
	okIng  map[uint64]int  // consensus ingests reported as processed
	local  map[uint64]int

	err  error
	hist []string
	out  *bOutcomes
}

// bOutcomes counts distinct observed outcomes (shared by all instances of one run).
type bOutcomes struct {
	mu sync.Mutex
	m  map[string]int64
}

func (o *bOutcomes) add(k string) {
	if o == nil {
		return
	}
	o.mu.Lock()
	o.m[k]++
	o.mu.Unlock()
}

func (s *bSys) noteLocked(format string, a ...any) {
	if s.note == "" {
		s.note = fmt.Sprintf(format, a...)
	}
}

func (s *bSys) noteF(format string, a ...any) {
	s.mu.Lock()
	s.noteLocked(format, a...)
	s.mu.Unlock()
}

func (s *bSys) fail(format string, a ...any) {
	if s.err == nil {
		s.err = fmt.Errorf(format, a...)
	}
}

func newBridgeSys(cfg bCfg, out *bOutcomes) *bSys {
	bInstallGlobals()
	s := &bSys{cfg: cfg, id: bWorldSeq.Add(1), blocks: map[uint64]*vBlock{}, out: out,
		stored: map[uint64]bool{}, pubs: map[uint64]int{}, notifs: map[uint64]int{}, okIng: map[uint64]int{}, local: map[uint64]int{},
		fired: map[string]string{}, phase: bStopped}
	for _, spec := range cfg.Blocks {
		b, err := vGetBlock(spec)
		if err != nil {
			s.fail("harness: %v", err)
			return s
		}
		s.blocks[b.h] = b
		s.hs = append(s.hs, b.h)
	}
	dir, err := os.MkdirTemp(os.Getenv("VERIF_TMP"), "c15-")
	if err != nil {
		s.fail("harness: %v", err)
		return s
	}
	s.dir = dir
	bWorlds.Store(s.id, s)
	bDirs.Store(dir, s)
	s.prepareLeftovers()
	if s.err == nil {
		s.start()
	}
	return s
}

// prepareLeftovers puts the store directory into the state an earlier process left behind when
// it died inside Store.put of the listed heights: the real store writes the files, then the
// height link is taken away (it is the last thing a put creates) and, for the torn variants,
// the ODS file is cut short. The node under test then starts on that directory.
func (s *bSys) prepareLeftovers() {
	var todo []*vBlock
	for _, h := range s.hs {
		b := s.blocks[h]
		if b.spec.Leftover != "" && b.eds != nil && !b.empty && !s.mustNotKeep(b) {
			todo = append(todo, b)
		}
	}
	if len(todo) == 0 {
		return
	}
	s.mu.Lock()
	s.starting = true
	s.mu.Unlock()
	defer func() {
		s.mu.Lock()
		s.starting = false
		s.mu.Unlock()
	}()
	ctx := context.Background()
	st, err := store.NewStore(store.DefaultParameters(), s.dir)
	if err != nil {
		s.fail("harness: leftovers: %v", err)
		return
	}
	for _, b := range todo {
		inWin := availability.IsWithinWindow(vBlockTime(b.spec.TC), vWindow)
		if inWin {
			err = st.PutODSQ4(ctx, b.roots, b.h, b.eds)
		} else {
			err = st.PutODS(ctx, b.roots, b.h, b.eds)
		}
		if err != nil {
			s.fail("harness: leftovers: put: %v", err)
			return
		}
		base := filepath.Join(s.dir, "blocks", strings.ToUpper(fmt.Sprintf("%x", b.roots.Hash())))
		if err := os.Remove(filepath.Join(s.dir, "blocks", "heights", strconv.FormatUint(b.h, 10)+".ods")); err != nil {
			s.fail("harness: leftovers: %v", err)
			return
		}
		fi, err := os.Stat(base + ".ods")
		if err != nil {
			s.fail("harness: leftovers: %v (hash file naming changed?)", err)
			return
		}
		switch b.spec.Leftover {
		case "nolink":
		case "trunc":
			err = os.Truncate(base+".ods", fi.Size()/2)
		case "trunc0":
			if err = os.Truncate(base+".ods", 7); err == nil && inWin {
				err = os.Remove(base + ".q4")
			}
		default:
			err = fmt.Errorf("unknown leftover kind %q", b.spec.Leftover)
		}
		if err != nil {
			s.fail("harness: leftovers: %v", err)
			return
		}
		s.out.add("start-state:leftover-" + b.spec.Leftover)
	}
	_ = st.Stop(ctx)
	synctest.Wait()
}

func (s *bSys) start() {
	s.mu.Lock()
	s.starting = true
	s.mu.Unlock()
	st, err := store.NewStore(store.DefaultParameters(), s.dir)
	s.mu.Lock()
	s.starting = false
	s.mu.Unlock()
	if err != nil {
		s.fail("harness: NewStore: %v", err)
		return
	}
	s.st = st
	var tagged []taggedSource
	s.srcs = map[string]*bSource{}
	for _, n := range s.cfg.Sources {
		src := &bSource{w: s, name: n, sub: make(chan BlockEvent)}
		s.srcs[n] = src
		tagged = append(tagged, taggedSource{fetcher: src, addr: fmt.Sprintf("%s#%d", n, s.id)})
	}
	ms := newMultiSource(tagged...)
	opts := []Option{WithMetrics(), WithChainID(nodep2p.Network(vChain))}
	var fopts []fullavail.Option
	if s.cfg.Archival {
		opts = append(opts, WithArchivalMode())
		fopts = append(fopts, fullavail.WithArchivalMode())
	}
	cl, err := NewListener(bHeaderBcast{s}, ms, shrexsub.BroadcastFn(s.onNotify), header.MakeExtendedHeader, st, bBlockTime, opts...)
	if err != nil {
		s.fail("harness: NewListener: %v", err)
		return
	}
	s.cl = cl
	s.fa = fullavail.NewShareAvailability(st, bGetter{s}, fopts...)
	if err := cl.Start(context.Background()); err != nil {
		s.fail("harness: Listener.Start: %v", err)
		return
	}
	s.phase = bRunning
	synctest.Wait()
}

// ---------------------------------------------------------------- time classes

func (s *bSys) stableIn(b *vBlock) bool  { return b.spec.TC == tcIn }
func (s *bSys) stableOut(b *vBlock) bool { return b.spec.TC == tcOut }
func (s *bSys) edge(b *vBlock) bool      { return b.spec.TC == tcEdge }

// mustKeep: the property demands that a successfully obtained block of this kind is stored.
func (s *bSys) mustKeep(b *vBlock) bool { return s.stableIn(b) || (s.cfg.Archival && !s.edge(b)) }

// mustNotKeep: the property forbids storing it.
func (s *bSys) mustNotKeep(b *vBlock) bool { return !s.cfg.Archival && s.stableOut(b) }

// ---------------------------------------------------------------- recorders (run inside the node's goroutines)

func (s *bSys) storedRootsNow(h uint64) (*share.AxisRoots, bool, error) {
	ctx := context.Background()
	has, err := s.st.HasByHeight(ctx, h)
	if err != nil || !has {
		return nil, false, err
	}
	acc, err := s.st.GetByHeight(ctx, h)
	if err != nil {
		return nil, true, err
	}
	defer acc.Close()
	r, err := acc.AxisRoots(ctx)
	return r, true, err
}

func (s *bSys) onPublish(_ context.Context, eh *header.ExtendedHeader) {
	h := eh.Height()
	b := s.blocks[h]
	if b == nil || b.sb == nil {
		s.noteF("C15/listener/published-unknown-height: a header for height %d was published, which no endpoint serves", h)
		return
	}
	s.mu.Lock()
	s.pubs[h]++
	n := s.pubs[h]
	s.mu.Unlock()
	if b.roots == nil {
		s.noteF("C15/listener/published-unbuildable-block: a header was published for height %d, whose block data cannot be extended", h)
		return
	}
	if n > 1 {
		s.noteF("C15/listener/published-twice: the header of height %d was handed to the broadcaster %d times", h, n)
	}
	if !bytes.Equal(eh.RawHeader.Hash(), b.sb.Header.Hash()) {
		s.noteF("C15/listener/published-header-not-the-block: published header of height %d is not the header of the block served for that height", h)
	}
	if eh.DAH == nil || !eh.DAH.Equals(b.roots) {
		s.noteF("C15/listener/published-dah-differs-from-block: the published header of height %d carries a data availability header that is not the one of the square of the block's transactions", h)
	} else if !b.spec.Inconsistent {
		if !bytes.Equal(eh.DAH.Hash(), b.sb.Header.DataHash) {
			s.noteF("C15/listener/published-dah-hash-not-data-hash: height %d", h)
		}
		if err := eh.Validate(); err != nil {
			s.noteF("C15/listener/published-header-invalid: published header of consistent block %d does not validate: %v", h, err)
		} else {
			s.out.add("published-header-validates")
		}
	}
	roots, has, err := s.storedRootsNow(h)
	switch {
	case err != nil:
		s.noteF("C15/store/unreadable-at-publish: height %d: %v", h, err)
	case has && (eh.DAH == nil || !roots.Equals(eh.DAH)):
		s.noteF("C15/listener/stored-square-differs-from-published-header: height %d is stored with roots %x, the header published for it has %x", h, roots.Hash(), eh.DAH.Hash())
	case !has && s.mustKeep(b):
		s.noteF("C15/listener/published-not-stored: the header of height %d is handed to the broadcaster while nothing is stored under that height", h)
	case !has:
		s.out.add("published-while-unstored(boundary-or-outside-window)")
	}
}

func (s *bSys) onNotify(_ context.Context, n shrexsub.Notification) error {
	b := s.blocks[n.Height]
	if b == nil || b.sb == nil {
		s.noteF("C15/listener/announced-unknown-height: data hash announced for height %d", n.Height)
		return nil
	}
	s.mu.Lock()
	s.notifs[n.Height]++
	s.mu.Unlock()
	if b.roots == nil {
		s.noteF("C15/listener/announced-unbuildable-block: height %d", n.Height)
		return nil
	}
	// an inconsistent block's header names a data hash that is not the hash of its square; the
	// property relates announced hash and square for consistent blocks only
	if !b.spec.Inconsistent && !bytes.Equal(n.DataHash, b.roots.Hash()) {
		s.noteF("C15/listener/announced-hash-differs: the data hash announced for height %d is not the hash of the block's square", n.Height)
	}
	roots, has, err := s.storedRootsNow(n.Height)
	switch {
	case err != nil:
		s.noteF("C15/store/unreadable-at-announce: height %d: %v", n.Height, err)
	case has && !b.spec.Inconsistent && !bytes.Equal(roots.Hash(), n.DataHash):
		s.noteF("C15/listener/stored-square-differs-from-announced-hash: height %d", n.Height)
	case !has && s.mustKeep(b):
		s.noteF("C15/listener/announced-not-stored: the data hash of height %d is announced while nothing is stored under that height", n.Height)
	}
	if s.cfg.BcastErr {
		return errors.New("verif: shrex-sub is down")
	}
	return nil
}

// onEffect is the store fault point: the armed effect kind fails once.
func (s *bSys) onEffect(op, path string) error {
	s.mu.Lock()
	defer s.mu.Unlock()
	if s.starting {
		return nil // the store's own initialisation is not part of any ingest
	}
	if op == "remove" {
		// classify by what is removed; a removal of something that is not there cannot fail
		switch {
		case strings.Contains(path, "/blocks/heights/"):
			op = "rm-link"
		case strings.HasSuffix(path, ".q4"):
			op = "rm-q4"
		default:
			op = "rm-ods"
		}
		if _, err := os.Lstat(path); err != nil {
			return nil
		}
		s.out.add("store-effect:" + op)
		if s.armedRm == op {
			s.armedRm = ""
			if s.fired[s.actor] == "" {
				s.fired[s.actor] = op
			}
			s.out.add("store-removal-failed:" + op)
			return errors.New("verif: injected I/O error")
		}
		return nil
	}
	s.out.add("store-effect:" + op)
	if op == "link" || op == "symlink" {
		// link(2)/symlink(2) onto an existing name fail with EEXIST before anything else can go
		// wrong: an injected I/O error there would be a fault no file system produces
		if _, err := os.Lstat(path); err == nil {
			return nil
		}
	}
	if s.armed != "" && s.armed == op {
		s.armed = ""
		s.fired[s.actor] = op
		return errors.New("verif: injected I/O error")
	}
	if s.armed == "pause-"+op && s.paused == nil {
		// park the calling goroutine (it holds the store's stripe locks of this put) until the
		// explorer resumes it; blocking on a channel is durable blocking for synctest
		s.armed = ""
		p := &bPause{op: op, path: path, actor: s.actor, ch: make(chan error)}
		s.paused = p
		s.out.add("store-effect-paused:" + op)
		s.mu.Unlock()
		err := <-p.ch
		s.mu.Lock()
		return err
	}
	return nil
}

func (s *bSys) pausedNow() *bPause {
	s.mu.Lock()
	defer s.mu.Unlock()
	return s.paused
}

// pausedHeight is the height whose put is parked (its stripe locks are held: the harness must
// not touch that height in the store meanwhile).
func (s *bSys) pausedHeight() (uint64, bool) {
	p := s.pausedNow()
	switch {
	case p == nil:
		return 0, false
	case p.actor == "avail":
		return s.avH, true
	case len(s.queue) > 0:
		return s.queue[0].H, true
	}
	return 0, false
}

// ---------------------------------------------------------------- events

func (s *bSys) listenerCall() *bCall {
	s.mu.Lock()
	defer s.mu.Unlock()
	return s.lcall
}

func (s *bSys) getterCall() *bCall {
	s.mu.Lock()
	defer s.mu.Unlock()
	return s.gcall
}

func (s *bSys) Enabled() []string {
	if s.err != nil {
		return nil
	}
	var ev []string
	lc := s.listenerCall()
	if lc != nil {
		done := lc.ctx.Err() != nil
		switch lc.kind {
		case "fetch":
			if done {
				ev = append(ev, "fetch:ctx", "fetch:blk")
			} else {
				for _, a := range s.cfg.FetchAns {
					ev = append(ev, "fetch:"+a)
				}
			}
		case "sync":
			if done {
				ev = append(ev, "sync:ctx", "sync:synced")
			} else {
				for _, a := range s.cfg.SyncAns {
					ev = append(ev, "sync:"+a)
				}
			}
		}
	}
	if gc := s.getterCall(); gc != nil {
		for _, a := range s.cfg.GetAns {
			ev = append(ev, "get:"+a)
		}
	}
	paused := s.pausedNow() != nil
	if paused {
		ev = append(ev, "resume:ok", "resume:fail")
	}
	switch s.phase {
	case bRunning:
		if len(s.queue) < 1+s.cfg.Queue && len(s.queue) <= len(s.cfg.Sources) {
			for _, h := range s.hs {
				if s.blocks[h].sb == nil {
					continue
				}
				for _, src := range s.cfg.Sources {
					ev = append(ev, fmt.Sprintf("ann:%d:%s", h, src))
				}
			}
		}
		if s.armed == "" && !paused {
			for _, k := range s.cfg.Faults {
				ev = append(ev, "fault:"+k)
			}
			for _, k := range s.cfg.Pauses {
				ev = append(ev, "fault:pause-"+k)
			}
		}
		if s.armedRm == "" && !paused {
			for _, k := range s.cfg.RmFaults {
				ev = append(ev, "fault:"+k)
			}
		}
		if s.cfg.Avail && !s.avRunning {
			for _, h := range s.hs {
				if s.blocks[h].eh != nil {
					ev = append(ev, fmt.Sprintf("avail:%d", h))
				}
			}
		}
		if s.cfg.Tick && len(s.queue) == 0 && !paused {
			ev = append(ev, "tick")
		}
		if s.cfg.Stop && len(s.queue) <= 1 && !s.avRunning && !paused {
			ev = append(ev, "stop")
		}
	case bStopped:
		if s.cfg.Stop {
			ev = append(ev, "start")
		}
	}
	return ev
}

func (s *bSys) answer(c *bCall, a bAns) {
	s.mu.Lock()
	if s.lcall == c {
		s.lcall = nil
	}
	if s.gcall == c {
		s.gcall = nil
	}
	s.mu.Unlock()
	c.ans <- a
}

var (
	errFetch = errors.New("verif: rpc error: block not served")
	errSync  = errors.New("verif: rpc error: status not served")
)

func (s *bSys) Apply(ev string) error {
	if s.err != nil {
		return s.err
	}
	s.hist = append(s.hist, ev)
	s.fired = map[string]string{}
	s.actor = ""
	s.resumed = ""
	parts := strings.Split(ev, ":")
	switch parts[0] {
	case "ann":
		h, _ := strconv.ParseUint(parts[1], 10, 64)
		src := s.srcs[parts[2]]
		if src == nil || s.blocks[h] == nil {
			return fmt.Errorf("harness: bad event %q", ev)
		}
		s.actor = "listener"
		s.queue = append(s.queue, bAnn{H: h, Src: parts[2]})
		select {
		case src.sub <- BlockEvent{Height: int64(h)}:
		default:
			return fmt.Errorf("harness: source %s does not take an announcement (queue %v)", parts[2], s.queue)
		}
	case "fetch":
		c := s.listenerCall()
		if c == nil || c.kind != "fetch" {
			return fmt.Errorf("harness: no pending fetch for %q", ev)
		}
		s.actor = "listener"
		s.fetchAns = parts[1]
		switch parts[1] {
		case "blk":
			s.answer(c, bAns{blk: s.blocks[c.h].sb})
		case "err":
			s.answer(c, bAns{err: errFetch})
		case "timeout":
			time.Sleep(blockFetchTimeout)
			synctest.Wait()
			if c.ctx.Err() == nil {
				return fmt.Errorf("harness: fetch context still alive after the fetch timeout")
			}
			s.answer(c, bAns{err: c.ctx.Err()})
		case "ctx":
			s.answer(c, bAns{err: c.ctx.Err()})
		default:
			return fmt.Errorf("harness: bad event %q", ev)
		}
	case "sync":
		c := s.listenerCall()
		if c == nil || c.kind != "sync" {
			return fmt.Errorf("harness: no pending sync query for %q", ev)
		}
		s.actor = "listener"
		s.syncAns = parts[1]
		switch parts[1] {
		case "synced":
			s.answer(c, bAns{syncing: false})
		case "syncing":
			s.answer(c, bAns{syncing: true})
		case "slow":
			time.Sleep(blockFetchTimeout - time.Second)
			s.answer(c, bAns{syncing: false})
		case "err":
			s.answer(c, bAns{err: errSync})
		case "timeout":
			time.Sleep(blockFetchTimeout)
			synctest.Wait()
			s.answer(c, bAns{err: c.ctx.Err()})
		case "ctx":
			s.answer(c, bAns{err: c.ctx.Err()})
		default:
			return fmt.Errorf("harness: bad event %q", ev)
		}
	case "fault":
		s.mu.Lock()
		if strings.HasPrefix(parts[1], "rm-") {
			s.armedRm = parts[1]
		} else {
			s.armed = parts[1]
		}
		s.mu.Unlock()
	case "avail":
		h, _ := strconv.ParseUint(parts[1], 10, 64)
		b := s.blocks[h]
		if b == nil || s.avRunning {
			return fmt.Errorf("harness: bad event %q", ev)
		}
		s.actor = "avail"
		ctx, cancel := context.WithCancel(context.Background())
		s.avRunning, s.avH, s.avCancel, s.avGetAns, s.avStored0 = true, h, cancel, "", s.stored[h]
		s.avDone = make(chan error, 1)
		fa, eh, done := s.fa, b.eh, s.avDone
		go func() { done <- fa.SharesAvailable(ctx, eh) }()
	case "get":
		c := s.getterCall()
		if c == nil {
			return fmt.Errorf("harness: no pending getter call for %q", ev)
		}
		s.actor = "avail"
		s.avGetAns = parts[1]
		b := s.blocks[c.h]
		switch parts[1] {
		case "eds":
			s.answer(c, bAns{eds: b.eds})
		case "notfound":
			s.answer(c, bAns{err: fmt.Errorf("verif getter: %w", shwap.ErrNotFound)})
		case "deadline":
			s.answer(c, bAns{err: fmt.Errorf("verif getter: %w", context.DeadlineExceeded)})
		case "canceled":
			s.avCancel()
			synctest.Wait()
			s.answer(c, bAns{err: c.ctx.Err()})
		case "byz":
			s.answer(c, bAns{err: fmt.Errorf("verif getter: %w", &byzantine.ErrByzantine{Index: 0, Axis: rsmt2d.Row})})
		case "byzdeadline":
			s.answer(c, bAns{err: errors.Join(context.DeadlineExceeded, &byzantine.ErrByzantine{Index: 1, Axis: rsmt2d.Col})})
		case "other":
			s.answer(c, bAns{err: errors.New("verif getter: stream reset")})
		default:
			return fmt.Errorf("harness: bad event %q", ev)
		}
	case "resume":
		p := s.pausedNow()
		if p == nil {
			return fmt.Errorf("harness: nothing is parked for %q", ev)
		}
		s.actor, s.resumed = p.actor, p.actor
		var perr error
		s.mu.Lock()
		s.paused = nil
		if parts[1] == "fail" {
			s.fired[p.actor] = p.op
			perr = errors.New("verif: injected I/O error")
		}
		s.mu.Unlock()
		p.ch <- perr
	case "tick":
		s.actor = "listener"
		time.Sleep(5 * bBlockTime)
	case "stop":
		s.actor = "listener"
		s.stopDone = make(chan error, 1)
		cl, done := s.cl, s.stopDone
		go func() { done <- cl.Stop(context.Background()) }()
		s.phase = bStopping
	case "start":
		if s.phase != bStopped {
			return fmt.Errorf("harness: start while not stopped")
		}
		if err := s.st.Stop(context.Background()); err != nil {
			s.fail("harness: store stop: %v", err)
		}
		s.start()
	default:
		return fmt.Errorf("harness: unknown event %q", ev)
	}
	synctest.Wait()
	s.settle()
	s.observe()
	return s.err
}

// settle advances the reference model from what the node reported after the event.
func (s *bSys) settle() {
	if s.err != nil {
		return
	}
	if s.phase == bStopping {
		select {
		case err := <-s.stopDone:
			if err != nil {
				s.fail("harness: Listener.Stop: %v", err)
			}
			s.phase = bStopped
		default:
		}
	}
	s.mu.Lock()
	reports := s.reports
	s.reports = nil
	note := s.note
	s.mu.Unlock()
	if note != "" {
		s.fail("%s", note)
		return
	}
	paused := s.pausedNow() != nil
	listenerPart := func() {
		for _, r := range reports {
			if len(s.queue) == 0 {
				s.fail("harness: the listener reports outcome %q for source %s but no announcement is outstanding", r.result, r.src)
				return
			}
			head := s.queue[0]
			s.queue = s.queue[1:]
			if r.src != head.Src {
				s.fail("C15/multisource/event-tagged-with-other-source: the announcement of height %d by %s was handled as coming from %s", head.H, head.Src, r.src)
				return
			}
			s.verdict(head, r.result)
			s.fetchAns, s.syncAns = "", ""
			delete(s.fired, "listener")
			if s.err != nil {
				return
			}
		}
		if s.phase == bStopped {
			// announcements still travelling through the fan-in when the listener stopped are lost
			// with it (they were never handled, so nothing is demanded of them)
			s.queue = nil
			s.fetchAns, s.syncAns = "", ""
		}
		if c := s.listenerCall(); c != nil {
			if len(s.queue) == 0 {
				s.fail("harness: listener-side %s call without an outstanding announcement", c.kind)
				return
			}
			head := s.queue[0]
			if c.kind == "fetch" && c.h != head.H {
				s.fail("C15/listener/fetches-other-height: handling the announcement of height %d the listener fetches height %d", head.H, c.h)
				return
			}
			if c.src != head.Src {
				s.out.add("call-routed-to-other-source")
			}
		} else if paused && len(s.queue) > 0 && len(reports) == 0 {
			if p := s.pausedNow(); p != nil && p.actor == "avail" {
				s.out.add("listener-waits-on-store-while-put-parked")
			}
		} else if s.phase == bRunning && len(s.queue) > 0 && !paused {
			// the node is quiescent and waits for nobody: every delivered announcement was consumed,
			// yet some produced neither a fetch nor an outcome report. (While a put is parked the
			// listener may be inside that put or wait for its stripe lock.)
			for _, a := range s.queue {
				b := s.blocks[a.H]
				if !s.stored[a.H] && !s.edge(b) && !s.mustNotKeep(b) {
					s.fail("C15/listener/announcement-consumed-without-outcome: the announcement of height %d by %s was consumed without a fetch and without an outcome report although nothing is stored under that height", a.H, a.Src)
					return
				}
			}
			s.queue = nil
		}
	}
	availPart := func() {
		if !s.avRunning {
			return
		}
		select {
		case err := <-s.avDone:
			s.avRunning = false
			s.avCancel()
			s.availVerdict(s.avH, err)
		default:
			if s.getterCall() == nil && !paused {
				s.fail("harness: availability check neither returned nor waits for the getter")
			} else if p := s.pausedNow(); p != nil && p.actor == "listener" && s.getterCall() == nil {
				s.out.add("avail-waits-on-store-while-put-parked")
			}
		}
	}
	// When a parked put is released, its own ingest finishes before anything that waited for its
	// stripe lock: judge in that order.
	if s.resumed == "avail" {
		availPart()
		if s.err == nil {
			listenerPart()
		}
	} else {
		listenerPart()
		if s.err == nil {
			availPart()
		}
	}
}

// verdict judges the terminal outcome the listener reported for one announcement.
func (s *bSys) verdict(a bAnn, result string) {
	b := s.blocks[a.H]
	fired := s.fired["listener"]
	s.out.add("listener:" + result)
	obtained := s.fetchAns == "blk" && (s.syncAns == "synced" || s.syncAns == "syncing" || s.syncAns == "slow")
	switch result {
	case "duplicate":
		if !s.stored[a.H] && !s.edge(b) {
			s.fail("C15/listener/skipped-unstored-height: the announcement of height %d by %s is skipped as a duplicate although nothing is stored under that height", a.H, a.Src)
		}
		if s.fetchAns != "" {
			s.fail("harness: duplicate after a fetch answer")
		}
	case "historic":
		switch {
		case s.fetchAns != "blk":
			s.fail("harness: historic without a served block")
		case s.cfg.Archival:
			s.fail("C15/listener/archival-drops-historic: an archival node drops the block of height %d as historic", a.H)
		case s.stableIn(b):
			s.fail("C15/listener/in-window-dropped: the block of height %d is inside the window and is dropped as historic", a.H)
		}
	case "fetch_error":
		if s.fetchAns == "blk" {
			s.fail("C15/listener/obtained-not-stored: the block of height %d was served and the listener reports a fetch error", a.H)
		}
	case "sync_error":
		if s.fetchAns != "blk" || obtained {
			s.fail("C15/listener/obtained-not-stored: block of height %d: fetch answer %q, sync answer %q, the listener reports a sync error", a.H, s.fetchAns, s.syncAns)
		}
	case "process_error":
		if !obtained {
			s.fail("harness: process_error without served block and sync state (fetch %q sync %q)", s.fetchAns, s.syncAns)
		} else if fired == "" && !b.spec.Unbuildable {
			s.fail("C15/listener/obtained-not-stored: the block of height %d was served, the sync state was served, no store effect failed, and the listener reports a processing error", a.H)
		}
	case "processed":
		switch {
		case !obtained:
			s.fail("C15/listener/failed-ingest-reported-processed: height %d: fetch answer %q, sync answer %q, reported as processed", a.H, s.fetchAns, s.syncAns)
		case b.spec.Unbuildable:
			s.fail("C15/listener/failed-ingest-reported-processed: height %d: the block data cannot be extended and the ingest is reported as processed", a.H)
		default:
			// (a store effect that failed does not by itself make the ingest a failed one: when
			// the height is already stored completely - the other ingest path won the race - the
			// store reports success without needing the effect. What "processed" promises is
			// judged below: the block must be stored and published.)
			if fired != "" {
				s.out.add("listener:processed-although-effect-failed:" + fired)
			}
			s.okIng[a.H]++
			if s.mustKeep(b) {
				s.stored[a.H] = true
			}
		}
	default:
		s.fail("C15/listener/unexpected-outcome-%s: announcement of height %d by %s", result, a.H, a.Src)
	}
}

func errClass(err error) string {
	var be *byzantine.ErrByzantine
	switch {
	case err == nil:
		return "nil"
	case errors.Is(err, availability.ErrOutsideSamplingWindow):
		return "outside-window"
	case errors.Is(err, share.ErrNotAvailable):
		return "not-available"
	case errors.Is(err, context.Canceled):
		return "canceled"
	case errors.As(err, &be):
		return "byzantine"
	case errors.Is(err, context.DeadlineExceeded):
		return "deadline"
	default:
		return "other-error"
	}
}

// availVerdict judges the return value of SharesAvailable.
func (s *bSys) availVerdict(h uint64, err error) {
	b := s.blocks[h]
	fired := s.fired["avail"]
	delete(s.fired, "avail")
	s.out.add(fmt.Sprintf("avail:%s/get=%s/fault=%s->%s", b.spec.TC, s.avGetAns, fired, errClass(err)))
	if s.mustNotKeep(b) || s.edge(b) {
		return // only storage is constrained (checked by observe)
	}
	// the height must end up stored iff the check obtained the square (or needs none)
	justified := false
	switch {
	case b.empty && fired == "":
		justified = true
	case s.avStored0 || s.stored[h]:
		justified = true
	case s.avGetAns == "eds":
		// also when a store effect failed: the store may succeed without it if the other ingest
		// path stored the height meanwhile; "nil" then still promises that the height is stored
		justified = true
	}
	switch {
	case err == nil && !justified:
		s.fail("C15/avail/available-without-square: SharesAvailable(height %d) returns nil although the square was not obtained (getter answer %q, failed store effect %q) and was not stored before", h, s.avGetAns, fired)
	case err == nil:
		s.stored[h] = true
	case fired != "" || (s.avGetAns != "" && s.avGetAns != "eds"):
		// a failed ingest, reported as an error
	case s.avGetAns == "eds":
		s.fail("C15/avail/obtained-not-stored: the getter served the square of height %d, no store effect failed, and SharesAvailable returns %v", h, err)
	default:
		s.fail("C15/avail/error-without-cause: SharesAvailable(height %d) returns %v although the block is empty or already stored", h, err)
	}
}

// observe compares the real node with the reference model.
func (s *bSys) observe() {
	if s.err != nil {
		return
	}
	s.mu.Lock()
	note := s.note
	s.mu.Unlock()
	if note != "" {
		s.fail("%s", note)
		return
	}
	if s.phase == bStopped {
		return
	}
	ctx := context.Background()
	ph, parked := s.pausedHeight()
	for _, h := range s.hs {
		b := s.blocks[h]
		if parked && h == ph {
			continue // a put of this height is parked and holds its stripe locks
		}
		has, err := s.st.HasByHeight(ctx, h)
		if err != nil {
			s.fail("C15/store/has-error: HasByHeight(%d): %v", h, err)
			return
		}
		_, lerr := os.Lstat(filepath.Join(s.dir, "blocks", "heights", strconv.FormatUint(h, 10)+".ods"))
		onDisk := lerr == nil
		want := s.stored[h]
		switch {
		case s.edge(b):
			// boundary of the window: presence is not constrained
		case has && !want && s.mustNotKeep(b):
			s.fail("C15/store/pruned-stores-outside-window: height %d (block time outside the window) is stored on a pruned node", h)
			return
		case (has || onDisk) && !want:
			s.fail("C15/store/stored-without-successful-ingest: height %d is present (HasByHeight=%v, on disk=%v) although no ingest of it succeeded (last events %v)", h, has, onDisk, tail(s.hist, 4))
			return
		case want && (!has || !onDisk):
			s.fail("C15/store/obtained-block-missing: height %d was obtained successfully and must be kept, but HasByHeight=%v, on disk=%v", h, has, onDisk)
			return
		}
		if has != onDisk {
			s.fail("C15/store/cache-and-disk-disagree: height %d: HasByHeight=%v, height link on disk=%v", h, has, onDisk)
			return
		}
		if !has {
			continue
		}
		acc, err := s.st.GetByHeight(ctx, h)
		if err != nil {
			s.fail("C15/store/unreadable: GetByHeight(%d): %v", h, err)
			return
		}
		roots, err := acc.AxisRoots(ctx)
		if err != nil {
			acc.Close()
			s.fail("C15/store/unreadable: AxisRoots(%d): %v", h, err)
			return
		}
		shs, err := acc.Shares(ctx)
		acc.Close()
		if err != nil {
			s.fail("C15/store/unreadable: Shares(%d): %v", h, err)
			return
		}
		if !roots.Equals(b.roots) {
			s.fail("C15/store/stored-roots-differ: the square stored under height %d has roots %x, the block's square has %x", h, roots.Hash(), b.roots.Hash())
			return
		}
		if len(shs) != len(b.ods) {
			s.fail("C15/store/stored-shares-differ: height %d holds %d original shares, the block's square has %d", h, len(shs), len(b.ods))
			return
		}
		for i := range shs {
			if !bytes.Equal(shs[i].ToBytes(), b.ods[i]) {
				s.fail("C15/store/stored-shares-differ: height %d, original share %d differs from the block's square", h, i)
				return
			}
		}
		if !b.empty && !parked {
			q4, err := s.st.HasQ4ByHash(ctx, b.roots.Hash())
			if err != nil {
				s.fail("C15/store/has-error: HasQ4ByHash(%d): %v", h, err)
				return
			}
			if s.cfg.Archival && s.stableOut(b) && q4 {
				s.fail("C15/store/archival-keeps-q4-outside-window: height %d lies outside the window and its parity quadrant is stored", h)
				return
			}
			s.out.add(fmt.Sprintf("stored:%s/q4=%v", b.spec.TC, q4))
		} else if b.empty {
			s.out.add("stored:" + b.spec.TC + "/empty-link")
		}
	}
	// publications
	s.mu.Lock()
	defer s.mu.Unlock()
	for _, h := range s.hs {
		b := s.blocks[h]
		p := s.pubs[h]
		switch {
		case p > s.okIng[h]:
			s.fail("C15/listener/published-by-failed-ingest: height %d was published %d times but only %d consensus ingests of it succeeded", h, p, s.okIng[h])
		case s.stableIn(b) && s.okIng[h] > 0 && p != 1:
			s.fail("C15/listener/not-published-once: height %d was ingested from consensus successfully %d times and published %d times", h, s.okIng[h], p)
		case s.notifs[h] > p:
			s.fail("C15/listener/announced-without-header: data hash of height %d announced %d times, header published %d times", h, s.notifs[h], p)
		}
	}
}

func tail(h []string, n int) []string {
	if len(h) > n {
		return h[len(h)-n:]
	}
	return h
}

func (s *bSys) Check() error { return s.err }

func (s *bSys) Fingerprint() string {
	var sb strings.Builder
	s.mu.Lock()
	defer s.mu.Unlock()
	fmt.Fprintf(&sb, "ph=%d armed=%s/%s|q=", s.phase, s.armed, s.armedRm)
	parkedH, parked := uint64(0), false
	if p := s.paused; p != nil {
		parked = true
		if p.actor == "avail" {
			parkedH = s.avH
		} else if len(s.queue) > 0 {
			parkedH = s.queue[0].H
		}
		fmt.Fprintf(&sb, "parked=%s/%s/%d|", p.op, p.actor, parkedH)
	}
	for _, a := range s.queue {
		fmt.Fprintf(&sb, "%d%s,", a.H, a.Src)
	}
	if s.lcall != nil {
		fmt.Fprintf(&sb, "|lcall=%s/%v", s.lcall.kind, s.lcall.ctx.Err() != nil)
	}
	fmt.Fprintf(&sb, "|ans=%s/%s", s.fetchAns, s.syncAns)
	if s.avRunning {
		fmt.Fprintf(&sb, "|avail=%d/%v/%v", s.avH, s.gcall != nil, s.avStored0)
	}
	sb.WriteString("|h=")
	edgeIn := false
	for _, h := range s.hs {
		b := s.blocks[h]
		if s.edge(b) {
			edgeIn = availability.IsWithinWindow(vBlockTime(b.spec.TC), vWindow)
			has := false
			if !parked || parkedH != h {
				has, _ = s.st.HasByHeight(context.Background(), h)
			}
			fmt.Fprintf(&sb, "(edge:%v,%v)", edgeIn, has)
		}
		fmt.Fprintf(&sb, "%d:%v/%d/%d/%d,", h, s.stored[h], s.pubs[h], s.notifs[h], s.okIng[h])
	}
	return sb.String()
}

// Close shuts the node down so that the bubble can end.
func (s *bSys) Close() {
	saved := s.err
	defer func() {
		s.err = saved
		bWorlds.Delete(s.id)
		if s.dir != "" {
			bDirs.Delete(s.dir)
			os.RemoveAll(s.dir)
		}
	}()
	if s.cl == nil {
		return
	}
	s.mu.Lock()
	s.armed, s.armedRm = "", ""
	s.mu.Unlock()
	if s.avRunning {
		s.avCancel()
	}
	if s.phase == bRunning {
		s.stopDone = make(chan error, 1)
		cl, done := s.cl, s.stopDone
		go func() { done <- cl.Stop(context.Background()) }()
		s.phase = bStopping
	}
	for i := 0; i < 100; i++ {
		synctest.Wait()
		progressed := false
		if c := s.listenerCall(); c != nil {
			s.answer(c, bAns{err: context.Canceled})
			progressed = true
		}
		if c := s.getterCall(); c != nil {
			s.answer(c, bAns{err: context.Canceled})
			progressed = true
		}
		if p := s.pausedNow(); p != nil {
			s.mu.Lock()
			s.paused = nil
			s.mu.Unlock()
			p.ch <- nil
			progressed = true
		}
		if s.phase == bStopping {
			select {
			case <-s.stopDone:
				s.phase = bStopped
			default:
			}
		}
		if s.avRunning {
			select {
			case <-s.avDone:
				s.avRunning = false
			default:
			}
		}
		if !progressed && s.phase == bStopped && !s.avRunning {
			break
		}
	}
	if s.st != nil {
		_ = s.st.Stop(context.Background())
	}
}

// sortedOutcomes renders an outcome histogram.
func (o *bOutcomes) sorted() map[string]int64 {
	o.mu.Lock()
	defer o.mu.Unlock()
	out := map[string]int64{}
	ks := make([]string, 0, len(o.m))
	for k := range o.m {
		ks = append(ks, k)
	}
	sort.Strings(ks)
	for _, k := range ks {
		out[k] = o.m[k]
	}
	return out
}
