package core

// C15 harness, part 3: what is enumerated.
//
//	Part A  explicit-state BFS over event histories of the node (listener + fan-in + store +
//	        availability path), several configurations, invariant after every event.
//	Part B  every block content of a transaction alphabet, ingested from consensus by an archival
//	        and a pruned node inside / outside the window, read back after a restart; a chain of
//	        many heights through one node (cache eviction).
//	Part C  the availability path: every square layout of the shared generator x mode x time
//	        class x getter answers (and pairs of answers, and store faults).

import (
	"encoding/json"
	"fmt"
	"os"
	"sort"
	"strings"
	"sync"
	"sync/atomic"
	"testing"
	"testing/synctest"
	"time"

	logging "github.com/ipfs/go-log/v2"

	"github.com/celestiaorg/celestia-node/verifx/sq"
	"github.com/celestiaorg/celestia-node/verifx/vx"
)

var (
	allFaults = []string{"link", "symlink", "ods-create", "ods-write", "q4-create", "q4-write"}
	allGet    = []string{"eds", "notfound", "deadline", "canceled", "byz", "byzdeadline", "other"}

	cBlob   = vContent{Blobs: [][]vBlobSpec{{{NS: 1, Size: 400}}}}
	cTxBlob = vContent{Normal: []int{300}, Blobs: [][]vBlobSpec{{{NS: 1, Size: 400}, {NS: 2, Size: 1}}}}
	cTx     = vContent{Normal: []int{10}}
	cBig    = vContent{Normal: []int{1000}, Blobs: [][]vBlobSpec{{{NS: 2, Size: 1500}}}}
	cEmpty  = vContent{}
)

func bSig(err error) string {
	msg := err.Error()
	if i := strings.Index(msg, ":"); i > 0 {
		return msg[:i]
	}
	return msg
}

// ---------------------------------------------------------------- scripts (Parts B and C)

// A script is a configuration plus steps. A step is an event; "auto" answers every pending
// consensus call positively (block served, synced) until none is pending; a step ending in "?"
// is applied only if it is enabled.
type bScript struct {
	Cfg   bCfg
	Steps []string
}

func runScript(t *testing.T, sc bScript, out *bOutcomes, trace bool) (hist []string, verr error) {
	synctest.Test(t, func(*testing.T) {
		s := newBridgeSys(sc.Cfg, out)
		defer s.Close()
		defer func() { hist = append([]string(nil), s.hist...) }()
		if verr = s.Check(); verr != nil {
			return
		}
		apply := func(ev string) bool {
			ok := false
			for _, e := range s.Enabled() {
				if e == ev {
					ok = true
				}
			}
			if !ok {
				verr = fmt.Errorf("harness: script step %q is not enabled after %v (enabled %v)", ev, s.hist, s.Enabled())
				return false
			}
			verr = s.Apply(ev)
			if trace {
				fmt.Printf("REPLAY-STEP %s -> %s\n", ev, s.Fingerprint())
			}
			return verr == nil
		}
		for _, st := range sc.Steps {
			switch {
			case st == "auto":
				for i := 0; i < 64; i++ {
					c := s.listenerCall()
					if c == nil {
						break
					}
					ev := "fetch:blk"
					if c.kind == "sync" {
						ev = "sync:synced"
					}
					if !apply(ev) {
						return
					}
				}
			case strings.HasSuffix(st, "?"):
				ev := strings.TrimSuffix(st, "?")
				en := false
				for _, e := range s.Enabled() {
					if e == ev {
						en = true
					}
				}
				if en && !apply(ev) {
					return
				}
			default:
				if !apply(st) {
					return
				}
			}
		}
	})
	return hist, verr
}

type scriptStats struct {
	ran      int64
	distinct int64 // distinct executed (configuration, low-level history) pairs
	events   int64
	complete bool
}

func runScripts(t *testing.T, rep *vx.Report, part string, scripts []bScript, out *bOutcomes, deadline time.Time) scriptStats {
	var idx int64 = -1
	var ran, events int64
	var capped atomic.Bool
	var wg sync.WaitGroup
	var seenMu sync.Mutex
	seen := map[string]struct{}{}
	for w := 0; w < vx.Workers(); w++ {
		wg.Add(1)
		go func() {
			defer wg.Done()
			for {
				i := int(atomic.AddInt64(&idx, 1))
				if i >= len(scripts) {
					return
				}
				if time.Now().After(deadline) {
					capped.Store(true)
					return
				}
				hist, err := runScript(t, scripts[i], out, false)
				atomic.AddInt64(&ran, 1)
				atomic.AddInt64(&events, int64(len(hist)))
				if len(hist) > 0 {
					k := scripts[i].Cfg.String() + "|" + strings.Join(hist, " ")
					seenMu.Lock()
					seen[k] = struct{}{}
					seenMu.Unlock()
				}
				if err != nil {
					report(rep, part, scripts[i].Cfg, hist, err)
				}
			}
		}()
	}
	wg.Wait()
	return scriptStats{ran: ran, distinct: int64(len(seen)), events: events, complete: !capped.Load()}
}

var repMu sync.Mutex

func report(rep *vx.Report, part string, cfg bCfg, hist []string, err error) {
	repMu.Lock()
	defer repMu.Unlock()
	sig := bSig(err)
	if strings.HasPrefix(sig, "harness") || strings.HasPrefix(sig, "DIVERGENCE") {
		rep.Infra(fmt.Sprintf("part %s: %v hist=%v cfg=%s", part, err, hist, cfg))
		return
	}
	rep.Violation(sig, err.Error(), map[string]any{"part": part, "cfg": cfg, "history": hist})
}

// ---------------------------------------------------------------- Part A configurations

type bfsRun struct {
	cfg   bCfg
	depth int
}

func partAConfigs(tier string) []bfsRun {
	ab := []string{"A", "B"}
	q := []bfsRun{
		{bCfg{Name: "pruned-2src", Blocks: []vBlockSpec{{Height: 1, TC: tcOut, Content: cBlob}, {Height: 2, TC: tcIn, Content: cTxBlob}, {Height: 3, TC: tcIn, Content: cEmpty}},
			Sources: ab, Queue: 1, FetchAns: []string{"blk", "err"}, SyncAns: []string{"synced", "syncing", "err"}, Tick: true}, 14},
		{bCfg{Name: "archival-2src", Archival: true, Blocks: []vBlockSpec{{Height: 1, TC: tcOut, Content: cBlob}, {Height: 2, TC: tcOut, Content: cEmpty}, {Height: 3, TC: tcIn, Content: cTx}},
			Sources: ab, Queue: 1, FetchAns: []string{"blk", "timeout"}, SyncAns: []string{"synced", "timeout"}}, 14},
		{bCfg{Name: "pruned-store-faults", Blocks: []vBlockSpec{{Height: 1, TC: tcIn, Content: cBlob}, {Height: 2, TC: tcIn, Content: cEmpty}},
			Sources: ab, FetchAns: []string{"blk", "err"}, SyncAns: []string{"synced", "err"}, Faults: allFaults, Avail: true, GetAns: []string{"eds"}}, 14},
		{bCfg{Name: "archival-store-faults", Archival: true, Blocks: []vBlockSpec{{Height: 1, TC: tcOut, Content: cBlob}, {Height: 2, TC: tcOut, Content: cEmpty}},
			Sources: []string{"A"}, FetchAns: []string{"blk"}, SyncAns: []string{"syncing"}, Faults: allFaults, Avail: true, GetAns: []string{"eds", "notfound"}}, 14},
		{bCfg{Name: "pruned-avail-and-listener", Blocks: []vBlockSpec{{Height: 1, TC: tcOut, Content: cBlob}, {Height: 2, TC: tcIn, Content: cTxBlob}, {Height: 3, TC: tcIn, Content: cEmpty}},
			Sources: ab, Queue: 1, FetchAns: []string{"blk", "err"}, SyncAns: []string{"synced", "err"}, Avail: true, GetAns: allGet}, 14},
		{bCfg{Name: "archival-avail-and-listener", Archival: true, Blocks: []vBlockSpec{{Height: 1, TC: tcOut, Content: cBlob}, {Height: 2, TC: tcOut, Content: cEmpty}, {Height: 3, TC: tcIn, Content: cTxBlob}},
			Sources: []string{"A"}, FetchAns: []string{"blk", "err"}, SyncAns: []string{"syncing", "err"}, Avail: true, GetAns: []string{"eds", "notfound", "canceled", "byzdeadline"}, Faults: []string{"link", "q4-write"}}, 14},
		{bCfg{Name: "pruned-parked-put-race", Blocks: []vBlockSpec{{Height: 1, TC: tcIn, Content: cBlob}, {Height: 2, TC: tcIn, Content: cEmpty}},
			Sources: ab, Queue: 1, FetchAns: []string{"blk", "err"}, SyncAns: []string{"synced", "err"}, Avail: true, GetAns: []string{"eds", "notfound"},
			Pauses: []string{"ods-create", "link", "symlink"}}, 16},
		{bCfg{Name: "archival-parked-put-race", Archival: true, Blocks: []vBlockSpec{{Height: 1, TC: tcOut, Content: cBlob}, {Height: 2, TC: tcIn, Content: cTx}},
			Sources: []string{"A"}, FetchAns: []string{"blk"}, SyncAns: []string{"synced", "err"}, Avail: true, GetAns: []string{"eds", "notfound"},
			Pauses: []string{"ods-write", "link"}}, 16},
		{bCfg{Name: "pruned-same-payload-two-heights", Blocks: []vBlockSpec{{Height: 1, TC: tcIn, Content: cBlob, Salt: 77}, {Height: 2, TC: tcIn, Content: cBlob, Salt: 77}},
			Sources: []string{"A"}, FetchAns: []string{"blk", "err"}, SyncAns: []string{"synced", "err"}, Avail: true, GetAns: []string{"eds", "notfound"},
			Faults: []string{"link", "ods-write"}, RmFaults: []string{"rm-ods"}}, 18},
		{bCfg{Name: "pruned-crash-leftovers", Blocks: []vBlockSpec{{Height: 1, TC: tcIn, Content: cBlob, Leftover: "nolink"}, {Height: 2, TC: tcIn, Content: cTxBlob, Leftover: "trunc"}, {Height: 3, TC: tcIn, Content: cTx, Leftover: "trunc0"}},
			Sources: []string{"A"}, FetchAns: []string{"blk", "err"}, SyncAns: []string{"synced"}, Avail: true, GetAns: []string{"eds", "notfound"}, Stop: true}, 18},
		{bCfg{Name: "archival-crash-leftovers-cleanup-fails", Archival: true, Blocks: []vBlockSpec{{Height: 1, TC: tcOut, Content: cBlob, Leftover: "trunc"}, {Height: 2, TC: tcIn, Content: cTx}},
			Sources: []string{"A"}, FetchAns: []string{"blk"}, SyncAns: []string{"synced"}, Avail: true, GetAns: []string{"eds", "notfound"},
			Faults: []string{"link", "ods-write"}, RmFaults: []string{"rm-ods", "rm-q4", "rm-link"}}, 18},
		{bCfg{Name: "pruned-restart", Blocks: []vBlockSpec{{Height: 1, TC: tcIn, Content: cBlob}, {Height: 2, TC: tcIn, Content: cEmpty}, {Height: 3, TC: tcIn, Content: cBlob, Unbuildable: true}},
			Sources: ab, Queue: 1, FetchAns: []string{"blk", "err"}, SyncAns: []string{"synced", "err"}, Stop: true}, 14},
		{bCfg{Name: "pruned-window-edge", Blocks: []vBlockSpec{{Height: 1, TC: tcEdge, Content: cBlob}, {Height: 2, TC: tcIn, Content: cTx}},
			Sources: []string{"A"}, Queue: 1, FetchAns: []string{"blk", "timeout"}, SyncAns: []string{"synced", "slow", "err"}, Avail: true, GetAns: []string{"eds", "notfound"}}, 14},
		{bCfg{Name: "pruned-bcast-down-inconsistent", Blocks: []vBlockSpec{{Height: 1, TC: tcIn, Content: cTxBlob, Inconsistent: true}, {Height: 2, TC: tcIn, Content: cBlob}},
			Sources: ab, Queue: 1, FetchAns: []string{"blk", "err"}, SyncAns: []string{"synced", "syncing", "err"}, BcastErr: true}, 14},
	}
	if tier != "thorough" {
		return q
	}
	abc := []string{"A", "B", "C"}
	th := []bfsRun{
		{bCfg{Name: "T-archival-window-edge", Archival: true, Blocks: []vBlockSpec{{Height: 1, TC: tcEdge, Content: cBlob}, {Height: 2, TC: tcOut, Content: cTx}},
			Sources: ab, Queue: 1, FetchAns: []string{"blk", "timeout"}, SyncAns: []string{"synced", "slow", "err"}, Avail: true, GetAns: []string{"eds", "notfound"}, Stop: true}, 18},
		{bCfg{Name: "T-archival-same-payload-two-heights", Archival: true, Blocks: []vBlockSpec{{Height: 1, TC: tcOut, Content: cTxBlob, Salt: 78}, {Height: 2, TC: tcOut, Content: cTxBlob, Salt: 78}, {Height: 3, TC: tcOut, Content: cEmpty}},
			Sources: ab, Queue: 1, FetchAns: []string{"blk", "err"}, SyncAns: []string{"synced", "err"}, Avail: true, GetAns: []string{"eds", "notfound"},
			Faults: []string{"link", "ods-create", "ods-write"}, RmFaults: []string{"rm-ods", "rm-link"}, Stop: true}, 18},
		{bCfg{Name: "T-pruned-leftovers-faults-restart", Blocks: []vBlockSpec{{Height: 1, TC: tcIn, Content: cBlob, Leftover: "nolink", Salt: 79}, {Height: 2, TC: tcIn, Content: cBlob, Leftover: "trunc", Salt: 79}, {Height: 3, TC: tcIn, Content: cBig, Leftover: "trunc0"}},
			Sources: ab, Queue: 1, FetchAns: []string{"blk", "err"}, SyncAns: []string{"synced", "err"}, Avail: true, GetAns: []string{"eds", "notfound"},
			Faults: []string{"link", "q4-create"}, RmFaults: []string{"rm-ods", "rm-q4"}, Stop: true}, 18},
		{bCfg{Name: "T-pruned-3src-q2", Blocks: []vBlockSpec{{Height: 1, TC: tcOut, Content: cBlob}, {Height: 2, TC: tcIn, Content: cTxBlob}, {Height: 3, TC: tcIn, Content: cEmpty}},
			Sources: abc, Queue: 2, FetchAns: []string{"blk", "err", "timeout"}, SyncAns: []string{"synced", "syncing", "err", "timeout"}, Tick: true}, 18},
		{bCfg{Name: "T-archival-2src-4h", Archival: true, Blocks: []vBlockSpec{{Height: 1, TC: tcOut, Content: cBlob}, {Height: 2, TC: tcOut, Content: cEmpty}, {Height: 3, TC: tcIn, Content: cTx}, {Height: 4, TC: tcOut, Content: cBig}},
			Sources: ab, Queue: 1, FetchAns: []string{"blk", "err"}, SyncAns: []string{"synced", "err"}}, 18},
		{bCfg{Name: "T-pruned-everything", Blocks: []vBlockSpec{{Height: 1, TC: tcOut, Content: cBlob}, {Height: 2, TC: tcIn, Content: cTxBlob}, {Height: 3, TC: tcIn, Content: cEmpty}},
			Sources: ab, Queue: 1, FetchAns: []string{"blk", "err"}, SyncAns: []string{"synced", "syncing", "err"}, Faults: allFaults, Avail: true, GetAns: allGet, Stop: true}, 18},
		{bCfg{Name: "T-archival-everything", Archival: true, Blocks: []vBlockSpec{{Height: 1, TC: tcOut, Content: cBlob}, {Height: 2, TC: tcOut, Content: cEmpty}, {Height: 3, TC: tcIn, Content: cTxBlob}},
			Sources: ab, Queue: 1, FetchAns: []string{"blk", "err"}, SyncAns: []string{"synced", "err"}, Faults: []string{"link", "symlink", "ods-create", "q4-write"}, Avail: true,
			GetAns: []string{"eds", "notfound", "canceled", "byz"}, Stop: true}, 18},
		{bCfg{Name: "T-pruned-3src-4h", Blocks: []vBlockSpec{{Height: 1, TC: tcOut, Content: cBlob}, {Height: 2, TC: tcIn, Content: cTxBlob}, {Height: 3, TC: tcIn, Content: cEmpty}, {Height: 4, TC: tcIn, Content: cBig}},
			Sources: abc, Queue: 1, FetchAns: []string{"blk", "err"}, SyncAns: []string{"synced", "syncing", "err"}}, 18},
		{bCfg{Name: "T-archival-3src-avail", Archival: true, Blocks: []vBlockSpec{{Height: 1, TC: tcOut, Content: cBlob}, {Height: 2, TC: tcIn, Content: cEmpty}, {Height: 3, TC: tcOut, Content: cTx}},
			Sources: abc, Queue: 1, FetchAns: []string{"blk", "err"}, SyncAns: []string{"synced", "err"}, Avail: true, GetAns: []string{"eds", "deadline"}}, 18},
		{bCfg{Name: "T-pruned-parked-put-race", Blocks: []vBlockSpec{{Height: 1, TC: tcIn, Content: cTxBlob}, {Height: 2, TC: tcIn, Content: cEmpty}, {Height: 3, TC: tcOut, Content: cBlob}},
			Sources: ab, Queue: 1, FetchAns: []string{"blk", "err"}, SyncAns: []string{"synced", "syncing", "err"}, Avail: true, GetAns: []string{"eds", "notfound", "canceled"},
			Pauses: allFaults, Faults: []string{"link"}}, 18},
		{bCfg{Name: "T-archival-parked-put-race", Archival: true, Blocks: []vBlockSpec{{Height: 1, TC: tcOut, Content: cBlob}, {Height: 2, TC: tcOut, Content: cEmpty}, {Height: 3, TC: tcIn, Content: cTx}},
			Sources: []string{"A"}, Queue: 1, FetchAns: []string{"blk", "err"}, SyncAns: []string{"synced", "err"}, Avail: true, GetAns: []string{"eds", "notfound"},
			Pauses: []string{"ods-create", "ods-write", "link", "symlink", "q4-write"}}, 18},
	}
	return append(q, th...)
}

// ---------------------------------------------------------------- Part B scripts

func partBScripts(tier string) (scripts []bScript, contents int) {
	var cs []vContent
	var versions []uint64
	if tier == "thorough" {
		cs = vContentAlphabet([]int{10, 300, 1000}, 2, [][]vBlobSpec{{{1, 1}}, {{1, 400}}, {{2, 1500}}, {{1, 400}, {2, 1}}}, 2)
		versions = []uint64{0, 6, 3}
	} else {
		cs = vContentAlphabet([]int{10, 1000}, 2, [][]vBlobSpec{{{1, 400}}, {{2, 1500}}, {{1, 400}, {2, 1}}}, 1)
		versions = []uint64{0}
	}
	steps := []string{"ann:1:A", "auto", "ann:1:B", "auto", "stop", "start", "ann:1:B", "auto"}
	for _, c := range cs {
		for _, v := range versions {
			for _, arch := range []bool{false, true} {
				for _, tc := range []string{tcIn, tcOut} {
					cfg := bCfg{Name: "B-content", Archival: arch, Blocks: []vBlockSpec{{Height: 1, TC: tc, Content: c, AppV: v}},
						Sources: []string{"A", "B"}, FetchAns: []string{"blk"}, SyncAns: []string{"synced"}, Stop: true}
					scripts = append(scripts, bScript{cfg, steps})
					if len(c.Blobs) > 0 && v == 0 {
						cfg.Blocks = []vBlockSpec{{Height: 1, TC: tc, Content: c, Unbuildable: true}}
						cfg.Name = "B-unbuildable"
						scripts = append(scripts, bScript{cfg, steps})
					}
				}
			}
		}
	}
	// the same non-empty payload (same data hash) at two heights, and crash leftovers, through
	// the listener
	for _, c := range cs {
		if c.isEmpty() {
			continue
		}
		for _, arch := range []bool{false, true} {
			for _, tc := range []string{tcIn, tcOut} {
				if tc == tcOut && !arch {
					continue
				}
				cfg := bCfg{Name: "B-same-payload", Archival: arch, Blocks: []vBlockSpec{{Height: 1, TC: tc, Content: c, Salt: 91}, {Height: 2, TC: tc, Content: c, Salt: 91}},
					Sources: []string{"A", "B"}, FetchAns: []string{"blk"}, SyncAns: []string{"synced"}, Stop: true}
				scripts = append(scripts, bScript{cfg, []string{"ann:1:A", "auto", "ann:2:A", "auto", "ann:1:B", "auto", "stop", "start", "ann:2:B", "auto", "ann:1:A", "auto"}})
				for _, lo := range []string{"nolink", "trunc", "trunc0"} {
					cfg := bCfg{Name: "B-leftover", Archival: arch, Blocks: []vBlockSpec{{Height: 1, TC: tc, Content: c, Leftover: lo}},
						Sources: []string{"A", "B"}, FetchAns: []string{"blk"}, SyncAns: []string{"synced"}, Stop: true}
					scripts = append(scripts, bScript{cfg, []string{"ann:1:A", "auto", "stop", "start", "ann:1:B", "auto"}})
				}
			}
		}
	}
	// a chain of heights through one node: more heights than the accessor cache holds
	n := 14
	if tier == "thorough" {
		n = 40
	}
	for _, arch := range []bool{false, true} {
		cfg := bCfg{Name: "B-chain", Archival: arch, Sources: []string{"A", "B"}, FetchAns: []string{"blk"}, SyncAns: []string{"synced"}, Stop: true}
		var st []string
		for i := 0; i < n; i++ {
			tc := tcIn
			if i%5 == 3 {
				tc = tcOut
			}
			cfg.Blocks = append(cfg.Blocks, vBlockSpec{Height: int64(i + 1), TC: tc, Content: cs[(i*7)%len(cs)]})
		}
		// announced out of order by two endpoints, one lagging
		for i := 0; i < n; i++ {
			h := (i*5)%n + 1
			st = append(st, fmt.Sprintf("ann:%d:A", h), "auto")
			if i%3 == 0 {
				st = append(st, fmt.Sprintf("ann:%d:B", (i*3)%n+1), "auto")
			}
		}
		st = append(st, "stop", "start")
		for i := 0; i < n; i++ {
			st = append(st, fmt.Sprintf("ann:%d:B", i+1), "auto")
		}
		scripts = append(scripts, bScript{cfg, st})
	}
	return scripts, len(cs)
}

// ---------------------------------------------------------------- Part C scripts

func partCScripts(tier string) (scripts []bScript, layouts int) {
	var ls []sq.Layout
	ls = append(ls, sq.Layouts(1, 0, nil)...)
	if tier == "thorough" {
		ls = append(ls, sq.Layouts(2, 0, []int{0, 1})...)
		ls = append(ls, sq.Layouts(4, 2, nil)...)
		ls = append(ls, sq.Fixed8()...)
	} else {
		ls = append(ls, sq.Layouts(2, 2, nil)...)
		ls = append(ls, sq.MustParse("w2:TX1,PFB1,A1,TAIL1", "w4:TX1,A5p2,B3,TAIL7")...)
	}
	reps := map[string]bool{"w1:TAIL1": true, "w1:A1": true, "w2:TX1,PFB1,A1,TAIL1": true, "w4:TX1,A5p2,B3,TAIL7": true}
	for _, l := range ls {
		name := l.String()
		for _, arch := range []bool{false, true} {
			for _, tc := range []string{tcIn, tcOut} {
				cfg := bCfg{Name: "C-avail", Archival: arch, Blocks: []vBlockSpec{{Height: 1, TC: tc, Layout: name}},
					Sources: []string{"A"}, Avail: true, GetAns: allGet, Faults: allFaults, Pauses: allFaults, RmFaults: []string{"rm-ods", "rm-q4", "rm-link"}}
				add := func(steps ...string) { scripts = append(scripts, bScript{cfg, steps}) }
				if reps[name] {
					for _, a1 := range allGet {
						for _, a2 := range allGet {
							add("avail:1", "get:"+a1+"?", "avail:1", "get:"+a2+"?")
						}
					}
				} else {
					for _, a1 := range allGet {
						add("avail:1", "get:"+a1+"?", "avail:1", "get:eds?")
					}
				}
				for _, f := range allFaults {
					add("fault:"+f, "avail:1", "get:eds?", "avail:1", "get:eds?")
				}
				if name != "w1:TAIL1" {
					// the same square at a second height; start states left by a crashed put; a
					// failed put whose clean-up cannot remove the hash-named file
					two := cfg
					two.Name = "C-same-payload"
					two.Blocks = []vBlockSpec{{Height: 1, TC: tc, Layout: name, Salt: 5}, {Height: 2, TC: tc, Layout: name, Salt: 5}}
					scripts = append(scripts, bScript{two, []string{"avail:1", "get:eds?", "avail:2", "get:eds?", "avail:2", "get:eds?", "avail:1", "get:eds?"}})
					scripts = append(scripts, bScript{two, []string{"avail:1", "get:eds?", "avail:2", "get:notfound?", "avail:2", "get:eds?"}})
					for _, lo := range []string{"nolink", "trunc", "trunc0"} {
						l := cfg
						l.Name = "C-leftover"
						l.Blocks = []vBlockSpec{{Height: 1, TC: tc, Layout: name, Leftover: lo}}
						scripts = append(scripts, bScript{l, []string{"avail:1", "get:eds?", "avail:1", "get:eds?"}})
						scripts = append(scripts, bScript{l, []string{"avail:1", "get:notfound?", "avail:1", "get:eds?"}})
					}
					for _, f := range []string{"link", "ods-write", "q4-write"} {
						for _, r := range []string{"rm-ods", "rm-q4", "rm-link"} {
							if tier != "thorough" && !reps[name] && !(r == "rm-ods" && f != "q4-write") {
								continue // quick: all nine pairs on the representative squares only
							}
							add("fault:"+f, "fault:"+r, "avail:1", "get:eds?", "avail:1", "get:eds?")
						}
					}
				}
				if reps[name] {
					// the put parked at every effect, then released either way
					for _, f := range allFaults {
						for _, r := range []string{"ok", "fail"} {
							add("fault:pause-"+f, "avail:1", "get:eds?", "resume:"+r+"?", "avail:1", "get:eds?")
						}
					}
				}
			}
		}
	}
	return scripts, len(ls)
}

// ---------------------------------------------------------------- warm-up

// warmUp creates lazily initialised globals outside any bubble and then checks, inside one,
// that the harness's observation points work: the bubble clock, the listener outcome reports,
// the store fault points, the positive controls.
func warmUp(t *testing.T, rep *vx.Report) (faultKinds []string, ok bool) {
	if _, err := vGetBlock(vBlockSpec{Height: 1, TC: tcIn, Content: cTxBlob}); err != nil {
		rep.Infra(err.Error())
		return nil, false
	}
	bInstallGlobals()
	out := &bOutcomes{m: map[string]int64{}}
	cfg := bCfg{Name: "warm-up", Archival: true, Blocks: []vBlockSpec{{Height: 1, TC: tcIn, Content: cTxBlob}, {Height: 2, TC: tcOut, Content: cEmpty}, {Height: 3, TC: tcOut, Content: cBlob}},
		Sources: []string{"A", "B"}, FetchAns: []string{"blk"}, SyncAns: []string{"synced"}, Avail: true, GetAns: allGet, Stop: true}
	var epochOK bool
	synctest.Test(t, func(*testing.T) { epochOK = time.Now().Equal(vEpoch) })
	if !epochOK {
		rep.Infra("the bubble clock does not start at the assumed epoch")
		return nil, false
	}
	seen0 := bReportSeen.Load()
	steps := []string{"ann:1:A", "auto", "ann:2:B", "auto", "ann:1:B", "auto", "avail:3", "get:eds", "stop", "start", "ann:3:A", "auto"}
	h1, err := runScript(t, bScript{cfg, steps}, out, false)
	if err != nil {
		report(rep, "warm-up", cfg, h1, err)
		return nil, false
	}
	if bReportSeen.Load()-seen0 < 4 {
		rep.Infra("the listener's block-event outcome counter (core_block_events_total) is not observed: cannot judge ingest reports")
		return nil, false
	}
	o := out.sorted()
	for _, k := range allFaults {
		if o["store-effect:"+k] > 0 {
			faultKinds = append(faultKinds, k)
		}
	}
	if o["published-header-validates"] < 1 || o["listener:processed"] < 2 || o["listener:duplicate"] < 2 {
		rep.Infra(fmt.Sprintf("warm-up positive controls missing: %v", o))
		return nil, false
	}
	// determinism: the same history twice gives the same observations
	h2, err2 := runScript(t, bScript{cfg, steps}, out, false)
	if err2 != nil || strings.Join(h1, " ") != strings.Join(h2, " ") {
		rep.Infra(fmt.Sprintf("NONDETERMINISM in warm-up: %v vs %v (%v)", h1, h2, err2))
		return nil, false
	}
	return faultKinds, true
}

// ---------------------------------------------------------------- the check

func TestVerifC15(t *testing.T) {
	logging.SetAllLoggers(logging.LevelFatal)
	os.Unsetenv("CELESTIA_OVERRIDE_AVAILABILITY_WINDOW")
	rep := vx.NewReport("C15", "model_checking")
	rep.Rule = "Part A: explicit-state BFS over event histories of one bridge node (real core.Listener started with Start, real MultiSource fan-in over fake endpoints, " +
		"real store.Store on a fresh directory, real full.ShareAvailability with a fake getter); events: announcement (height, endpoint), fetch answer, sync-status answer, " +
		"arm a store fault, start availability check, getter answer, idle tick, stop, restart over the same directory; a state is distinct when its canonical fingerprint " +
		"(phase, armed fault, outstanding announcements, pending calls and their context state, per height: must-be-stored / publications / hash announcements / successful ingests, " +
		"window-edge flag) was not seen. Part B: every block content of the stated transaction alphabet x application version x archival/pruned x inside/outside the window, " +
		"ingested, re-announced, restarted, re-announced; plus a chain of heights announced out of order by two endpoints. Part C: every listed square layout x archival/pruned x " +
		"inside/outside x getter answers (pairs for four representative squares) and x every store fault. A case is non-trivial when it reaches at least one ingest attempt."
	rep.Assumptions = []string{
		"consensus endpoints serve the same block for the same height; only consistent blocks are required to hash to their data hash (one inconsistent block is explored for the stored==published clause only)",
		"the getter returns the square committed to by the header it was asked for, or an error (getter soundness is C06)",
		"a collaborator call started with a finished context fails at once with the context error",
		"store faults: one effect (hard link, symlink, ODS/Q4 file creation, ODS/Q4 buffered write) fails once, and in addition one removal of an existing hash-named file may fail once; crash leftovers (no height link / torn ODS file) are start states, crash cuts are C07",
		"the boundary of the window (a block that leaves the window while it is being ingested) is explored but its storage is not constrained",
		"'published' = handed to the header broadcaster; 'reported' = the listener's per-event outcome counter / the error returned by SharesAvailable",
		"the listener handles one announcement at a time (the harness cannot drive overlapping ingests and reports them as an infrastructure error)",
	}

	if rp := os.Getenv("VERIF_REPLAY"); rp != "" {
		replayBridge(t, rep, rp)
		return
	}

	faultKinds, ok := warmUp(t, rep)
	if !ok {
		rep.SetExhaustive(false)
		rep.Finish()
		t.Fail()
		return
	}
	rep.Set("store_fault_points_active", faultKinds)

	quick := rep.Tier != "thorough"
	deadline := rep.Deadline(85*time.Second, 18*time.Minute)
	exhaustive := true
	out := &bOutcomes{m: map[string]int64{}}

	// ---- Parts B and C first (bounded cost), then Part A with the remaining budget
	bScripts, nContents := partBScripts(rep.Tier)
	bDeadline := deadline
	if quick && time.Now().Add(25*time.Second).Before(deadline) {
		bDeadline = time.Now().Add(25 * time.Second)
	}
	tB := time.Now()
	bst := runScripts(t, rep, "B", bScripts, out, bDeadline)
	wallB := time.Since(tB).Seconds()
	rep.Count(bst.ran, bst.distinct, 0, bst.events)
	rep.Set("part_B", map[string]any{"contents": nContents, "scripts": len(bScripts), "scripts_run": bst.ran, "distinct_executed_histories": bst.distinct, "events_applied": bst.events, "completed": bst.complete, "wall_s": wallB})
	exhaustive = exhaustive && bst.complete
	if len(bScripts) > 0 {
		rep.AddSample(map[string]any{"part": "B", "cfg": bScripts[len(bScripts)/2].Cfg.String(), "steps": bScripts[len(bScripts)/2].Steps})
	}

	cScripts, nLayouts := partCScripts(rep.Tier)
	cDeadline := deadline
	if quick && time.Now().Add(25*time.Second).Before(deadline) {
		cDeadline = time.Now().Add(25 * time.Second)
	}
	tC := time.Now()
	cst := runScripts(t, rep, "C", cScripts, out, cDeadline)
	wallC := time.Since(tC).Seconds()
	rep.Count(cst.ran, cst.distinct, 0, cst.events)
	rep.Set("part_C", map[string]any{"layouts": nLayouts, "scripts": len(cScripts), "scripts_run": cst.ran, "distinct_executed_histories": cst.distinct, "events_applied": cst.events, "completed": cst.complete, "wall_s": wallC})
	exhaustive = exhaustive && cst.complete
	if len(cScripts) > 0 {
		rep.AddSample(map[string]any{"part": "C", "cfg": cScripts[len(cScripts)/3].Cfg.String(), "steps": cScripts[len(cScripts)/3].Steps})
	}

	// ---- Part A
	runs := partAConfigs(rep.Tier)
	allEvents := map[string]int64{}
	for i, r := range runs {
		cfg := r.cfg
		left := time.Until(deadline)
		if left <= 0 {
			exhaustive = false
			rep.Set(fmt.Sprintf("part_A_run_%02d", i), map[string]any{"cfg": cfg.String(), "skipped": "budget exhausted"})
			continue
		}
		// every run may use what is left of the budget (the runs are listed small to large; a
		// per-run share would cap a run although the budget as a whole suffices)
		runDeadline := deadline
		tA := time.Now()
		st := vx.BFS(vx.BFSOpts{
			MaxDepth: r.depth,
			Deadline: runDeadline,
			Workers:  vx.Workers(),
			RunInstance: func(f func()) {
				synctest.Test(t, func(*testing.T) { f() })
			},
			OnHang: func(hist []string, ev string) {
				h := append(hist, ev)
				rep.Violation("C15/no-quiescence", fmt.Sprintf("the node did not become quiescent within 180 s of real time after history %v", h),
					map[string]any{"part": "A", "cfg": cfg, "history": h})
				rep.SetExhaustive(false)
				rep.Finish()
				os.Exit(1)
			},
		}, func() vx.Sys { return newBridgeSys(cfg, out) }, func(hist []string, err error) {
			report(rep, "A", cfg, hist, err)
		})
		if !st.Complete {
			exhaustive = false
		}
		rep.Count(st.Replays, int64(st.States), int64(st.States), st.Transitions)
		for k, v := range st.EventCounts {
			allEvents[k] += v
		}
		rep.Set(fmt.Sprintf("part_A_run_%02d", i), map[string]any{
			"cfg": cfg.String(), "states": st.States, "transitions": st.Transitions, "depth_completed": st.DepthDone, "depth_bound": r.depth,
			"frontier_emptied": st.Complete, "capped": st.Capped, "depth_capped": st.DepthCapped, "states_per_depth": st.PerDepth, "events_applied": st.EventsApplied,
			"wall_s": time.Since(tA).Seconds(),
		})
		for _, h := range st.SampleHist {
			if len(h) >= 5 {
				rep.AddSample(map[string]any{"part": "A", "cfg": cfg.Name, "history": h})
				// determinism self-check on a real history
				sc := bScript{cfg, h}
				h1, e1 := runScript(t, sc, nil, false)
				h2, e2 := runScript(t, sc, nil, false)
				if (e1 == nil) != (e2 == nil) || strings.Join(h1, " ") != strings.Join(h2, " ") {
					rep.Infra(fmt.Sprintf("NONDETERMINISM: history %v replayed twice: %v / %v", h, e1, e2))
				}
				break
			}
		}
	}
	rep.Set("event_class_counts", allEvents)
	o := out.sorted()
	rep.Set("observed_outcomes", o)
	rep.Set("distinct_observed_outcomes", len(o))
	rep.Set("store_removal_fault_point_active", o["store-effect:rm-ods"] > 0)
	rep.Set("positive_controls", map[string]any{
		"published_headers_passing_header.Validate": o["published-header-validates"],
		"consensus_ingests_reported_processed":      o["listener:processed"],
	})
	rep.Set("explanation", "Part A is exhaustive for a configuration when frontier_emptied is true (every reachable state of that configuration's alphabet was expanded); "+
		"otherwise up to depth_completed. Parts B and C are exhaustive over their listed alphabets when completed is true.")
	rep.SetExhaustive(exhaustive)
	if rep.Finish() > 0 {
		t.Fail()
	}
}

func replayBridge(t *testing.T, rep *vx.Report, path string) {
	b, err := os.ReadFile(path)
	if err != nil {
		t.Fatalf("replay: %v", err)
	}
	var doc struct {
		Replay struct {
			Part    string   `json:"part"`
			Cfg     bCfg     `json:"cfg"`
			History []string `json:"history"`
		} `json:"replay"`
	}
	if err := json.Unmarshal(b, &doc); err != nil {
		t.Fatalf("replay: %v", err)
	}
	if _, ok := warmUp(t, rep); !ok {
		t.Fatalf("replay: warm-up failed")
	}
	var verr error
	for i := 0; i < 5; i++ {
		_, e := runScript(t, bScript{doc.Replay.Cfg, doc.Replay.History}, nil, i == 0)
		if i > 0 && (e == nil) != (verr == nil) {
			t.Fatalf("NONDETERMINISM: replay %d gave %v, earlier %v", i, e, verr)
		}
		verr = e
	}
	rep.Count(5, 1, 1, int64(len(doc.Replay.History)))
	rep.AddSample(doc.Replay.History)
	rep.SetExhaustive(false)
	if verr != nil {
		fmt.Printf("REPLAY-RESULT violation reproduced 5/5: %v\n", verr)
		rep.Violation(bSig(verr), verr.Error(), doc.Replay)
	} else {
		fmt.Println("REPLAY-RESULT no violation")
	}
	rep.Finish()
}

var _ = sort.Strings
