package header_test

// Independent reference for C16, written from the wire formats and hash
// definitions (RFC-6962 style merkle tree over protobuf-encoded leaves,
// canonical vote sign-bytes, ed25519 from the Go standard library). Nothing in
// this file calls a Hash()/Verify*/ValidateBasic method of the code under test.

import (
	"bytes"
	"crypto/ed25519"
	"crypto/sha256"
	"encoding/binary"
	"math/big"
	"time"

	cmted "github.com/cometbft/cometbft/crypto/ed25519"
	core "github.com/cometbft/cometbft/types"

	"github.com/celestiaorg/celestia-node/header"
)

// ---------------------------------------------------------------------------
// merkle tree (leaf = sha256(0x00||x), inner = sha256(0x01||l||r), split at the
// largest power of two strictly below n, empty tree = sha256(""))

func refLeaf(b []byte) []byte {
	h := sha256.New()
	h.Write([]byte{0})
	h.Write(b)
	return h.Sum(nil)
}

func refInner(l, r []byte) []byte {
	h := sha256.New()
	h.Write([]byte{1})
	h.Write(l)
	h.Write(r)
	return h.Sum(nil)
}

func refRoot(items [][]byte) []byte {
	switch len(items) {
	case 0:
		s := sha256.Sum256(nil)
		return s[:]
	case 1:
		return refLeaf(items[0])
	}
	k := 1
	for k*2 < len(items) {
		k *= 2
	}
	return refInner(refRoot(items[:k]), refRoot(items[k:]))
}

// ---------------------------------------------------------------------------
// minimal protobuf writer (proto3: zero values omitted)

func pbVarint(b []byte, v uint64) []byte {
	for v >= 0x80 {
		b = append(b, byte(v)|0x80)
		v >>= 7
	}
	return append(b, byte(v))
}

func pbBytes(b []byte, field int, v []byte) []byte {
	if len(v) == 0 {
		return b
	}
	return pbBytesAlways(b, field, v)
}

func pbBytesAlways(b []byte, field int, v []byte) []byte {
	b = pbVarint(b, uint64(field<<3|2))
	b = pbVarint(b, uint64(len(v)))
	return append(b, v...)
}

func pbUvarint(b []byte, field int, v uint64) []byte {
	if v == 0 {
		return b
	}
	b = pbVarint(b, uint64(field<<3|0))
	return pbVarint(b, v)
}

func pbSfixed64(b []byte, field int, v int64) []byte {
	if v == 0 {
		return b
	}
	b = pbVarint(b, uint64(field<<3|1))
	var x [8]byte
	binary.LittleEndian.PutUint64(x[:], uint64(v))
	return append(b, x[:]...)
}

// google.protobuf.Timestamp{seconds=1,nanos=2}
func pbTimestamp(t time.Time) []byte {
	var b []byte
	b = pbUvarint(b, 1, uint64(t.Unix()))
	b = pbUvarint(b, 2, uint64(int64(int32(t.Nanosecond()))))
	return b
}

// BlockID{hash=1, part_set_header=2 (always present){total=1, hash=2}}
func pbBlockID(id core.BlockID) []byte {
	var psh []byte
	psh = pbUvarint(psh, 1, uint64(id.PartSetHeader.Total))
	psh = pbBytes(psh, 2, id.PartSetHeader.Hash)
	var b []byte
	b = pbBytes(b, 1, id.Hash)
	b = pbBytesAlways(b, 2, psh)
	return b
}

// wrappers google.protobuf.{String,Int64,Bytes}Value{value=1}; an empty string or
// byte slice is encoded as the empty leaf.
func wrapBytes(v []byte) []byte {
	if len(v) == 0 {
		return nil
	}
	return pbBytesAlways(nil, 1, v)
}

// ---------------------------------------------------------------------------
// hashes

// refHeaderHash is the block hash: merkle root over the fourteen header fields in
// declaration order. A header without a validators hash has no hash.
func refHeaderHash(h *header.RawHeader) []byte {
	if len(h.ValidatorsHash) == 0 {
		return nil
	}
	var ver []byte
	ver = pbUvarint(ver, 1, h.Version.Block)
	ver = pbUvarint(ver, 2, h.Version.App)
	return refRoot([][]byte{
		ver,
		wrapBytes([]byte(h.ChainID)),
		pbUvarint(nil, 1, uint64(h.Height)),
		pbTimestamp(h.Time),
		pbBlockID(h.LastBlockID),
		wrapBytes(h.LastCommitHash),
		wrapBytes(h.DataHash),
		wrapBytes(h.ValidatorsHash),
		wrapBytes(h.NextValidatorsHash),
		wrapBytes(h.ConsensusHash),
		wrapBytes(h.AppHash),
		wrapBytes(h.LastResultsHash),
		wrapBytes(h.EvidenceHash),
		wrapBytes(h.ProposerAddress),
	})
}

// refDAHHash: merkle root over all row roots followed by all column roots.
func refDAHHash(rows, cols [][]byte) []byte {
	all := make([][]byte, 0, len(rows)+len(cols))
	all = append(all, rows...)
	all = append(all, cols...)
	return refRoot(all)
}

// refValsHash: merkle root over SimpleValidator{pub_key=1{ed25519=1}, voting_power=2}.
// ok=false when a member cannot be encoded (nil validator, nil or non-ed25519 key).
func refValsHash(vals []*core.Validator) (hash []byte, ok bool) {
	leaves := make([][]byte, len(vals))
	for i, v := range vals {
		if v == nil {
			return nil, false
		}
		pk, isEd := v.PubKey.(cmted.PubKey)
		if !isEd {
			return nil, false
		}
		key := pbBytesAlways(nil, 1, []byte(pk))
		var b []byte
		b = pbBytesAlways(b, 1, key)
		b = pbUvarint(b, 2, uint64(v.VotingPower))
		leaves[i] = b
	}
	return refRoot(leaves), true
}

// refVoteSignBytes: length-prefixed CanonicalVote{type=1, height=2 sfixed64,
// round=3 sfixed64, block_id=4 (absent for a nil vote), timestamp=5 (always),
// chain_id=6} of the precommit that signature idx of the commit stands for.
func refVoteSignBytes(chainID string, c *core.Commit, idx int) []byte {
	cs := c.Signatures[idx]
	var body []byte
	body = pbUvarint(body, 1, 2) // SIGNED_MSG_TYPE_PRECOMMIT
	body = pbSfixed64(body, 2, c.Height)
	body = pbSfixed64(body, 3, int64(c.Round))
	if cs.BlockIDFlag == core.BlockIDFlagCommit {
		id := c.BlockID
		zero := len(id.Hash) == 0 && id.PartSetHeader.Total == 0 && len(id.PartSetHeader.Hash) == 0
		if !zero {
			body = pbBytesAlways(body, 4, pbBlockID(id))
		}
	}
	body = pbBytesAlways(body, 5, pbTimestamp(cs.Timestamp))
	body = pbBytes(body, 6, []byte(chainID))
	out := pbVarint(nil, uint64(len(body)))
	return append(out, body...)
}

// sigMemo remembers results of the (pure) signature check; many cases share
// signatures. A nil memo is valid and remembers nothing.
type sigMemo struct{ m map[string]bool }

func (sm *sigMemo) ok(v *core.Validator, msg, sig []byte) bool {
	if v == nil {
		return false
	}
	pk, isEd := v.PubKey.(cmted.PubKey)
	if !isEd || len(pk) != ed25519.PublicKeySize || len(sig) != ed25519.SignatureSize {
		return false
	}
	if sm == nil {
		return ed25519.Verify(ed25519.PublicKey(pk), msg, sig)
	}
	key := string(pk) + string(sig) + string(msg)
	if r, hit := sm.m[key]; hit {
		return r
	}
	if sm.m == nil || len(sm.m) > 200000 {
		sm.m = map[string]bool{}
	}
	r := ed25519.Verify(ed25519.PublicKey(pk), msg, sig)
	sm.m[key] = r
	return r
}

func refSigOK(v *core.Validator, msg, sig []byte) bool { return (*sigMemo)(nil).ok(v, msg, sig) }

// ---------------------------------------------------------------------------
// the predicate of the property

type pred struct {
	decided    bool // false: the case is outside what the predicate can judge (negative / overflowing powers, foreign key types)
	dahOK      bool // equally many row and column roots and merkle(rows||cols) == DataHash
	valsOK     bool // merkle(validators) == ValidatorsHash
	commitFor  bool // commit height == header height and commit block hash == recomputed header hash
	powerOK    bool // 3*valid > 2*total
	valid      *big.Int
	total      *big.Int
	validCount int
}

func (p pred) ok() bool { return p.dahOK && p.valsOK && p.commitFor && p.powerOK }

func (p pred) firstFail() string {
	switch {
	case !p.dahOK:
		return "dah-hash-mismatch"
	case !p.valsOK:
		return "valset-hash-mismatch"
	case !p.commitFor:
		return "commit-not-for-header"
	case !p.powerOK:
		return "insufficient-valid-power"
	}
	return ""
}

func powersDecidable(vals []*core.Validator) bool {
	for _, v := range vals {
		if v == nil || v.VotingPower < 0 {
			return false
		}
		if _, isEd := v.PubKey.(cmted.PubKey); !isEd {
			return false
		}
	}
	return true
}

// tallyValid sums the power of the members of vals for which the commit carries a
// valid for-block signature. Matching is the most permissive one that still names a
// member: the member at the signature's own index if its address matches, otherwise
// the first not yet counted member with that address. Every member counts once.
func tallyValid(sm *sigMemo, chainID string, c *core.Commit, vals []*core.Validator) (valid *big.Int, count int) {
	valid = new(big.Int)
	used := make([]bool, len(vals))
	for i, cs := range c.Signatures {
		if cs.BlockIDFlag != core.BlockIDFlagCommit {
			continue
		}
		msg := refVoteSignBytes(chainID, c, i)
		pick := -1
		if i < len(vals) && !used[i] && vals[i] != nil && bytes.Equal(vals[i].Address, cs.ValidatorAddress) {
			pick = i
		} else {
			for j, v := range vals {
				if !used[j] && v != nil && bytes.Equal(v.Address, cs.ValidatorAddress) {
					pick = j
					break
				}
			}
		}
		if pick < 0 || !sm.ok(vals[pick], msg, cs.Signature) {
			continue
		}
		used[pick] = true
		valid.Add(valid, big.NewInt(vals[pick].VotingPower))
		count++
	}
	return valid, count
}

func totalPower(vals []*core.Validator) *big.Int {
	t := new(big.Int)
	for _, v := range vals {
		t.Add(t, big.NewInt(v.VotingPower))
	}
	return t
}

// evalPred evaluates "internally consistent and properly signed".
func evalPred(h *header.ExtendedHeader) pred { return evalPredM(nil, h) }

func evalPredM(sm *sigMemo, h *header.ExtendedHeader) pred {
	p := pred{decided: true, valid: new(big.Int), total: new(big.Int)}
	if h.Commit == nil || h.ValidatorSet == nil || h.DAH == nil {
		return p // a missing part satisfies no clause
	}
	vals := h.ValidatorSet.Validators
	if !powersDecidable(vals) {
		p.decided = false
		return p
	}
	p.dahOK = len(h.DAH.RowRoots) == len(h.DAH.ColumnRoots) &&
		bytes.Equal(refDAHHash(h.DAH.RowRoots, h.DAH.ColumnRoots), h.DataHash)
	if vh, ok := refValsHash(vals); ok {
		p.valsOK = len(vals) > 0 && bytes.Equal(vh, h.ValidatorsHash)
	}
	hh := refHeaderHash(&h.RawHeader)
	p.commitFor = len(hh) > 0 && h.Commit.Height == h.RawHeader.Height && bytes.Equal(hh, h.Commit.BlockID.Hash)
	p.total = totalPower(vals)
	p.valid, p.validCount = tallyValid(sm, h.RawHeader.ChainID, h.Commit, vals)
	l := new(big.Int).Mul(p.valid, big.NewInt(3))
	r := new(big.Int).Mul(p.total, big.NewInt(2))
	p.powerOK = l.Cmp(r) > 0
	return p
}

// trustPred: "signed by enough of the trusted validators" — valid for-block
// signatures of members of the trusted set (matched by address, each once) carry
// more than one third (the light client's default trust level) of the trusted power.
func trustPred(trusted, untrusted *header.ExtendedHeader) (decided, ok bool, valid, total *big.Int) {
	return trustPredM(nil, trusted, untrusted)
}

func trustPredM(sm *sigMemo, trusted, untrusted *header.ExtendedHeader) (decided, ok bool, valid, total *big.Int) {
	if untrusted.Commit == nil || trusted.ValidatorSet == nil {
		return true, false, new(big.Int), new(big.Int)
	}
	vals := trusted.ValidatorSet.Validators
	if !powersDecidable(vals) {
		return false, false, nil, nil
	}
	c := untrusted.Commit
	valid = new(big.Int)
	used := make([]bool, len(vals))
	for i, cs := range c.Signatures {
		if cs.BlockIDFlag != core.BlockIDFlagCommit {
			continue
		}
		pick := -1
		for j, v := range vals {
			if bytes.Equal(v.Address, cs.ValidatorAddress) {
				pick = j
				break
			}
		}
		if pick < 0 || used[pick] {
			continue
		}
		if !sm.ok(vals[pick], refVoteSignBytes(trusted.RawHeader.ChainID, c, i), cs.Signature) {
			continue
		}
		used[pick] = true
		valid.Add(valid, big.NewInt(vals[pick].VotingPower))
	}
	total = totalPower(vals)
	l := new(big.Int).Mul(valid, big.NewInt(3))
	return true, l.Cmp(total) > 0, valid, total
}
