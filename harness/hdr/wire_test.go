package header_test

// Non-canonical wire encodings for C16's "the gossip message id depends only on the
// block it commits to" and "re-encoding changes neither verdict nor hash" clauses.
//
// The canonical encoding of an honest header is split into its four top-level
// fields by a parser written here; protobuf-legal variations are then assembled at
// the byte level: the four fields in every order, each field preceded / followed by
// an empty, partial ("bare"), duplicated or neighbouring-header copy of itself
// (protobuf decoders merge repeated occurrences of a message field), unknown fields,
// wrong wire types, non-minimal varints in tags and lengths.
//
// Oracle (differential, nothing hand-written about what the bytes "should" mean):
// if UnmarshalExtendedHeader(b) succeeds with H', then MsgID(b) must equal
// MsgID(MarshalBinary(H')), and H' itself goes through every rule of evaluate()
// (Validate vs predicate, verdict/Hash/Verify stable under canonical re-encoding).
// If b does not decode nothing is demanded of MsgID except that it returns.

import (
	"bytes"
	"crypto/sha256"
	"encoding/hex"
	"fmt"
	"strings"

	pubsubpb "github.com/libp2p/go-libp2p-pubsub/pb"

	"github.com/celestiaorg/celestia-node/header"
)

// splitTopLevel parses a canonical ExtendedHeader encoding: fields 1..4, each once,
// length-delimited.
func splitTopLevel(b []byte) (payload [5][]byte, ok bool) {
	readVarint := func() (uint64, bool) {
		var v uint64
		for s := uint(0); s < 64; s += 7 {
			if len(b) == 0 {
				return 0, false
			}
			c := b[0]
			b = b[1:]
			v |= uint64(c&0x7f) << s
			if c < 0x80 {
				return v, true
			}
		}
		return 0, false
	}
	seen := 0
	for len(b) > 0 {
		tag, ok := readVarint()
		if !ok || tag&7 != 2 || tag>>3 < 1 || tag>>3 > 4 || payload[tag>>3] != nil {
			return payload, false
		}
		n, ok := readVarint()
		if !ok || uint64(len(b)) < n {
			return payload, false
		}
		payload[tag>>3] = append([]byte{}, b[:n]...)
		b = b[n:]
		seen++
	}
	return payload, seen == 4
}

func nonMinimal(v []byte) []byte { // a varint with one redundant continuation group
	n := append([]byte{}, v...)
	n[len(n)-1] |= 0x80
	return append(n, 0x00)
}

type wireAlpha struct {
	canon  []byte
	items  map[string][]byte
	extras []string
}

var fieldNames = [5]string{"", "header", "commit", "validator_set", "dah"}

func buildWireAlpha(ch *chain, idx int) *wireAlpha {
	a := &wireAlpha{items: map[string][]byte{}}
	hon := ch.honest[idx]
	canon, err := hon.MarshalBinary()
	if err != nil {
		panic(err)
	}
	a.canon = canon
	own, ok := splitTopLevel(canon)
	if !ok {
		panic("canonical encoding is not four length-delimited fields")
	}
	var nb [5][]byte
	hasNb := false
	var nbHdr *EH
	if ns := neighbours(ch, idx); len(ns) > 0 {
		nbHdr = ch.honest[ns[0]]
		nbb, err := nbHdr.MarshalBinary()
		if err != nil {
			panic(err)
		}
		nb, hasNb = splitTopLevel(nbb)
	}
	fld := func(f int, p []byte) []byte { return pbBytesAlways(nil, f, p) }
	extra := func(name string, b []byte) {
		a.items[name] = b
		a.extras = append(a.extras, name)
	}
	for f := 1; f <= 4; f++ {
		a.items[fmt.Sprintf("F%d", f)] = fld(f, own[f])
		tag := pbVarint(nil, uint64(f<<3|2))
		ln := pbVarint(nil, uint64(len(own[f])))
		a.items[fmt.Sprintf("F%d.nonminimal-tag", f)] = append(append(nonMinimal(tag), ln...), own[f]...)
		a.items[fmt.Sprintf("F%d.nonminimal-len", f)] = append(append(append([]byte{}, tag...), nonMinimal(ln)...), own[f]...)
	}
	for f := 1; f <= 4; f++ {
		n := fieldNames[f]
		extra("X."+n+".empty", fld(f, nil))
		extra("X."+n+".self", fld(f, own[f]))
		if hasNb {
			extra("X."+n+".neighbour", fld(f, nb[f]))
		}
	}
	fid := cloneBlockID(hon.Commit.BlockID)
	fid.Hash = detBytes("wire/forged-block", 32)
	fid.PartSetHeader.Total = 7
	fid.PartSetHeader.Hash = detBytes("wire/forged-parts", 32)
	forgedID := pbBlockID(fid)
	// commit {height=1, round=2, block_id=3, signatures=4}
	extra("X.commit.bare-blockid(forged)", fld(2, pbBytesAlways(nil, 3, forgedID)))
	if nbHdr != nil {
		extra("X.commit.bare-blockid(neighbour)", fld(2, pbBytesAlways(nil, 3, pbBlockID(nbHdr.Commit.BlockID))))
	}
	extra("X.commit.bare-blockhash(forged)", fld(2, pbBytesAlways(nil, 3, pbBytes(nil, 1, detBytes("wire/forged-block", 32)))))
	extra("X.commit.bare-parts(forged)", fld(2, pbBytesAlways(nil, 3, pbBytesAlways(nil, 2, pbBytes(pbUvarint(nil, 1, 9), 2, detBytes("wire/forged-parts", 32))))))
	extra("X.commit.height-only", fld(2, pbUvarint(nil, 1, 999)))
	extra("X.commit.round-only", fld(2, pbUvarint(nil, 2, 3)))
	extra("X.commit.one-absent-signature", fld(2, pbBytesAlways(nil, 4, pbUvarint(nil, 1, 1))))
	// header {chain_id=2, height=3, app_hash=11}
	extra("X.header.chainid-only", fld(1, pbBytes(nil, 2, []byte("other-chain"))))
	extra("X.header.height-only", fld(1, pbUvarint(nil, 3, 99)))
	extra("X.header.apphash-only(forged)", fld(1, pbBytes(nil, 11, detBytes("wire/forged-app", 32))))
	// validator_set {validators=1, proposer=2, total_voting_power=3}; validator {address=1, pub_key=2{ed25519=1}, voting_power=3}
	atk := keys["atk"]
	var atkVal []byte
	atkVal = pbBytes(atkVal, 1, atk.addr)
	atkVal = pbBytesAlways(atkVal, 2, pbBytesAlways(nil, 1, atk.pub.Bytes()))
	atkVal = pbUvarint(atkVal, 3, 1000)
	extra("X.validator_set.total-only", fld(3, pbUvarint(nil, 3, 12345)))
	extra("X.validator_set.proposer-only(atk)", fld(3, pbBytesAlways(nil, 2, atkVal)))
	extra("X.validator_set.one-validator(atk)", fld(3, pbBytesAlways(nil, 1, atkVal)))
	// dah {row_roots=1, column_roots=2}
	root := detBytes("forged-root", 90)
	extra("X.dah.one-row(forged)", fld(4, pbBytes(nil, 1, root)))
	extra("X.dah.one-col(forged)", fld(4, pbBytes(nil, 2, root)))
	extra("X.dah.row+col(forged)", fld(4, pbBytes(pbBytes(nil, 1, root), 2, root)))
	// unknown fields and wrong wire types
	extra("U.varint(5)", pbVarint(pbVarint(nil, 5<<3|0), 1))
	extra("U.bytes(15)", pbBytesAlways(nil, 15, []byte("xyz")))
	extra("U.fixed32(6)", append(pbVarint(nil, 6<<3|5), 1, 2, 3, 4))
	extra("U.fixed64(7)", append(pbVarint(nil, 7<<3|1), 1, 2, 3, 4, 5, 6, 7, 8))
	extra("U.bytes(2047)", pbBytesAlways(nil, 2047, own[2]))
	extra("W.commit-as-varint", pbVarint(pbVarint(nil, 2<<3|0), 1))
	extra("W.header-as-fixed64", append(pbVarint(nil, 1<<3|1), 1, 2, 3, 4, 5, 6, 7, 8))
	extra("W.truncated-commit", fld(2, own[2])[:len(own[2])/2])
	return a
}

func (a *wireAlpha) assemble(layout []string) ([]byte, error) {
	var b []byte
	for _, n := range layout {
		it, ok := a.items[n]
		if !ok {
			return nil, fmt.Errorf("unknown wire item %q", n)
		}
		b = append(b, it...)
	}
	return b, nil
}

var perms4 = func() [][]string {
	var out [][]string
	var rec func(cur []string, rest []string)
	rec = func(cur, rest []string) {
		if len(rest) == 0 {
			out = append(out, append([]string{}, cur...))
			return
		}
		for i := range rest {
			r := append(append([]string{}, rest[:i]...), rest[i+1:]...)
			rec(append(cur, rest[i]), r)
		}
	}
	rec(nil, []string{"F1", "F2", "F3", "F4"})
	return out
}()

func insertAt(l []string, slot int, x ...string) []string {
	out := make([]string, 0, len(l)+len(x))
	out = append(out, l[:slot]...)
	out = append(out, x...)
	return append(out, l[slot:]...)
}

// a chunk of layouts: family + first extra
type wireChunk struct {
	fam string
	e1  int
}

func wireChunks(thorough bool, a *wireAlpha) []wireChunk {
	out := []wireChunk{{"orders+varints", -1}}
	for i := range a.extras {
		out = append(out, wireChunk{"one-extra", i})
		if thorough {
			out = append(out, wireChunk{"two-extras-any-slots", i})
		} else {
			out = append(out, wireChunk{"two-extras-front", i}, wireChunk{"two-extras-back", i})
		}
	}
	return out
}

func expandWireChunk(thorough bool, a *wireAlpha, c wireChunk, emit func(layout []string)) {
	ident := perms4[0]
	switch c.fam {
	case "orders+varints":
		for _, p := range perms4 {
			emit(p)
		}
		for f := 1; f <= 4; f++ {
			for _, k := range []string{"tag", "len"} {
				l := append([]string{}, ident...)
				l[f-1] = fmt.Sprintf("F%d.nonminimal-%s", f, k)
				emit(l)
			}
		}
		for _, k := range []string{"tag", "len"} {
			var l []string
			for f := 1; f <= 4; f++ {
				l = append(l, fmt.Sprintf("F%d.nonminimal-%s", f, k))
			}
			emit(l)
		}
	case "one-extra":
		orders := [][]string{ident, perms4[len(perms4)-1]}
		if thorough {
			orders = perms4
		}
		for _, o := range orders {
			for s := 0; s <= 4; s++ {
				emit(insertAt(o, s, a.extras[c.e1]))
			}
		}
	case "two-extras-front":
		for _, e2 := range a.extras {
			emit(insertAt(ident, 0, a.extras[c.e1], e2))
		}
	case "two-extras-back":
		for _, e2 := range a.extras {
			emit(insertAt(ident, 4, a.extras[c.e1], e2))
		}
	case "two-extras-any-slots":
		for _, e2 := range a.extras {
			for s1 := 0; s1 <= 4; s1++ {
				for s2 := s1; s2 <= 4; s2++ {
					emit(insertAt(insertAt(ident, s2, e2), s1, a.extras[c.e1]))
				}
			}
		}
	}
}

func safeMsgID(b []byte) (id string, panicked any) {
	defer func() {
		if r := recover(); r != nil {
			panicked = r
		}
	}()
	return header.MsgID(&pubsubpb.Message{Data: b}), nil
}

// evaluateWire judges one byte string.
func evaluateWire(ec *evalCtx, id caseID, b []byte) (out []violation, decoded *EH) {
	st := ec.st
	st.wireCases++
	extra := map[string]any{"wire_hex": hex.EncodeToString(b)}
	logf := func(format string, a ...any) {
		if ec.summary != nil {
			fmt.Fprintf(ec.summary, format+"\n", a...)
		}
	}
	mid, p := safeMsgID(b)
	if p != nil {
		out = append(out, violation{"C16/MsgID/panic", fmt.Sprintf("%s: MsgID panics on these bytes: %v", id, p), extra})
		return out, nil
	}
	h2, err := decBinary(b)
	if err != nil {
		st.wireDecodeFail++
		logf("wire: %d bytes, decode error (%v), msgid=%x", len(b), err, mid)
		return out, nil
	}
	st.wireDecoded++
	canon, err := encBinary(h2)
	if err != nil {
		st.wireNotReencodable++
		if runValidate(h2).ok {
			out = append(out, violation{"C16/reencode/binary/accepted-but-not-transportable", fmt.Sprintf("%s decodes to a header that validates but cannot be marshalled: %v", id, err), extra})
		}
		return out, h2
	}
	mid2, p := safeMsgID(canon)
	if p != nil {
		out = append(out, violation{"C16/MsgID/panic", fmt.Sprintf("%s: MsgID panics on the canonical re-encoding: %v", id, p), extra})
		return out, h2
	}
	st.msgIDs += 2
	noncanon := !bytes.Equal(b, canon)
	fp := fingerprint(h2)
	same := fp == ec.honFP
	logf("wire: %d bytes, decoded (same header as honest: %v, canonical bytes: %v), msgid=%x, msgid of canonical re-encoding=%x", len(b), same, !noncanon, mid, mid2)
	if mid != mid2 {
		what := "a different header"
		if same {
			what = "exactly the honest header"
		}
		out = append(out, violation{"C16/MsgID/differs-from-canonical-encoding-of-decoded-header",
			fmt.Sprintf("%s: these %d bytes decode (UnmarshalExtendedHeader) to %s committing to block %s (Validate: %s), yet MsgID(bytes)=%q while MsgID(MarshalBinary(decoded))=%q",
				id, len(b), what, blockKey(h2.Commit), runValidate(h2).class, printable(mid), printable(mid2)), extra})
	}
	if noncanon {
		st.wireNonCanonical++
	}
	if same {
		st.wireSameHeader++
	} else {
		st.wireOtherHeader++
	}
	first := true
	if ec.sh != nil {
		ec.sh.mu.Lock()
		if noncanon {
			ec.sh.distinct["w"+string(sha(b))] = struct{}{}
		}
		key := id.Chain + fmt.Sprint(id.Idx) + fp
		_, dup := ec.sh.wireSeen[key]
		ec.sh.wireSeen[key] = struct{}{}
		first = !dup
		ec.sh.mu.Unlock()
	}
	if first {
		// every rule of the object-level check on the decoded header (binary re-encoding path)
		st.wireHeadersEvaluated++
		sub := *ec
		sub.noJSON = true
		for _, v := range evaluate(&sub, id, h2, nil) {
			if v.extra == nil {
				v.extra = map[string]any{}
			}
			v.extra["wire_hex"] = extra["wire_hex"]
			out = append(out, v)
		}
	}
	return out, h2
}

func sha(b []byte) []byte {
	s := sha256.Sum256(b)
	return s[:]
}

func printable(s string) string {
	for _, c := range s {
		if c < 0x20 || c > 0x7e {
			return hex.EncodeToString([]byte(s))
		}
	}
	return s
}

func layoutString(l []string) string { return strings.Join(l, " | ") }
