package header_test

// Generators for C16: deterministic keys, honest header chains, the mutation
// operator alphabet, repair levels (re-deriving hashes / re-signing with a subset
// of the keys) and deep copies that never share memoised state.

import (
	"crypto/sha256"
	"fmt"
	"math"
	"strings"
	"time"

	"github.com/cometbft/cometbft/crypto"
	cmted "github.com/cometbft/cometbft/crypto/ed25519"
	cmtbytes "github.com/cometbft/cometbft/libs/bytes"
	cmtversion "github.com/cometbft/cometbft/proto/tendermint/version"
	core "github.com/cometbft/cometbft/types"
	"github.com/cometbft/cometbft/version"

	"github.com/celestiaorg/celestia-app/v9/pkg/appconsts"
	"github.com/celestiaorg/celestia-app/v9/pkg/da"

	"github.com/celestiaorg/celestia-node/header"
)

type EH = header.ExtendedHeader

// ---------------------------------------------------------------------------
// keys

type vkey struct {
	name string
	priv cmted.PrivKey
	pub  crypto.PubKey
	addr []byte
}

var (
	keyNames = []string{"a", "b", "c", "d", "e", "f", "g", "h", "i", "atk", "atk2"}
	keys     = map[string]*vkey{}
	keyByPub = map[string]*vkey{}
)

func init() {
	for _, n := range keyNames {
		priv := cmted.GenPrivKeyFromSecret([]byte("verif-c16-key/" + n))
		k := &vkey{name: n, priv: priv, pub: priv.PubKey(), addr: priv.PubKey().Address()}
		keys[n] = k
		keyByPub[string(k.pub.Bytes())] = k
	}
}

func detBytes(label string, n int) []byte {
	var out []byte
	for i := 0; len(out) < n; i++ {
		s := sha256.Sum256([]byte(fmt.Sprintf("verif-c16/%s/%d", label, i)))
		out = append(out, s[:]...)
	}
	return out[:n]
}

// ---------------------------------------------------------------------------
// chains

type member struct {
	Key   string `json:"key"`
	Power int64  `json:"power"`
}

type chainCfg struct {
	Name string
	// Sets[i] is the validator set of height i; one more entry than heights may be
	// given for the set after the last height (else the last set stays).
	Sets    [][]member
	Heights int
}

type chain struct {
	cfg    chainCfg
	honest []*EH
}

func constSets(set []member, n int) [][]member {
	out := make([][]member, n+1)
	for i := range out {
		out[i] = set
	}
	return out
}

func eq(power int64, names ...string) []member {
	out := make([]member, len(names))
	for i, n := range names {
		out[i] = member{n, power}
	}
	return out
}

func chainCfgs(tier string) []chainCfg {
	n := 3
	if tier == "thorough" {
		n = 4
	}
	cfgs := []chainCfg{
		{Name: "v1", Sets: constSets(eq(10, "a"), n), Heights: n},
		{Name: "v4eq", Sets: constSets(eq(1, "a", "b", "c", "d"), n), Heights: n},
		{Name: "v4w1116", Sets: constSets([]member{{"a", 1}, {"b", 1}, {"c", 1}, {"d", 6}}, n), Heights: n},
		{Name: "rot4", Sets: [][]member{
			eq(5, "a", "b", "c", "d"), eq(5, "a", "b", "c", "e"), eq(5, "a", "e", "f", "g"), eq(5, "e", "f", "g", "h"), eq(5, "f", "g", "h", "i"),
		}[:n+1], Heights: n},
	}
	if tier == "thorough" {
		cfgs = append(cfgs,
			chainCfg{Name: "v2w12", Sets: constSets([]member{{"a", 1}, {"b", 2}}, 3), Heights: 3},
			chainCfg{Name: "v3eq", Sets: constSets(eq(7, "a", "b", "c"), 3), Heights: 3},
			chainCfg{Name: "v5w", Sets: constSets([]member{{"a", 1}, {"b", 2}, {"c", 3}, {"d", 4}, {"e", 5}}, 3), Heights: 3},
		)
	}
	return cfgs
}

func mkValSet(ms []member) *core.ValidatorSet {
	vals := make([]*core.Validator, len(ms))
	for i, m := range ms {
		vals[i] = core.NewValidator(keys[m.Key].pub, m.Power)
	}
	return core.NewValidatorSet(vals)
}

func synthDAH(label string, w int) *da.DataAvailabilityHeader {
	d := &da.DataAvailabilityHeader{}
	for i := 0; i < w; i++ {
		d.RowRoots = append(d.RowRoots, detBytes(fmt.Sprintf("%s/row/%d", label, i), 90))
		d.ColumnRoots = append(d.ColumnRoots, detBytes(fmt.Sprintf("%s/col/%d", label, i), 90))
	}
	return d
}

const (
	baseHeight = 5
	chainID    = "verif-c16"
)

var baseTime = time.Date(2024, 3, 1, 12, 0, 0, 123456789, time.UTC)

// signAll builds the signature list of a commit for blockID by every member of vals
// for which we hold the key and whose bit is set in mask; the others are absent.
// The library's sign-bytes are used to *produce* signatures (the oracle checks them
// with its own encoding).
func signCommit(chainID string, c *core.Commit, vals []*core.Validator, mask uint64, ts time.Time) (ok bool) {
	defer func() {
		if recover() != nil {
			ok = false
		}
	}()
	sigs := make([]core.CommitSig, len(vals))
	c.Signatures = sigs
	for i, v := range vals {
		sigs[i] = core.CommitSig{BlockIDFlag: core.BlockIDFlagAbsent}
		if mask&(1<<uint(i)) == 0 || v == nil || v.PubKey == nil {
			continue
		}
		k := keyByPub[string(v.PubKey.Bytes())]
		if k == nil {
			continue
		}
		sigs[i] = core.CommitSig{
			BlockIDFlag:      core.BlockIDFlagCommit,
			ValidatorAddress: append([]byte(nil), v.Address...),
			Timestamp:        ts.Add(time.Duration(i) * time.Millisecond),
		}
		sig, err := k.priv.Sign(c.VoteSignBytes(chainID, int32(i)))
		if err != nil {
			return false
		}
		sigs[i].Signature = sig
	}
	return true
}

func buildChain(cfg chainCfg) *chain {
	ch := &chain{cfg: cfg}
	var prev *EH
	for i := 0; i < cfg.Heights; i++ {
		vs := mkValSet(cfg.Sets[i])
		nextSet := cfg.Sets[i]
		if i+1 < len(cfg.Sets) {
			nextSet = cfg.Sets[i+1]
		}
		var dah *da.DataAvailabilityHeader
		switch i % 3 {
		case 0:
			m := da.MinDataAvailabilityHeader() // the real minimal DAH (row roots == column roots)
			dah = &da.DataAvailabilityHeader{RowRoots: m.RowRoots, ColumnRoots: m.ColumnRoots}
		case 1:
			dah = synthDAH(fmt.Sprintf("%s/%d", cfg.Name, i), 4)
		default:
			dah = synthDAH(fmt.Sprintf("%s/%d", cfg.Name, i), 2)
		}
		app := uint64(appconsts.Version)
		if i == 0 {
			app = 1
		}
		lbl := fmt.Sprintf("%s/h%d", cfg.Name, i)
		raw := header.RawHeader{
			Version:            cmtversion.Consensus{Block: version.BlockProtocol, App: app},
			ChainID:            chainID,
			Height:             int64(baseHeight + i),
			Time:               baseTime.Add(time.Duration(i) * 12 * time.Second),
			LastBlockID:        core.BlockID{Hash: detBytes(lbl+"/lastid", 32), PartSetHeader: core.PartSetHeader{Total: 1, Hash: detBytes(lbl+"/lastparts", 32)}},
			LastCommitHash:     detBytes(lbl+"/lastcommit", 32),
			DataHash:           dah.Hash(),
			ValidatorsHash:     vs.Hash(),
			NextValidatorsHash: mkValSet(nextSet).Hash(),
			ConsensusHash:      detBytes(lbl+"/cons", 32),
			AppHash:            detBytes(lbl+"/app", 32),
			LastResultsHash:    detBytes(lbl+"/results", 32),
			EvidenceHash:       detBytes(lbl+"/evidence", 32),
			ProposerAddress:    append([]byte(nil), vs.Proposer.Address...),
		}
		if prev != nil {
			raw.LastBlockID = cloneBlockID(prev.Commit.BlockID)
			raw.LastCommitHash = prev.Commit.Hash()
		}
		c := &core.Commit{
			Height:  raw.Height,
			Round:   int32(i % 2),
			BlockID: core.BlockID{Hash: raw.Hash(), PartSetHeader: core.PartSetHeader{Total: uint32(1 + i), Hash: detBytes(lbl+"/parts", 32)}},
		}
		if !signCommit(chainID, c, vs.Validators, math.MaxUint64, raw.Time) {
			panic("cannot sign honest commit")
		}
		eh := &EH{RawHeader: raw, Commit: c, ValidatorSet: vs, DAH: dah}
		ch.honest = append(ch.honest, eh)
		prev = eh
	}
	return ch
}

// ---------------------------------------------------------------------------
// deep copies (fresh structs: no memoised hash, total power or key-type flag)

func cp(b []byte) []byte {
	if b == nil {
		return nil
	}
	return append([]byte{}, b...)
}

func cloneBlockID(b core.BlockID) core.BlockID {
	return core.BlockID{Hash: cp(b.Hash), PartSetHeader: core.PartSetHeader{Total: b.PartSetHeader.Total, Hash: cp(b.PartSetHeader.Hash)}}
}

func cloneRaw(r header.RawHeader) header.RawHeader {
	n := r
	n.LastBlockID = cloneBlockID(r.LastBlockID)
	n.LastCommitHash = cp(r.LastCommitHash)
	n.DataHash = cp(r.DataHash)
	n.ValidatorsHash = cp(r.ValidatorsHash)
	n.NextValidatorsHash = cp(r.NextValidatorsHash)
	n.ConsensusHash = cp(r.ConsensusHash)
	n.AppHash = cp(r.AppHash)
	n.LastResultsHash = cp(r.LastResultsHash)
	n.EvidenceHash = cp(r.EvidenceHash)
	n.ProposerAddress = cp(r.ProposerAddress)
	return n
}

func cloneSig(s core.CommitSig) core.CommitSig {
	return core.CommitSig{BlockIDFlag: s.BlockIDFlag, ValidatorAddress: cp(s.ValidatorAddress), Timestamp: s.Timestamp, Signature: cp(s.Signature)}
}

func cloneCommit(c *core.Commit) *core.Commit {
	if c == nil {
		return nil
	}
	n := &core.Commit{Height: c.Height, Round: c.Round, BlockID: cloneBlockID(c.BlockID)}
	if c.Signatures != nil {
		n.Signatures = make([]core.CommitSig, len(c.Signatures))
		for i, s := range c.Signatures {
			n.Signatures[i] = cloneSig(s)
		}
	}
	return n
}

func cloneVal(v *core.Validator) *core.Validator {
	if v == nil {
		return nil
	}
	return &core.Validator{Address: cp(v.Address), PubKey: v.PubKey, VotingPower: v.VotingPower, ProposerPriority: v.ProposerPriority}
}

func cloneVals(v *core.ValidatorSet) *core.ValidatorSet {
	if v == nil {
		return nil
	}
	n := &core.ValidatorSet{Proposer: cloneVal(v.Proposer)}
	if v.Validators != nil {
		n.Validators = make([]*core.Validator, len(v.Validators))
		for i, x := range v.Validators {
			n.Validators[i] = cloneVal(x)
		}
	}
	return n
}

func cloneRoots(r [][]byte) [][]byte {
	if r == nil {
		return nil
	}
	n := make([][]byte, len(r))
	for i := range r {
		n[i] = cp(r[i])
	}
	return n
}

func cloneDAH(d *da.DataAvailabilityHeader) *da.DataAvailabilityHeader {
	if d == nil {
		return nil
	}
	return &da.DataAvailabilityHeader{RowRoots: cloneRoots(d.RowRoots), ColumnRoots: cloneRoots(d.ColumnRoots)}
}

func cloneEH(h *EH) *EH {
	return &EH{RawHeader: cloneRaw(h.RawHeader), Commit: cloneCommit(h.Commit), ValidatorSet: cloneVals(h.ValidatorSet), DAH: cloneDAH(h.DAH)}
}

// fingerprint: every field of every part, written out.
func fingerprint(h *EH) string {
	var sb strings.Builder
	r := &h.RawHeader
	fmt.Fprintf(&sb, "R|%d|%d|%q|%d|%d.%d|%x|%d|%x|%x|%x|%x|%x|%x|%x|%x|%x|%x\n",
		r.Version.Block, r.Version.App, r.ChainID, r.Height, r.Time.Unix(), r.Time.Nanosecond(),
		[]byte(r.LastBlockID.Hash), r.LastBlockID.PartSetHeader.Total, []byte(r.LastBlockID.PartSetHeader.Hash),
		[]byte(r.LastCommitHash), []byte(r.DataHash), []byte(r.ValidatorsHash), []byte(r.NextValidatorsHash), []byte(r.ConsensusHash),
		[]byte(r.AppHash), []byte(r.LastResultsHash), []byte(r.EvidenceHash), []byte(r.ProposerAddress))
	if c := h.Commit; c == nil {
		sb.WriteString("C|nil\n")
	} else {
		fmt.Fprintf(&sb, "C|%d|%d|%x|%d|%x|%d\n", c.Height, c.Round, []byte(c.BlockID.Hash), c.BlockID.PartSetHeader.Total, []byte(c.BlockID.PartSetHeader.Hash), len(c.Signatures))
		for _, s := range c.Signatures {
			fmt.Fprintf(&sb, " S|%d|%x|%d.%d|%x\n", s.BlockIDFlag, []byte(s.ValidatorAddress), s.Timestamp.Unix(), s.Timestamp.Nanosecond(), s.Signature)
		}
	}
	fv := func(tag string, v *core.Validator) {
		if v == nil {
			fmt.Fprintf(&sb, " %s|nil\n", tag)
			return
		}
		var pk []byte
		if v.PubKey != nil {
			pk = v.PubKey.Bytes()
		}
		fmt.Fprintf(&sb, " %s|%x|%x|%d|%d\n", tag, []byte(v.Address), pk, v.VotingPower, v.ProposerPriority)
	}
	if v := h.ValidatorSet; v == nil {
		sb.WriteString("V|nil\n")
	} else {
		fmt.Fprintf(&sb, "V|%d\n", len(v.Validators))
		for _, x := range v.Validators {
			fv("M", x)
		}
		fv("P", v.Proposer)
	}
	if d := h.DAH; d == nil {
		sb.WriteString("D|nil\n")
	} else {
		fmt.Fprintf(&sb, "D|%d|%d\n", len(d.RowRoots), len(d.ColumnRoots))
		for _, x := range d.RowRoots {
			fmt.Fprintf(&sb, " r|%x\n", x)
		}
		for _, x := range d.ColumnRoots {
			fmt.Fprintf(&sb, " c|%x\n", x)
		}
	}
	s := sha256.Sum256([]byte(sb.String()))
	return string(s[:])
}

// ---------------------------------------------------------------------------
// mutation operators

type op struct {
	name     string
	field    string // which part of the header it touches (participation table)
	sigsOnly bool   // touches nothing but commit.Signatures (re-signing would erase it)
	core     bool   // member of the small alphabet that is composed pairwise in the quick tier
	apply    func(h *EH)
}

type mctx struct {
	ch  *chain
	idx int
	nbs []int // neighbour indexes, nearest first (idx+1, idx-1)
}

func flip(b []byte, i int) []byte {
	n := cp(b)
	if len(n) == 0 {
		return []byte{1}
	}
	if i < 0 {
		i = len(n) + i
	}
	n[i] ^= 0x01
	return n
}

func primaries(c *mctx) []op {
	var ops []op
	add := func(o op) { ops = append(ops, o) }
	hon := c.ch.honest[c.idx]
	var nb *EH
	if len(c.nbs) > 0 {
		nb = c.ch.honest[c.nbs[0]]
	}

	add(op{name: "identity", field: "none", core: true, apply: func(h *EH) {}})

	// ---- raw header: hash-like fields
	type hf struct {
		name string
		get  func(h *EH) *cmtbytes.HexBytes
	}
	hfs := []hf{
		{"LastCommitHash", func(h *EH) *cmtbytes.HexBytes { return &h.LastCommitHash }},
		{"DataHash", func(h *EH) *cmtbytes.HexBytes { return &h.DataHash }},
		{"ValidatorsHash", func(h *EH) *cmtbytes.HexBytes { return &h.ValidatorsHash }},
		{"NextValidatorsHash", func(h *EH) *cmtbytes.HexBytes { return &h.NextValidatorsHash }},
		{"ConsensusHash", func(h *EH) *cmtbytes.HexBytes { return &h.ConsensusHash }},
		{"AppHash", func(h *EH) *cmtbytes.HexBytes { return &h.AppHash }},
		{"LastResultsHash", func(h *EH) *cmtbytes.HexBytes { return &h.LastResultsHash }},
		{"EvidenceHash", func(h *EH) *cmtbytes.HexBytes { return &h.EvidenceHash }},
		{"LastBlockID.Hash", func(h *EH) *cmtbytes.HexBytes { return &h.LastBlockID.Hash }},
		{"LastBlockID.Parts.Hash", func(h *EH) *cmtbytes.HexBytes { return &h.LastBlockID.PartSetHeader.Hash }},
		{"ProposerAddress", func(h *EH) *cmtbytes.HexBytes { return &h.ProposerAddress }},
	}
	for _, f := range hfs {
		f := f
		fld := "raw." + f.name
		add(op{name: fld + ".flip0", field: fld, core: true, apply: func(h *EH) { p := f.get(h); *p = flip(*p, 0) }})
		add(op{name: fld + ".flipLast", field: fld, apply: func(h *EH) { p := f.get(h); *p = flip(*p, -1) }})
		add(op{name: fld + ".nil", field: fld, apply: func(h *EH) { *f.get(h) = nil }})
		add(op{name: fld + ".trunc", field: fld, apply: func(h *EH) { p := f.get(h); *p = cp((*p)[:len(*p)-1]) }})
		if nb != nil {
			add(op{name: fld + ".fromNeighbour", field: fld, apply: func(h *EH) { *f.get(h) = cp(*f.get(nb)) }})
		}
	}
	// ---- raw header: scalar fields
	add(op{name: "raw.Version.Block+1", field: "raw.Version.Block", apply: func(h *EH) { h.Version.Block++ }})
	add(op{name: "raw.Version.App=otherValid", field: "raw.Version.App", core: true, apply: func(h *EH) { h.Version.App = h.Version.App%appconsts.Version + 1 }})
	add(op{name: "raw.Version.App=0", field: "raw.Version.App", apply: func(h *EH) { h.Version.App = 0 }})
	add(op{name: "raw.Version.App=max+1", field: "raw.Version.App", apply: func(h *EH) { h.Version.App = appconsts.Version + 1 }})
	add(op{name: "raw.Version.App=maxuint", field: "raw.Version.App", apply: func(h *EH) { h.Version.App = math.MaxUint64 }})
	add(op{name: "raw.ChainID+x", field: "raw.ChainID", core: true, apply: func(h *EH) { h.RawHeader.ChainID += "x" }})
	add(op{name: "raw.ChainID=empty", field: "raw.ChainID", apply: func(h *EH) { h.RawHeader.ChainID = "" }})
	add(op{name: "raw.ChainID=other", field: "raw.ChainID", apply: func(h *EH) { h.RawHeader.ChainID = "other-chain" }})
	add(op{name: "raw.Height+1", field: "raw.Height", core: true, apply: func(h *EH) { h.RawHeader.Height++ }})
	add(op{name: "raw.Height-1", field: "raw.Height", apply: func(h *EH) { h.RawHeader.Height-- }})
	add(op{name: "raw.Height=0", field: "raw.Height", apply: func(h *EH) { h.RawHeader.Height = 0 }})
	add(op{name: "raw.Height=-5", field: "raw.Height", apply: func(h *EH) { h.RawHeader.Height = -5 }})
	add(op{name: "raw.Time+1ns", field: "raw.Time", core: true, apply: func(h *EH) { h.RawHeader.Time = h.RawHeader.Time.Add(1) }})
	add(op{name: "raw.Time+1s", field: "raw.Time", apply: func(h *EH) { h.RawHeader.Time = h.RawHeader.Time.Add(time.Second) }})
	add(op{name: "raw.Time-1s", field: "raw.Time", apply: func(h *EH) { h.RawHeader.Time = h.RawHeader.Time.Add(-time.Second) }})
	add(op{name: "raw.LastBlockID.Parts.Total+1", field: "raw.LastBlockID.Parts.Total", apply: func(h *EH) { h.LastBlockID.PartSetHeader.Total++ }})
	if nb != nil {
		add(op{name: "raw.Height.fromNeighbour", field: "raw.Height", apply: func(h *EH) { h.RawHeader.Height = nb.RawHeader.Height }})
		add(op{name: "raw.Time.fromNeighbour", field: "raw.Time", apply: func(h *EH) { h.RawHeader.Time = nb.RawHeader.Time }})
		add(op{name: "raw.LastBlockID.fromNeighbour", field: "raw.LastBlockID.Hash", apply: func(h *EH) { h.LastBlockID = cloneBlockID(nb.LastBlockID) }})
	}

	// ---- DAH
	w := len(hon.DAH.RowRoots)
	for i := 0; i < w; i++ {
		i := i
		add(op{name: fmt.Sprintf("dah.row[%d].flip0", i), field: "dah.rows", core: i == 0, apply: func(h *EH) { h.DAH.RowRoots[i] = flip(h.DAH.RowRoots[i], 0) }})
		add(op{name: fmt.Sprintf("dah.row[%d].flipLast", i), field: "dah.rows", apply: func(h *EH) { h.DAH.RowRoots[i] = flip(h.DAH.RowRoots[i], -1) }})
		add(op{name: fmt.Sprintf("dah.col[%d].flip0", i), field: "dah.cols", apply: func(h *EH) { h.DAH.ColumnRoots[i] = flip(h.DAH.ColumnRoots[i], 0) }})
		add(op{name: fmt.Sprintf("dah.col[%d].flipLast", i), field: "dah.cols", core: i == w-1, apply: func(h *EH) { h.DAH.ColumnRoots[i] = flip(h.DAH.ColumnRoots[i], -1) }})
		add(op{name: fmt.Sprintf("dah.row[%d].remove", i), field: "dah.rows", apply: func(h *EH) {
			h.DAH.RowRoots = append(h.DAH.RowRoots[:i:i], h.DAH.RowRoots[i+1:]...)
		}})
		add(op{name: fmt.Sprintf("dah.col[%d].remove", i), field: "dah.cols", core: i == w-1, apply: func(h *EH) {
			h.DAH.ColumnRoots = append(h.DAH.ColumnRoots[:i:i], h.DAH.ColumnRoots[i+1:]...)
		}})
		add(op{name: fmt.Sprintf("dah.row[%d].empty", i), field: "dah.rows", apply: func(h *EH) { h.DAH.RowRoots[i] = []byte{} }})
		add(op{name: fmt.Sprintf("dah.col[%d].empty", i), field: "dah.cols", apply: func(h *EH) { h.DAH.ColumnRoots[i] = []byte{} }})
		add(op{name: fmt.Sprintf("dah.rowcol.swap(%d)", i), field: "dah.rows", apply: func(h *EH) {
			h.DAH.RowRoots[i], h.DAH.ColumnRoots[i] = h.DAH.ColumnRoots[i], h.DAH.RowRoots[i]
		}})
		for j := i + 1; j < w; j++ {
			j := j
			add(op{name: fmt.Sprintf("dah.row.swap(%d,%d)", i, j), field: "dah.rows", core: i == 0 && j == 1, apply: func(h *EH) {
				h.DAH.RowRoots[i], h.DAH.RowRoots[j] = h.DAH.RowRoots[j], h.DAH.RowRoots[i]
			}})
			add(op{name: fmt.Sprintf("dah.col.swap(%d,%d)", i, j), field: "dah.cols", apply: func(h *EH) {
				h.DAH.ColumnRoots[i], h.DAH.ColumnRoots[j] = h.DAH.ColumnRoots[j], h.DAH.ColumnRoots[i]
			}})
		}
	}
	newRoot := detBytes("forged-root", 90)
	add(op{name: "dah.row.append-dup", field: "dah.rows", apply: func(h *EH) { h.DAH.RowRoots = append(h.DAH.RowRoots, cp(h.DAH.RowRoots[len(h.DAH.RowRoots)-1])) }})
	add(op{name: "dah.row.prepend-new", field: "dah.rows", apply: func(h *EH) { h.DAH.RowRoots = append([][]byte{cp(newRoot)}, h.DAH.RowRoots...) }})
	add(op{name: "dah.col.append-dup", field: "dah.cols", apply: func(h *EH) {
		h.DAH.ColumnRoots = append(h.DAH.ColumnRoots, cp(h.DAH.ColumnRoots[len(h.DAH.ColumnRoots)-1]))
	}})
	add(op{name: "dah.col.append-new", field: "dah.cols", core: true, apply: func(h *EH) { h.DAH.ColumnRoots = append(h.DAH.ColumnRoots, cp(newRoot)) }})
	add(op{name: "dah.col.prepend-new", field: "dah.cols", apply: func(h *EH) { h.DAH.ColumnRoots = append([][]byte{cp(newRoot)}, h.DAH.ColumnRoots...) }})
	add(op{name: "dah.both.append-new", field: "dah.rows", core: true, apply: func(h *EH) {
		h.DAH.RowRoots = append(h.DAH.RowRoots, cp(newRoot))
		h.DAH.ColumnRoots = append(h.DAH.ColumnRoots, cp(newRoot))
	}})
	add(op{name: "dah.both.remove-last", field: "dah.rows", apply: func(h *EH) {
		h.DAH.RowRoots = h.DAH.RowRoots[:len(h.DAH.RowRoots)-1]
		h.DAH.ColumnRoots = h.DAH.ColumnRoots[:len(h.DAH.ColumnRoots)-1]
	}})
	add(op{name: "dah.transpose", field: "dah.rows", core: true, apply: func(h *EH) { h.DAH.RowRoots, h.DAH.ColumnRoots = h.DAH.ColumnRoots, h.DAH.RowRoots }})
	add(op{name: "dah.boundary+1", field: "dah.rows", apply: func(h *EH) { // first column root becomes the last row root: rows||cols unchanged
		h.DAH.RowRoots = append(h.DAH.RowRoots, h.DAH.ColumnRoots[0])
		h.DAH.ColumnRoots = h.DAH.ColumnRoots[1:]
	}})
	add(op{name: "dah.boundary-1", field: "dah.rows", apply: func(h *EH) {
		n := len(h.DAH.RowRoots)
		h.DAH.ColumnRoots = append([][]byte{h.DAH.RowRoots[n-1]}, h.DAH.ColumnRoots...)
		h.DAH.RowRoots = h.DAH.RowRoots[:n-1]
	}})
	add(op{name: "dah.empty", field: "dah.rows", apply: func(h *EH) { h.DAH.RowRoots, h.DAH.ColumnRoots = nil, nil }})
	add(op{name: "dah.nil", field: "dah.rows", apply: func(h *EH) { h.DAH = nil }})

	// ---- commit
	add(op{name: "commit.Height+1", field: "commit.Height", core: true, apply: func(h *EH) { h.Commit.Height++ }})
	add(op{name: "commit.Height-1", field: "commit.Height", apply: func(h *EH) { h.Commit.Height-- }})
	add(op{name: "commit.Height=-1", field: "commit.Height", apply: func(h *EH) { h.Commit.Height = -1 }})
	add(op{name: "commit.Round+1", field: "commit.Round", core: true, apply: func(h *EH) { h.Commit.Round++ }})
	add(op{name: "commit.Round=-1", field: "commit.Round", apply: func(h *EH) { h.Commit.Round = -1 }})
	add(op{name: "commit.BlockID.Hash.flip0", field: "commit.BlockID.Hash", core: true, apply: func(h *EH) { h.Commit.BlockID.Hash = flip(h.Commit.BlockID.Hash, 0) }})
	add(op{name: "commit.BlockID.Hash.flipLast", field: "commit.BlockID.Hash", apply: func(h *EH) { h.Commit.BlockID.Hash = flip(h.Commit.BlockID.Hash, -1) }})
	add(op{name: "commit.BlockID.Hash.nil", field: "commit.BlockID.Hash", apply: func(h *EH) { h.Commit.BlockID.Hash = nil }})
	add(op{name: "commit.BlockID.Hash.trunc", field: "commit.BlockID.Hash", apply: func(h *EH) { h.Commit.BlockID.Hash = cp(h.Commit.BlockID.Hash[:31]) }})
	add(op{name: "commit.BlockID.Parts.Total+1", field: "commit.BlockID.Parts", core: true, apply: func(h *EH) { h.Commit.BlockID.PartSetHeader.Total++ }})
	add(op{name: "commit.BlockID.Parts.Hash.flip0", field: "commit.BlockID.Parts", apply: func(h *EH) {
		h.Commit.BlockID.PartSetHeader.Hash = flip(h.Commit.BlockID.PartSetHeader.Hash, 0)
	}})
	add(op{name: "commit.BlockID.Parts.Hash.flipLast", field: "commit.BlockID.Parts", apply: func(h *EH) {
		h.Commit.BlockID.PartSetHeader.Hash = flip(h.Commit.BlockID.PartSetHeader.Hash, -1)
	}})
	add(op{name: "commit.BlockID.Parts.Hash.trunc", field: "commit.BlockID.Parts", apply: func(h *EH) {
		h.Commit.BlockID.PartSetHeader.Hash = cp(h.Commit.BlockID.PartSetHeader.Hash[:31])
	}})
	add(op{name: "commit.BlockID=zero", field: "commit.BlockID.Hash", apply: func(h *EH) { h.Commit.BlockID = core.BlockID{} }})
	if nb != nil {
		add(op{name: "commit.Height.fromNeighbour", field: "commit.Height", apply: func(h *EH) { h.Commit.Height = nb.Commit.Height }})
		add(op{name: "commit.BlockID.fromNeighbour", field: "commit.BlockID.Hash", apply: func(h *EH) { h.Commit.BlockID = cloneBlockID(nb.Commit.BlockID) }})
	}
	add(op{name: "commit.nil", field: "commit", apply: func(h *EH) { h.Commit = nil }})

	n := len(hon.Commit.Signatures)
	signNil := func(h *EH, i int) { // a proper precommit for nil by validator i
		cs := &h.Commit.Signatures[i]
		cs.BlockIDFlag = core.BlockIDFlagNil
		v := h.ValidatorSet.Validators[i]
		k := keyByPub[string(v.PubKey.Bytes())]
		sig, err := k.priv.Sign(h.Commit.VoteSignBytes(h.RawHeader.ChainID, int32(i)))
		if err != nil {
			panic(err)
		}
		cs.Signature = sig
	}
	for i := 0; i < n; i++ {
		i := i
		f := "commit.Signatures"
		s := func(h *EH) *core.CommitSig { return &h.Commit.Signatures[i] }
		add(op{name: fmt.Sprintf("sig[%d].flip0", i), field: f, sigsOnly: true, core: i == 0, apply: func(h *EH) { s(h).Signature = flip(s(h).Signature, 0) }})
		add(op{name: fmt.Sprintf("sig[%d].flipLast", i), field: f, sigsOnly: true, apply: func(h *EH) { s(h).Signature = flip(s(h).Signature, -1) }})
		add(op{name: fmt.Sprintf("sig[%d].flipMid", i), field: f, sigsOnly: true, apply: func(h *EH) { s(h).Signature = flip(s(h).Signature, 32) }})
		add(op{name: fmt.Sprintf("sig[%d].sig=nil", i), field: f, sigsOnly: true, apply: func(h *EH) { s(h).Signature = nil }})
		add(op{name: fmt.Sprintf("sig[%d].sig.trunc", i), field: f, sigsOnly: true, apply: func(h *EH) { s(h).Signature = cp(s(h).Signature[:63]) }})
		add(op{name: fmt.Sprintf("sig[%d].absent", i), field: f, sigsOnly: true, core: i == n-1, apply: func(h *EH) { *s(h) = core.CommitSig{BlockIDFlag: core.BlockIDFlagAbsent} }})
		add(op{name: fmt.Sprintf("sig[%d].flag=absent-keeprest", i), field: f, sigsOnly: true, apply: func(h *EH) { s(h).BlockIDFlag = core.BlockIDFlagAbsent }})
		add(op{name: fmt.Sprintf("sig[%d].flag=nil-keepsig", i), field: f, sigsOnly: true, apply: func(h *EH) { s(h).BlockIDFlag = core.BlockIDFlagNil }})
		add(op{name: fmt.Sprintf("sig[%d].flag=unknown", i), field: f, sigsOnly: true, apply: func(h *EH) { s(h).BlockIDFlag = core.BlockIDFlag(9) }})
		add(op{name: fmt.Sprintf("sig[%d].nilvote", i), field: f, sigsOnly: true, apply: func(h *EH) { signNil(h, i) }})
		add(op{name: fmt.Sprintf("sig[%d].ts+1ns", i), field: f, sigsOnly: true, apply: func(h *EH) { s(h).Timestamp = s(h).Timestamp.Add(1) }})
		add(op{name: fmt.Sprintf("sig[%d].addr.flip0", i), field: f, sigsOnly: true, apply: func(h *EH) { s(h).ValidatorAddress = flip(s(h).ValidatorAddress, 0) }})
		add(op{name: fmt.Sprintf("sig[%d].addr.trunc", i), field: f, sigsOnly: true, apply: func(h *EH) { s(h).ValidatorAddress = cp(s(h).ValidatorAddress[:19]) }})
		if nb != nil {
			add(op{name: fmt.Sprintf("sig[%d].fromNeighbour", i), field: f, sigsOnly: true, apply: func(h *EH) { *s(h) = cloneSig(nb.Commit.Signatures[i]) }})
		}
		for j := 0; j < n; j++ {
			j := j
			if j == i {
				continue
			}
			add(op{name: fmt.Sprintf("sig[%d]=sig[%d]", i, j), field: f, sigsOnly: true, apply: func(h *EH) { *s(h) = cloneSig(h.Commit.Signatures[j]) }})
			add(op{name: fmt.Sprintf("sig[%d].addr=addr[%d]", i, j), field: f, sigsOnly: true, apply: func(h *EH) { s(h).ValidatorAddress = cp(h.Commit.Signatures[j].ValidatorAddress) }})
			if j > i {
				add(op{name: fmt.Sprintf("sigs.swap(%d,%d)", i, j), field: f, sigsOnly: true, core: i == 0 && j == 1, apply: func(h *EH) {
					h.Commit.Signatures[i], h.Commit.Signatures[j] = h.Commit.Signatures[j], h.Commit.Signatures[i]
				}})
			}
		}
	}
	add(op{name: "sigs.drop-last", field: "commit.Signatures", sigsOnly: true, apply: func(h *EH) { h.Commit.Signatures = h.Commit.Signatures[:len(h.Commit.Signatures)-1] }})
	add(op{name: "sigs.drop-first", field: "commit.Signatures", sigsOnly: true, apply: func(h *EH) { h.Commit.Signatures = h.Commit.Signatures[1:] }})
	add(op{name: "sigs.append-dup", field: "commit.Signatures", sigsOnly: true, apply: func(h *EH) {
		h.Commit.Signatures = append(h.Commit.Signatures, cloneSig(h.Commit.Signatures[len(h.Commit.Signatures)-1]))
	}})
	add(op{name: "sigs.append-absent", field: "commit.Signatures", sigsOnly: true, apply: func(h *EH) {
		h.Commit.Signatures = append(h.Commit.Signatures, core.CommitSig{BlockIDFlag: core.BlockIDFlagAbsent})
	}})
	add(op{name: "sigs.none", field: "commit.Signatures", sigsOnly: true, apply: func(h *EH) { h.Commit.Signatures = nil }})
	// every per-validator status vector: V valid, A absent, N proper nil vote, X corrupted signature
	if n <= 5 {
		total := 1
		for i := 0; i < n; i++ {
			total *= 4
		}
		for code := 1; code < total; code++ { // code 0 = all valid = honest
			code := code
			name := make([]byte, n)
			for i, x := 0, code; i < n; i, x = i+1, x/4 {
				name[i] = "VANX"[x%4]
			}
			add(op{name: "sigs.status=" + string(name), field: "commit.Signatures", sigsOnly: true, apply: func(h *EH) {
				for i, x := 0, code; i < n; i, x = i+1, x/4 {
					switch x % 4 {
					case 1:
						h.Commit.Signatures[i] = core.CommitSig{BlockIDFlag: core.BlockIDFlagAbsent}
					case 2:
						signNil(h, i)
					case 3:
						h.Commit.Signatures[i].Signature = flip(h.Commit.Signatures[i].Signature, 7)
					}
				}
			}})
		}
	}

	// ---- validator set
	atk, atk2 := keys["atk"], keys["atk2"]
	newVal := func(k *vkey, p int64) *core.Validator {
		return &core.Validator{Address: cp(k.addr), PubKey: k.pub, VotingPower: p}
	}
	vs := func(h *EH) *core.ValidatorSet { return h.ValidatorSet }
	nv := len(hon.ValidatorSet.Validators)
	for i := 0; i < nv; i++ {
		i := i
		f := "valset.members"
		add(op{name: fmt.Sprintf("vals.remove(%d)", i), field: f, core: i == 0, apply: func(h *EH) {
			vs(h).Validators = append(vs(h).Validators[:i:i], vs(h).Validators[i+1:]...)
		}})
		add(op{name: fmt.Sprintf("vals.repower(%d,+1)", i), field: "valset.powers", core: i == 0, apply: func(h *EH) { vs(h).Validators[i].VotingPower++ }})
		add(op{name: fmt.Sprintf("vals.repower(%d,x10)", i), field: "valset.powers", apply: func(h *EH) { vs(h).Validators[i].VotingPower *= 10 }})
		add(op{name: fmt.Sprintf("vals.repower(%d,=0)", i), field: "valset.powers", apply: func(h *EH) { vs(h).Validators[i].VotingPower = 0 }})
		add(op{name: fmt.Sprintf("vals.repower(%d,=-1)", i), field: "valset.powers", apply: func(h *EH) { vs(h).Validators[i].VotingPower = -1 }})
		add(op{name: fmt.Sprintf("vals.pubkey(%d)=atk", i), field: f, apply: func(h *EH) {
			vs(h).Validators[i].PubKey = atk.pub
			vs(h).Validators[i].Address = cp(atk.addr)
		}})
		add(op{name: fmt.Sprintf("vals.pubkey(%d)=atk-keepaddr", i), field: f, apply: func(h *EH) { vs(h).Validators[i].PubKey = atk.pub }})
		add(op{name: fmt.Sprintf("vals.addr(%d).flip0", i), field: "valset.address", apply: func(h *EH) { vs(h).Validators[i].Address = flip(vs(h).Validators[i].Address, 0) }})
		add(op{name: fmt.Sprintf("vals.priority(%d)+1", i), field: "valset.priority", apply: func(h *EH) { vs(h).Validators[i].ProposerPriority++ }})
		add(op{name: fmt.Sprintf("vals.dup(%d)", i), field: f, apply: func(h *EH) { vs(h).Validators = append(vs(h).Validators, cloneVal(vs(h).Validators[i])) }})
		add(op{name: fmt.Sprintf("vals.proposer=member(%d)", i), field: "valset.proposer", apply: func(h *EH) { vs(h).Proposer = cloneVal(vs(h).Validators[i]) }})
		for j := i + 1; j < nv; j++ {
			j := j
			add(op{name: fmt.Sprintf("vals.swap(%d,%d)", i, j), field: f, core: i == 0 && j == 1, apply: func(h *EH) {
				vs(h).Validators[i], vs(h).Validators[j] = vs(h).Validators[j], vs(h).Validators[i]
			}})
		}
	}
	add(op{name: "vals.repower(0,huge)", field: "valset.powers", apply: func(h *EH) { vs(h).Validators[0].VotingPower = math.MaxInt64 / 4 }})
	add(op{name: "vals.add-atk.end(p=1)", field: "valset.members", core: true, apply: func(h *EH) { vs(h).Validators = append(vs(h).Validators, newVal(atk, 1)) }})
	add(op{name: "vals.add-atk.front(p=1)", field: "valset.members", apply: func(h *EH) { vs(h).Validators = append([]*core.Validator{newVal(atk, 1)}, vs(h).Validators...) }})
	add(op{name: "vals.add-atk.end(p=1000)", field: "valset.members", apply: func(h *EH) { vs(h).Validators = append(vs(h).Validators, newVal(atk, 1000)) }})
	add(op{name: "vals.only-atk", field: "valset.members", core: true, apply: func(h *EH) {
		vs(h).Validators = []*core.Validator{newVal(atk, 10)}
		vs(h).Proposer = newVal(atk, 10)
	}})
	add(op{name: "vals.only-atk-pair", field: "valset.members", apply: func(h *EH) {
		vs(h).Validators = []*core.Validator{newVal(atk, 10), newVal(atk2, 10)}
		vs(h).Proposer = newVal(atk, 10)
	}})
	add(op{name: "vals.proposer=atk", field: "valset.proposer", apply: func(h *EH) { vs(h).Proposer = newVal(atk, 1) }})
	add(op{name: "vals.proposer.power+1", field: "valset.proposer", apply: func(h *EH) { vs(h).Proposer.VotingPower++ }})
	add(op{name: "vals.proposer.priority+1", field: "valset.proposer", apply: func(h *EH) { vs(h).Proposer.ProposerPriority++ }})
	add(op{name: "vals.proposer=nil", field: "valset.proposer", apply: func(h *EH) { vs(h).Proposer = nil }})
	add(op{name: "vals.empty", field: "valset.members", apply: func(h *EH) { vs(h).Validators = nil }})
	add(op{name: "vals.nil", field: "valset.members", apply: func(h *EH) { h.ValidatorSet = nil }})

	// ---- substitution of whole parts from a neighbouring header
	for _, ni := range c.nbs {
		src := c.ch.honest[ni]
		for mask := 1; mask < 15; mask++ {
			mask := mask
			var parts []string
			for b, nm := range []string{"raw", "commit", "valset", "dah"} {
				if mask&(1<<uint(b)) != 0 {
					parts = append(parts, nm)
				}
			}
			add(op{name: fmt.Sprintf("subst(from=%+d,%s)", ni-c.idx, strings.Join(parts, "+")), field: "subst", core: mask == 2 || mask == 8, apply: func(h *EH) {
				if mask&1 != 0 {
					h.RawHeader = cloneRaw(src.RawHeader)
				}
				if mask&2 != 0 {
					h.Commit = cloneCommit(src.Commit)
				}
				if mask&4 != 0 {
					h.ValidatorSet = cloneVals(src.ValidatorSet)
				}
				if mask&8 != 0 {
					h.DAH = cloneDAH(src.DAH)
				}
			}})
		}
	}
	return ops
}

// applyOps applies operators to a fresh copy; ok=false when an operator does not
// apply to the shape it finds (index out of range after an earlier operator, nil part).
func applyOps(base *EH, ops ...op) (h *EH, ok bool) {
	defer func() {
		if recover() != nil {
			h, ok = nil, false
		}
	}()
	h = cloneEH(base)
	for _, o := range ops {
		o.apply(h)
	}
	return h, true
}

// ---------------------------------------------------------------------------
// repairs: what a forger does after changing something

// fixRaw re-derives the two commitments of the raw header that name other parts.
func fixRaw(h *EH) (ok bool) {
	defer func() {
		if recover() != nil {
			ok = false
		}
	}()
	if h.DAH == nil || h.ValidatorSet == nil || len(h.ValidatorSet.Validators) == 0 {
		return false
	}
	for _, v := range h.ValidatorSet.Validators {
		if v == nil || v.PubKey == nil {
			return false
		}
	}
	h.DAH = cloneDAH(h.DAH)
	h.DataHash = h.DAH.Hash()
	h.ValidatorsHash = h.ValidatorSet.Hash()
	return true
}

// fixCommit points the commit at the (possibly changed) raw header.
func fixCommit(h *EH) bool {
	if h.Commit == nil {
		return false
	}
	hh := h.RawHeader.Hash()
	if len(hh) == 0 {
		return false
	}
	h.Commit.Height = h.RawHeader.Height
	h.Commit.BlockID.Hash = hh
	return true
}

// resign replaces the signature list: members of the header's own validator set
// whose bit is set (and whose key we hold) sign the commit as it now stands.
func resign(h *EH, mask uint64) bool {
	if h.Commit == nil || h.ValidatorSet == nil {
		return false
	}
	n := len(h.ValidatorSet.Validators)
	if n == 0 || n > 6 {
		return false
	}
	return signCommit(h.RawHeader.ChainID, h.Commit, h.ValidatorSet.Validators, mask, h.RawHeader.Time)
}
