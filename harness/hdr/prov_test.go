package header_test

// Provenance dimension for C16's re-encoding clause: the mutation operators are also
// applied to header OBJECTS that came out of UnmarshalBinary (and to shallow struct
// copies of such objects), not only to objects built in memory; and objects are
// re-filled (UnmarshalBinary(A) then UnmarshalJSON(B), and the other way round).
// Whatever the object went through before, re-encoding it must describe the object
// as it is now.
//
// Only the ExtendedHeader struct keeps its provenance: its parts (raw header,
// commit, validator set, DAH) are replaced by fresh deep copies before the operator
// is applied, so that memoised values inside the dependency's types (DAH hash,
// total voting power) are not what is being tested here.

import (
	"bytes"
	"fmt"
)

const (
	provDecoded = "decoded-from-binary"
	provShallow = "shallow-copy-of-decoded"
)

// provenance rebuilds h as an object with the given history; ok=false if the
// implementation cannot round-trip the honest header at all.
func provenance(h *EH, prov string) (*EH, bool) {
	b, err := encBinary(h)
	if err != nil {
		return nil, false
	}
	g, err := decBinary(b)
	if err != nil {
		return nil, false
	}
	if prov == provShallow {
		c := *g
		g = &c
	}
	g.RawHeader = cloneRaw(g.RawHeader)
	g.Commit = cloneCommit(g.Commit)
	g.ValidatorSet = cloneVals(g.ValidatorSet)
	g.DAH = cloneDAH(g.DAH)
	return g, true
}

func applyInPlace(h *EH, ops ...op) (ok bool) {
	defer func() {
		if recover() != nil {
			ok = false
		}
	}()
	for _, o := range ops {
		o.apply(h)
	}
	return true
}

type refillCase struct {
	Chain string `json:"chain"`
	A     int    `json:"a"`
	B     int    `json:"b"`
	Order string `json:"order"` // "binary(A),json(B)" | "json(A),binary(B)"
	// Mut, when set, makes B the header A with this one operator applied (B index == A index)
	Mut string `json:"mut,omitempty"`
}

var refillMutations = []string{"dah.row[0].flip0", "dah.col.append-new", "raw.AppHash.flip0", "raw.DataHash.flip0", "sig[0].flip0", "vals.repower(0,+1)", "vals.priority(0)+1", "commit.Round+1"}

// runRefill: an object filled from one encoding of A and then from the other encoding of B must be
// exactly what B's encoding decodes to in a fresh object: same Validate verdict, Hash, Height, fields and
// MarshalBinary bytes. B is an honest neighbour of A, or A with one field changed (so that a stale part of
// A that survives the second decode is visible as a wrongly accepted or wrongly rejected header).
func runRefill(ch *chain, restrict *refillCase, report func(sig, what string, replay any)) (cases int64, outcomes map[string]int64) {
	outcomes = map[string]int64{}
	type second struct {
		b   int
		mut string
		h   *EH
	}
	for a := range ch.honest {
		var seconds []second
		for _, b := range neighbours(ch, a) {
			seconds = append(seconds, second{b, "", cloneEH(ch.honest[b])})
		}
		byName := map[string]op{}
		for _, o := range primaries(&mctx{ch: ch, idx: a, nbs: neighbours(ch, a)}) {
			byName[o.name] = o
		}
		for _, m := range refillMutations {
			if o, ok := byName[m]; ok {
				if h, ok := applyOps(ch.honest[a], o); ok {
					seconds = append(seconds, second{a, m, h})
				}
			}
		}
		for _, sec := range seconds {
			for _, order := range []string{"binary(A),json(B)", "json(A),binary(B)"} {
				rc := refillCase{ch.cfg.Name, a, sec.b, order, sec.mut}
				if restrict != nil && *restrict != rc {
					continue
				}
				A := ch.honest[a]
				binA, _ := encBinary(cloneEH(A))
				jsA, _ := encJSON(cloneEH(A))
				var encB []byte
				var errB error
				fresh := new(EH)
				obj := new(EH)
				var e1, e2, ef error
				func() {
					defer func() {
						if r := recover(); r != nil {
							e2 = fmt.Errorf("panic: %v", r)
						}
					}()
					if order == "binary(A),json(B)" {
						encB, errB = encJSON(sec.h)
						if errB != nil {
							return
						}
						ef = fresh.UnmarshalJSON(encB)
						e1 = obj.UnmarshalBinary(binA)
						e2 = obj.UnmarshalJSON(encB)
					} else {
						encB, errB = encBinary(sec.h)
						if errB != nil {
							return
						}
						ef = fresh.UnmarshalBinary(encB)
						e1 = obj.UnmarshalJSON(jsA)
						e2 = obj.UnmarshalBinary(encB)
					}
				}()
				if errB != nil {
					continue // B has no such encoding
				}
				cases++
				art := map[string]any{"refill": rc, "tier": curTier}
				name := fmt.Sprintf("chain %s, %s with A=h%d, B=h%d", ch.cfg.Name, order, a, sec.b)
				if sec.mut != "" {
					name += " after " + sec.mut
				}
				if e1 != nil {
					report("C16/reencode/refill/honest-encoding-rejected", fmt.Sprintf("%s: decoding the honest encoding of A failed: %v", name, e1), art)
					continue
				}
				if (ef == nil) != (e2 == nil) {
					report("C16/reencode/refill/verdict-differs-from-fresh-decode",
						fmt.Sprintf("%s: the second decode into the used object says %v, into a fresh object %v", name, e2, ef), art)
					continue
				}
				if ef != nil {
					outcomes["second encoding rejected by the decoder (both)"]++
					continue
				}
				vo, vf := runValidate(obj), runValidate(fresh)
				outcomes["fresh:"+vf.class]++
				if vo.ok != vf.ok {
					sig := "C16/reencode/refill/verdict-differs-from-fresh-decode"
					if vo.ok {
						sig = "C16/reencode/refill/accepts-what-fresh-decode-rejects"
					}
					report(sig,
						fmt.Sprintf("%s: Validate() of the re-filled object: %s (%s); of the same encoding decoded into a fresh object: %s (%s)", name, vo.class, vo.err, vf.class, vf.err), art)
				}
				ho, _ := safeHash(obj)
				hf, _ := safeHash(fresh)
				bo, erro := encBinary(obj)
				bf, errf := encBinary(fresh)
				if !bytes.Equal(ho, hf) || obj.Height() != fresh.Height() || fingerprint(obj) != fingerprint(fresh) || (erro == nil) != (errf == nil) || !bytes.Equal(bo, bf) {
					report("C16/reencode/refill/object-keeps-earlier-encoding",
						fmt.Sprintf("%s: the re-filled object has Height %d, Hash %X; the fresh decode Height %d, Hash %X; fields equal: %v; MarshalBinary equal: %v (equal to A's bytes: %v)",
							name, obj.Height(), ho, fresh.Height(), hf, fingerprint(obj) == fingerprint(fresh), bytes.Equal(bo, bf), bytes.Equal(bo, binA)), art)
				}
			}
		}
	}
	return cases, outcomes
}
