package header_test

// Provenance dimension for C16's re-encoding clause: the mutation operators are also
// applied to header OBJECTS that came out of UnmarshalBinary (and to shallow struct
// copies of such objects), not only to objects built in memory; and objects are
// re-filled (UnmarshalBinary(A) then UnmarshalJSON(B), and the other way round).
// Whatever the object went through before, re-encoding it must describe the object
// as it is now.
//
// Only the ExtendedHeader struct keeps its provenance: its parts (raw header,
// commit, validator set, DAH) are replaced by fresh deep copies before the operator
// is applied, so that memoised values inside the dependency's types (DAH hash,
// total voting power) are not what is being tested here.

import (
	"bytes"
	"fmt"
)

const (
	provDecoded = "decoded-from-binary"
	provShallow = "shallow-copy-of-decoded"
)

// provenance rebuilds h as an object with the given history; ok=false if the
// implementation cannot round-trip the honest header at all.
func provenance(h *EH, prov string) (*EH, bool) {
	b, err := encBinary(h)
	if err != nil {
		return nil, false
	}
	g, err := decBinary(b)
	if err != nil {
		return nil, false
	}
	if prov == provShallow {
		c := *g
		g = &c
	}
	g.RawHeader = cloneRaw(g.RawHeader)
	g.Commit = cloneCommit(g.Commit)
	g.ValidatorSet = cloneVals(g.ValidatorSet)
	g.DAH = cloneDAH(g.DAH)
	return g, true
}

func applyInPlace(h *EH, ops ...op) (ok bool) {
	defer func() {
		if recover() != nil {
			ok = false
		}
	}()
	for _, o := range ops {
		o.apply(h)
	}
	return true
}

type refillCase struct {
	Chain string `json:"chain"`
	A     int    `json:"a"`
	B     int    `json:"b"`
	Order string `json:"order"` // "binary(A),json(B)" | "json(A),binary(B)"
}

// runRefill: an object filled from one encoding of A and then from the other encoding of B must be B.
func runRefill(ch *chain, restrict *refillCase, report func(sig, what string, replay any)) (cases int64, validateDiffers int64) {
	for a := range ch.honest {
		for _, b := range neighbours(ch, a) {
			for _, order := range []string{"binary(A),json(B)", "json(A),binary(B)"} {
				rc := refillCase{ch.cfg.Name, a, b, order}
				if restrict != nil && *restrict != rc {
					continue
				}
				A, B := ch.honest[a], ch.honest[b]
				binA, _ := encBinary(cloneEH(A))
				jsA, _ := encJSON(cloneEH(A))
				binB, _ := encBinary(cloneEH(B))
				jsB, _ := encJSON(cloneEH(B))
				obj := new(EH)
				var e1, e2 error
				func() {
					defer func() {
						if r := recover(); r != nil {
							e2 = fmt.Errorf("panic: %v", r)
						}
					}()
					if order == "binary(A),json(B)" {
						e1 = obj.UnmarshalBinary(binA)
						e2 = obj.UnmarshalJSON(jsB)
					} else {
						e1 = obj.UnmarshalJSON(jsA)
						e2 = obj.UnmarshalBinary(binB)
					}
				}()
				cases++
				if e1 != nil || e2 != nil {
					report("C16/reencode/refill/honest-encoding-rejected", fmt.Sprintf("%+v: decoding honest encodings failed: %v / %v", rc, e1, e2), map[string]any{"refill": rc, "tier": curTier})
					continue
				}
				got, err := encBinary(obj)
				gh, _ := safeHash(obj)
				if err != nil || !bytes.Equal(got, binB) || !bytes.Equal(gh, B.Hash()) || obj.Height() != B.Height() {
					report("C16/reencode/refill/object-keeps-earlier-encoding",
						fmt.Sprintf("chain %s, order %s with A=h%d B=h%d: afterwards the object has Height %d and Hash %X (B: %d, %X) but MarshalBinary gives bytes equal to B's: %v, equal to A's: %v (err %v)",
							ch.cfg.Name, order, a, b, obj.Height(), gh, B.Height(), []byte(B.Hash()), bytes.Equal(got, binB), bytes.Equal(got, binA), err),
						map[string]any{"refill": rc, "tier": curTier})
				}
				// observation only (memoised DAH hash / voting power inside re-used part objects belong to the dependency)
				if runValidate(obj).ok != runValidate(wireCopy(B)).ok {
					validateDiffers++
				}
			}
		}
	}
	return cases, validateDiffers
}
