package header_test

// History dimension for C16's re-encoding clause: what a byte string decodes to
// (and hence its Validate verdict and Hash) must not depend on which byte strings
// the process decoded — and rejected — before.
//
// For every chain, every ordered pair (d1, d2) of decodes is executed on one
// goroutine that is locked to its thread, with GOMAXPROCS(1) and the collector
// off (so that any per-P / GC-cleared cache the decoder may keep behaves
// deterministically), several times in a row. d1 ranges over rejected byte strings
// that parse at least one top-level field and over accepted ones; d2 over the
// canonical encodings and the encodings with one top-level field missing.
// Oracle (differential): the observation of d2 (rejected, or the field-by-field
// fingerprint, Validate verdict and Hash of what it decodes to) is the same in
// every context as when d2 is decoded in a fresh state (after two forced GC
// cycles, before any d1).

import (
	"encoding/hex"
	"fmt"
	"runtime"
	"runtime/debug"

	"github.com/celestiaorg/celestia-node/header"
)

type histBytes struct {
	Name string `json:"name"`
	Src  int    `json:"src"` // height index of the honest header the bytes are made from
	b    []byte
}

type histCase struct {
	Chain string    `json:"chain"`
	D1    histBytes `json:"d1"`
	D2    histBytes `json:"d2"`
}

func histD1(ch *chain) []histBytes {
	var out []histBytes
	for idx := range ch.honest {
		a := buildWireAlpha(ch, idx)
		mk := func(name string, layout ...string) {
			b, err := a.assemble(layout)
			if err != nil {
				panic(err)
			}
			out = append(out, histBytes{name, idx, b})
		}
		// rejected, but only after at least one top-level field was parsed
		out = append(out, histBytes{"valid+dangling-tag-byte", idx, append(append([]byte{}, a.canon...), 0xff)})
		out = append(out, histBytes{"valid-minus-last-byte", idx, append([]byte{}, a.canon[:len(a.canon)-1]...)})
		mk("dah-only", "F4")
		mk("commit-only", "F2")
		mk("validator_set-only", "F3")
		mk("missing-raw-header", "F2", "F3", "F4")
		mk("truncated-after-header", "F1")
		mk("truncated-after-commit", "F1", "F2")
		mk("truncated-after-validator_set", "F1", "F2", "F3")
		mk("valid+truncated-commit", "F1", "F2", "F3", "F4", "W.truncated-commit")
		mk("valid+commit-as-varint", "F1", "F2", "F3", "F4", "W.commit-as-varint")
		// accepted
		mk("canonical", "F1", "F2", "F3", "F4")
		mk("canonical+unknown-field", "F1", "F2", "F3", "F4", "U.bytes(15)")
	}
	return out
}

func histD2(ch *chain) []histBytes {
	var out []histBytes
	for idx := range ch.honest {
		a := buildWireAlpha(ch, idx)
		mk := func(name string, layout ...string) {
			b, err := a.assemble(layout)
			if err != nil {
				panic(err)
			}
			out = append(out, histBytes{name, idx, b})
		}
		mk("canonical", "F1", "F2", "F3", "F4")
		mk("missing-header", "F2", "F3", "F4")
		mk("missing-commit", "F1", "F3", "F4")
		mk("missing-validator_set", "F1", "F2", "F4")
		mk("missing-dah", "F1", "F2", "F3")
	}
	return out
}

// observeDecode: what the decoder makes of b, in a form that can be compared.
func observeDecode(b []byte, verdictOf map[string]string) string {
	h, err := decBinary(b)
	if err != nil {
		return "rejected by decoder"
	}
	fp := fingerprint(h)
	vd, ok := verdictOf[fp]
	if !ok {
		vd = runValidate(h).class
		verdictOf[fp] = vd
	}
	hh, _ := safeHash(h)
	nsig, nval, nrow := -1, -1, -1
	if h.Commit != nil {
		nsig = len(h.Commit.Signatures)
	}
	if h.ValidatorSet != nil {
		nval = len(h.ValidatorSet.Validators)
	}
	if h.DAH != nil {
		nrow = len(h.DAH.RowRoots)
	}
	return fmt.Sprintf("decoded: fingerprint=%x hash=%X validate=%s signatures=%d validators=%d row-roots=%d", fp[:8], hh, vd, nsig, nval, nrow)
}

type histStats struct {
	pairs, decodes, d1Rejected, d1Accepted, d2Fresh int64
	repetitions                                     int
	freshObs                                        map[string]int64
}

// runHistory executes the stage for one chain; restrict (optional) limits it to one pair (replay).
func runHistory(ch *chain, reps int, restrict *histCase, report func(sig, what string, replay any)) histStats {
	st := histStats{repetitions: reps, freshObs: map[string]int64{}}
	runtime.LockOSThread()
	defer runtime.UnlockOSThread()
	defer runtime.GOMAXPROCS(runtime.GOMAXPROCS(1))
	defer debug.SetGCPercent(debug.SetGCPercent(-1))

	verdictOf := map[string]string{}
	d1s, d2s := histD1(ch), histD2(ch)
	fresh := make([]string, len(d2s))
	for i, d2 := range d2s {
		runtime.GC()
		runtime.GC()
		fresh[i] = observeDecode(d2.b, verdictOf)
		st.d2Fresh++
		st.decodes++
		if fresh[i] == "rejected by decoder" {
			st.freshObs["rejected"]++
		} else {
			st.freshObs["decoded"]++
		}
	}
	runtime.GC()
	runtime.GC()
	for _, d1 := range d1s {
		for i, d2 := range d2s {
			if restrict != nil && (restrict.D1.Name != d1.Name || restrict.D1.Src != d1.Src || restrict.D2.Name != d2.Name || restrict.D2.Src != d2.Src) {
				continue
			}
			st.pairs++
			for r := 0; r < reps; r++ {
				_, err := header.UnmarshalExtendedHeader(d1.b)
				if r == 0 {
					if err != nil {
						st.d1Rejected++
					} else {
						st.d1Accepted++
					}
				}
				got := observeDecode(d2.b, verdictOf)
				st.decodes += 2
				if got != fresh[i] {
					hc := histCase{Chain: ch.cfg.Name, D1: d1, D2: d2}
					report("C16/decode/depends-on-earlier-decode",
						fmt.Sprintf("chain %s: decoding %q of h%d (%d bytes) right after decoding %q of h%d (%d bytes, decoder said: %v) gives [%s]; the same bytes decoded in a fresh state give [%s] (repetition %d)",
							ch.cfg.Name, d2.Name, d2.Src, len(d2.b), d1.Name, d1.Src, len(d1.b), err, got, fresh[i], r),
						map[string]any{"history": hc, "tier": curTier, "d1_hex": hex.EncodeToString(d1.b), "d2_hex": hex.EncodeToString(d2.b), "fresh": fresh[i], "after_d1": got})
				}
			}
		}
	}
	return st
}
