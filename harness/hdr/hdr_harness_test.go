package header_test

// C16 — only internally consistent, properly signed headers are accepted.
//
// Bounded-exhaustive forgery of the real header.ExtendedHeader: every honest header
// of every chain configuration x every mutation operator x every repair level
// (none / re-derive raw-header commitments / re-point the commit / re-sign with
// every subset of the validator keys) [x a second operator], judged by the
// independent predicate of oracle_test.go; every variant is additionally pushed
// through binary, JSON and binary->JSON->binary and verified against every honest
// header of its chain taken as the trusted one.

import (
	"bytes"
	"encoding/json"
	"errors"
	"fmt"
	"math"
	"os"
	"runtime"
	"sort"
	"strconv"
	"strings"
	"sync"
	"sync/atomic"
	"testing"
	"time"

	core "github.com/cometbft/cometbft/types"
	logging "github.com/ipfs/go-log/v2"
	pubsubpb "github.com/libp2p/go-libp2p-pubsub/pb"

	libhead "github.com/celestiaorg/go-header"

	"github.com/celestiaorg/celestia-node/header"
	"github.com/celestiaorg/celestia-node/header/headertest"
	"github.com/celestiaorg/celestia-node/verifx/vx"
)

type caseID struct {
	Chain  string   `json:"chain"`
	Idx    int      `json:"idx"`
	Ops    []string `json:"ops"`
	Repair string   `json:"repair"`
	// Wire, when set, is the byte-level layout (names of top-level wire items in order) in which the
	// case's header is presented; the judged object is what UnmarshalExtendedHeader makes of those bytes.
	Wire []string `json:"wire,omitempty"`
	// Prov, when set, says what the header object went through before the operators were applied.
	Prov string `json:"prov,omitempty"`
}

func (c caseID) String() string {
	s := fmt.Sprintf("%s/h%d/%s/%s", c.Chain, c.Idx, strings.Join(c.Ops, " ; "), c.Repair)
	if c.Prov != "" {
		s += "/object:" + c.Prov
	}
	if len(c.Wire) > 0 {
		s += "/wire[" + layoutString(c.Wire) + "]"
	}
	return s
}

type violation struct {
	sig, what string
	extra     map[string]any
}

// ---------------------------------------------------------------------------
// running the implementation

type verdict struct {
	ok    bool
	class string
	err   string
}

func classifyValidate(err error) string {
	if err == nil {
		return "accepted"
	}
	s := err.Error()
	switch {
	case strings.HasPrefix(s, "ValidateBasic error on RawHeader"):
		return "reject:raw-basic"
	case strings.HasPrefix(s, "header received at height"):
		return "reject:app-version"
	case strings.HasPrefix(s, "ValidateBasic error on Commit"):
		return "reject:commit-basic"
	case strings.HasPrefix(s, "ValidateBasic error on ValidatorSet"):
		return "reject:valset-basic"
	case strings.HasPrefix(s, "expected validator hash"):
		return "reject:valset-hash"
	case strings.HasPrefix(s, "mismatch between data hash"):
		return "reject:data-hash"
	case strings.HasPrefix(s, "header and commit height mismatch"):
		return "reject:commit-height"
	case strings.HasPrefix(s, "commit signs block"):
		return "reject:commit-block-hash"
	case strings.HasPrefix(s, "VerifyCommitLight error"):
		switch {
		case strings.Contains(s, "wrong signature"):
			return "reject:commit-light/wrong-signature"
		case strings.Contains(strings.ToLower(s), "wrong set size"):
			return "reject:commit-light/set-size"
		case strings.Contains(s, "address mismatch"):
			return "reject:commit-light/address-mismatch"
		case strings.Contains(s, "wrong block ID"):
			return "reject:commit-light/block-id"
		case strings.Contains(s, "invalid signatures"):
			return "reject:commit-light/sig-basic"
		}
		var ne core.ErrNotEnoughVotingPowerSigned
		if errors.As(err, &ne) {
			return "reject:commit-light/not-enough-power"
		}
		return "reject:commit-light/other"
	case strings.HasPrefix(s, "ValidateBasic error on DAH"):
		return "reject:dah-basic"
	}
	return "reject:other"
}

func runValidate(h *EH) (v verdict) {
	defer func() {
		if r := recover(); r != nil {
			v = verdict{ok: false, class: "reject:panic", err: fmt.Sprint(r)}
		}
	}()
	err := h.Validate()
	v.ok = err == nil
	v.class = classifyValidate(err)
	if err != nil {
		v.err = err.Error()
	}
	return v
}

func runVerify(trusted, untrusted *EH) (v verdict) {
	defer func() {
		if r := recover(); r != nil {
			v = verdict{ok: false, class: "reject:panic", err: fmt.Sprint(r)}
		}
	}()
	err := trusted.Verify(untrusted)
	if err == nil {
		return verdict{ok: true, class: "accepted"}
	}
	v.err = err.Error()
	var ve *libhead.VerifyError
	soft := errors.As(err, &ve) && ve.SoftFailure
	switch {
	case errors.Is(err, header.ErrValidatorHashMismatch):
		v.class = "reject:adjacent/validators-hash"
	case errors.Is(err, header.ErrLastHeaderHashMismatch):
		v.class = "reject:adjacent/last-header-hash"
	case errors.Is(err, header.ErrVerifyCommitLightTrustingFailed):
		if soft {
			v.class = "reject:non-adjacent/soft(not-enough-trusted-power)"
		} else {
			v.class = "reject:non-adjacent/hard"
		}
	default:
		v.class = "reject:other"
	}
	return v
}

func safeHash(h *EH) (b []byte, ok bool) {
	defer func() {
		if recover() != nil {
			b, ok = nil, false
		}
	}()
	return h.Hash(), true
}

func encBinary(h *EH) (b []byte, err error) {
	defer func() {
		if r := recover(); r != nil {
			err = fmt.Errorf("panic: %v", r)
		}
	}()
	return h.MarshalBinary()
}

func decBinary(b []byte) (h *EH, err error) {
	defer func() {
		if r := recover(); r != nil {
			err = fmt.Errorf("panic: %v", r)
		}
	}()
	h = new(EH)
	err = h.UnmarshalBinary(b)
	return h, err
}

func encJSON(h *EH) (b []byte, err error) {
	defer func() {
		if r := recover(); r != nil {
			err = fmt.Errorf("panic: %v", r)
		}
	}()
	return h.MarshalJSON()
}

func decJSON(b []byte) (h *EH, err error) {
	defer func() {
		if r := recover(); r != nil {
			err = fmt.Errorf("panic: %v", r)
		}
	}()
	h = new(EH)
	err = h.UnmarshalJSON(b)
	return h, err
}

// ---------------------------------------------------------------------------
// statistics

type stats struct {
	evaluations                                                int64
	inapplicable                                               int64
	validateCalls                                              int64
	verifyCalls                                                int64
	reencCompared                                              int64
	oracleChecks                                               int64
	undecided                                                  int64
	predTrueAcc                                                int64
	predTrueRej                                                int64
	predFalseRej                                               int64
	trustTrueAcc                                               int64
	trustTrueRej                                               int64
	trustFalseRej                                              int64
	adjAcc, adjRej                                             int64
	posControls                                                int64
	msgIDs                                                     int64
	wireCases, wireDecoded, wireDecodeFail, wireNotReencodable int64
	wireNonCanonical, wireSameHeader, wireOtherHeader          int64
	wireHeadersEvaluated                                       int64
	validateClass                                              map[string]int64
	verifyClass                                                map[string]int64
	reencClass                                                 map[string]int64
	fieldMut                                                   map[string]int64 // un-repaired single mutations per field group
	fieldRej                                                   map[string]int64 // ... of which rejected
	acceptedBenign                                             map[string]int64 // un-repaired single mutations that changed the header and were accepted (predicate true)
	libDisagree                                                []string
}

func newStats() *stats {
	return &stats{validateClass: map[string]int64{}, verifyClass: map[string]int64{}, reencClass: map[string]int64{},
		fieldMut: map[string]int64{}, fieldRej: map[string]int64{}, acceptedBenign: map[string]int64{}}
}

func mergeMap(dst, src map[string]int64) {
	for k, v := range src {
		dst[k] += v
	}
}

func (s *stats) merge(o *stats) {
	s.evaluations += o.evaluations
	s.inapplicable += o.inapplicable
	s.validateCalls += o.validateCalls
	s.verifyCalls += o.verifyCalls
	s.reencCompared += o.reencCompared
	s.oracleChecks += o.oracleChecks
	s.undecided += o.undecided
	s.predTrueAcc += o.predTrueAcc
	s.predTrueRej += o.predTrueRej
	s.predFalseRej += o.predFalseRej
	s.trustTrueAcc += o.trustTrueAcc
	s.trustTrueRej += o.trustTrueRej
	s.trustFalseRej += o.trustFalseRej
	s.adjAcc += o.adjAcc
	s.adjRej += o.adjRej
	s.posControls += o.posControls
	s.msgIDs += o.msgIDs
	s.wireCases += o.wireCases
	s.wireDecoded += o.wireDecoded
	s.wireDecodeFail += o.wireDecodeFail
	s.wireNotReencodable += o.wireNotReencodable
	s.wireNonCanonical += o.wireNonCanonical
	s.wireSameHeader += o.wireSameHeader
	s.wireOtherHeader += o.wireOtherHeader
	s.wireHeadersEvaluated += o.wireHeadersEvaluated
	mergeMap(s.validateClass, o.validateClass)
	mergeMap(s.verifyClass, o.verifyClass)
	mergeMap(s.reencClass, o.reencClass)
	mergeMap(s.fieldMut, o.fieldMut)
	mergeMap(s.fieldRej, o.fieldRej)
	mergeMap(s.acceptedBenign, o.acceptedBenign)
	s.libDisagree = append(s.libDisagree, o.libDisagree...)
}

// shared across workers
type shared struct {
	mu       sync.Mutex
	distinct map[string]struct{}
	msgByBlk map[string]msgEntry
	wireSeen map[string]struct{}
	samples  map[string]any
}

type msgEntry struct {
	id string
	c  caseID
}

// ---------------------------------------------------------------------------
// one evaluation = one variant against every rule

type evalCtx struct {
	st          *stats
	sh          *shared
	trusted     []*EH // this worker's own copies of the honest chain, decoded from the wire form
	honFP       string
	sm          *sigMemo         // oracle-side memo of signature checks (pure function)
	libSig      map[string]bool  // memo of the library's single-signature check, used only for the oracle/library comparison
	noJSON      bool             // skip the two JSON paths (thorough-tier operator pairs, headers decoded from non-canonical bytes: JSON invariance is decided on the single-mutation ladder)
	checkFields bool             // provenance stage: the binary re-encoding must also reproduce every field
	noReVerify  bool             // skip Verify of the re-encoded copy (thorough-tier operator pairs)
	summary     *strings.Builder // when set, the observable outcome is written here (determinism check, replay)
}

func blockKey(c *core.Commit) string {
	return fmt.Sprintf("%x|%d|%x", []byte(c.BlockID.Hash), c.BlockID.PartSetHeader.Total, []byte(c.BlockID.PartSetHeader.Hash))
}

// crossCheckOracle compares the independent encodings with the library's on this
// variant; a disagreement is a harness error (reported as infrastructure failure),
// never a verdict.
func crossCheckOracle(ec *evalCtx, id caseID, h *EH) {
	note := func(what string) {
		if len(ec.st.libDisagree) < 5 {
			ec.st.libDisagree = append(ec.st.libDisagree, what+" @ "+id.String())
		}
	}
	ec.st.oracleChecks++
	if lh := h.RawHeader.Hash(); !bytes.Equal(lh, refHeaderHash(&h.RawHeader)) {
		note("header hash")
	}
	if h.DAH != nil && len(h.DAH.RowRoots) == len(h.DAH.ColumnRoots) {
		if lh := cloneDAH(h.DAH).Hash(); !bytes.Equal(lh, refDAHHash(h.DAH.RowRoots, h.DAH.ColumnRoots)) {
			note("dah hash")
		}
	}
	if h.ValidatorSet != nil && len(h.ValidatorSet.Validators) > 0 {
		if rh, ok := refValsHash(h.ValidatorSet.Validators); ok {
			func() {
				defer func() { _ = recover() }()
				if !bytes.Equal(h.ValidatorSet.Hash(), rh) {
					note("validator set hash")
				}
			}()
		}
	}
	if h.Commit != nil {
		for i := range h.Commit.Signatures {
			func() {
				defer func() { _ = recover() }() // the library panics on malformed block ids / unknown flags
				lb := h.Commit.VoteSignBytes(h.RawHeader.ChainID, int32(i))
				if !bytes.Equal(lb, refVoteSignBytes(h.RawHeader.ChainID, h.Commit, i)) {
					note(fmt.Sprintf("vote sign bytes #%d", i))
				}
				if h.ValidatorSet != nil && i < len(h.ValidatorSet.Validators) {
					if v := h.ValidatorSet.Validators[i]; v != nil && v.PubKey != nil {
						sig := h.Commit.Signatures[i].Signature
						key := string(v.PubKey.Bytes()) + string(sig) + string(lb)
						lr, hit := ec.libSig[key]
						if !hit {
							lr = v.PubKey.VerifySignature(lb, sig)
							if ec.libSig != nil {
								if len(ec.libSig) > 200000 {
									clear(ec.libSig)
								}
								ec.libSig[key] = lr
							}
						}
						if lr != ec.sm.ok(v, lb, sig) {
							note(fmt.Sprintf("signature check #%d", i))
						}
					}
				}
			}()
		}
	}
}

func evaluate(ec *evalCtx, id caseID, h *EH, single *op) []violation {
	var out []violation
	st := ec.st
	st.evaluations++
	viol := func(sig, what string, extra map[string]any) {
		out = append(out, violation{sig, what, extra})
	}
	logf := func(format string, a ...any) {
		if ec.summary != nil {
			fmt.Fprintf(ec.summary, format+"\n", a...)
		}
	}

	fp := fingerprint(h)
	changed := fp != ec.honFP
	if ec.sh != nil && changed {
		ec.sh.mu.Lock()
		ec.sh.distinct[fp] = struct{}{}
		ec.sh.mu.Unlock()
	}
	crossCheckOracle(ec, id, h)

	// ---- Validate against the predicate
	p := evalPredM(ec.sm, h)
	v := runValidate(h)
	st.validateCalls++
	st.validateClass[v.class]++
	logf("validate=%s pred(decided=%v dah=%v vals=%v commit=%v power=%v %v/%v)", v.class, p.decided, p.dahOK, p.valsOK, p.commitFor, p.powerOK, p.valid, p.total)
	switch {
	case !p.decided:
		st.undecided++
	case v.ok && !p.ok():
		viol("C16/Validate/accepts/"+p.firstFail(),
			fmt.Sprintf("Validate() == nil for %s although the independent predicate fails: dah-hash=%v valset-hash=%v commit-for-header=%v valid-power=%v of %v (needs > 2/3)",
				id, p.dahOK, p.valsOK, p.commitFor, p.valid, p.total), nil)
	case v.ok:
		st.predTrueAcc++
	case p.ok():
		st.predTrueRej++
	default:
		st.predFalseRej++
	}
	if single != nil && id.Repair == "none" && changed {
		st.fieldMut[single.field]++
		if !v.ok {
			st.fieldRej[single.field]++
		} else {
			st.acceptedBenign[single.name]++
		}
	}

	// ---- re-encoding
	origHash, hashOK := safeHash(h)
	compare := func(path string, g *EH) {
		st.reencCompared++
		gv := runValidate(g)
		st.validateCalls++
		if gv.ok != v.ok {
			viol("C16/reencode/"+path+"/verdict-changed",
				fmt.Sprintf("%s: Validate before re-encoding: %s (%s); after %s: %s (%s)", id, v.class, v.err, path, gv.class, gv.err), nil)
		}
		gh, ok := safeHash(g)
		if hashOK && (!ok || !bytes.Equal(gh, origHash)) {
			viol("C16/reencode/"+path+"/hash-changed", fmt.Sprintf("%s: Hash() %X became %X after %s", id, origHash, gh, path), nil)
		}
		logf("reencode %s: validate=%s hash-equal=%v", path, gv.class, ok && bytes.Equal(gh, origHash))
		if ec.checkFields && path == "binary" && fingerprint(g) != fp {
			viol("C16/reencode/binary/fields-changed", fmt.Sprintf("%s: the header decoded from MarshalBinary() differs field by field from the header that was marshalled", id), nil)
		}
	}
	lost := func(path, stage string, err error) {
		st.reencClass[path+":"+stage+"-error"]++
		logf("reencode %s: %s error", path, stage)
		if v.ok {
			viol("C16/reencode/"+path+"/accepted-but-not-transportable",
				fmt.Sprintf("%s passes Validate() but %s fails at %s: %v", id, path, stage, err), nil)
		}
	}
	var viaBin *EH
	bin, err := encBinary(h)
	if err != nil {
		lost("binary", "encode", err)
	} else if g, err := decBinary(bin); err != nil {
		lost("binary", "decode", err)
	} else {
		st.reencClass["binary:ok"]++
		viaBin = g
		compare("binary", g)
	}
	if ec.noJSON {
		// binary path only
	} else if js, err := encJSON(h); err != nil {
		lost("json", "encode", err)
	} else if g, err := decJSON(js); err != nil {
		lost("json", "decode", err)
	} else {
		st.reencClass["json:ok"]++
		compare("json", g)
	}
	if viaBin != nil && !ec.noJSON {
		path := "binary-json-binary"
		if js, err := encJSON(viaBin); err != nil {
			lost(path, "json-encode", err)
		} else if g, err := decJSON(js); err != nil {
			lost(path, "json-decode", err)
		} else if b2, err := encBinary(g); err != nil {
			lost(path, "binary-encode", err)
		} else if g2, err := decBinary(b2); err != nil {
			lost(path, "binary-decode", err)
		} else {
			st.reencClass[path+":ok"]++
			compare(path, g2)
			if !bytes.Equal(b2, bin) {
				st.reencClass[path+":bytes-differ"]++
			}
		}
	}

	// ---- gossip message id
	if viaBin != nil && viaBin.Commit != nil {
		mid := header.MsgID(&pubsubpb.Message{Data: bin})
		st.msgIDs++
		key := id.Chain + "|" + blockKey(viaBin.Commit)
		logf("msgid=%x", mid)
		if ec.sh != nil {
			ec.sh.mu.Lock()
			first, seen := ec.sh.msgByBlk[key]
			if !seen {
				ec.sh.msgByBlk[key] = msgEntry{mid, id}
			}
			ec.sh.mu.Unlock()
			if seen && first.id != mid {
				viol("C16/MsgID/differs-for-same-block",
					fmt.Sprintf("two decodable messages committing to block %s have different message ids: %s -> %x, %s -> %x", blockKey(viaBin.Commit), first.c, first.id, id, mid),
					map[string]any{"other": first.c})
			}
		}
	}

	// ---- Verify against every honest header of the chain as the trusted one
	for k, tr := range ec.trusted {
		untrusted := []*EH{h}
		if viaBin != nil && !ec.noReVerify {
			untrusted = append(untrusted, viaBin)
		}
		var first verdict
		for ui, u := range untrusted {
			r := runVerify(tr, u)
			st.verifyCalls++
			if ui == 0 {
				first = r
				st.verifyClass[r.class]++
			} else if r.ok != first.ok {
				viol("C16/reencode/binary/verify-verdict-changed",
					fmt.Sprintf("%s against trusted h%d: Verify before re-encoding %s, after %s", id, k, first.class, r.class), map[string]any{"trusted": k})
			}
			if ui > 0 {
				continue
			}
			logf("verify trusted=h%d: %s", k, r.class)
			adjacent := tr.RawHeader.Height+1 == u.RawHeader.Height
			if adjacent {
				linkHash := bytes.Equal(u.RawHeader.LastBlockID.Hash, refHeaderHash(&tr.RawHeader))
				linkVals := bytes.Equal(u.RawHeader.ValidatorsHash, tr.RawHeader.NextValidatorsHash)
				if r.ok {
					st.adjAcc++
					if !linkHash {
						viol("C16/Verify/adjacent-accepts/last-header-hash-mismatch",
							fmt.Sprintf("%s verified against adjacent trusted h%d although its last block id %X is not the trusted header's hash", id, k, []byte(u.RawHeader.LastBlockID.Hash)), map[string]any{"trusted": k})
					}
					if !linkVals {
						viol("C16/Verify/adjacent-accepts/next-validators-hash-mismatch",
							fmt.Sprintf("%s verified against adjacent trusted h%d although its validators hash is not the trusted header's next-validators hash", id, k), map[string]any{"trusted": k})
					}
				} else {
					st.adjRej++
				}
				continue
			}
			dec, ok, valid, total := trustPredM(ec.sm, tr, u)
			switch {
			case !dec:
			case r.ok && !ok:
				viol("C16/Verify/non-adjacent-accepts/insufficient-trusted-power",
					fmt.Sprintf("%s verified against non-adjacent trusted h%d although valid signatures of trusted validators carry only %v of %v (needs > 1/3)", id, k, valid, total), map[string]any{"trusted": k})
			case r.ok:
				st.trustTrueAcc++
			case ok:
				st.trustTrueRej++
			default:
				st.trustFalseRej++
			}
		}
	}
	return out
}

// ---------------------------------------------------------------------------
// repairs by name

func applyRepair(h *EH, name string) bool {
	if name == "none" {
		return true
	}
	for _, step := range strings.Split(name, "+") {
		switch {
		case step == "fixraw":
			if !fixRaw(h) {
				return false
			}
		case step == "fixcommit":
			if !fixCommit(h) {
				return false
			}
		case strings.HasPrefix(step, "resign(") && strings.HasSuffix(step, ")"):
			arg := step[len("resign(") : len(step)-1]
			mask := uint64(math.MaxUint64)
			if arg != "all" {
				m, err := strconv.ParseUint(arg, 2, 64)
				if err != nil {
					return false
				}
				mask = m
			}
			if !resign(h, mask) {
				return false
			}
		default:
			return false
		}
	}
	return true
}

// repairsFor lists the repair levels tried for a variant with nvals validators.
func repairsFor(nvals int, sigsOnly, full bool) []string {
	if sigsOnly {
		return []string{"none"}
	}
	out := []string{"none", "fixraw", "fixcommit", "fixraw+fixcommit", "fixcommit+resign(all)"}
	if !full {
		return []string{"none", "fixraw+fixcommit", "fixraw+fixcommit+resign(all)"}
	}
	if nvals >= 1 && nvals <= 6 {
		for m := 0; m < 1<<uint(nvals); m++ {
			out = append(out, fmt.Sprintf("fixraw+fixcommit+resign(%0*b)", nvals, m))
		}
	}
	return out
}

func nvalsOf(h *EH) int {
	if h == nil || h.ValidatorSet == nil {
		return 0
	}
	return len(h.ValidatorSet.Validators)
}

// ---------------------------------------------------------------------------
// the check

type workItem struct {
	ch   *chain
	idx  int
	ops  []op
	full bool // full repair ladder (single mutations) or the short one (pairs)
	wire *wireChunk
	wa   *wireAlpha
	prov string
}

func neighbours(ch *chain, idx int) []int {
	var nbs []int
	if idx+1 < len(ch.honest) {
		nbs = append(nbs, idx+1)
	}
	if idx > 0 {
		nbs = append(nbs, idx-1)
	}
	return nbs
}

// wireCopy returns h as a node holds it: decoded from its canonical encoding. If the implementation
// cannot decode the encoding of an honest header (only a defective tree does that) a deep copy is used
// instead and the failure is reported as a violation at the end of the run.
var (
	wireCopyFailures atomic.Int64
	wireCopyFirstErr atomic.Value
)

func wireCopy(h *EH) *EH {
	b, err := encBinary(h)
	if err == nil {
		var g *EH
		if g, err = decBinary(b); err == nil {
			return g
		}
	}
	if wireCopyFailures.Add(1) == 1 {
		wireCopyFirstErr.Store(fmt.Sprintf("height %d: %v", h.Height(), err))
	}
	return cloneEH(h)
}

var curTier = "quick"

// firstDiff returns the first line of b that does not occur at the same position in a.
func firstDiff(a, b string) string {
	la, lb := strings.Split(a, "\n"), strings.Split(b, "\n")
	for i, l := range lb {
		if i >= len(la) || la[i] != l {
			return l
		}
	}
	return "(same lines)"
}

func caseArtefact(id caseID, h *EH, extra map[string]any) map[string]any {
	m := map[string]any{"case": id, "tier": curTier}
	for k, v := range extra {
		m[k] = v
	}
	if js, err := encJSON(h); err == nil {
		m["header_json"] = json.RawMessage(js)
	}
	return m
}

func TestVerifC16(t *testing.T) {
	logging.SetAllLoggers(logging.LevelFatal)
	rep := vx.NewReport("C16", "model_checking")
	rep.Rule = "every honest header of every chain configuration (validator sets 1 / 4 equal / 4 with powers 1,1,1,6 / rotating members; thorough adds 2, 3 and 5 validators and a fourth height) " +
		"x every operator of the mutation alphabet (each raw-header field; DAH roots changed/removed/added/swapped/transposed/boundary-shifted; commit height/round/block id/part-set header; " +
		"per signature flip/absent/nil-vote/flag/timestamp/address/swap/copy/neighbour's, every status vector over {valid,absent,nil,corrupt}; validator set remove/add/re-power/re-key/reorder/duplicate/proposer; " +
		"every subset of the four parts taken from a neighbouring header) x every repair level (none, re-derived data/validators hash, re-pointed commit, re-signed by every subset of the keys) " +
		"[x a second operator, short repair ladder]; plus, for every honest header, protobuf-legal non-canonical byte layouts of its encoding (field orders, earlier/later empty, partial, duplicated or neighbouring copies of each top-level field, unknown fields, wrong wire types, non-minimal varints); a case is distinct and non-trivial when the field-by-field fingerprint of the resulting header differs from the honest header and from every other case (wire layouts: when the decodable byte string differs from the canonical encoding and from every other byte string)"
	rep.Assumptions = []string{
		"signature forgery and hash collisions are not attempted (keys of the honest validators are used only where the case says a validator signs)",
		"the oracle's encodings are written independently and compared with the library's on every case; ed25519 verification of the oracle is crypto/ed25519 of the Go standard library",
		"mutated parts are built as fresh objects, as a decoder would (no memoised DAH hash / total voting power carried over from the honest header)",
		"a panic inside Validate/Verify counts as rejection (the property text does not say 'never panics')",
		"'enough of the trusted validators' is the light client's default trust level: more than 1/3 of the trusted voting power",
	}

	if rp := os.Getenv("VERIF_REPLAY"); rp != "" {
		replayC16(t, rep, rp)
		return
	}

	thorough := rep.Tier == "thorough"
	curTier = rep.Tier
	deadline := rep.Deadline(75*time.Second, 17*time.Minute)
	var chains []*chain
	for _, cfg := range chainCfgs(rep.Tier) {
		chains = append(chains, buildChain(cfg))
	}

	// ---- history stage first: what a byte string decodes to must not depend on earlier (rejected) decodes
	histReps := 4
	if thorough {
		histReps = 16
	}
	histTotals := map[string]any{}
	var histPairs, histDecodes int64
	for _, ch := range chains {
		hs := runHistory(ch, histReps, nil, func(sig, what string, replay any) { rep.Violation(sig, what, replay) })
		histPairs += hs.pairs
		histDecodes += hs.decodes
		histTotals[ch.cfg.Name] = map[string]any{"ordered_pairs(d1,d2)": hs.pairs, "repetitions_each": hs.repetitions, "d1_rejected": hs.d1Rejected, "d1_accepted": hs.d1Accepted,
			"d2_byte_strings": hs.d2Fresh, "d2_fresh_outcomes": hs.freshObs, "decodes": hs.decodes}
	}

	var refillCases int64
	refillOutcomes := map[string]int64{}
	for _, ch := range chains {
		n, d := runRefill(ch, nil, func(sig, what string, replay any) { rep.Violation(sig, what, replay) })
		refillCases += n
		mergeMap(refillOutcomes, d)
	}

	sh := &shared{distinct: map[string]struct{}{}, msgByBlk: map[string]msgEntry{}, wireSeen: map[string]struct{}{}, samples: map[string]any{}}
	total := newStats()
	exhaustive := true

	// ---- positive controls on the honest chains (+ the repository's own generator)
	pc := newStats()
	for _, ch := range chains {
		ids := map[string]bool{}
		for i, h := range ch.honest {
			id := caseID{Chain: ch.cfg.Name, Idx: i, Ops: []string{"honest"}, Repair: "none"}
			for _, obj := range []*EH{h, cloneEH(h), wireCopy(h)} {
				v := runValidate(obj)
				p := evalPred(obj)
				pc.posControls++
				if !v.ok || !p.ok() {
					rep.Violation("C16/positive-control/honest-header-rejected", fmt.Sprintf("honest %s: Validate=%s (%s) predicate=%v", id, v.class, v.err, p.ok()), caseArtefact(id, h, nil))
				}
			}
			b, _ := h.MarshalBinary()
			mid := header.MsgID(&pubsubpb.Message{Data: b})
			if ids[mid] {
				rep.Violation("C16/positive-control/msgid-not-distinct", fmt.Sprintf("two different honest headers of chain %s share message id %x", ch.cfg.Name, mid), caseArtefact(id, h, nil))
			}
			ids[mid] = true
			for k, tr := range ch.honest {
				if k == i {
					continue
				}
				r := runVerify(wireCopy(tr), wireCopy(h))
				pc.posControls++
				if tr.Height()+1 == h.Height() {
					if !r.ok {
						rep.Violation("C16/positive-control/honest-adjacent-rejected", fmt.Sprintf("honest %s not verified against its honest predecessor: %s", id, r.err), caseArtefact(id, h, map[string]any{"trusted": k}))
					}
					continue
				}
				if _, ok, _, _ := trustPred(tr, h); ok != r.ok {
					sig := "C16/positive-control/honest-non-adjacent-rejected"
					if r.ok {
						sig = "C16/Verify/non-adjacent-accepts/insufficient-trusted-power"
					}
					rep.Violation(sig, fmt.Sprintf("honest %s against honest trusted h%d: Verify=%s, predicate (>1/3 of trusted power signed)=%v", id, k, r.class, ok), caseArtefact(id, h, map[string]any{"trusted": k}))
				}
			}
		}
	}
	{ // headers produced by the repository's own test-suite generator must satisfy the independent predicate too
		ts := headertest.NewTestSuite(t, headertest.WithValidators(4), headertest.WithBlockTime(time.Second))
		hs := ts.GenExtendedHeaders(3)
		for i, h := range hs {
			p := evalPred(h)
			v := runValidate(h)
			pc.posControls++
			if !p.ok() || !v.ok {
				rep.Infra(fmt.Sprintf("headertest generator header %d: Validate=%s predicate ok=%v (first failing clause %q)", i, v.class, p.ok(), p.firstFail()))
				t.Fail()
			}
			if i > 0 {
				pc.posControls++
				if r := runVerify(hs[i-1], h); !r.ok {
					rep.Infra("headertest generator: adjacent Verify failed: " + r.err)
					t.Fail()
				}
			}
		}
	}
	total.merge(pc)

	// ---- work items
	var items []workItem
	var alphabetSizes = map[string]int{}
	for _, ch := range chains {
		for idx := range ch.honest {
			c := &mctx{ch: ch, idx: idx, nbs: neighbours(ch, idx)}
			prim := primaries(c)
			alphabetSizes[fmt.Sprintf("%s/h%d", ch.cfg.Name, idx)] = len(prim)
			for _, o := range prim {
				items = append(items, workItem{ch: ch, idx: idx, ops: []op{o}, full: true})
			}
		}
	}
	singles := len(items)
	// non-canonical wire encodings of every honest header (placed before the pairs so that a deadline cuts pairs first)
	wireExtras := map[string]int{}
	for _, ch := range chains {
		for idx := range ch.honest {
			wa := buildWireAlpha(ch, idx)
			wireExtras[fmt.Sprintf("%s/h%d", ch.cfg.Name, idx)] = len(wa.extras)
			for _, wc := range wireChunks(thorough, wa) {
				wc := wc
				items = append(items, workItem{ch: ch, idx: idx, wire: &wc, wa: wa})
			}
		}
	}
	// provenance: the core operators applied to objects that came out of UnmarshalBinary (counted with the wire group)
	provItems := 0
	for _, ch := range chains {
		for idx := range ch.honest {
			c := &mctx{ch: ch, idx: idx, nbs: neighbours(ch, idx)}
			for _, o := range primaries(c) {
				if !o.core && !thorough || strings.HasPrefix(o.name, "sigs.status=") {
					continue
				}
				for _, pv := range []string{provDecoded, provShallow} {
					items = append(items, workItem{ch: ch, idx: idx, ops: []op{o}, prov: pv})
					provItems++
				}
			}
		}
	}
	wireItems := len(items) - singles
	var pairAlphabet = map[string]int{}
	for _, ch := range chains {
		for idx := range ch.honest {
			c := &mctx{ch: ch, idx: idx, nbs: neighbours(ch, idx)}
			var sel []op
			for _, o := range primaries(c) {
				if o.name == "identity" {
					continue
				}
				if thorough {
					if !strings.HasPrefix(o.name, "sigs.status=") {
						sel = append(sel, o)
					}
				} else if o.core {
					sel = append(sel, o)
				}
			}
			pairAlphabet[fmt.Sprintf("%s/h%d", ch.cfg.Name, idx)] = len(sel)
			for a := 0; a < len(sel); a++ {
				for b := a + 1; b < len(sel); b++ {
					items = append(items, workItem{ch: ch, idx: idx, ops: []op{sel[a], sel[b]}})
				}
			}
		}
	}
	// VERIF_SEED only rotates the order of the single-mutation group
	if rep.Seed != 0 && singles > 0 {
		r := int(uint64(rep.Seed) % uint64(singles))
		s := append(append([]workItem{}, items[r:singles]...), items[:r]...)
		copy(items[:singles], s)
	}
	// order of execution: wire layouts (cheap), single mutations, pairs — a deadline cuts pairs first
	{
		re := make([]workItem, 0, len(items))
		re = append(re, items[singles:singles+wireItems]...)
		re = append(re, items[:singles]...)
		re = append(re, items[singles+wireItems:]...)
		items = re
	}

	// ---- determinism self-check: the same case evaluated twice in a row, and once more in isolation, gives
	// identical observations. A difference that isolated runs do not show among themselves is not harness
	// nondeterminism: the implementation's answer depends on what it was asked before (a violation).
	selfCheckOps := selfCheck(t, rep, chains[0], "")

	// ---- run
	var next int64 = -1
	var stopped atomic.Bool
	var doneSingles, donePairs, doneWire, provCases int64
	workers := vx.Workers()
	var wg sync.WaitGroup
	var mu sync.Mutex
	for w := 0; w < workers; w++ {
		wg.Add(1)
		go func() {
			defer wg.Done()
			st := newStats()
			trusted := map[*chain][]*EH{}
			honFP := map[*EH]string{}
			sm, libSig := &sigMemo{}, map[string]bool{}
			for {
				i := int(atomic.AddInt64(&next, 1))
				if i >= len(items) || stopped.Load() {
					break
				}
				if time.Now().After(deadline) {
					stopped.Store(true)
					break
				}
				it := items[i]
				tr, ok := trusted[it.ch]
				if !ok {
					for _, h := range it.ch.honest {
						tr = append(tr, wireCopy(h))
					}
					trusted[it.ch] = tr
				}
				hon := it.ch.honest[it.idx]
				hfp, ok := honFP[hon]
				if !ok {
					hfp = fingerprint(hon)
					honFP[hon] = hfp
				}
				ec := &evalCtx{st: st, sh: sh, trusted: tr, honFP: hfp, sm: sm, libSig: libSig, noJSON: thorough && len(it.ops) > 1, noReVerify: thorough && len(it.ops) > 1}
				if it.prov != "" {
					id := caseID{Chain: it.ch.cfg.Name, Idx: it.idx, Ops: []string{it.ops[0].name}, Repair: "none", Prov: it.prov}
					if g, ok := provenance(hon, it.prov); !ok || !applyInPlace(g, it.ops...) {
						st.inapplicable++
					} else {
						ec.checkFields = true
						atomic.AddInt64(&provCases, 1)
						for _, vi := range evaluate(ec, id, g, nil) {
							rep.Violation(vi.sig, vi.what, caseArtefact(id, g, vi.extra))
						}
					}
					atomic.AddInt64(&doneWire, 1)
					continue
				}
				if it.wire != nil {
					expandWireChunk(thorough, it.wa, *it.wire, func(layout []string) {
						b, err := it.wa.assemble(layout)
						if err != nil {
							panic(err)
						}
						id := caseID{Chain: it.ch.cfg.Name, Idx: it.idx, Ops: []string{"honest"}, Repair: "none", Wire: layout}
						vs, h2 := evaluateWire(ec, id, b)
						for _, vi := range vs {
							rep.Violation(vi.sig, vi.what, caseArtefact(id, h2, vi.extra))
						}
					})
					atomic.AddInt64(&doneWire, 1)
					continue
				}
				names := make([]string, len(it.ops))
				sigsOnly := true
				for k, o := range it.ops {
					names[k] = o.name
					sigsOnly = sigsOnly && o.sigsOnly
				}
				base, ok := applyOps(hon, it.ops...)
				if !ok {
					st.inapplicable++
				} else {
					for _, rp := range repairsFor(nvalsOf(base), sigsOnly, it.full) {
						h := base
						if rp != "none" {
							h = cloneEH(base)
							if !applyRepair(h, rp) {
								st.inapplicable++
								continue
							}
						}
						id := caseID{Chain: it.ch.cfg.Name, Idx: it.idx, Ops: names, Repair: rp}
						var single *op
						if len(it.ops) == 1 {
							single = &it.ops[0]
						}
						for _, vi := range evaluate(ec, id, h, single) {
							rep.Violation(vi.sig, vi.what, caseArtefact(id, h, vi.extra))
						}
						// positive control: a commit in which every present signature is valid and the signers hold > 2/3 must be accepted
						if len(it.ops) == 1 && it.ops[0].name == "identity" && strings.HasPrefix(rp, "fixraw+fixcommit+resign(") {
							p := evalPred(h)
							if p.decided && p.ok() {
								st.posControls++
								if v := runValidate(h); !v.ok {
									rep.Violation("C16/positive-control/valid-signer-subset-rejected",
										fmt.Sprintf("%s: every present signature is valid and carries %v of %v, yet Validate: %s", id, p.valid, p.total, v.err), caseArtefact(id, h, nil))
								}
							}
						}
					}
				}
				if len(it.ops) == 1 {
					atomic.AddInt64(&doneSingles, 1)
				} else {
					atomic.AddInt64(&donePairs, 1)
				}
			}
			mu.Lock()
			total.merge(st)
			mu.Unlock()
		}()
	}
	wg.Wait()
	if stopped.Load() {
		exhaustive = false
	}

	if n := wireCopyFailures.Load(); n > 0 {
		rep.Violation("C16/reencode/binary/honest-header-not-decodable",
			fmt.Sprintf("the canonical encoding of an honest header was rejected by UnmarshalBinary %d times during the run (first: %v)", n, wireCopyFirstErr.Load()), map[string]any{"tier": curTier})
	}
	if len(total.libDisagree) > 0 {
		rep.Infra(fmt.Sprintf("independent oracle and library encodings disagree (harness error, not a verdict): %v", total.libDisagree))
		t.Fail()
	}

	// ---- evidence
	distinct := int64(len(sh.distinct))
	rep.Count(total.evaluations, distinct, distinct, total.validateCalls+total.verifyCalls)
	rep.SetExhaustive(exhaustive)
	var cfgDesc []string
	for _, ch := range chains {
		var sets []string
		for _, s := range ch.cfg.Sets {
			var ms []string
			for _, m := range s {
				ms = append(ms, fmt.Sprintf("%s:%d", m.Key, m.Power))
			}
			sets = append(sets, "{"+strings.Join(ms, ",")+"}")
		}
		cfgDesc = append(cfgDesc, fmt.Sprintf("%s: %d heights, validator sets per height %s", ch.cfg.Name, ch.cfg.Heights, strings.Join(sets, " ")))
	}
	rep.Set("chains", cfgDesc)
	rep.Set("operators_per_header", alphabetSizes)
	rep.Set("pair_alphabet_per_header", pairAlphabet)
	npairs := len(items) - singles - wireItems
	rep.Set("work_items", map[string]any{"single_mutations": singles, "single_done": doneSingles, "wire_layout_chunks_and_provenance_cases": wireItems, "wire_chunks_done": doneWire, "operator_pairs": npairs, "pairs_done": donePairs})
	rep.Set("bounds_completed", func() string {
		if exhaustive {
			return fmt.Sprintf("all %d single mutations x full repair ladder, all %d non-canonical wire layouts of the honest headers and all %d operator pairs x short repair ladder", singles, total.wireCases, npairs)
		}
		return fmt.Sprintf("deadline hit: %d of %d single-mutation items, %d of %d wire-layout chunks and %d of %d pair items done", doneSingles, singles, doneWire, wireItems, donePairs, npairs)
	}())
	rep.Set("decode_history", map[string]any{
		"per_chain": histTotals, "ordered_pairs": histPairs, "decodes": histDecodes,
		"setting":    "one goroutine locked to its thread, GOMAXPROCS(1), GC off; d2 observed fresh (after two forced GC cycles) and then right after every d1, each pair repeated",
		"d1":         "per honest header: valid+dangling tag byte, valid minus last byte, DAH only, commit only, validator set only, raw header missing, truncated after header / commit / validator set, valid+truncated commit field, valid+commit tag with varint wire type (all rejected); canonical, canonical+unknown field (accepted)",
		"d2":         "per honest header: canonical encoding; encoding with the header / commit / validator set / DAH field missing",
		"self_check": fmt.Sprintf("%d operators evaluated twice in sequence and once in isolation (after two GC cycles) with identical observations", selfCheckOps),
	})
	rep.Set("object_provenance", map[string]any{
		"operators_on_decoded_objects":        "the core operators (thorough: all except status vectors) applied in place to the object returned by UnmarshalBinary(MarshalBinary(honest)) and to a shallow struct copy of it (parts replaced by fresh deep copies first); all rules, plus: the header decoded from MarshalBinary() of the mutated object equals it field by field",
		"cases":                               provCases,
		"refill_cases":                        refillCases,
		"refill":                              "UnmarshalBinary(A) then UnmarshalJSON(B) into the same object, and UnmarshalJSON(A) then UnmarshalBinary(B), for B an honest neighbour of A or A with one field changed (" + strings.Join(refillMutations, ", ") + "): Validate verdict, Hash, Height, every field and MarshalBinary of the object equal those of B's encoding decoded into a fresh object",
		"refill_outcomes_of_the_fresh_decode": refillOutcomes,
	})
	rep.Set("wire_encodings", map[string]any{
		"extras_per_header": wireExtras,
		"layout_families": map[bool]string{
			false: "all 24 orders of the four top-level fields; non-minimal varint in each tag / each length / all; identity and reverse order x one extra item at each of the 5 slots; identity order x every ordered pair of extras at the front, and at the back",
			true:  "all 24 orders; non-minimal varints; all 24 orders x one extra at each of the 5 slots; identity order x every ordered pair of extras at every pair of slots",
		}[thorough],
		"byte_strings_judged":                                 total.wireCases,
		"decoded_by_UnmarshalExtendedHeader":                  total.wireDecoded,
		"rejected_by_decoder (only 'MsgID returns' demanded)": total.wireDecodeFail,
		"decoded_but_not_marshalable":                         total.wireNotReencodable,
		"decoded_and_bytes_differ_from_canonical":             total.wireNonCanonical,
		"decoded_to_exactly_the_honest_header":                total.wireSameHeader,
		"decoded_to_some_other_header":                        total.wireOtherHeader,
		"distinct_decoded_headers_run_through_all_rules":      total.wireHeadersEvaluated,
	})
	rep.Set("rules_applied", map[string]string{
		"decode history (ordered pairs of decodes)":         "the observation of d2 (rejected / fingerprint, Validate verdict, Hash of the decoded header) right after d1 equals the observation of d2 in a fresh state",
		"non-canonical wire layouts of every honest header": "MsgID(bytes) returns; if the bytes decode: MsgID(bytes) == MsgID(MarshalBinary(decoded)); each distinct decoded header: Validate vs predicate, binary re-encoding (verdict, Hash, transportability), MsgID per block, Verify of it and of its canonical re-encoding against every honest header as trusted",
		"single mutations x full repair ladder":             "Validate vs predicate; binary, JSON and binary->JSON->binary re-encoding (verdict, Hash, transportability); MsgID per block; Verify of the case and of its binary re-encoding against every honest header as trusted",
		"operator pairs x short repair ladder (none, fixraw+fixcommit, fixraw+fixcommit+resign(all))": map[bool]string{
			false: "same rules as single mutations (pairs over the core alphabet)",
			true:  "pairs over the whole alphabet except the status vectors; Validate vs predicate, binary re-encoding, MsgID, Verify of the case (JSON paths and Verify of the re-encoded copy are decided on the single-mutation ladder only)",
		}[thorough],
	})
	rep.Set("validate_outcomes", total.validateClass)
	rep.Set("verify_outcomes", total.verifyClass)
	rep.Set("reencode_outcomes", total.reencClass)
	rep.Set("distinct_observed_outcomes", len(total.validateClass)+len(total.verifyClass))
	rep.Set("validate_vs_predicate", map[string]int64{"accepted_and_predicate_true": total.predTrueAcc, "rejected_although_predicate_true (allowed: stricter than the property)": total.predTrueRej,
		"rejected_and_predicate_false": total.predFalseRej, "undecided_by_predicate": total.undecided})
	rep.Set("verify_vs_predicate", map[string]int64{"adjacent_accepted": total.adjAcc, "adjacent_rejected": total.adjRej, "non_adjacent_accepted_and_enough_trusted_power": total.trustTrueAcc,
		"non_adjacent_rejected_although_enough_trusted_power (allowed)": total.trustTrueRej, "non_adjacent_rejected_and_not_enough": total.trustFalseRej})
	rep.Set("implementation_calls", map[string]int64{"Validate": total.validateCalls, "Verify": total.verifyCalls, "reencoded_headers_compared": total.reencCompared, "MsgID": total.msgIDs})
	rep.Set("msgid_blocks", len(sh.msgByBlk))
	rep.Set("positive_controls", total.posControls)
	rep.Set("oracle_vs_library_cross_checks", total.oracleChecks)
	rep.Set("inapplicable_skipped", total.inapplicable)
	part := map[string]string{}
	for f, n := range total.fieldMut {
		part[f] = fmt.Sprintf("%d/%d rejected", total.fieldRej[f], n)
	}
	rep.Set("field_participation (un-repaired single mutations that change the header)", part)
	var benign []string
	for k := range total.acceptedBenign {
		benign = append(benign, k)
	}
	sort.Strings(benign)
	rep.Set("accepted_unrepaired_mutations (predicate still true: field not committed or > 2/3 still valid)", benign)

	// samples: real cases, written out
	for _, want := range []struct {
		chain string
		idx   int
		ops   []string
		rp    string
	}{
		{"v4w1116", 1, []string{"dah.col[3].flipLast"}, "none"},
		{"v4w1116", 1, []string{"identity"}, "fixraw+fixcommit+resign(0001)"},
		{"rot4", 2, []string{"vals.only-atk"}, "fixraw+fixcommit+resign(all)"},
		{"v4eq", 1, []string{"sigs.status=VAXN"}, "none"},
	} {
		for _, ch := range chains {
			if ch.cfg.Name != want.chain {
				continue
			}
			id := caseID{Chain: want.chain, Idx: want.idx, Ops: want.ops, Repair: want.rp}
			h, err := rebuild(ch, id)
			if err != nil {
				continue
			}
			v := runValidate(h)
			p := evalPred(h)
			s := map[string]any{"case": id, "validate": v.class, "predicate": map[string]any{"dah": p.dahOK, "valset": p.valsOK, "commit_for_header": p.commitFor, "valid_power": p.valid.String(), "total_power": p.total.String()}}
			var vr []string
			for k, tr := range ch.honest {
				vr = append(vr, fmt.Sprintf("trusted=h%d: %s", k, runVerify(wireCopy(tr), h).class))
			}
			s["verify"] = vr
			rep.AddSample(s)
		}
	}
	if rep.Finish() > 0 {
		t.Fail()
	}
}

// selfCheck evaluates operators of the first header of ch in sequence: each twice in a row and once in
// isolation (after two GC cycles). upTo == "" means every 7th operator; otherwise the same sequence is
// followed up to and including the named operator (replay). Returns the number of operators checked.
func selfCheck(t *testing.T, rep *vx.Report, ch *chain, upTo string) int {
	selfCheckOps := 0
	tr := make([]*EH, len(ch.honest))
	for i, h := range ch.honest {
		tr[i] = wireCopy(h)
	}
	c := &mctx{ch: ch, idx: 0, nbs: neighbours(ch, 0)}
	observe := func(o op) string {
		h, ok := applyOps(ch.honest[0], o)
		if !ok {
			return "inapplicable"
		}
		var sb strings.Builder
		ec := &evalCtx{st: newStats(), trusted: tr, honFP: fingerprint(ch.honest[0]), summary: &sb}
		evaluate(ec, caseID{Chain: ch.cfg.Name, Idx: 0, Ops: []string{o.name}, Repair: "none"}, h, nil)
		return sb.String()
	}
	isolated := func(o op) string {
		runtime.GC()
		runtime.GC()
		return observe(o)
	}
	var preceding []string
	for n, o := range primaries(c) {
		if n%7 != 0 {
			continue
		}
		selfCheckOps++
		obs0, obs1 := observe(o), observe(o)
		iso := isolated(o)
		if obs0 != obs1 || obs0 != iso {
			isos := []string{iso}
			agree := true
			for k := 0; k < 4; k++ {
				x := isolated(o)
				agree = agree && x == iso
				isos = append(isos, x)
			}
			if !agree {
				rep.Infra("NONDETERMINISM: operator " + o.name + " observed differently on isolated executions")
				t.Fatalf("nondeterminism (isolated runs disagree):\n%s", strings.Join(isos, "\n---\n"))
			}
			id := caseID{Chain: ch.cfg.Name, Idx: 0, Ops: []string{o.name}, Repair: "none"}
			rep.Violation("C16/verdict-depends-on-history",
				fmt.Sprintf("%s: 5 isolated evaluations (each after two GC cycles) agree with each other, but the evaluation in the context of the preceding %d operators differs: the verdicts/decodings depend on what was validated or decoded before. First differing observation line - in context (1st run): [%s]; in context (2nd run): [%s]; isolated: [%s]",
					id, len(preceding), firstDiff(iso, obs0), firstDiff(iso, obs1), firstDiff(obs0, iso)),
				map[string]any{"case": id, "tier": curTier, "preceding": append([]string{}, preceding...), "in_context": []string{obs0, obs1}, "isolated": iso})
		}
		preceding = append(preceding, o.name)
		if upTo != "" && o.name == upTo {
			break
		}
	}
	return selfCheckOps
}

// rebuild reconstructs a case from its name.
func rebuild(ch *chain, id caseID) (*EH, error) {
	if id.Idx < 0 || id.Idx >= len(ch.honest) {
		return nil, fmt.Errorf("no height index %d in chain %s", id.Idx, ch.cfg.Name)
	}
	c := &mctx{ch: ch, idx: id.Idx, nbs: neighbours(ch, id.Idx)}
	byName := map[string]op{}
	for _, o := range primaries(c) {
		byName[o.name] = o
	}
	var ops []op
	for _, n := range id.Ops {
		if n == "honest" {
			continue
		}
		o, ok := byName[n]
		if !ok {
			return nil, fmt.Errorf("unknown operator %q", n)
		}
		ops = append(ops, o)
	}
	if id.Prov != "" {
		g, ok := provenance(ch.honest[id.Idx], id.Prov)
		if !ok || !applyInPlace(g, ops...) {
			return nil, fmt.Errorf("operators do not apply to the %s object", id.Prov)
		}
		return g, nil
	}
	h, ok := applyOps(ch.honest[id.Idx], ops...)
	if !ok {
		return nil, fmt.Errorf("operators do not apply")
	}
	if !applyRepair(h, id.Repair) {
		return nil, fmt.Errorf("repair %q does not apply", id.Repair)
	}
	return h, nil
}

func replayC16(t *testing.T, rep *vx.Report, path string) {
	b, err := os.ReadFile(path)
	if err != nil {
		t.Fatalf("replay: %v", err)
	}
	var doc struct {
		Signature string `json:"signature"`
		Replay    struct {
			Case      caseID      `json:"case"`
			Other     *caseID     `json:"other"`
			Tier      string      `json:"tier"`
			History   *histCase   `json:"history"`
			Refill    *refillCase `json:"refill"`
			Preceding []string    `json:"preceding"`
		} `json:"replay"`
	}
	if err := json.Unmarshal(b, &doc); err != nil {
		t.Fatalf("replay: %v", err)
	}
	chainFor := func(name string) *chain {
		for _, tier := range []string{doc.Replay.Tier, rep.Tier, "quick", "thorough"} {
			for _, cfg := range chainCfgs(tier) {
				if cfg.Name == name {
					return buildChain(cfg)
				}
			}
		}
		return nil
	}
	if rc := doc.Replay.Refill; rc != nil {
		ch := chainFor(rc.Chain)
		if ch == nil {
			t.Fatalf("replay: unknown chain %q", rc.Chain)
		}
		hits := 0
		for run := 0; run < 5; run++ {
			n := 0
			runRefill(ch, rc, func(sig, what string, _ any) {
				if run == 0 {
					fmt.Printf("REPLAY-VIOLATION %s: %s\n", sig, what)
				}
				n++
			})
			if n > 0 {
				hits++
			}
		}
		rep.Count(5, 2, 1, 5)
		rep.AddSample(rc)
		rep.SetExhaustive(false)
		if hits > 0 {
			fmt.Printf("VERIF-NOTE REPLAY-RESULT violation reproduced %d/5: [%s]\n", hits, doc.Signature)
			rep.Violation(doc.Signature, "reproduced from replay file", doc.Replay)
		} else {
			fmt.Println("VERIF-NOTE REPLAY-RESULT no violation")
		}
		if rep.Finish() > 0 {
			t.Fail()
		}
		return
	}
	if hc := doc.Replay.History; hc != nil { // an ordered pair of decodes
		ch := chainFor(hc.Chain)
		if ch == nil {
			t.Fatalf("replay: unknown chain %q", hc.Chain)
		}
		hits := 0
		for run := 0; run < 5; run++ {
			n := 0
			runHistory(ch, 16, hc, func(sig, what string, _ any) {
				if n == 0 && run == 0 {
					fmt.Printf("REPLAY-VIOLATION %s: %s\n", sig, what)
				}
				n++
			})
			if n > 0 {
				hits++
			}
		}
		rep.Count(5, 2, 1, 5)
		rep.AddSample(hc)
		rep.SetExhaustive(false)
		if hits > 0 {
			fmt.Printf("REPLAY-RESULT violation reproduced %d/5: [%s]\n", hits, doc.Signature)
			fmt.Printf("VERIF-NOTE REPLAY-RESULT violation reproduced %d/5: [%s]\n", hits, doc.Signature)
			rep.Violation(doc.Signature, "reproduced from replay file", doc.Replay)
		} else {
			fmt.Println("REPLAY-RESULT no violation")
			fmt.Println("VERIF-NOTE REPLAY-RESULT no violation")
		}
		if rep.Finish() > 0 {
			t.Fail()
		}
		return
	}
	if doc.Signature == "C16/verdict-depends-on-history" && len(doc.Replay.Case.Ops) == 1 { // the self-check sequence up to that operator
		ch := chainFor(doc.Replay.Case.Chain)
		if ch == nil {
			t.Fatalf("replay: unknown chain %q", doc.Replay.Case.Chain)
		}
		selfCheck(t, rep, ch, doc.Replay.Case.Ops[0])
		rep.Count(1, 2, 1, 1)
		rep.AddSample(doc.Replay.Case)
		rep.SetExhaustive(false)
		if n := rep.Finish(); n > 0 {
			fmt.Println("VERIF-NOTE REPLAY-RESULT violation reproduced")
			t.Fail()
		} else {
			fmt.Println("VERIF-NOTE REPLAY-RESULT no violation")
		}
		return
	}
	id := doc.Replay.Case
	// the thorough tier has one more height; a case names its chain by configuration name, so try the tier
	// in which the index exists with the same neighbours first
	var last []string
	for run := 0; run < 5; run++ {
		var sigs []string
		for _, tier := range []string{doc.Replay.Tier, rep.Tier, "quick", "thorough"} {
			var ch *chain
			for _, cfg := range chainCfgs(tier) {
				if cfg.Name == id.Chain {
					ch = buildChain(cfg)
				}
			}
			if ch == nil {
				continue
			}
			h, err := rebuild(ch, id)
			if err != nil {
				continue
			}
			sh := &shared{distinct: map[string]struct{}{}, msgByBlk: map[string]msgEntry{}, wireSeen: map[string]struct{}{}}
			var tr []*EH
			for _, x := range ch.honest {
				tr = append(tr, wireCopy(x))
			}
			var sb strings.Builder
			ec := &evalCtx{st: newStats(), sh: sh, trusted: tr, honFP: fingerprint(ch.honest[id.Idx]), summary: &sb, checkFields: id.Prov != ""}
			if doc.Replay.Other != nil {
				if o, err := rebuild(ch, *doc.Replay.Other); err == nil {
					evaluate(&evalCtx{st: newStats(), sh: sh, trusted: tr, honFP: ec.honFP}, *doc.Replay.Other, o, nil)
				}
			}
			var vs []violation
			if len(id.Wire) > 0 {
				b, err := buildWireAlpha(ch, id.Idx).assemble(id.Wire)
				if err != nil {
					t.Fatalf("replay: %v", err)
				}
				if run == 0 {
					fmt.Printf("REPLAY-WIRE-BYTES %x\n", b)
				}
				vs, _ = evaluateWire(ec, id, b)
			} else {
				vs = evaluate(ec, id, h, nil)
			}
			if strings.Contains(doc.Signature, "positive-control") {
				if v := runValidate(h); !v.ok {
					vs = append(vs, violation{sig: doc.Signature, what: v.err})
				}
			}
			for _, v := range vs {
				sigs = append(sigs, v.sig)
				if run == 0 {
					fmt.Printf("REPLAY-VIOLATION %s: %s\n", v.sig, v.what)
				}
			}
			if run == 0 {
				fmt.Printf("REPLAY-CASE %s (tier layout %s)\n%s", id, tier, sb.String())
			}
			break
		}
		sort.Strings(sigs)
		if run > 0 && strings.Join(sigs, ",") != strings.Join(last, ",") {
			t.Fatalf("NONDETERMINISM: replay %d gave %v, earlier %v", run, sigs, last)
		}
		last = sigs
	}
	rep.Count(5, 2, 1, 5)
	rep.AddSample(id)
	rep.SetExhaustive(false)
	if len(last) > 0 {
		fmt.Printf("REPLAY-RESULT violation reproduced 5/5: %v\n", last)
		fmt.Printf("VERIF-NOTE REPLAY-RESULT violation reproduced 5/5: %v\n", last)
		for _, s := range last {
			rep.Violation(s, "reproduced from replay file", doc.Replay)
		}
	} else {
		fmt.Println("REPLAY-RESULT no violation")
		fmt.Println("VERIF-NOTE REPLAY-RESULT no violation")
	}
	if rep.Finish() > 0 {
		t.Fail()
	}
}
