package share

// C06 harness, part 5: many retrievals at once ("burst ladder") and retrievals after shutdown.
//
// All peers are honest here. What is enumerated is the LOAD on one set of getters: a burst of n retrievals that
// are all in flight at the same time (each one is started and runs until it blocks on the network before the
// next one is started; no answer arrives before 1s of fake time), all of which finish, followed by a second
// burst of n-1 / n / n+1 retrievals on the same getters - for every n of a ladder, so that any constant a pool
// of reusable resources (bitswap sessions, shrex peers) may have lies inside it. And: retrievals after the
// getters were stopped the way the node stops them.
//
// Oracle (unchanged): whatever a call returns verifies and equals the reference; a value without error is
// complete; with honest peers only and ample time a call on running getters succeeds; every call returns.

import (
	"context"
	"fmt"
	"runtime/debug"
	"sort"
	"testing/synctest"
	"time"

	"github.com/cometbft/cometbft/types"

	"github.com/celestiaorg/celestia-node/header"
	"github.com/celestiaorg/celestia-node/share/shwap"
	"github.com/celestiaorg/celestia-node/share/shwap/p2p/bitswap"
)

// v6BurstReqs: the requests of a square that reach the network (a namespace without rows is answered locally).
func v6BurstReqs(s *v6Square) []v6Req {
	var out []v6Req
	for _, r := range s.reqs {
		if v6CountCIDs(s, r) > 0 {
			out = append(out, r)
		}
	}
	return out
}

func v6ExecBurst(env *v6Env, c v6Case) (res v6Result) {
	sqr := env.squares[c.Sq]
	w := v6NewWorld(sqr.tab)
	w.defaultAns = "honest"
	bg, stopAll := context.WithCancel(context.Background())
	wd, err := v6Build(w, env, sqr, c, env.base+uint64(c.Sq), c.Extra, bg)
	if err != nil {
		res.Harness = err.Error()
		stopAll()
		return res
	}
	reqs := v6BurstReqs(sqr)
	stopped := false
	var lines []string
	report := func(sig, what string) {
		if res.Sig == "" {
			res.Sig, res.What = sig, what
		}
	}

	for bi, n := range c.Bursts {
		if (c.StopAt == -1 && bi == 0) || (c.StopAt > 0 && c.StopAt == bi) {
			wd.stop()
			stopped = true
			lines = append(lines, fmt.Sprintf("t=%v getters stopped", time.Since(w.t0)))
		}
		where := "burst"
		switch {
		case stopped:
			where = "after-stop"
		case bi > 0:
			where = "after-burst"
		}
		type call struct {
			req    v6Req
			height uint64
			out    *v6CallOut
			done   chan struct{}
		}
		calls := make([]*call, n)
		ctx, cancel := context.WithTimeout(bg, 10*time.Minute)
		for i := 0; i < n; i++ {
			cl := &call{req: reqs[(i+bi)%len(reqs)], height: 200_000 + uint64(env.id)*10_000 + uint64(bi)*100 + uint64(i),
				out: &v6CallOut{}, done: make(chan struct{})}
			calls[i] = cl
			hdr := &header.ExtendedHeader{
				Commit:    &types.Commit{},
				RawHeader: header.RawHeader{Height: int64(cl.height), Time: time.Now().Add(-time.Minute), DataHash: sqr.roots.Hash()},
				DAH:       sqr.roots,
			}
			go func() {
				defer close(cl.done)
				defer func() {
					if r := recover(); r != nil {
						cl.out.pan = r
						cl.out.stack = string(debug.Stack())
					}
				}()
				g := wd.getter
				switch cl.req.Kind {
				case "samples":
					var cs []shwap.SampleCoords
					for _, x := range cl.req.Coords {
						cs = append(cs, shwap.SampleCoords{Row: x[0], Col: x[1]})
					}
					cl.out.val, cl.out.err = g.GetSamples(ctx, hdr, cs)
				case "row":
					cl.out.val, cl.out.err = g.GetRow(ctx, hdr, cl.req.Row)
				case "eds":
					cl.out.val, cl.out.err = g.GetEDS(ctx, hdr)
				case "nd":
					cl.out.val, cl.out.err = g.GetNamespaceData(ctx, hdr, sqr.ns[cl.req.NS])
				case "range":
					cl.out.val, cl.out.err = g.GetRangeNamespaceData(ctx, hdr, cl.req.From, cl.req.To)
				}
			}()
			// the call runs until it blocks (holding whatever pooled resource it took) before the next one starts;
			// 1ms apart, so that calls which a cascade hands from one getter to the next after a time-out arrive
			// there one after the other as well (all of them are still in flight together: answers take 1s)
			synctest.Wait()
			time.Sleep(time.Millisecond)
		}
		limit := time.NewTimer(3 * time.Hour)
		returned := 0
		for _, cl := range calls {
			select {
			case <-cl.done:
				returned++
			case <-limit.C:
			}
		}
		limit.Stop()
		cancel()
		okN, errN, emptyOK, badN := 0, 0, 0, 0
		for i, cl := range calls {
			name := fmt.Sprintf("%s: burst %d (%s) of %d, call %d %s", c, bi+1, where, n, i, cl.req)
			select {
			case <-cl.done:
			default:
				report("C06/no-return/"+where, name+": the call had not returned 3h (fake time) after it was made")
				continue
			}
			if cl.out.pan != nil {
				site := v6PanicSite(cl.out.stack)
				report("C06/panic/"+site, fmt.Sprintf("%s: the call panicked: %v (in %s)", name, cl.out.pan, site))
				continue
			}
			filled, total, bad := v6CheckValue(cl.req, sqr, cl.out.val)
			switch {
			case bad != "" && cl.out.err != nil:
				badN++
				report("C06/unverified-returned/"+where, fmt.Sprintf("%s: returned together with error %q a value that does not verify: %s", name, v6Short(cl.out.err), bad))
			case bad != "":
				badN++
				report("C06/wrong-data-accepted/"+where, fmt.Sprintf("%s: returned without error a value that does not verify: %s", name, bad))
			case cl.out.err == nil && filled != total:
				emptyOK++
				report("C06/incomplete-success/"+where, fmt.Sprintf("%s: returned without error an incomplete value (%d of %d elements); all peers are honest", name, filled, total))
			case cl.out.err == nil:
				okN++
			default:
				errN++
				if !stopped {
					report("C06/honest-rejected/"+where, fmt.Sprintf("%s: all peers are honest and there is ample time, yet the call failed: %q", name, v6Short(cl.out.err)))
				}
			}
		}
		lines = append(lines, fmt.Sprintf("burst %d (%s): %d calls, %d returned: ok=%d error=%d nil-error-but-incomplete=%d not-verifying=%d",
			bi+1, where, n, returned, okN, errN, emptyOK, badN))
	}

	stopAll()
	w.shutdown()
	wd.stop()
	synctest.Wait()

	w.mu.Lock()
	res.Harness = w.harnessErr
	wl := append([]string(nil), w.log...)
	w.mu.Unlock()
	sort.Strings(wl)
	res.Log = append(v6Squash(wl), lines...)
	res.Nontriv = len(c.Bursts) > 1 || c.StopAt != 0 || (len(c.Bursts) == 1 && c.Bursts[0] > 1)
	res.Outcome = "burst:all-ok"
	switch {
	case res.Sig != "":
		res.Outcome = "burst:VIOLATION"
	case stopped:
		res.Outcome = "burst:after-stop-no-unverified-data"
	}
	res.Log = append(res.Log, "outcome: "+res.Outcome)
	if wd.ex != nil {
		wd.ex.mu.Lock()
		res.Log = append(res.Log, fmt.Sprintf("bitswap sessions created: %d", wd.ex.sessions))
		wd.ex.mu.Unlock()
	}
	return res
}

// v6Squash replaces runs of identical (sorted) lines by one line with a count.
func v6Squash(lines []string) []string {
	var out []string
	for i := 0; i < len(lines); {
		j := i
		for j < len(lines) && lines[j] == lines[i] {
			j++
		}
		if j-i > 1 {
			out = append(out, fmt.Sprintf("%s  (x%d)", lines[i], j-i))
		} else {
			out = append(out, lines[i])
		}
		i = j
	}
	return out
}

var _ = bitswap.NewGetter
