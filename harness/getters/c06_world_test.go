package share

// C06 harness, part 2: reference squares, request instances, and the tables of answers
// (honest bytes from the REAL shrex server / bitswap blockstore and their faulty variants).

import (
	"bytes"
	"context"
	"encoding/binary"
	"errors"
	"fmt"
	"io"
	"sort"
	"strings"

	"github.com/libp2p/go-libp2p/core/network"
	"github.com/libp2p/go-libp2p/core/protocol"

	libshare "github.com/celestiaorg/go-square/v4/share"
	"github.com/celestiaorg/rsmt2d"

	rshare "github.com/celestiaorg/celestia-node/share"
	"github.com/celestiaorg/celestia-node/share/eds"
	"github.com/celestiaorg/celestia-node/share/shwap"
	"github.com/celestiaorg/celestia-node/share/shwap/p2p/shrex"
	shrexpb "github.com/celestiaorg/celestia-node/share/shwap/p2p/shrex/pb"
	shwappb "github.com/celestiaorg/celestia-node/share/shwap/pb"
	"github.com/celestiaorg/celestia-node/store"
	"github.com/celestiaorg/celestia-node/verifx/sq"
)

const v6NetID = "verif"

// ---------------------------------------------------------------------------
// requests

// v6Req is one getter call.
type v6Req struct {
	Kind   string   `json:"kind"` // samples | row | eds | nd | range
	Coords [][2]int `json:"coords,omitempty"`
	Row    int      `json:"row,omitempty"`
	NS     string   `json:"ns,omitempty"` // probe name
	From   int      `json:"from,omitempty"`
	To     int      `json:"to,omitempty"`
}

func (r v6Req) String() string {
	switch r.Kind {
	case "samples":
		return fmt.Sprintf("samples%v", r.Coords)
	case "row":
		return fmt.Sprintf("row(%d)", r.Row)
	case "eds":
		return "eds"
	case "nd":
		return "nd(" + r.NS + ")"
	case "range":
		return fmt.Sprintf("range[%d,%d)", r.From, r.To)
	}
	return "?"
}

// Class is the coarse request type used in signatures and statistics.
func (r v6Req) Class() string {
	if r.Kind == "samples" {
		return fmt.Sprintf("samples%d", len(r.Coords))
	}
	return r.Kind
}

func v6SampleKey(r, c int) string { return fmt.Sprintf("sample:%d,%d", r, c) }
func v6RowKey(i int) string       { return fmt.Sprintf("row:%d", i) }
func v6NDKey(ns libshare.Namespace) string {
	return fmt.Sprintf("nd:%x", ns.Bytes())
}
func v6RangeKey(f, t int) string { return fmt.Sprintf("range:%d-%d", f, t) }

// Keys are the shrex request keys the call issues (one per network request).
func (r v6Req) Keys(s *v6Square) []string {
	switch r.Kind {
	case "samples":
		var ks []string
		for _, c := range r.Coords {
			ks = append(ks, v6SampleKey(c[0], c[1]))
		}
		return ks
	case "row":
		return []string{v6RowKey(r.Row)}
	case "eds":
		return []string{"eds"}
	case "nd":
		return []string{v6NDKey(s.ns[r.NS])}
	case "range":
		return []string{v6RangeKey(r.From, r.To)}
	}
	return nil
}

// v6ParseRequest maps the bytes the client wrote to the request key (the height is ignored).
func v6ParseRequest(p protocol.ID, b []byte) (string, error) {
	name := string(p)
	if i := strings.LastIndexByte(name, '/'); i >= 0 {
		name = name[i+1:]
	}
	rd := bytes.NewReader(b)
	switch name {
	case "sample_v0":
		var id shwap.SampleID
		if _, err := id.ReadFrom(rd); err != nil {
			return "", err
		}
		return v6SampleKey(id.RowIndex, id.ShareIndex), nil
	case "row_v0":
		var id shwap.RowID
		if _, err := id.ReadFrom(rd); err != nil {
			return "", err
		}
		return v6RowKey(id.RowIndex), nil
	case "eds_v0":
		var id shwap.EdsID
		if _, err := id.ReadFrom(rd); err != nil {
			return "", err
		}
		return "eds", nil
	case "nd_v0":
		var id shwap.NamespaceDataID
		if _, err := id.ReadFrom(rd); err != nil {
			return "", err
		}
		return v6NDKey(id.DataNamespace), nil
	case "rangeNamespaceData_v0":
		var id shwap.RangeNamespaceDataID
		if _, err := id.ReadFrom(rd); err != nil {
			return "", err
		}
		return v6RangeKey(id.From, id.To), nil
	}
	return "", fmt.Errorf("unknown protocol %q", p)
}

// ---------------------------------------------------------------------------
// squares

type v6Square struct {
	Idx    int
	Layout string
	S      *sq.Square // the reference
	Alt    *sq.Square // same layout, other payloads ("another square of the same shape")
	roots  *rshare.AxisRoots
	ns     map[string]libshare.Namespace
	runs   map[string][2]int // user namespace -> [start,end) in ODS order
	reqs   []v6Req
	tab    map[string]map[string][]byte // shrex: key -> answer -> wire bytes (shared, read-only)
}

func v6BuildSquare(idx int, layout string) (*v6Square, error) {
	l, err := sq.ParseLayout(layout)
	if err != nil {
		return nil, err
	}
	s, err := sq.Build(l, 0)
	if err != nil {
		return nil, err
	}
	alt, err := sq.Build(l, 1)
	if err != nil {
		return nil, err
	}
	out := &v6Square{Idx: idx, Layout: layout, S: s, Alt: alt, roots: s.DAH, ns: map[string]libshare.Namespace{}, runs: map[string][2]int{}}
	out.roots.Hash() // memoised lazily: compute before the value is shared
	alt.DAH.Hash()
	for _, p := range sq.Probes() {
		out.ns[p.Name] = p.NS
	}
	pos := 0
	for _, r := range l.Runs {
		if r.Sym.IsUser() {
			out.runs[r.Sym.String()] = [2]int{pos, pos + r.N}
		}
		pos += r.N
	}
	return out, nil
}

// v6Requests lists the request instances of a square. thorough adds more coordinates.
func (s *v6Square) v6Requests(thorough bool) []v6Req {
	W, N := s.S.W, s.S.N
	var out []v6Req
	coords := [][2]int{{0, 1}, {N - 1, N - 2}}
	if thorough {
		coords = append(coords, [2]int{0, 0}, [2]int{W, 0}, [2]int{1, W})
	}
	for _, c := range coords {
		out = append(out, v6Req{Kind: "samples", Coords: [][2]int{c}})
	}
	out = append(out, v6Req{Kind: "samples", Coords: [][2]int{{0, 1}, {W, W + 1}}})
	rows := []int{0, W}
	if thorough {
		rows = append(rows, W-1, N-1)
	}
	for _, r := range rows {
		out = append(out, v6Req{Kind: "row", Row: r})
	}
	out = append(out, v6Req{Kind: "eds"})
	// namespace data: one probe per class of situation
	seen := map[string]bool{}
	for _, p := range sq.Probes() {
		if !p.Requestable {
			continue
		}
		cl := s.S.Class(p.NS)
		if seen[cl] && !(thorough && strings.HasPrefix(cl, "present")) {
			continue
		}
		seen[cl] = true
		out = append(out, v6Req{Kind: "nd", NS: p.Name})
	}
	// ranges inside user namespace runs
	names := make([]string, 0, len(s.runs))
	for n := range s.runs {
		names = append(names, n)
	}
	sort.Strings(names)
	rseen := map[[2]int]bool{}
	for _, n := range names {
		run := s.runs[n]
		cands := s.rangeCandidates(run)
		if !thorough && len(cands) > 3 {
			cands = cands[:3]
		}
		for _, c := range cands {
			if !rseen[c] {
				rseen[c] = true
				out = append(out, v6Req{Kind: "range", From: c[0], To: c[1]})
			}
		}
	}
	return out
}

func (s *v6Square) rangeCandidates(run [2]int) [][2]int {
	W := s.S.W
	st, en := run[0], run[1]
	var out [][2]int
	add := func(f, t int) {
		if f < st || t > en || f >= t {
			return
		}
		for _, o := range out {
			if o == [2]int{f, t} {
				return
			}
		}
		out = append(out, [2]int{f, t})
	}
	rowEnd := func(i int) int { return (i/W + 1) * W }
	rowStart := func(i int) int { return (i / W) * W }
	add(st, st+1)                                    // one share, one row
	add(st, en)                                      // the whole run
	add(rowStart(en-1), en)                          // the part in the last row
	add(st, min(en, rowEnd(st)))                     // the part in the first row
	add(st+1, min(en, rowEnd(st+1)))                 // starts one later, to the end of its row
	add(rowStart(en-1), max(rowStart(en-1)+1, en-1)) // last row, one share short
	return out
}

// rangeAlternates: other valid ranges of the same run, used as "data for other coordinates".
func (s *v6Square) rangeAlternates(f, t int) [][2]int {
	var run [2]int
	found := false
	for _, r := range s.runs {
		if f >= r[0] && t <= r[1] {
			run, found = r, true
		}
	}
	if !found {
		return nil
	}
	var out [][2]int
	add := func(a, b int) {
		if a < run[0] || b > run[1] || a >= b || (a == f && b == t) {
			return
		}
		for _, o := range out {
			if o == [2]int{a, b} {
				return
			}
		}
		out = append(out, [2]int{a, b})
	}
	add(f, run[1]) // longer: same start, to the end of the run
	add(run[0], t) // longer: from the start of the run
	add(f+1, t+1)  // shifted
	add(f, t-1)    // shorter
	if len(out) > 3 {
		out = out[:3]
	}
	return out
}

// ---------------------------------------------------------------------------
// honest bytes from the real shrex server

type v6MemStore struct {
	eds  map[uint64]*rsmt2d.ExtendedDataSquare
	fail map[uint64]bool
	all  *rsmt2d.ExtendedDataSquare // if set: the square held at every height
}

func (m *v6MemStore) GetByHeight(_ context.Context, h uint64) (eds.AccessorStreamer, error) {
	if m.fail[h] {
		return nil, errors.New("verif: disk failure")
	}
	e, ok := m.eds[h]
	if !ok && m.all != nil {
		e, ok = m.all, true
	}
	if !ok {
		return nil, store.ErrNotFound
	}
	return &eds.Rsmt2D{ExtendedDataSquare: e}, nil
}

func (m *v6MemStore) HasByHeight(_ context.Context, h uint64) (bool, error) {
	_, ok := m.eds[h]
	return ok, nil
}

const (
	v6GenHeight     = 1 // the generator's server holds the square at this height
	v6GenAbsent     = 2 // ... holds nothing here (NOT_FOUND)
	v6GenFailHeight = 3 // ... fails here (INTERNAL)
)

type v6Gen struct {
	st   *v6MemStore
	host *v6ServerHost
}

func v6NewGen() (*v6Gen, error) {
	g := &v6Gen{
		st:   &v6MemStore{eds: map[uint64]*rsmt2d.ExtendedDataSquare{}, fail: map[uint64]bool{v6GenFailHeight: true}},
		host: &v6ServerHost{handlers: map[protocol.ID]network.StreamHandler{}},
	}
	params := shrex.DefaultServerParameters()
	params.WithNetworkID(v6NetID)
	srv, err := shrex.NewServer(params, g.host, g.st)
	if err != nil {
		return nil, err
	}
	if err := srv.Start(context.Background()); err != nil {
		return nil, err
	}
	return g, nil
}

// serve runs the real handler of the request's protocol once and returns everything it wrote.
func (g *v6Gen) serve(e *rsmt2d.ExtendedDataSquare, name string, id io.WriterTo) ([]byte, error) {
	g.st.eds[v6GenHeight] = e
	var req bytes.Buffer
	if _, err := id.WriteTo(&req); err != nil {
		return nil, err
	}
	p := shrex.ProtocolID(v6NetID, name)
	h, ok := g.host.handlers[p]
	if !ok {
		return nil, fmt.Errorf("no handler for %s", p)
	}
	c := &v6Capture{req: bytes.NewReader(req.Bytes()), proto: p}
	h(c)
	if len(c.resets) > 0 {
		return nil, fmt.Errorf("server reset the stream (%v) for %s", c.resets, name)
	}
	return append([]byte(nil), c.out.Bytes()...), nil
}

type v6Named interface {
	io.WriterTo
	Name() string
}

// v6ID builds the wire ID of a request key at the given height.
func (s *v6Square) v6ID(key string, height uint64) (v6Named, error) {
	N := s.S.N
	var a, b int
	switch {
	case key == "eds":
		id, err := shwap.NewEdsID(height)
		return id, err
	case strings.HasPrefix(key, "sample:"):
		fmt.Sscanf(key, "sample:%d,%d", &a, &b)
		id, err := shwap.NewSampleID(height, shwap.SampleCoords{Row: a, Col: b}, N)
		return id, err
	case strings.HasPrefix(key, "row:"):
		fmt.Sscanf(key, "row:%d", &a)
		id, err := shwap.NewRowID(height, a, N)
		return id, err
	case strings.HasPrefix(key, "nd:"):
		for _, ns := range s.ns {
			if v6NDKey(ns) == key {
				id, err := shwap.NewNamespaceDataID(height, ns)
				return id, err
			}
		}
		return nil, fmt.Errorf("unknown namespace in %s", key)
	case strings.HasPrefix(key, "range:"):
		fmt.Sscanf(key, "range:%d-%d", &a, &b)
		eid, err := shwap.NewEdsID(height)
		if err != nil {
			return nil, err
		}
		id, err := shwap.NewRangeNamespaceDataID(eid, a, b, N/2)
		return id, err
	}
	return nil, fmt.Errorf("bad key %s", key)
}

// alternates of a key: requests of the same type for other coordinates of the same square
func (s *v6Square) alternates(key string) []string {
	N, W := s.S.N, s.S.W
	var a, b int
	switch {
	case strings.HasPrefix(key, "sample:"):
		fmt.Sscanf(key, "sample:%d,%d", &a, &b)
		return []string{v6SampleKey(a, (b+1)%N), v6SampleKey((a+1)%N, b)}
	case strings.HasPrefix(key, "row:"):
		fmt.Sscanf(key, "row:%d", &a)
		return []string{v6RowKey((a + 1) % N), v6RowKey((a + W) % N)}
	case strings.HasPrefix(key, "nd:"):
		// another namespace that has rows in this square
		var out []string
		for _, p := range sq.Probes() {
			if !p.Requestable || v6NDKey(p.NS) == key || len(s.S.RowsCovering(p.NS)) == 0 {
				continue
			}
			out = append(out, v6NDKey(p.NS))
			if len(out) == 2 {
				break
			}
		}
		return out
	case strings.HasPrefix(key, "range:"):
		fmt.Sscanf(key, "range:%d-%d", &a, &b)
		var out []string
		for _, r := range s.rangeAlternates(a, b) {
			out = append(out, v6RangeKey(r[0], r[1]))
		}
		return out
	}
	return nil
}

func v6Uvarint(n int) []byte {
	var b [binary.MaxVarintLen64]byte
	return append([]byte(nil), b[:binary.PutUvarint(b[:], uint64(n))]...)
}

// v6Frames splits length-delimited messages; every frame keeps its length prefix.
func v6Frames(b []byte) ([][]byte, bool) {
	var out [][]byte
	for len(b) > 0 {
		l, n := binary.Uvarint(b)
		if n <= 0 || int(l) > len(b)-n {
			return out, false
		}
		out = append(out, b[:n+int(l)])
		b = b[n+int(l):]
	}
	return out, true
}

func v6Frame(msg []byte) []byte { return append(v6Uvarint(len(msg)), msg...) }

// v6Garble changes one byte of a decoded container so that it still decodes: what = "share"
// (payload byte of the first share) or "proof" (a proof node; the side flag for rows).
// kind: sample | row | rnd (RowNamespaceData) | range (RangeNamespaceData, bitswap only).
func v6Garble(kind, what string, container []byte) ([]byte, bool) {
	flipShare := func(shs []*shwappb.Share) bool {
		for _, sh := range shs {
			if sh != nil && len(sh.Data) > 100 {
				sh.Data[len(sh.Data)-7] ^= 0x5a
				return true
			}
		}
		return false
	}
	switch kind {
	case "sample":
		var m shwappb.Sample
		if m.Unmarshal(container) != nil {
			return nil, false
		}
		if what == "share" {
			if m.Share == nil || !flipShare([]*shwappb.Share{m.Share}) {
				return nil, false
			}
		} else {
			if m.Proof == nil || len(m.Proof.Nodes) == 0 {
				return nil, false
			}
			m.Proof.Nodes[0][len(m.Proof.Nodes[0])-1] ^= 0x5a
		}
		out, err := m.Marshal()
		return out, err == nil
	case "row":
		var m shwappb.Row
		if m.Unmarshal(container) != nil {
			return nil, false
		}
		if what == "share" {
			if !flipShare(m.SharesHalf) {
				return nil, false
			}
		} else {
			m.HalfSide ^= 1 // the left half presented as the right half
		}
		out, err := m.Marshal()
		return out, err == nil
	case "rnd":
		var m shwappb.RowNamespaceData
		if m.Unmarshal(container) != nil {
			return nil, false
		}
		if what == "share" {
			if !flipShare(m.Shares) {
				return nil, false
			}
		} else {
			if m.Proof == nil {
				return nil, false
			}
			switch {
			case len(m.Proof.Nodes) > 0:
				m.Proof.Nodes[0][len(m.Proof.Nodes[0])-1] ^= 0x5a
			case len(m.Proof.LeafHash) > 0:
				m.Proof.LeafHash[len(m.Proof.LeafHash)-1] ^= 0x5a
			default:
				return nil, false
			}
		}
		out, err := m.Marshal()
		return out, err == nil
	case "range":
		var m shwappb.RangeNamespaceData
		if m.Unmarshal(container) != nil {
			return nil, false
		}
		if what == "share" {
			ok := false
			for _, r := range m.Shares {
				if r != nil && flipShare(r.Shares) {
					ok = true
					break
				}
			}
			if !ok {
				return nil, false
			}
		} else {
			p := m.FirstIncompleteRowProof
			if p == nil {
				p = m.LastIncompleteRowProof
			}
			if p == nil || len(p.Nodes) == 0 {
				return nil, false
			}
			p.Nodes[0][len(p.Nodes[0])-1] ^= 0x5a
		}
		out, err := m.Marshal()
		return out, err == nil
	}
	return nil, false
}

func v6ContainerKind(key string) string {
	switch {
	case strings.HasPrefix(key, "sample:"):
		return "sample"
	case strings.HasPrefix(key, "row:"):
		return "row"
	case strings.HasPrefix(key, "nd:"), strings.HasPrefix(key, "range:"):
		return "rnd"
	}
	return ""
}

// v6ShrexAnswers is the answer alphabet of scripted shrex peers (order fixed).
var v6ShrexAnswers = []string{
	"honest",
	"other:0", "other:1", "other:2", // honest data for other coordinates of the same square
	"othersq",  // honest data for the same coordinates of another square
	"longsq",   // the same followed by its last message once more (one more share for a square): wrong AND too long
	"trunc",    // OK + the first half of the honest payload
	"truncmsg", // OK + the honest payload without its last message (last share for a square)
	"ext",      // OK + the honest payload + its last message once more (one more share for a square)
	"gshare",   // one payload byte of a share changed (still decodes)
	"gproof",   // one byte of a proof node changed / row side flag flipped (still decodes)
	"graw",     // the byte in the middle of the payload changed
	"garbage",  // OK + bytes that are no message
	"empty",    // OK + nothing
	// OK + the first k bytes of the honest payload, then the transfer dies before EOF: "pr" = the stream is
	// reset, "ph" = nothing more comes until the per-attempt deadline resets it. k = 1 byte, half, all but the
	// last byte, and - for responses of several length-delimited messages - exactly the first message.
	"pr:1", "pr:half", "pr:last", "pr:msg",
	"ph:1", "ph:half", "ph:last", "ph:msg",
	// "the complete response arrives exactly as the caller's context ends": the answer <x> is delivered in full
	// and the caller's context is cancelled synchronously as the client consumes its last byte, so the request
	// returns to the getter without error and with the context done. Last in a sequence by construction.
	"atend:honest", "atend:other:0", "atend:other:1", "atend:other:2", "atend:othersq", "atend:longsq",
	"atend:trunc", "atend:truncmsg", "atend:ext", "atend:gshare", "atend:gproof", "atend:graw",
	"atend:garbage", "atend:empty",
	"nf",        // NOT_FOUND (written by the real server for a height it does not hold)
	"internal",  // INTERNAL (written by the real server whose store fails)
	"invalid",   // status INVALID
	"reset",     // stream reset after the request
	"ratelimit", // stream reset with the rate-limit code
	"hang",      // no answer at all
	"dialfail",  // the stream cannot be opened
}

var v6NoBytes = map[string]bool{"reset": true, "ratelimit": true, "hang": true, "dialfail": true}

// buildTable prepares, for every request key of the square's request instances, the wire bytes of
// every answer that exists for it.
func (s *v6Square) buildTable(g *v6Gen) error {
	s.tab = map[string]map[string][]byte{}
	serve := func(e *rsmt2d.ExtendedDataSquare, key string, height uint64) ([]byte, error) {
		id, err := s.v6ID(key, height)
		if err != nil {
			return nil, err
		}
		return g.serve(e, id.Name(), id)
	}
	okStatus := v6Frame(mustMarshal(&shrexpb.Response{Status: shrexpb.Status_OK}))
	for _, r := range s.reqs {
		for _, key := range r.Keys(s) {
			if _, done := s.tab[key]; done {
				continue
			}
			t := map[string][]byte{}
			s.tab[key] = t
			honest, err := serve(s.S.EDS, key, v6GenHeight)
			if err != nil {
				return fmt.Errorf("%s %s: %w", s.Layout, key, err)
			}
			if !bytes.HasPrefix(honest, okStatus) {
				return fmt.Errorf("%s %s: honest server did not answer OK (% x...)", s.Layout, key, honest[:min(8, len(honest))])
			}
			t["honest"] = honest
			payload := honest[len(okStatus):]
			for i, ak := range s.alternates(key) {
				if i > 2 {
					break
				}
				b, err := serve(s.S.EDS, ak, v6GenHeight)
				if err == nil && bytes.HasPrefix(b, okStatus) && !bytes.Equal(b, honest) {
					t[fmt.Sprintf("other:%d", i)] = b
				}
			}
			if b, err := serve(s.Alt.EDS, key, v6GenHeight); err == nil && bytes.HasPrefix(b, okStatus) && !bytes.Equal(b, honest) {
				t["othersq"] = b
				op := b[len(okStatus):]
				if key == "eds" {
					if len(op) >= libshare.ShareSize {
						t["longsq"] = v6Cat(b, op[len(op)-libshare.ShareSize:])
					}
				} else if fr, ok := v6Frames(op); ok && len(fr) > 0 {
					t["longsq"] = v6Cat(b, fr[len(fr)-1])
				}
			}
			if len(payload) > 1 {
				t["trunc"] = v6Cat(okStatus, payload[:len(payload)/2])
				mid := append([]byte(nil), payload...)
				mid[len(mid)/2] ^= 0x5a
				t["graw"] = v6Cat(okStatus, mid)
			}
			if key == "eds" {
				sz := libshare.ShareSize
				if len(payload) >= sz {
					t["truncmsg"] = v6Cat(okStatus, payload[:len(payload)-sz])
					t["ext"] = v6Cat(okStatus, payload, payload[len(payload)-sz:])
					g := append([]byte(nil), payload...)
					g[len(g)-sz+100] ^= 0x5a
					t["gshare"] = v6Cat(okStatus, g)
				}
			} else if frames, ok := v6Frames(payload); ok && len(frames) > 0 {
				last := frames[len(frames)-1]
				t["truncmsg"] = v6Cat(okStatus, bytes.Join(frames[:len(frames)-1], nil))
				t["ext"] = v6Cat(okStatus, payload, last)
				kind := v6ContainerKind(key)
				for _, what := range []string{"share", "proof"} {
					// garble the first frame that admits it
					for i, f := range frames {
						_, n := binary.Uvarint(f)
						gb, ok := v6Garble(kind, what, f[n:])
						if !ok {
							continue
						}
						nf := append([][]byte(nil), frames...)
						nf[i] = v6Frame(gb)
						t["g"+what] = v6Cat(okStatus, bytes.Join(nf, nil))
						break
					}
				}
			}
			// prefixes of the honest payload for the transfers that die midway ("pr:*" / "ph:*")
			if len(payload) > 2 {
				t["part:1"] = v6Cat(okStatus, payload[:1])
				t["part:half"] = v6Cat(okStatus, payload[:len(payload)/2])
				t["part:last"] = v6Cat(okStatus, payload[:len(payload)-1])
				if key != "eds" {
					if fr, ok := v6Frames(payload); ok && len(fr) > 1 {
						t["part:msg"] = v6Cat(okStatus, fr[0])
					}
				}
			}
			t["garbage"] = v6Cat(okStatus, bytes.Repeat([]byte{0xff}, 40))
			t["empty"] = append([]byte(nil), okStatus...)
			if b, err := serve(s.S.EDS, key, v6GenAbsent); err == nil {
				t["nf"] = b
			} else {
				return err
			}
			if b, err := serve(s.S.EDS, key, v6GenFailHeight); err == nil {
				t["internal"] = b
			} else {
				return err
			}
			t["invalid"] = v6Frame(mustMarshal(&shrexpb.Response{Status: shrexpb.Status_INVALID}))
			if bytes.Equal(t["nf"], t["honest"]) || bytes.Equal(t["internal"], t["nf"]) {
				return fmt.Errorf("%s %s: status answers not distinct", s.Layout, key)
			}
		}
	}
	return nil
}

type v6Marshaler interface{ Marshal() ([]byte, error) }

func mustMarshal(m v6Marshaler) []byte {
	b, err := m.Marshal()
	if err != nil {
		panic(err)
	}
	return b
}

func v6Cat(parts ...[]byte) []byte {
	var out []byte
	for _, p := range parts {
		out = append(out, p...)
	}
	return out
}

// answersFor lists the alphabet symbols available for a request key of this square.
func (s *v6Square) answersFor(key string, allowDial bool) []string {
	var out []string
	for _, a := range v6ShrexAnswers {
		if a == "dialfail" && !allowDial {
			continue
		}
		if v6NoBytes[a] {
			out = append(out, a)
			continue
		}
		if k, isPart := v6PartialOf(a); isPart {
			if _, ok := s.tab[key]["part:"+k]; ok {
				out = append(out, a)
			}
			continue
		}
		if inner, atEnd := v6AtEndOf(a); atEnd {
			if _, ok := s.tab[key][inner]; ok {
				out = append(out, a)
			}
			continue
		}
		if _, ok := s.tab[key][a]; ok {
			out = append(out, a)
		}
	}
	return out
}

// v6AtEndOf: "atend:<answer>" -> answer.
func v6AtEndOf(a string) (string, bool) {
	if strings.HasPrefix(a, "atend:") {
		return a[len("atend:"):], true
	}
	return "", false
}

// v6ConsumedBy: how many bytes of a response the client takes before its request returns: sample and row
// readers take the status and one message; the others read to EOF (0 = "until EOF").
func v6ConsumedBy(key string, resp []byte) int {
	if !strings.HasPrefix(key, "sample:") && !strings.HasPrefix(key, "row:") {
		return len(resp) + 1 // never reached: the cancellation fires when EOF is handed over
	}
	fr, _ := v6Frames(resp)
	if len(fr) >= 2 {
		return len(fr[0]) + len(fr[1])
	}
	return len(resp) + 1
}

// v6PartialOf: "pr:<k>" / "ph:<k>" -> k.
func v6PartialOf(a string) (string, bool) {
	if strings.HasPrefix(a, "pr:") || strings.HasPrefix(a, "ph:") {
		return a[3:], true
	}
	return "", false
}
