package share

// C06 harness, part 3: the fake bitswap exchange, the node wirings, one execution, the oracle.

import (
	"bytes"
	"context"
	"errors"
	"fmt"
	"runtime/debug"
	"sort"
	"strings"
	"sync"
	"testing"
	"testing/synctest"
	"time"

	"github.com/cometbft/cometbft/types"
	bsmsg "github.com/ipfs/boxo/bitswap/message"
	bspb "github.com/ipfs/boxo/bitswap/message/pb"
	"github.com/ipfs/boxo/blockstore"
	"github.com/ipfs/boxo/exchange"
	blocks "github.com/ipfs/go-block-format"
	"github.com/ipfs/go-cid"
	"github.com/ipfs/go-datastore"
	ds_sync "github.com/ipfs/go-datastore/sync"
	"github.com/libp2p/go-libp2p/core/peer"
	"github.com/libp2p/go-libp2p/p2p/net/conngater"
	"go.uber.org/fx"
	"google.golang.org/protobuf/proto"

	libshare "github.com/celestiaorg/go-square/v4/share"
	"github.com/celestiaorg/rsmt2d"

	"github.com/celestiaorg/celestia-node/header"
	"github.com/celestiaorg/celestia-node/share/availability"
	"github.com/celestiaorg/celestia-node/share/eds/byzantine"
	"github.com/celestiaorg/celestia-node/share/shwap"
	"github.com/celestiaorg/celestia-node/share/shwap/p2p/bitswap"
	bitswappb "github.com/celestiaorg/celestia-node/share/shwap/p2p/bitswap/pb"
	"github.com/celestiaorg/celestia-node/share/shwap/p2p/shrex"
	"github.com/celestiaorg/celestia-node/share/shwap/p2p/shrex/peers"
	"github.com/celestiaorg/celestia-node/share/shwap/p2p/shrex/shrex_getter"
	"github.com/celestiaorg/celestia-node/store"
)

// ---------------------------------------------------------------------------
// fake bitswap exchange

// v6BsKinds is the answer alphabet of scripted bitswap peers for the first wanted CID.
var v6BsKinds = []string{
	"honest",
	"forged-other", // container of another coordinate under the requested CID
	"own-other",    // the honest block of another CID (unsolicited)
	"othersq",      // container for the same ID from another square
	"trunc",        // first half of the honest container
	"ext",          // honest container + an unknown protobuf field
	"gshare",       // one share byte changed
	"gproof",       // one proof byte changed / row side flipped
	"garbage",      // container that is no message
	"rawgarbage",   // block data that is no message
	"wrongprefix",  // honest data announced under the codec of another block type
	"silent",       // nothing (DONT_HAVE / no answer / reset: bitswap reports none of them)
}

// A bitswap peer is "<kind>" or "<kind>/<rest>/<batch>" with rest in {honest, silent} (what it sends
// for the other wanted CIDs) and batch in {one, rev, sep}: one message with the block for the first
// wanted CID first / the same with that block last / one message per block.
func v6ParseBsPeer(p string) (kind, rest, batch string) {
	parts := strings.Split(p, "/")
	kind, rest, batch = parts[0], "honest", "one"
	if len(parts) == 3 {
		rest, batch = parts[1], parts[2]
	}
	return
}

type v6Exchange struct {
	w      *v6World
	sqr    *v6Square
	height uint64
	peers  []string
	getErr bool

	mu        sync.Mutex
	notified  int
	wantedAll []cid.Cid
	honestIn  map[cid.Cid]bool // an all-honest message containing the block was processed while the request was alive
	calls     int
	sessions  int
}

var _ exchange.SessionExchange = (*v6Exchange)(nil)

// NewSession: a session lives as long as the context it was made with. Like boxo's session, one whose context
// is done answers GetBlocks with a channel that is closed at once, and no error.
func (x *v6Exchange) NewSession(ctx context.Context) exchange.Fetcher {
	x.mu.Lock()
	x.sessions++
	x.mu.Unlock()
	return &v6Session{x: x, ctx: ctx}
}

type v6Session struct {
	x   *v6Exchange
	ctx context.Context
}

func (s *v6Session) GetBlock(ctx context.Context, c cid.Cid) (blocks.Block, error) {
	return s.x.GetBlock(ctx, c)
}

func (s *v6Session) GetBlocks(ctx context.Context, cids []cid.Cid) (<-chan blocks.Block, error) {
	return s.x.getBlocks(ctx, s.ctx, cids)
}
func (x *v6Exchange) Close() error { return nil }
func (x *v6Exchange) NotifyNewBlocks(_ context.Context, b ...blocks.Block) error {
	x.mu.Lock()
	x.notified += len(b)
	x.mu.Unlock()
	return nil
}

func (x *v6Exchange) GetBlock(ctx context.Context, c cid.Cid) (blocks.Block, error) {
	ch, err := x.GetBlocks(ctx, []cid.Cid{c})
	if err != nil {
		return nil, err
	}
	select {
	case b, ok := <-ch:
		if !ok {
			return nil, ctx.Err()
		}
		return b, nil
	case <-ctx.Done():
		return nil, ctx.Err()
	}
}

func (x *v6Exchange) GetBlocks(ctx context.Context, cids []cid.Cid) (<-chan blocks.Block, error) {
	return x.getBlocks(ctx, context.Background(), cids)
}

func (x *v6Exchange) getBlocks(ctx, sessCtx context.Context, cids []cid.Cid) (<-chan blocks.Block, error) {
	if x.getErr {
		x.w.logf("bitswap: GetBlocks refused")
		return nil, errors.New("verif exchange: session is shut down")
	}
	out := make(chan blocks.Block, len(cids)+1)
	x.mu.Lock()
	x.calls++
	x.wantedAll = append(x.wantedAll, cids...)
	x.mu.Unlock()
	if sessCtx.Err() != nil {
		x.w.logf("bitswap: GetBlocks on a session whose context is done: channel closed at once")
		close(out)
		return out, nil
	}
	x.w.wg.Add(1)
	go x.run(ctx, sessCtx, cids, out)
	return out, nil
}

func (x *v6Exchange) store(alt bool) *bitswap.Blockstore {
	e := x.sqr.S.EDS
	if alt {
		e = x.sqr.Alt.EDS
	}
	return &bitswap.Blockstore{Getter: &v6MemStore{all: e}}
}

func v6Wrap(c cid.Cid, container []byte) []byte {
	return mustMarshal(&bitswappb.Block{Cid: c.Bytes(), Container: container})
}

func v6Container(b blocks.Block) []byte {
	var pb bitswappb.Block
	if err := pb.Unmarshal(b.RawData()); err != nil {
		return nil
	}
	return pb.Container
}

// altCid: the CID of the same block type for other coordinates of the same square.
func (x *v6Exchange) altCid(c cid.Cid) (cid.Cid, string, bool) {
	N := x.sqr.S.N
	blk, err := bitswap.EmptyBlock(c)
	if err != nil {
		return cid.Undef, "", false
	}
	switch b := blk.(type) {
	case *bitswap.SampleBlock:
		a, err := bitswap.NewEmptySampleBlock(x.height, shwap.SampleCoords{Row: b.ID.RowIndex, Col: (b.ID.ShareIndex + 1) % N}, N)
		if err != nil {
			return cid.Undef, "", false
		}
		return a.CID(), "sample", true
	case *bitswap.RowBlock:
		a, err := bitswap.NewEmptyRowBlock(x.height, (b.ID.RowIndex+1)%N, N)
		if err != nil {
			return cid.Undef, "", false
		}
		return a.CID(), "row", true
	case *bitswap.RowNamespaceDataBlock:
		// same row, another namespace that this row covers
		for _, k := range x.sqr.alternates(v6NDKey(b.ID.DataNamespace)) {
			for _, ns := range x.sqr.ns {
				if v6NDKey(ns) != k {
					continue
				}
				for _, r := range x.sqr.S.RowsCovering(ns) {
					if r == b.ID.RowIndex {
						a, err := bitswap.NewEmptyRowNamespaceDataBlock(x.height, r, ns, N)
						if err == nil {
							return a.CID(), "rnd", true
						}
					}
				}
			}
		}
		// or: another row, same namespace
		for _, r := range x.sqr.S.RowsCovering(b.ID.DataNamespace) {
			if r != b.ID.RowIndex {
				a, err := bitswap.NewEmptyRowNamespaceDataBlock(x.height, r, b.ID.DataNamespace, N)
				if err == nil {
					return a.CID(), "rnd", true
				}
			}
		}
		return cid.Undef, "rnd", false
	case *bitswap.RangeNamespaceDataBlock:
		alts := x.sqr.rangeAlternates(b.ID.From, b.ID.To)
		if len(alts) == 0 {
			return cid.Undef, "range", false
		}
		a, err := bitswap.NewEmptyRangeNamespaceDataBlock(x.height, alts[0][0], alts[0][1], N/2)
		if err != nil {
			return cid.Undef, "range", false
		}
		return a.CID(), "range", true
	}
	return cid.Undef, "", false
}

func (x *v6Exchange) kindOf(c cid.Cid) string {
	blk, err := bitswap.EmptyBlock(c)
	if err != nil {
		return ""
	}
	switch blk.(type) {
	case *bitswap.SampleBlock:
		return "sample"
	case *bitswap.RowBlock:
		return "row"
	case *bitswap.RowNamespaceDataBlock:
		return "rnd"
	case *bitswap.RangeNamespaceDataBlock:
		return "range"
	}
	return ""
}

type v6BsEntry struct {
	claimed cid.Cid
	data    []byte
	honest  bool
}

// entry builds what a peer of the given kind sends for wanted CID c (nil: nothing).
func (x *v6Exchange) entry(ctx context.Context, kind string, c cid.Cid) *v6BsEntry {
	hb, err := x.store(false).Get(ctx, c)
	if err != nil {
		x.w.fail("honest bitswap block for %s: %v", c, err)
		return nil
	}
	cont := v6Container(hb)
	switch kind {
	case "honest":
		return &v6BsEntry{claimed: c, data: hb.RawData(), honest: true}
	case "silent":
		return nil
	case "forged-other", "own-other":
		ac, _, ok := x.altCid(c)
		if !ok {
			return nil
		}
		ab, err := x.store(false).Get(ctx, ac)
		if err != nil {
			return nil
		}
		if kind == "own-other" {
			return &v6BsEntry{claimed: ac, data: ab.RawData()}
		}
		return &v6BsEntry{claimed: c, data: v6Wrap(c, v6Container(ab))}
	case "othersq":
		ob, err := x.store(true).Get(ctx, c)
		if err != nil {
			return nil
		}
		return &v6BsEntry{claimed: c, data: ob.RawData()}
	case "trunc":
		return &v6BsEntry{claimed: c, data: v6Wrap(c, cont[:len(cont)/2])}
	case "ext":
		return &v6BsEntry{claimed: c, data: v6Wrap(c, append(append([]byte(nil), cont...), 0x78, 0x01))}
	case "gshare", "gproof":
		g, ok := v6Garble(x.kindOf(c), strings.TrimPrefix(kind, "g"), cont)
		if !ok {
			return nil
		}
		return &v6BsEntry{claimed: c, data: v6Wrap(c, g)}
	case "garbage":
		return &v6BsEntry{claimed: c, data: v6Wrap(c, bytes.Repeat([]byte{0xff}, 40))}
	case "rawgarbage":
		return &v6BsEntry{claimed: c, data: bytes.Repeat([]byte{0xff}, 40)}
	case "wrongprefix":
		codec := uint64(0x7800) // the row codec; samples are announced as rows and everything else as samples
		if x.kindOf(c) == "row" {
			codec = 0x7810
		}
		return &v6BsEntry{claimed: cid.NewCidV1(codec, c.Hash()), data: hb.RawData()}
	}
	x.w.fail("unknown bitswap answer %q", kind)
	return nil
}

// receive applies what the real bitswap client applies to an incoming message: the real
// message decoder recomputes every block's CID with the multihash registered for its prefix
// (celestia's verifying hasher); a failure drops the whole message; blocks nobody wants are dropped.
func (x *v6Exchange) receive(ctx context.Context, entries []*v6BsEntry, wanted map[cid.Cid]bool, out chan<- blocks.Block) {
	// the wire message is assembled by hand so that the order of its payload entries is the scripted one
	pbm := &bspb.Message{}
	allHonest := true
	for _, e := range entries {
		pbm.Payload = append(pbm.Payload, &bspb.Message_Block{Prefix: e.claimed.Prefix().Bytes(), Data: e.data})
		allHonest = allHonest && e.honest
	}
	raw, err := proto.Marshal(pbm)
	if err != nil {
		x.w.fail("encoding bitswap message: %v", err)
		return
	}
	in, _, err := bsmsg.FromNet(bytes.NewReader(append(v6Uvarint(len(raw)), raw...)))
	if err != nil {
		x.w.logf("bitswap: message of %d block(s) dropped by the decoder", len(entries))
		return
	}
	if ctx.Err() != nil {
		return
	}
	blks := in.Blocks()
	sort.Slice(blks, func(i, j int) bool { return blks[i].Cid().KeyString() < blks[j].Cid().KeyString() })
	for _, b := range blks {
		if !wanted[b.Cid()] {
			x.w.logf("bitswap: unwanted block dropped")
			continue
		}
		delete(wanted, b.Cid())
		if allHonest {
			x.mu.Lock()
			x.honestIn[b.Cid()] = true
			x.mu.Unlock()
		}
		x.w.logf("bitswap: block delivered (message all honest: %v)", allHonest)
		out <- b
	}
}

func (x *v6Exchange) run(ctx, sessCtx context.Context, cids []cid.Cid, out chan blocks.Block) {
	defer x.w.wg.Done()
	defer close(out)
	wanted := map[cid.Cid]bool{}
	var order []cid.Cid
	for _, c := range cids {
		if !wanted[c] {
			wanted[c] = true
			order = append(order, c)
		}
	}
	for i, p := range x.peers {
		t := time.NewTimer(v6Latency)
		select {
		case <-t.C:
		case <-ctx.Done():
			t.Stop()
			return
		case <-sessCtx.Done():
			t.Stop()
			return
		case <-x.w.done:
			t.Stop()
			return
		}
		kind, rest, batch := v6ParseBsPeer(p)
		x.w.mu.Lock()
		x.w.served = append(x.w.served, "bs:"+kind)
		if kind != "silent" {
			x.w.arrived = append(x.w.arrived, "bs:"+kind)
		}
		x.w.mu.Unlock()
		x.w.logf("bitswap peer #%d answers %s", i, p)
		var entries []*v6BsEntry
		first, firstSent := true, false
		for _, c := range order {
			if !wanted[c] {
				continue
			}
			k, isFirst := kind, first
			if !first {
				k = rest
			}
			first = false
			e := x.entry(ctx, k, c)
			if e != nil {
				entries = append(entries, e)
				if isFirst {
					firstSent = true
				}
			}
		}
		switch batch {
		case "sep":
			for _, e := range entries {
				x.receive(ctx, []*v6BsEntry{e}, wanted, out)
			}
		case "rev":
			if len(entries) > 1 && firstSent {
				entries = append(entries[1:], entries[0])
			}
			fallthrough
		default:
			if len(entries) > 0 {
				x.receive(ctx, entries, wanted, out)
			}
		}
		if len(wanted) == 0 {
			return
		}
	}
	select {
	case <-ctx.Done():
	case <-sessCtx.Done():
	case <-x.w.done:
	}
}

// ---------------------------------------------------------------------------
// one case

type v6Case struct {
	Wiring string   `json:"wiring"` // shrex | bs-light | bs-bridge | light | bridge
	Sq     int      `json:"sq"`
	Req    v6Req    `json:"req"`
	Seq    []string `json:"seq,omitempty"`    // shrex: answers to successive attempts of the (first) request
	Seq2   []string `json:"seq2,omitempty"`   // shrex: ... of the second request (two samples)
	Bs     []string `json:"bs,omitempty"`     // bitswap: peers in order of arrival
	BsErr  bool     `json:"bs_err,omitempty"` // bitswap: GetBlocks itself fails
	D      string   `json:"deadline"`         // d<duration> deadline | c<duration> cancel | none
	BL     bool     `json:"blacklisting"`     // peer manager blacklisting enabled
	Extra  int      `json:"extra_peers"`      // shrex peers in the pool beyond the scripted answers
	Local  string   `json:"local,omitempty"`  // bridge wiring: store getter in front misses | hits
	// load cases (all peers honest): sizes of successive bursts of concurrent retrievals on the same getters,
	// and when the getters are stopped: 0 never, -1 before the first burst, k after the k-th burst
	Bursts []int `json:"bursts,omitempty"`
	StopAt int   `json:"stop_at,omitempty"`
}

func (c v6Case) String() string {
	if len(c.Bursts) > 0 {
		s := fmt.Sprintf("%s sq%d bursts=%v peers=%d", c.Wiring, c.Sq, c.Bursts, c.Extra)
		switch {
		case c.StopAt < 0:
			s += " getters stopped before the first burst"
		case c.StopAt > 0:
			s += fmt.Sprintf(" getters stopped after burst %d", c.StopAt)
		}
		return s
	}
	s := fmt.Sprintf("%s sq%d %s seq=%v", c.Wiring, c.Sq, c.Req, c.Seq)
	if len(c.Seq2) > 0 {
		s += fmt.Sprintf(" seq2=%v", c.Seq2)
	}
	if len(c.Bs) > 0 || c.BsErr {
		s += fmt.Sprintf(" bs=%v", c.Bs)
		if c.BsErr {
			s += " bs-err"
		}
	}
	s += " " + c.D
	if c.BL {
		s += " blacklisting"
	}
	if c.Extra > 0 {
		s += fmt.Sprintf(" +%dpeer", c.Extra)
	}
	if c.Local != "" {
		s += " local=" + c.Local
	}
	return s
}

// v6Env is what one worker owns.
type v6Env struct {
	id      int
	squares []*v6Square
	base    uint64 // this worker's heights: base+square index (bitswap keys its global state by CID, i.e. by height)
	shared  *v6Shared
}

// v6Shared is read-only after setup.
type v6Shared struct {
	st       *store.Store          // real EDS store: holds every square at v6HitBase+index, nothing else
	bridgeBS blockstore.Blockstore // blockstoreFromEDSStore(st, default cache size)
}

const v6HitBase = 50_000

type v6Result struct {
	Outcome   string
	Sig, What string   // violation, if any
	Log       []string // canonical observation log
	Served    []string
	Nontriv   bool
	Harness   string   // harness error, if any
	Positive  bool     // a case whose first answer is honest (and nothing prevents delivery): must succeed
	Before    []string // kinds of the answers that arrived before the first honest one
}

type v6Lifecycle struct{ hooks []fx.Hook }

func (l *v6Lifecycle) Append(h fx.Hook) { l.hooks = append(l.hooks, h) }

type v6CallOut struct {
	val   any
	err   error
	pan   any
	stack string
}

// v6RunCase executes the case in a fresh bubble. A panic of the bubble itself (goroutines left
// behind) is a harness error unless the execution already reported that the call did not return.
func v6RunCase(t *testing.T, env *v6Env, c v6Case) (res v6Result) {
	defer func() {
		if r := recover(); r != nil {
			if res.Sig == "" {
				res.Harness = fmt.Sprintf("bubble: %v", r)
			}
		}
	}()
	if c.Local == "hit" {
		// The local store answers by itself: no peer, no timer is involved. The store's proof cache uses a
		// process-wide worker pool whose goroutines cannot touch channels of a bubble, so this runs outside.
		return v6Exec(env, c, false)
	}
	if len(c.Bursts) > 0 {
		synctest.Test(t, func(*testing.T) { res = v6ExecBurst(env, c) })
		return res
	}
	synctest.Test(t, func(*testing.T) { res = v6Exec(env, c, true) })
	return res
}

// v6Wired is one set of getters wired the way the node wires them.
type v6Wired struct {
	getter shwap.Getter
	shrexG *shrex_getter.Getter
	lc     *v6Lifecycle
	ex     *v6Exchange
}

// stop does what the node does on shutdown (fx OnStop hooks).
func (wd *v6Wired) stop() {
	if wd.shrexG != nil {
		_ = wd.shrexG.Stop(context.Background())
	}
	for _, h := range wd.lc.hooks {
		if h.OnStop != nil {
			_ = h.OnStop(context.Background())
		}
	}
}

func v6Build(w *v6World, env *v6Env, sqr *v6Square, c v6Case, height uint64, nPeers int, bg context.Context) (*v6Wired, error) {
	var (
		shrexG *shrex_getter.Getter
		bsG    *bitswap.Getter
		ex     *v6Exchange
		lc     = &v6Lifecycle{}
		getter shwap.Getter
	)
	needShrex := c.Wiring == "shrex" || c.Wiring == "light" || c.Wiring == "bridge"
	needBs := c.Wiring != "shrex"
	if needShrex {
		h := &v6Host{w: w}
		cp := shrex.DefaultClientParameters()
		cp.WithNetworkID(v6NetID)
		client, err := shrex.NewClient(cp, h)
		if err != nil {
			return nil, err
		}
		mk := func(tag string) *peers.Manager {
			gater, err := conngater.NewBasicConnectionGater(ds_sync.MutexWrap(datastore.NewMapDatastore()))
			if err != nil {
				panic(err)
			}
			p := *peers.DefaultParameters()
			p.EnableBlackListing = c.BL
			m, err := peers.NewManager(p, h, gater, tag)
			if err != nil {
				panic(err)
			}
			for i := 0; i < nPeers; i++ {
				m.UpdateNodePool(peer.ID(fmt.Sprintf("verif-peer-%d", i)), true)
			}
			return m
		}
		shrexG = shrex_getter.NewGetter(client, mk("full"), mk("archival"), availability.RequestWindow)
		if err := shrexG.Start(bg); err != nil {
			return nil, err
		}
	}
	if needBs {
		ex = &v6Exchange{w: w, sqr: sqr, height: height, peers: c.Bs, getErr: c.BsErr, honestIn: map[cid.Cid]bool{}}
		var bs blockstore.Blockstore
		if c.Wiring == "bs-bridge" || c.Wiring == "bridge" {
			bs = env.shared.bridgeBS
		} else {
			lbs, err := blockstoreFromDatastore(ds_sync.MutexWrap(datastore.NewMapDatastore()))
			if err != nil {
				return nil, err
			}
			bs = lbs
		}
		bsG = bitswapGetter(lc, ex, bs, Window(availability.RequestWindow))
		for _, h := range lc.hooks {
			if h.OnStart != nil {
				if err := h.OnStart(bg); err != nil {
					return nil, err
				}
			}
		}
	}
	cfg := Config{UseShareExchange: true, UseBitswap: true}
	switch c.Wiring {
	case "shrex":
		getter = shrexG
	case "bs-light", "bs-bridge":
		getter = bsG
	case "light":
		getter = lightGetter(shrexG, bsG, cfg)
	case "bridge":
		getter = bridgeGetter(store.NewGetter(env.shared.st), shrexG, bsG, cfg)
	default:
		return nil, errors.New("unknown wiring " + c.Wiring)
	}
	return &v6Wired{getter: getter, shrexG: shrexG, lc: lc, ex: ex}, nil
}

func v6Exec(env *v6Env, c v6Case, bubble bool) (res v6Result) {
	sqr := env.squares[c.Sq]
	height := env.base + uint64(c.Sq)
	if c.Local == "hit" {
		height = v6HitBase + uint64(c.Sq)
	}
	w := v6NewWorld(sqr.tab)
	keys := c.Req.Keys(sqr)
	w.script[keys[0]] = c.Seq
	if len(keys) > 1 {
		w.script[keys[1]] = c.Seq2
	} else {
		w.singleKey = keys[0]
	}

	bg, stopAll := context.WithCancel(context.Background())

	// --- getters, wired the way the node wires them
	wd, err := v6Build(w, env, sqr, c, height, len(c.Seq)+len(c.Seq2)+c.Extra, bg)
	if err != nil {
		res.Harness = err.Error()
		stopAll()
		return res
	}
	shrexG, lc, ex, getter := wd.shrexG, wd.lc, wd.ex, wd.getter

	hdr := &header.ExtendedHeader{
		Commit:    &types.Commit{},
		RawHeader: header.RawHeader{Height: int64(height), Time: time.Now().Add(-time.Minute), DataHash: sqr.roots.Hash()},
		DAH:       sqr.roots,
	}

	// --- the call
	ctx, cancel := context.WithCancel(bg)
	var cancelAt time.Duration
	switch {
	case c.D == "none":
	case strings.HasPrefix(c.D, "d"):
		d, err := time.ParseDuration(c.D[1:])
		if err != nil {
			panic(err)
		}
		ctx, cancel = context.WithTimeout(bg, d)
	case strings.HasPrefix(c.D, "c"):
		d, err := time.ParseDuration(c.D[1:])
		if err != nil {
			panic(err)
		}
		cancelAt = d
	}
	w.mu.Lock()
	w.cancelCall = cancel
	w.mu.Unlock()
	if cancelAt > 0 {
		tm := time.AfterFunc(cancelAt, cancel)
		defer tm.Stop()
	}
	out := &v6CallOut{}
	doneCh := make(chan struct{})
	go func() {
		defer close(doneCh)
		defer func() {
			if r := recover(); r != nil {
				out.pan = r
				out.stack = string(debug.Stack())
			}
		}()
		switch c.Req.Kind {
		case "samples":
			var cs []shwap.SampleCoords
			for _, x := range c.Req.Coords {
				cs = append(cs, shwap.SampleCoords{Row: x[0], Col: x[1]})
			}
			out.val, out.err = getter.GetSamples(ctx, hdr, cs)
		case "row":
			out.val, out.err = getter.GetRow(ctx, hdr, c.Req.Row)
		case "eds":
			out.val, out.err = getter.GetEDS(ctx, hdr)
		case "nd":
			out.val, out.err = getter.GetNamespaceData(ctx, hdr, sqr.ns[c.Req.NS])
		case "range":
			out.val, out.err = getter.GetRangeNamespaceData(ctx, hdr, c.Req.From, c.Req.To)
		}
	}()
	returned := true
	limitD := 3 * time.Hour // fake time: far beyond every deadline and every internal time-out
	if !bubble {
		limitD = time.Minute // real time
	}
	limit := time.NewTimer(limitD)
	select {
	case <-doneCh:
	case <-limit.C:
		returned = false
	}
	limit.Stop()

	// --- tear down (nothing below influences the verdict)
	cancel()
	stopAll()
	w.shutdown()
	if shrexG != nil {
		_ = shrexG.Stop(context.Background())
	}
	for _, h := range lc.hooks {
		if h.OnStop != nil {
			_ = h.OnStop(context.Background())
		}
	}
	if !returned {
		// give the call one more chance to end now that everything is cancelled, so the bubble can be left
		tm := time.NewTimer(limitD / 3)
		select {
		case <-doneCh:
		case <-tm.C:
		}
		tm.Stop()
	}
	if bubble {
		synctest.Wait()
	}

	// --- observations
	w.mu.Lock()
	res.Log = append([]string(nil), w.log...)
	res.Served = append([]string(nil), w.served...)
	arrived := append([]string(nil), w.arrived...)
	arrivedBy := map[string][]string{}
	for k, v := range w.arrivedBy {
		arrivedBy[k] = append([]string(nil), v...)
	}
	res.Harness = w.harnessErr
	honestRead := map[string]bool{}
	for k, v := range w.honestRead {
		honestRead[k] = v
	}
	w.mu.Unlock()
	res.Log = v6Canonical(c, res.Log)
	sort.Strings(res.Log)
	for _, a := range arrived {
		if a != "honest" && a != "bs:honest" {
			res.Nontriv = true // a fault was actually played to the getter
		}
	}
	for _, a := range res.Served {
		if a == "hang" || a == "bs:silent" {
			res.Nontriv = true // ... or a peer kept silent while the getter waited
		}
	}

	// --- verdict
	res.Outcome, res.Sig, res.What = v6Judge(c, sqr, out, returned, keys, honestRead, ex, arrived, arrivedBy)
	res.Log = append(res.Log, "outcome: "+res.Outcome)
	for _, a := range arrived {
		if a == "honest" || a == "bs:honest" {
			break
		}
		res.Before = append(res.Before, strings.SplitN(strings.TrimPrefix(a, "bs:"), ":", 2)[0])
	}
	res.Positive = v6IsPositive(c)
	return res
}

// v6IsPositive: the very first answer the getter can receive is the honest one and the time allows it.
func v6IsPositive(c v6Case) bool {
	d := v6CaseDeadline(c)
	switch c.Wiring {
	case "shrex", "light", "bridge":
		if c.Local == "hit" {
			return true
		}
		if len(c.Seq) == 0 || c.Seq[0] != "honest" {
			return false
		}
		if len(c.Req.Coords) > 1 && (len(c.Seq2) == 0 || c.Seq2[0] != "honest") {
			return false
		}
		if c.Wiring == "shrex" {
			return d > v6Latency
		}
		return d == 0 || d/2 > v6Latency // the first getter of a cascade gets at least half of the caller's time
	case "bs-light", "bs-bridge":
		return len(c.Bs) > 0 && v6BsTerminal(c.Bs[0]) && !c.BsErr && d > v6Latency
	}
	return false
}

// v6ErrClass is the canonical outcome label. Two things the implementation leaves to the scheduler are
// deliberately not part of it: which of two concurrently failing sample requests reports its error first
// (errgroup), and whether a cascade whose last getter has the caller's own deadline notices that deadline
// before or after the getter's error (both timers are armed for the same instant).
func v6ErrClass(c v6Case, err error) string {
	switch {
	case err == nil:
		return "ok"
	case len(c.Req.Coords) > 1:
		return "err"
	case errors.Is(err, context.DeadlineExceeded):
		if c.Wiring == "shrex" && errors.Is(err, shwap.ErrNotFound) {
			return "err:notfound+deadline"
		}
		return "err:deadline"
	case errors.Is(err, context.Canceled):
		if c.Wiring == "shrex" && errors.Is(err, shwap.ErrNotFound) {
			return "err:notfound+canceled"
		}
		return "err:canceled"
	case errors.Is(err, shwap.ErrNotFound):
		return "err:notfound"
	}
	return "err:other"
}

// answers that carry no payload the getter could decode into its container
var v6NoPayload = map[string]bool{"nf": true, "internal": true, "invalid": true, "reset": true, "ratelimit": true,
	"hang": true, "dialfail": true, "silent": true, "empty": true}

// v6CaseDeadline: the instant (fake time since the call) the caller's context ends; 0 = never.
func v6CaseDeadline(c v6Case) time.Duration {
	if len(c.D) > 1 && (c.D[0] == 'd' || c.D[0] == 'c') {
		if d, err := time.ParseDuration(c.D[1:]); err == nil {
			return d
		}
	}
	return 0
}

// v6Canonical removes from the observation log what depends on the order in which two timers armed for the
// same instant fire: (1) everything at or after the instant the caller's context ends, and (2) attempts that
// were abandoned at the very instant they were issued. Both are the retry loop squeezing in one more attempt
// when the per-attempt context (whose deadline equals that of the getter's context) fires before the
// getter's context is seen as done; such an attempt has no duration and no effect.
func v6Canonical(c v6Case, log []string) []string {
	d := v6CaseDeadline(c)
	stamp := func(l string) (time.Duration, string, bool) {
		var ts string
		if _, err := fmt.Sscanf(l, "t=%s ", &ts); err != nil {
			return 0, "", false
		}
		t, err := time.ParseDuration(ts)
		return t, strings.TrimPrefix(l, "t="+ts+" "), err == nil
	}
	drop := map[string]bool{}
	for _, l := range log {
		if t, rest, ok := stamp(l); ok && strings.HasSuffix(rest, " abandoned by the client before the answer") {
			// "req <key> #<i> abandoned ..." at t: the matching "req <key> #<i> -> <answer>" at the same t goes too
			id := strings.TrimSuffix(rest, " abandoned by the client before the answer")
			for _, m := range log {
				if t2, rest2, ok2 := stamp(m); ok2 && t2 == t && strings.HasPrefix(rest2, id+" -> ") {
					drop[m], drop[l] = true, true
				}
			}
		}
	}
	var out []string
	for _, l := range log {
		if drop[l] {
			continue
		}
		if t, _, ok := stamp(l); ok && d > 0 && t >= d {
			continue
		}
		out = append(out, l)
	}
	return out
}

// v6PanicSite names the innermost repository function on the panicking stack.
func v6PanicSite(stack string) string {
	lines := strings.Split(stack, "\n")
	seenPanic := false
	for _, l := range lines {
		if strings.HasPrefix(l, "panic(") {
			seenPanic = true
			continue
		}
		if !seenPanic || strings.HasPrefix(l, "\t") {
			continue
		}
		if strings.HasPrefix(l, "github.com/celestiaorg/celestia-node/") && !strings.Contains(l, "v6") {
			f := strings.TrimPrefix(l, "github.com/celestiaorg/celestia-node/")
			if i := strings.LastIndexByte(f, '('); i > 0 {
				f = f[:i]
			}
			if i := strings.LastIndexByte(f, '/'); i >= 0 {
				f = f[i+1:]
			}
			return f
		}
	}
	return "unknown"
}

// v6Judge is the oracle. It states what the property text states:
//  1. the call ends, and not with a panic;
//  2. every non-empty element of the returned value - with or without an error - verifies against the
//     requested header at the requested position and is byte-equal to the reference square;
//     a value returned without an error is complete;
//  3. if a complete honest response for every request of the call was read by the client (shrex) /
//     an all-honest message carried every wanted block (bitswap) while the call was alive, the call succeeds;
//  4. if every answer that arrived was NOT_FOUND, the error is not success and not a corruption error, and
//     - where no deadline of the caller interferes - it is shwap.ErrNotFound.
func v6Judge(c v6Case, s *v6Square, out *v6CallOut, returned bool, keys []string,
	honestRead map[string]bool, ex *v6Exchange, arrived []string, arrivedBy map[string][]string,
) (outcome, sig, what string) {
	cl := c.Req.Class()
	if out.pan != nil {
		site := v6PanicSite(out.stack)
		return "panic", "C06/panic/" + site, fmt.Sprintf("%s: the call panicked: %v (in %s)", c, out.pan, site)
	}
	if !returned {
		return "no-return", "C06/no-return/" + c.Wiring + "/" + cl,
			fmt.Sprintf("%s: the call had not returned 3h (fake time) after it was made", c)
	}
	filled, total, bad := v6CheckValue(c.Req, s, out.val)
	outcome = v6ErrClass(c, out.err)
	if out.err != nil && filled > 0 {
		outcome += fmt.Sprintf("+partial(%d/%d)", filled, total)
	}
	if bad != "" {
		if out.err != nil {
			return outcome + "+UNVERIFIED", "C06/unverified-returned/" + cl,
				fmt.Sprintf("%s: returned together with error %q a value that does not verify: %s", c, v6Short(out.err), bad)
		}
		return outcome + "+WRONG", "C06/wrong-data-accepted/" + cl,
			fmt.Sprintf("%s: returned without error a value that does not verify: %s", c, bad)
	}
	if out.err == nil && filled != total {
		return "ok+INCOMPLETE", "C06/incomplete-success/" + cl,
			fmt.Sprintf("%s: returned without error an incomplete value (%d of %d elements)", c, filled, total)
	}
	// 3. honest answer in hand => success
	allShrex := len(keys) > 0
	for _, k := range keys {
		allShrex = allShrex && honestRead[k]
	}
	allBs := false
	if ex != nil {
		ex.mu.Lock()
		allBs = len(ex.wantedAll) > 0
		for _, w := range ex.wantedAll {
			allBs = allBs && ex.honestIn[w]
		}
		ex.mu.Unlock()
	}
	// ... unless that response arrived at the very instant the caller gave up ("atend:*"): the call was alive
	// only up to that instant, and answering a cancelled call with the context's error is as legitimate as
	// answering it with the data
	endedByAnswer := false
	for _, a := range arrived {
		if _, e := v6AtEndOf(a); e {
			endedByAnswer = true
		}
	}
	if (allShrex || allBs) && out.err != nil && !endedByAnswer {
		// the mechanism is named after the first answer that put bytes into the getter's container before the
		// honest one (what a later rejection of honest data can stem from); failing that, after the first answer
		prev, prevAny := "", ""
		for _, a := range arrived {
			if a == "honest" || a == "bs:honest" {
				break
			}
			if prevAny == "" {
				prevAny = a
			}
			if prev == "" && !v6NoPayload[strings.TrimPrefix(a, "bs:")] {
				prev = a
			}
		}
		if prev == "" {
			prev = prevAny
		}
		if prev == "" {
			prev = "none"
		}
		via := "shrex"
		if !allShrex {
			via = "bitswap"
		}
		return outcome + "+HONEST-REJECTED", "C06/honest-rejected/" + cl + "/after=" + strings.SplitN(strings.TrimPrefix(prev, "bs:"), ":", 2)[0],
			fmt.Sprintf("%s: a complete honest %s response was received while the call was alive, yet the call failed: %q", c, via, v6Short(out.err))
	}
	// 4. not found
	nf, other := 0, 0
	for _, a := range arrived {
		if a == "nf" {
			nf++
		} else {
			other++
		}
	}
	if nf > 0 && other == 0 && c.Local != "hit" {
		if out.err == nil {
			return "ok+NOTFOUND-AS-SUCCESS", "C06/notfound-as-success/" + cl,
				fmt.Sprintf("%s: every answer that arrived was NOT_FOUND, the call returned success", c)
		}
		var byz *byzantine.ErrByzantine
		if errors.Is(out.err, shwap.ErrFailedVerification) || errors.Is(out.err, shrex.ErrInvalidResponse) || errors.As(out.err, &byz) {
			return outcome + "+NOTFOUND-AS-CORRUPTION", "C06/notfound-as-corruption/" + cl,
				fmt.Sprintf("%s: every answer that arrived was NOT_FOUND, the error reports corruption: %q", c, v6Short(out.err))
		}
		// strict: every request of the call was answered (only) NOT_FOUND, and no deadline of the caller cuts a cascade short
		strict := c.Wiring == "shrex" || c.D == "none"
		for _, k := range keys {
			strict = strict && len(arrivedBy[k]) > 0
		}
		if strict && !errors.Is(out.err, shwap.ErrNotFound) {
			return outcome + "+NOTFOUND-LOST", "C06/notfound-not-reported/" + c.Wiring + "/" + cl,
				fmt.Sprintf("%s: every answer that arrived was NOT_FOUND, the error is not shwap.ErrNotFound: %q", c, v6Short(out.err))
		}
	}
	return outcome, "", ""
}

func v6Short(err error) string {
	s := strings.ReplaceAll(err.Error(), "\n", " | ")
	if len(s) > 300 {
		s = s[:300] + "..."
	}
	return s
}

// v6CheckValue compares a returned value with the reference: number of non-empty elements, number of
// elements a complete value has, and a description of the first element that does not verify.
func v6CheckValue(r v6Req, s *v6Square, val any) (filled, total int, bad string) {
	W, N := s.S.W, s.S.N
	switch r.Kind {
	case "samples":
		total = len(r.Coords)
		smpls, _ := val.([]shwap.Sample)
		for i, sm := range smpls {
			if sm.IsEmpty() && len(sm.Share.ToBytes()) == 0 {
				continue
			}
			filled++
			if i >= len(r.Coords) {
				return filled, total, fmt.Sprintf("element %d beyond the %d requested coordinates", i, len(r.Coords))
			}
			rr, cc := r.Coords[i][0], r.Coords[i][1]
			if sm.IsEmpty() {
				return filled, total, fmt.Sprintf("sample %d (%d,%d) carries a share but no proof", i, rr, cc)
			}
			if err := sm.Verify(s.roots, rr, cc); err != nil {
				return filled, total, fmt.Sprintf("sample %d for (%d,%d) fails Verify: %v", i, rr, cc, err)
			}
			ref := s.S.Cell(rr, cc)
			if !bytes.Equal(sm.Share.ToBytes(), ref.ToBytes()) {
				return filled, total, fmt.Sprintf("sample %d for (%d,%d) differs from the reference share", i, rr, cc)
			}
		}
	case "row":
		total = 1
		row, _ := val.(shwap.Row)
		if row.IsEmpty() {
			return 0, total, ""
		}
		filled = 1
		if err := row.Verify(s.roots, r.Row); err != nil {
			return filled, total, fmt.Sprintf("row %d fails Verify: %v", r.Row, err)
		}
		shs, err := row.Shares()
		if err != nil || !v6SameShares(shs, s.S.Row(r.Row)) {
			return filled, total, fmt.Sprintf("row %d differs from the reference row", r.Row)
		}
	case "eds":
		total = 1
		e, _ := val.(*rsmt2d.ExtendedDataSquare)
		if e == nil {
			return 0, total, ""
		}
		filled = 1
		if int(e.Width()) != N {
			return filled, total, fmt.Sprintf("square of width %d, want %d", e.Width(), N)
		}
		for i := 0; i < N; i++ {
			for j := 0; j < N; j++ {
				ref := s.S.Cell(i, j)
				if !bytes.Equal(e.GetCell(uint(i), uint(j)), ref.ToBytes()) {
					return filled, total, fmt.Sprintf("square differs from the reference at (%d,%d)", i, j)
				}
			}
		}
	case "nd":
		ns := s.ns[r.NS]
		rows := s.S.RowsCovering(ns)
		total = len(rows)
		nd, _ := val.(shwap.NamespaceData)
		if len(nd) == 0 {
			return 0, total, ""
		}
		filled = len(nd)
		if err := nd.Verify(s.roots, ns); err != nil {
			return filled, total, fmt.Sprintf("namespace data fails Verify: %v", err)
		}
		ref, _ := s.S.NamespaceShares(ns)
		if !v6SameShares(nd.Flatten(), ref) {
			return filled, total, "namespace data differs from the reference shares"
		}
	case "range":
		total = 1
		rng, _ := val.(shwap.RangeNamespaceData)
		if rng.IsEmpty() {
			return 0, total, ""
		}
		filled = 1
		from, err1 := shwap.SampleCoordsFrom1DIndex(r.From, W)
		to, err2 := shwap.SampleCoordsFrom1DIndex(r.To-1, W)
		if err1 != nil || err2 != nil {
			return filled, total, "range coordinates"
		}
		if err := rng.VerifyInclusion(from, to, W, s.roots.RowRoots[from.Row:to.Row+1]); err != nil {
			return filled, total, fmt.Sprintf("range fails VerifyInclusion: %v", err)
		}
		if !v6SameShares(rng.Flatten(), s.S.ODS()[r.From:r.To]) {
			return filled, total, "range differs from the reference shares"
		}
	}
	return filled, total, ""
}

func v6SameShares(a, b []libshare.Share) bool {
	if len(a) != len(b) {
		return false
	}
	for i := range a {
		if !bytes.Equal(a[i].ToBytes(), b[i].ToBytes()) {
			return false
		}
	}
	return true
}
