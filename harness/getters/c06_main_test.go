package share

// C06 harness, part 4: enumeration of cases, workers, report, replay.
//
// TestVerifC06 drives the REAL getters a node wires up - shrex_getter.Getter (with the real
// shrex.Client and the real peers.Manager), bitswap.Getter (over each of the two block stores the
// node types use), and the cascades built by lightGetter / bridgeGetter of this package - against
// scripted peers, exhaustively over explicit alphabets of answers, sequence lengths, deadlines and
// pool configurations, one execution per case inside a testing/synctest bubble (fake clock).

import (
	"context"
	"encoding/json"
	"fmt"
	"os"
	"path/filepath"
	"sort"
	"strconv"
	"strings"
	"sync"
	"sync/atomic"
	"testing"
	"time"

	logging "github.com/ipfs/go-log/v2"

	"github.com/celestiaorg/celestia-node/store"
	"github.com/celestiaorg/celestia-node/verifx/vx"
)

// squares: quick uses the first two, thorough all.
var v6Layouts = []string{
	"w2:TX1,A2,TAIL1",           // a namespace over two partial rows of the smallest extendable square
	"w4:TX1,A9,B2,TAIL4",        // partial first row, full row, partial last row; a one-row namespace; a padding row
	"w4:TX2,PFB1,A6p1,B3,TAIL4", // reserved namespaces, namespace padding
	"w2:A3,B1",                  // no padding at all
}

// v6Seqs: all sequences over alpha of length <= maxLen in which a terminal symbol occurs only last.
func v6Seqs(alpha []string, maxLen int, terminal func(string) bool) [][]string {
	out := [][]string{{}}
	var rec func(prefix []string)
	rec = func(prefix []string) {
		if len(prefix) == maxLen {
			return
		}
		for _, a := range alpha {
			s := append(append([]string(nil), prefix...), a)
			out = append(out, s)
			if !terminal(a) {
				rec(s)
			}
		}
	}
	rec(nil)
	return out
}

func v6ShrexTerminal(a string) bool {
	_, atEnd := v6AtEndOf(a)
	return a == "honest" || atEnd
}

// v6QuickAtEnd: the contents the quick tier combines with "arrives exactly as the caller gives up" (thorough: all).
var v6QuickAtEnd = map[string]bool{"honest": true, "other:0": true, "othersq": true, "longsq": true, "ext": true,
	"gshare": true, "gproof": true, "truncmsg": true}

func v6TierAlphabet(alpha []string, thorough bool) []string {
	if thorough {
		return alpha
	}
	var out []string
	for _, a := range alpha {
		if inner, e := v6AtEndOf(a); e && !v6QuickAtEnd[inner] {
			continue
		}
		out = append(out, a)
	}
	return out
}

// v6Special: the answer families that are combined with a reduced set of other answers where the full
// product is too large (transfers that die midway, answers that arrive as the caller gives up).
func v6Special(a string) bool {
	_, p := v6PartialOf(a)
	_, e := v6AtEndOf(a)
	return p || e
}
func v6BsTerminal(p string) bool {
	k, rest, _ := v6ParseBsPeer(p)
	return k == "honest" && rest == "honest"
}

// v6Deadlines: the deadlines worth combining with a sequence of exactly n scripted answers (answers arrive
// at 1s, 2s, ...): while the last answer is still in flight, after all of them arrived, plus extra ones.
// An earlier deadline cuts the sequence down to a shorter one, which an earlier phase enumerates with that deadline.
func v6Deadlines(n int, extra ...string) []string {
	var out []string
	for k := max(n-1, 0); k <= n; k++ {
		out = append(out, fmt.Sprintf("d%dms", k*1000+500))
	}
	return append(out, extra...)
}

// v6ManyPeers: pool size surplus for calls that issue two requests concurrently.
const v6ManyPeers = 24

type v6Bounds struct {
	thorough   bool
	squares    int
	shrexLen   int // sequence length, shrex getter alone
	shrexLenX  int // ... for the squares beyond the first two
	bsLen      int
	cascadeLen int
	ladder     int // largest burst of concurrent retrievals
}

type v6Phase struct {
	name string
	gen  func(yield func(v6Case) bool)
}

func v6CountCIDs(s *v6Square, r v6Req) int {
	switch r.Kind {
	case "samples":
		return len(r.Coords)
	case "eds":
		return s.S.W
	case "nd":
		return len(s.S.RowsCovering(s.ns[r.NS]))
	}
	return 1
}

func v6BsAlphabet(multi, thorough bool) []string {
	if !multi {
		return v6BsKinds
	}
	var out []string
	for _, k := range v6BsKinds {
		out = append(out, k+"/honest/one", k+"/honest/rev", k+"/silent/sep")
		if thorough {
			out = append(out, k+"/honest/sep", k+"/silent/one")
		}
	}
	return out
}

// At sequence length 3 (thorough) one representative per class of answer is used: honest; decodable but
// not verifying (other coordinates, other square, changed share); not decodable (truncated); message
// structure faults (missing / extra message); the three ways a peer refuses (NOT_FOUND, INTERNAL,
// rate-limit reset); silence; refused dial.
var v6DeepShrex = map[string]bool{"honest": true, "other:0": true, "othersq": true, "longsq": true, "trunc": true, "truncmsg": true, "ext": true,
	"gshare": true, "nf": true, "internal": true, "ratelimit": true, "hang": true, "dialfail": true}
var v6DeepBs = map[string]bool{"honest": true, "forged-other": true, "othersq": true, "garbage": true, "silent": true, "ext": true}

// v6Core: the answers a transfer that dies midway is combined with where the full product is too large
// (quick tier at length 2, thorough at length 3): the honest peer that must still succeed afterwards, a
// decodable wrong answer, a refusal, silence.
var v6Core = map[string]bool{"honest": true, "othersq": true, "nf": true, "hang": true}

// v6KeepPartialSeq: a sequence that contains pr:*/ph:* answers is kept iff all its other answers are in others.
func v6KeepPartialSeq(seq []string, others map[string]bool) bool {
	hasPart := false
	for _, a := range seq {
		if v6Special(a) {
			hasPart = true
		}
	}
	if !hasPart {
		return true
	}
	for _, a := range seq {
		if !v6Special(a) && !others[a] {
			return false
		}
	}
	return true
}

func v6Filter(alpha []string, keep map[string]bool) []string {
	var out []string
	for _, a := range alpha {
		k, _, _ := v6ParseBsPeer(a)
		if keep[a] || keep[k] || v6Special(a) {
			out = append(out, a)
		}
	}
	return out
}

func v6Phases(sqs []*v6Square, b v6Bounds) []v6Phase {
	type pool struct {
		bl    bool
		extra int
	}
	pools := []pool{{false, 1}, {true, 0}}
	if b.thorough {
		pools = []pool{{false, 1}, {true, 0}, {false, 0}, {true, 1}}
	}
	secondSeqs := [][]string{{"honest"}, {"other:0"}, {"nf"}, {}}

	shrexPhase := func(maxLen int) func(yield func(v6Case) bool) {
		return func(yield func(v6Case) bool) {
			for _, s := range sqs {
				if s.Idx >= 2 && maxLen > b.shrexLenX {
					continue
				}
				for _, r := range s.reqs {
					keys := r.Keys(s)
					alpha := v6TierAlphabet(s.answersFor(keys[0], len(keys) == 1), b.thorough)
					pools := pools
					if maxLen >= 3 {
						if s.Idx > 0 {
							alpha = v6Filter(alpha, v6DeepShrex)
						}
						pools = pools[:2]
					}
					for _, seq := range v6Seqs(alpha, maxLen, v6ShrexTerminal) {
						if len(seq) != maxLen {
							continue // shorter sequences belong to the earlier phases
						}
						switch {
						case !b.thorough && maxLen >= 2 && !v6KeepPartialSeq(seq, v6Core):
							continue
						case maxLen >= 3 && !v6KeepPartialSeq(seq, v6DeepShrex):
							continue
						}
						extra := []string{"d5m0.5s"}
						if b.thorough && maxLen < 3 {
							extra = append(extra, "c1500ms")
						}
						seq2s := [][]string{nil}
						if len(keys) > 1 {
							seq2s = secondSeqs
						}
						for _, seq2 := range seq2s {
							for _, d := range v6Deadlines(len(seq), extra...) {
								for _, p := range pools {
									c := v6Case{Wiring: "shrex", Sq: s.Idx, Req: r, Seq: seq, Seq2: seq2, D: d, BL: p.bl, Extra: p.extra}
									if len(keys) > 1 {
										// two concurrent requests: enough peers that neither ever waits for, or shares, a peer
										// (which request gets which peer is up to the scheduler and must not matter)
										if p.extra == 0 {
											continue
										}
										c.Extra = v6ManyPeers
									}
									if !yield(c) {
										return
									}
								}
							}
						}
					}
				}
			}
		}
	}
	bsPhase := func(maxLen int) func(yield func(v6Case) bool) {
		return func(yield func(v6Case) bool) {
			for _, wiring := range []string{"bs-light", "bs-bridge"} {
				for _, s := range sqs {
					for _, r := range s.reqs {
						alpha := v6BsAlphabet(v6CountCIDs(s, r) > 1, b.thorough && maxLen < 3)
						if maxLen >= 3 {
							alpha = v6Filter(alpha, v6DeepBs)
						}
						for _, seq := range v6Seqs(alpha, maxLen, v6BsTerminal) {
							if len(seq) != maxLen {
								continue
							}
							extra := []string{}
							if b.thorough && maxLen < 3 {
								extra = append(extra, "c1500ms")
							}
							for _, d := range v6Deadlines(len(seq), extra...) {
								if !yield(v6Case{Wiring: wiring, Sq: s.Idx, Req: r, Bs: seq, D: d}) {
									return
								}
							}
						}
						if maxLen == 0 {
							if !yield(v6Case{Wiring: wiring, Sq: s.Idx, Req: r, BsErr: true, D: "d1500ms"}) {
								return
							}
						}
					}
				}
			}
		}
	}
	cascadePhase := func(maxLen int) func(yield func(v6Case) bool) {
		return func(yield func(v6Case) bool) {
			bsSeqs := [][]string{{}, {"honest"}, {"othersq"}}
			for _, wiring := range []string{"light", "bridge"} {
				for _, s := range sqs {
					for _, r := range s.reqs {
						keys := r.Keys(s)
						alpha := v6TierAlphabet(s.answersFor(keys[0], len(keys) == 1), b.thorough)
						if wiring == "bridge" && maxLen == 0 {
							// the store getter in front holds the block: nothing else is asked
							if !yield(v6Case{Wiring: wiring, Sq: s.Idx, Req: r, D: "d8500ms", Extra: 1, Local: "hit"}) {
								return
							}
						}
						for _, seq := range v6Seqs(alpha, maxLen, v6ShrexTerminal) {
							if len(seq) != maxLen {
								continue
							}
							if maxLen >= 2 && !v6KeepPartialSeq(seq, v6DeepShrex) {
								continue
							}
							seq2s := [][]string{nil}
							if len(keys) > 1 {
								seq2s = secondSeqs
							}
							for _, seq2 := range seq2s {
								for _, bs := range bsSeqs {
									for _, d := range []string{"none", "d8500ms"} {
										c := v6Case{Wiring: wiring, Sq: s.Idx, Req: r, Seq: seq, Seq2: seq2, Bs: bs, D: d, Extra: 1}
										if len(keys) > 1 {
											c.Extra = v6ManyPeers
										}
										if wiring == "bridge" {
											c.Local = "miss"
										}
										if !yield(c) {
											return
										}
									}
								}
							}
						}
					}
				}
			}
		}
	}

	loadPhase := func(yield func(v6Case) bool) {
		sqIdx := 1 // the 4-wide square: every request type incl. multi-row namespace data and ranges
		if len(sqs) < 2 {
			sqIdx = 0
		}
		nReq := len(v6BurstReqs(sqs[sqIdx]))
		for _, wiring := range []string{"bs-light", "bs-bridge", "light", "bridge", "shrex"} {
			base := v6Case{Wiring: wiring, Sq: sqIdx, Bs: []string{"honest"}, D: "none"}
			if wiring == "bridge" {
				base.Local = "miss"
			}
			peers := func(n int) int {
				if wiring == "shrex" {
					return n + 9 // never fewer peers than concurrent requests (two-sample calls issue two)
				}
				return 0 // cascades: no shrex peer at all, so every retrieval falls through to bitswap
			}
			// retrievals after shutdown, every request type
			for _, c := range []v6Case{
				{Bursts: []int{nReq}, StopAt: -1},
				{Bursts: []int{nReq, nReq}, StopAt: 1},
				{Bursts: []int{1, nReq}, StopAt: 1},
			} {
				cc := base
				cc.Bursts, cc.StopAt, cc.Extra = c.Bursts, c.StopAt, peers(2*nReq)
				if !yield(cc) {
					return
				}
			}
			// the ladder
			for n := 1; n <= b.ladder; n++ {
				for _, m := range []int{n - 1, n, n + 1} {
					if m < 1 {
						continue
					}
					cc := base
					cc.Bursts, cc.Extra = []int{n, m}, peers(2*(n+1))
					if !yield(cc) {
						return
					}
				}
			}
		}
	}

	var ph []v6Phase
	ph = append(ph, v6Phase{fmt.Sprintf("load: bursts of n concurrent honest retrievals followed by n-1/n/n+1 on the same getters, n = 1..%d, and retrievals after the getters were stopped; bitswap getter (both block stores), both cascades, shrex getter", b.ladder), loadPhase})
	for l := 0; l <= b.shrexLen; l++ {
		ph = append(ph, v6Phase{fmt.Sprintf("shrex getter alone, %d scripted answer(s) per request", l), shrexPhase(l)})
		if l <= b.bsLen {
			ph = append(ph, v6Phase{fmt.Sprintf("bitswap getter alone over the light and the bridge block store, %d scripted peer(s)", l), bsPhase(l)})
		}
		if l <= b.cascadeLen {
			ph = append(ph, v6Phase{fmt.Sprintf("light cascade {shrex, bitswap} and bridge cascade {store, shrex, bitswap}, %d scripted shrex answer(s) x {no, honest, foreign} bitswap peer", l), cascadePhase(l)})
		}
	}
	return ph
}

// ---------------------------------------------------------------------------

type v6Stats struct {
	mu         sync.Mutex
	execs      int64
	nontriv    int64
	positives  int64
	posOK      int64
	outcomes   map[string]int64
	byWiring   map[string]int64
	byClass    map[string]int64
	sigCount   map[string]int64
	sigFirst   map[string]v6Case
	detChecked int64
	infra      []string
	samples    []any
}

func TestVerifC06(t *testing.T) {
	logging.SetAllLoggers(logging.LevelFatal)
	rep := vx.NewReport("C06", "fault_enumeration")
	rep.Rule = "a case = (node wiring, square, getter call, scripted answers to the successive attempts of every request the call issues / scripted bitswap peers, deadline or cancellation instant, peer-manager configuration); every case of the stated alphabets and lengths is executed once on the real getters in a synctest bubble; cases differ in at least one component; a case is non-trivial when at least one fault was actually played to the getter (a non-honest answer arrived, or a peer kept silent while the getter waited)"
	rep.Assumptions = []string{
		"scripted peers answer through an in-memory libp2p host/stream (shrex) and a fake exchange.SessionExchange (bitswap); the fake exchange decodes every incoming message with boxo's real bitswap message decoder, i.e. recomputes each block's CID with celestia's verifying multihash, drops a message whose decoding fails and drops blocks nobody wants - boxo's session/peer management itself is not run",
		"honest shrex bytes are what the real shrex.Server handlers write for an in-memory accessor of the reference square; every data fault is a transformation of those bytes; honest bitswap blocks come from the real bitswap.Blockstore.Get",
		"every answer takes 1s of fake time; deadlines lie between multiples of it (no ties); stream deadlines are not enforced by the fake stream (the client's own context.AfterFunc reset, armed for the same instant, ends a blocked read)",
		"answers are scripted per (request, attempt number), the pool holds as many peers as scripted answers (+0/+1); beyond the script peers stay silent; peers are taken from the discovery pool of the real peers.Manager (no shrex-sub pools)",
		"reference = the rsmt2d square built by verifx/sq; equality is byte equality of shares",
		"the local store in front of the bridge cascade is a real store.Store (recent-blocks cache size 0) on tmpfs",
	}
	thorough := rep.Tier == "thorough"
	b := v6Bounds{thorough: thorough, squares: 2, shrexLen: 2, shrexLenX: 2, bsLen: 2, cascadeLen: 1, ladder: 40}
	if thorough {
		b = v6Bounds{thorough: true, squares: len(v6Layouts), shrexLen: 3, shrexLenX: 2, bsLen: 3, cascadeLen: 2, ladder: 70}
	}

	// --- setup (outside any bubble)
	gen, err := v6NewGen()
	if err != nil {
		t.Fatalf("VERIF-INFRA-ERROR generator: %v", err)
	}
	var global []*v6Square
	for i, l := range v6Layouts[:b.squares] {
		s, err := v6BuildSquare(i, l)
		if err != nil {
			t.Fatalf("VERIF-INFRA-ERROR square %s: %v", l, err)
		}
		s.reqs = s.v6Requests(thorough)
		if err := s.buildTable(gen); err != nil {
			t.Fatalf("VERIF-INFRA-ERROR table %s: %v", l, err)
		}
		global = append(global, s)
	}
	tmp := os.Getenv("VERIF_TMP")
	if tmp == "" {
		tmp = t.TempDir()
	}
	dir := filepath.Join(tmp, "c06-store")
	if err := os.MkdirAll(dir, 0o755); err != nil {
		t.Fatalf("VERIF-INFRA-ERROR %v", err)
	}
	{
		st0, err := store.NewStore(&store.Parameters{RecentBlocksCacheSize: 0}, dir)
		if err != nil {
			t.Fatalf("VERIF-INFRA-ERROR store: %v", err)
		}
		for _, s := range global {
			if err := st0.PutODSQ4(context.Background(), s.roots, v6HitBase+uint64(s.Idx), s.S.EDS); err != nil {
				t.Fatalf("VERIF-INFRA-ERROR store put: %v", err)
			}
		}
		_ = st0.Stop(context.Background())
	}
	st, err := store.NewStore(&store.Parameters{RecentBlocksCacheSize: 0}, dir)
	if err != nil {
		t.Fatalf("VERIF-INFRA-ERROR store: %v", err)
	}
	bridgeBS, err := blockstoreFromEDSStore(st, defaultBlockstoreCacheSize)
	if err != nil {
		t.Fatalf("VERIF-INFRA-ERROR bridge blockstore: %v", err)
	}
	shared := &v6Shared{st: st, bridgeBS: bridgeBS}

	workers := vx.Workers()
	newEnv := func(id int) *v6Env {
		env := &v6Env{id: id, base: 1000 + uint64(id)*16, shared: shared}
		for i, l := range v6Layouts[:b.squares] {
			s, err := v6BuildSquare(i, l)
			if err != nil {
				panic(err)
			}
			s.reqs = global[i].reqs
			s.tab = global[i].tab
			env.squares = append(env.squares, s)
		}
		return env
	}

	// --- replay
	if p := os.Getenv("VERIF_REPLAY"); p != "" {
		raw, err := os.ReadFile(p)
		if err != nil {
			t.Fatalf("VERIF-INFRA-ERROR %v", err)
		}
		var doc struct {
			Signature string `json:"signature"`
			Replay    v6Case `json:"replay"`
		}
		if err := json.Unmarshal(raw, &doc); err != nil {
			t.Fatalf("VERIF-INFRA-ERROR %v", err)
		}
		env := newEnv(0)
		n := 0
		var last v6Result
		for i := 0; i < 5; i++ {
			last = v6RunCase(t, env, doc.Replay)
			if last.Sig != "" {
				n++
			}
		}
		for _, l := range last.Log {
			fmt.Println("  " + l)
		}
		rep.Count(5, 2, 0, 0)
		rep.AddSample(map[string]any{"case": doc.Replay, "observations": last.Log})
		rep.SetExhaustive(false)
		switch n {
		case 5:
			fmt.Printf("REPLAY-RESULT violation reproduced 5/5: %s: %s\n", last.Sig, last.What)
			rep.Violation(last.Sig, last.What, doc.Replay)
		case 0:
			fmt.Println("REPLAY-RESULT no violation")
		default:
			fmt.Printf("REPLAY-RESULT NONDETERMINISM: violation in %d of 5 runs\n", n)
			rep.Infra("replay is not deterministic")
		}
		rep.Finish()
		return
	}

	// --- warm-up: one execution per wiring outside the measured run, so lazily initialised globals exist
	{
		env := newEnv(workers)
		for _, w := range []string{"shrex", "bs-light", "light"} {
			_ = v6RunCase(t, env, v6Case{Wiring: w, Sq: 0, Req: global[0].reqs[0], Seq: []string{"honest"}, Bs: []string{"honest"}, D: "d2500ms", Extra: 1})
		}
	}

	deadline := rep.Deadline(85*time.Second, 18*time.Minute)
	stats := &v6Stats{outcomes: map[string]int64{}, byWiring: map[string]int64{}, byClass: map[string]int64{}, sigCount: map[string]int64{}, sigFirst: map[string]v6Case{}}
	var capped atomic.Bool

	// watchdog: one execution takes milliseconds; a call that spins without letting fake time pass
	// never ends, which is a violation of "a retrieval ends"
	type progress struct {
		at atomic.Int64
		c  atomic.Pointer[v6Case]
	}
	prog := make([]progress, workers)
	stopWatch := make(chan struct{})
	go func() {
		tk := time.NewTicker(2 * time.Second)
		defer tk.Stop()
		for {
			select {
			case <-stopWatch:
				return
			case <-tk.C:
			}
			for i := range prog {
				at, c := prog[i].at.Load(), prog[i].c.Load()
				if c != nil && at != 0 && time.Since(time.Unix(0, at)) > 90*time.Second {
					rep.Violation("C06/no-return/livelock/"+c.Wiring+"/"+c.Req.Class(),
						fmt.Sprintf("%s: the execution did not finish within 90s of real time (executions take milliseconds): the call spins without time passing", *c), *c)
					rep.SetExhaustive(false)
					rep.Count(atomic.LoadInt64(&stats.execs), atomic.LoadInt64(&stats.nontriv), 0, 0)
					rep.AddSample(c.String())
					rep.Finish()
					os.Exit(1)
				}
			}
		}
	}()

	// determinism self-check: every recheckEvery-th case is executed twice and must give the same observation log
	recheckEvery := int64(211)
	if v := os.Getenv("VERIF_C06_RECHECK_EVERY"); v != "" {
		if n, err := strconv.ParseInt(v, 10, 64); err == nil && n > 0 {
			recheckEvery = n
		}
	}
	phases := v6Phases(global, b)
	var phasesDone []string
	for _, ph := range phases {
		if capped.Load() {
			break
		}
		ch := make(chan v6Case, 256)
		var wg sync.WaitGroup
		var phaseExecs atomic.Int64
		for wi := 0; wi < workers; wi++ {
			wg.Add(1)
			go func(wi int) {
				defer wg.Done()
				env := newEnv(wi)
				for c := range ch {
					cc := c
					prog[wi].c.Store(&cc)
					prog[wi].at.Store(time.Now().UnixNano())
					res := v6RunCase(t, env, c)
					n := atomic.AddInt64(&stats.execs, 1)
					phaseExecs.Add(1)
					// determinism self-check on a fixed subsequence of the cases
					var again *v6Result
					if n%recheckEvery == 0 {
						r2 := v6RunCase(t, env, c)
						again = &r2
					}
					prog[wi].at.Store(0)
					stats.record(t, rep, env, c, res, again)
				}
			}(wi)
		}
		ph.gen(func(c v6Case) bool {
			if time.Now().After(deadline) {
				capped.Store(true)
				return false
			}
			ch <- c
			return true
		})
		close(ch)
		wg.Wait()
		if !capped.Load() {
			phasesDone = append(phasesDone, fmt.Sprintf("%s: %d cases", ph.name, phaseExecs.Load()))
		} else {
			phasesDone = append(phasesDone, fmt.Sprintf("%s: CAPPED by the soft deadline after %d cases", ph.name, phaseExecs.Load()))
		}
	}
	close(stopWatch)

	// --- report
	stats.mu.Lock()
	defer stats.mu.Unlock()
	rep.Count(stats.execs, stats.nontriv, 0, 0)
	rep.SetExhaustive(!capped.Load())
	rep.Set("phases_completed", phasesDone)
	rep.Set("bounds", map[string]any{
		"squares":                             v6Layouts[:b.squares],
		"shrex_answer_alphabet":               v6ShrexAnswers,
		"bitswap_peer_alphabet":               v6BsKinds,
		"shrex_sequence_length":               b.shrexLen,
		"reduced_alphabets_at_length_3":       map[string]any{"shrex": v6DeepShrex, "bitswap": v6DeepBs},
		"shrex_sequence_length_extra_squares": b.shrexLenX,
		"bitswap_sequence_length":             b.bsLen,
		"cascade_shrex_sequence_length":       b.cascadeLen,
		"wirings":                             []string{"shrex", "bs-light", "bs-bridge", "light", "bridge"},
	})
	var reqList []string
	for _, s := range global {
		for _, r := range s.reqs {
			reqList = append(reqList, fmt.Sprintf("sq%d %s", s.Idx, r))
		}
	}
	rep.Set("requests", reqList)
	rep.Set("outcome_histogram", stats.outcomes)
	rep.Set("distinct_outcomes", len(stats.outcomes))
	rep.Set("executions_by_wiring", stats.byWiring)
	rep.Set("executions_by_request_type", stats.byClass)
	rep.Set("positive_controls", map[string]int64{"cases": stats.positives, "succeeded_with_reference_data": stats.posOK})
	rep.Set("determinism_rechecks", stats.detChecked)
	rep.Set("violations_by_signature", stats.sigCount)
	for _, s := range stats.samples {
		rep.AddSample(s)
	}
	for _, m := range stats.infra {
		rep.Infra(m)
	}
	if stats.positives == 0 || (stats.posOK == 0 && len(stats.sigCount) == 0) {
		rep.Infra("no positive control succeeded: the exploration is vacuous")
		t.Fail()
	}
	if len(stats.outcomes) < 3 {
		rep.Infra(fmt.Sprintf("only %d distinct outcomes: the exploration is vacuous", len(stats.outcomes)))
		t.Fail()
	}
	if rep.Finish() > 0 || len(stats.infra) > 0 {
		t.Fail()
	}
}

func (st *v6Stats) record(t *testing.T, rep *vx.Report, env *v6Env, c v6Case, res v6Result, again *v6Result) {
	st.mu.Lock()
	defer st.mu.Unlock()
	if res.Nontriv {
		st.nontriv++
	}
	st.outcomes[res.Outcome]++
	st.byWiring[c.Wiring]++
	st.byClass[c.Req.Class()]++
	if res.Positive {
		st.positives++
		if res.Outcome == "ok" && res.Sig == "" {
			st.posOK++
		} else if res.Sig == "" {
			res.Sig = "C06/positive-control-failed/" + c.Wiring + "/" + c.Req.Class()
			res.What = fmt.Sprintf("%s: the honest answer comes first and in time, yet the outcome is %s", c, res.Outcome)
		}
	}
	if res.Harness != "" && len(st.infra) < 5 {
		st.infra = append(st.infra, fmt.Sprintf("harness error in case %s: %s", c, res.Harness))
	}
	if again != nil {
		st.detChecked++
		if strings.Join(res.Log, "\n") != strings.Join(again.Log, "\n") && len(st.infra) < 5 {
			st.infra = append(st.infra, fmt.Sprintf("NONDETERMINISM: case %s gave two different observation logs:\n%s\n---\n%s", c, strings.Join(res.Log, "\n"), strings.Join(again.Log, "\n")))
		}
	}
	if len(st.samples) < 12 && (st.execs%997 == 1 || (res.Sig != "" && st.sigCount[res.Sig] == 0)) {
		st.samples = append(st.samples, map[string]any{"case": c, "observations": res.Log})
	}
	if res.Sig == "" {
		return
	}
	// "honest response rejected after X": a longer sequence that contains an answer already known (from a
	// shorter sequence, found first) to make the honest response of this request type fail is the same mechanism
	if i := strings.Index(res.Sig, "/after="); i > 0 && strings.HasPrefix(res.Sig, "C06/honest-rejected/") {
		for known := range st.sigCount {
			if strings.HasPrefix(known, res.Sig[:i+len("/after=")]) {
				x := known[i+len("/after="):]
				for _, b := range res.Before {
					if b == x {
						res.Sig = known
					}
				}
			}
		}
	}
	st.sigCount[res.Sig]++
	if st.sigCount[res.Sig] > 1 {
		return
	}
	st.sigFirst[res.Sig] = c
	// believe a violation only if it reproduces 5/5
	st.mu.Unlock()
	n := 0
	for i := 0; i < 5; i++ {
		if r := v6RunCase(t, env, c); r.Sig == res.Sig {
			n++
		}
	}
	st.mu.Lock()
	if n != 5 {
		st.infra = append(st.infra, fmt.Sprintf("NONDETERMINISM: violation %s of case %s reproduced only %d/5", res.Sig, c, n))
		return
	}
	rep.Violation(res.Sig, res.What, c)
}

var _ = sort.Strings
