package share

// C06 harness, part 1: the in-memory network the REAL shrex.Client talks to.
//
// Nothing in this file decides anything about the property. The fakes only transport bytes:
// a fake libp2p host whose NewStream hands the client one end of an in-memory stream; the
// other end is a scripted endpoint that waits for the request, looks up which answer the
// enumerator picked for this (request, attempt number), lets one unit of fake time pass and
// then plays that answer back (bytes + EOF, a status, a reset, or nothing at all).
//
// Honest bytes are produced by the REAL shrex.Server handlers (registered by the real
// Server.Start on a capturing host) reading from an in-memory accessor of the reference
// square; every data fault is a transformation of those honest bytes.

import (
	"bytes"
	"context"
	"errors"
	"fmt"
	"io"
	"strings"
	"sync"
	"time"

	"github.com/libp2p/go-libp2p/core/event"
	"github.com/libp2p/go-libp2p/core/host"
	"github.com/libp2p/go-libp2p/core/network"
	"github.com/libp2p/go-libp2p/core/peer"
	"github.com/libp2p/go-libp2p/core/protocol"
	"github.com/libp2p/go-libp2p/p2p/host/eventbus"
	ma "github.com/multiformats/go-multiaddr"
)

// v6Latency is the fake time every answer (and every refused dial) takes. It is what makes
// the retry loop of the getter consume time: deadlines are placed between multiples of it.
const v6Latency = time.Second

// v6PartialGap is the fake time between the last byte of a transfer that dies midway and its reset
// (1.1s per such answer: three of them plus an honest one still end before the 3.5s deadline).
const v6PartialGap = 100 * time.Millisecond

// v6AtEndLatency: an answer that arrives exactly as the caller gives up takes 1.2s, so that the cancellation
// it triggers never coincides with the answer to a concurrent second request (whole seconds) or with a deadline
// (1.1 + 1.1 + 1.2 = 3.4 < 3.5).
const v6AtEndLatency = 1200 * time.Millisecond

var v6Loopback = ma.StringCast("/ip4/127.0.0.1/tcp/4001")

// ---------------------------------------------------------------------------
// connection / scope stubs

type v6Conn struct {
	network.Conn // nil: any other method is a harness error
	remote       peer.ID
	local        peer.ID
}

func (c *v6Conn) RemotePeer() peer.ID           { return c.remote }
func (c *v6Conn) LocalPeer() peer.ID            { return c.local }
func (c *v6Conn) RemoteMultiaddr() ma.Multiaddr { return v6Loopback }
func (c *v6Conn) LocalMultiaddr() ma.Multiaddr  { return v6Loopback }
func (c *v6Conn) ID() string                    { return "verif-conn" }

type v6Scope struct{}

func (v6Scope) ReserveMemory(int, uint8) error { return nil }
func (v6Scope) ReleaseMemory(int)              {}
func (v6Scope) Stat() network.ScopeStat        { return network.ScopeStat{} }
func (v6Scope) BeginSpan() (network.ResourceScopeSpan, error) {
	return nil, errors.New("verif: no spans")
}
func (v6Scope) SetService(string) error { return nil }

// ---------------------------------------------------------------------------
// client side of a stream

type v6Stream struct {
	w     *v6World
	proto protocol.ID
	peer  peer.ID

	mu         sync.Mutex
	req        []byte // client -> server
	reqClosed  bool
	in         []byte // server -> client, not yet read
	inEOF      bool
	inErr      error // remote reset
	localReset bool
	closed     bool
	wake       chan struct{} // closed and replaced on every state change
	gone       chan struct{} // closed when the client resets or closes the stream
	goneOnce   sync.Once

	key       string // request key, set by the endpoint
	honestLen int    // > 0: the endpoint delivered a complete honest response of that many bytes
	endAfter  int    // > 0: "the answer arrives exactly as the caller gives up": the caller's context is cancelled
	endFired  bool   // synchronously inside Read, once endAfter bytes were consumed or EOF is about to be returned
	nRead     int
}

var _ network.Stream = (*v6Stream)(nil)

func (s *v6Stream) signal() { // mu held
	close(s.wake)
	s.wake = make(chan struct{})
}

func (s *v6Stream) Read(b []byte) (int, error) {
	for {
		s.mu.Lock()
		switch {
		case s.localReset:
			s.mu.Unlock()
			return 0, network.ErrReset
		case s.closed:
			s.mu.Unlock()
			return 0, errors.New("verif stream: read on closed stream")
		case s.inErr != nil:
			err := s.inErr
			s.mu.Unlock()
			return 0, err
		case len(s.in) > 0:
			n := copy(b, s.in)
			s.in = s.in[n:]
			s.nRead += n
			full := s.honestLen > 0 && s.nRead == s.honestLen
			fire := s.endAfter > 0 && !s.endFired && s.nRead >= s.endAfter
			if fire {
				s.endFired = true
			}
			key := s.key
			s.mu.Unlock()
			if full {
				s.w.markHonestRead(key)
			}
			if fire {
				s.w.endCaller(key)
			}
			return n, nil
		case s.inEOF:
			fire := s.endAfter > 0 && !s.endFired
			if fire {
				s.endFired = true
			}
			key := s.key
			s.mu.Unlock()
			if fire {
				s.w.endCaller(key)
			}
			return 0, io.EOF
		}
		if len(b) == 0 {
			s.mu.Unlock()
			return 0, nil
		}
		w := s.wake
		s.mu.Unlock()
		<-w
	}
}

func (s *v6Stream) Write(b []byte) (int, error) {
	s.mu.Lock()
	defer s.mu.Unlock()
	switch {
	case s.localReset:
		return 0, network.ErrReset
	case s.inErr != nil:
		return 0, s.inErr
	case s.closed || s.reqClosed:
		return 0, errors.New("verif stream: write on closed stream")
	}
	s.req = append(s.req, b...)
	s.signal()
	return len(b), nil
}

func (s *v6Stream) CloseWrite() error {
	s.mu.Lock()
	s.reqClosed = true
	s.signal()
	s.mu.Unlock()
	return nil
}

func (s *v6Stream) CloseRead() error { return nil }

func (s *v6Stream) Close() error {
	s.mu.Lock()
	s.closed = true
	s.reqClosed = true
	s.signal()
	s.mu.Unlock()
	s.goneOnce.Do(func() { close(s.gone) })
	return nil
}

func (s *v6Stream) Reset() error { return s.ResetWithError(0) }

func (s *v6Stream) ResetWithError(network.StreamErrorCode) error {
	s.mu.Lock()
	s.localReset = true
	s.signal()
	s.mu.Unlock()
	s.goneOnce.Do(func() { close(s.gone) })
	return nil
}

// Deadlines are accepted and not enforced: the client always also arms context.AfterFunc(ctx,
// stream.Reset) with the same instant, so the reset is what ends a blocked read (see check.json note).
func (s *v6Stream) SetDeadline(time.Time) error      { return nil }
func (s *v6Stream) SetReadDeadline(time.Time) error  { return nil }
func (s *v6Stream) SetWriteDeadline(time.Time) error { return nil }

func (s *v6Stream) ID() string                    { return "verif-stream" }
func (s *v6Stream) Protocol() protocol.ID         { return s.proto }
func (s *v6Stream) SetProtocol(protocol.ID) error { return nil }
func (s *v6Stream) Stat() network.Stats           { return network.Stats{} }
func (s *v6Stream) Conn() network.Conn            { return &v6Conn{remote: s.peer, local: "verif-client"} }
func (s *v6Stream) Scope() network.StreamScope    { return v6Scope{} }

// --- the endpoint's view

// waitReq blocks until the client has written its request and closed its write side.
func (s *v6Stream) waitReq(done <-chan struct{}) ([]byte, bool) {
	for {
		s.mu.Lock()
		if s.localReset || s.closed {
			s.mu.Unlock()
			return nil, false
		}
		if s.reqClosed {
			b := append([]byte(nil), s.req...)
			s.mu.Unlock()
			return b, true
		}
		w := s.wake
		s.mu.Unlock()
		select {
		case <-w:
		case <-done:
			return nil, false
		}
	}
}

func (s *v6Stream) deliver(b []byte, honest bool) {
	s.mu.Lock()
	s.in = append(s.in, b...)
	s.inEOF = true
	if honest {
		s.honestLen = len(b)
	}
	s.signal()
	s.mu.Unlock()
}

// deliverAtEnd is deliver, and the caller's context ends the moment the client has consumed the response:
// after `consume` bytes (what a single-message reader takes) or, at the latest, when it is handed EOF.
func (s *v6Stream) deliverAtEnd(b []byte, honest bool, consume int) {
	s.mu.Lock()
	s.endAfter = consume
	s.mu.Unlock()
	s.deliver(b, honest)
}

// deliverPartial hands bytes to the client without ending the stream.
func (s *v6Stream) deliverPartial(b []byte) {
	s.mu.Lock()
	s.in = append(s.in, b...)
	s.signal()
	s.mu.Unlock()
}

func (s *v6Stream) resetRemote(code network.StreamErrorCode) {
	s.mu.Lock()
	if s.inErr == nil {
		s.inErr = &network.StreamError{ErrorCode: code, Remote: true}
	}
	s.in = nil
	s.signal()
	s.mu.Unlock()
}

// ---------------------------------------------------------------------------
// client host

type v6Network struct {
	network.Network // nil: any other method is a harness error
	w               *v6World
}

func (n *v6Network) ClosePeer(p peer.ID) error {
	n.w.logf("net: a peer was disconnected (blacklisted)")
	return nil
}
func (n *v6Network) Connectedness(peer.ID) network.Connectedness { return network.Connected }
func (n *v6Network) LocalPeer() peer.ID                          { return "verif-client" }

type v6Host struct {
	host.Host // nil: any other method is a harness error
	w         *v6World
	bus       event.Bus
}

func (h *v6Host) ID() peer.ID              { return "verif-client" }
func (h *v6Host) Network() network.Network { return &v6Network{w: h.w} }
func (h *v6Host) EventBus() event.Bus {
	if h.bus == nil {
		h.bus = eventbus.NewBus()
	}
	return h.bus
}
func (h *v6Host) SetStreamHandler(protocol.ID, network.StreamHandler) {}
func (h *v6Host) RemoveStreamHandler(protocol.ID)                     {}
func (h *v6Host) Close() error                                        { return nil }

func (h *v6Host) NewStream(ctx context.Context, p peer.ID, pids ...protocol.ID) (network.Stream, error) {
	w := h.w
	if len(pids) != 1 {
		return nil, fmt.Errorf("verif host: %d protocols", len(pids))
	}
	// a refused dial is an answer too; it can only be scripted when the execution has one request key
	if w.singleKey != "" {
		w.mu.Lock()
		i := w.attempts[w.singleKey]
		sc := w.script[w.singleKey]
		refuse := i < len(sc) && sc[i] == "dialfail"
		if refuse {
			w.attempts[w.singleKey]++
			w.served = append(w.served, "dialfail")
		}
		w.mu.Unlock()
		if refuse {
			w.logf("req %s #%d -> dialfail", w.singleKey, i)
			t := time.NewTimer(v6Latency)
			defer t.Stop()
			select {
			case <-t.C:
			case <-ctx.Done():
				w.logf("req %s #%d abandoned by the client before the answer", w.singleKey, i)
				return nil, ctx.Err()
			case <-w.done:
			}
			w.mu.Lock()
			w.arrived = append(w.arrived, "dialfail")
			w.arrivedBy[w.singleKey] = append(w.arrivedBy[w.singleKey], "dialfail")
			w.mu.Unlock()
			return nil, errors.New("verif host: dial refused")
		}
	}
	s := &v6Stream{w: w, proto: pids[0], peer: p, wake: make(chan struct{}), gone: make(chan struct{})}
	w.mu.Lock()
	w.streams = append(w.streams, s)
	w.mu.Unlock()
	w.wg.Add(1)
	go w.endpoint(s)
	return s, nil
}

func v6PeerName(p peer.ID) string { return string(p) }

// ---------------------------------------------------------------------------
// the world of one execution: scripts, counters, observations

type v6World struct {
	t0   time.Time
	done chan struct{}
	wg   sync.WaitGroup

	tab map[string]map[string][]byte // request key -> answer -> wire bytes (read-only, per square)

	mu         sync.Mutex
	script     map[string][]string // request key -> answers by attempt number; beyond the script: silence
	attempts   map[string]int
	singleKey  string
	streams    []*v6Stream
	log        []string
	served     []string            // answers picked, in order of request arrival (an answer may never arrive)
	arrived    []string            // answers that were actually played to the client (a hang never arrives)
	arrivedBy  map[string][]string // ... per request key
	honestRead map[string]bool     // request key -> a complete honest response was read by the client
	harnessErr string
	cancelCall func() // cancels the context the getter was called with
	defaultAns string // answer to attempts beyond the script ("" = silence)
}

// endCaller cancels the caller's context; it runs on the client's own goroutine, inside stream.Read, so the
// request returns its (complete) response to the getter with the context already done.
func (w *v6World) endCaller(key string) {
	w.logf("caller's context cancelled as the last byte of the answer to %s is read", key)
	if w.cancelCall != nil {
		w.cancelCall()
	}
}

func v6NewWorld(tab map[string]map[string][]byte) *v6World {
	return &v6World{
		t0: time.Now(), done: make(chan struct{}), tab: tab,
		script: map[string][]string{}, attempts: map[string]int{}, honestRead: map[string]bool{}, arrivedBy: map[string][]string{},
	}
}

func (w *v6World) logf(format string, a ...any) {
	line := fmt.Sprintf("t=%v ", time.Since(w.t0)) + fmt.Sprintf(format, a...)
	w.mu.Lock()
	w.log = append(w.log, line)
	w.mu.Unlock()
}

func (w *v6World) markHonestRead(key string) {
	w.mu.Lock()
	w.honestRead[key] = true
	w.mu.Unlock()
	w.logf("honest response for %s completely read by the client", key)
}

func (w *v6World) fail(format string, a ...any) {
	w.mu.Lock()
	if w.harnessErr == "" {
		w.harnessErr = fmt.Sprintf(format, a...)
	}
	w.mu.Unlock()
}

// shutdown ends every endpoint and wakes every blocked client read.
func (w *v6World) shutdown() {
	close(w.done)
	w.mu.Lock()
	ss := append([]*v6Stream(nil), w.streams...)
	w.mu.Unlock()
	for _, s := range ss {
		s.resetRemote(0)
	}
	w.wg.Wait()
}

func (w *v6World) pause(s *v6Stream, d time.Duration) bool {
	t := time.NewTimer(d)
	defer t.Stop()
	select {
	case <-t.C:
		return true
	case <-s.gone:
		return false
	case <-w.done:
		return false
	}
}

func (w *v6World) endpoint(s *v6Stream) {
	defer w.wg.Done()
	reqBytes, ok := s.waitReq(w.done)
	if !ok {
		return
	}
	key, err := v6ParseRequest(s.proto, reqBytes)
	if err != nil {
		w.fail("endpoint cannot parse request on %s: %v", s.proto, err)
		s.resetRemote(0)
		return
	}
	w.mu.Lock()
	i := w.attempts[key]
	w.attempts[key]++
	ans := "hang"
	if w.defaultAns != "" {
		ans = w.defaultAns
	}
	if sc := w.script[key]; i < len(sc) {
		ans = sc[i]
	}
	w.served = append(w.served, ans)
	w.mu.Unlock()
	s.mu.Lock()
	s.key = key
	s.mu.Unlock()
	w.logf("req %s #%d -> %s", key, i, ans)
	lat := v6Latency
	if _, atEnd := v6AtEndOf(ans); atEnd {
		lat = v6AtEndLatency
	}
	if !w.pause(s, lat) {
		w.logf("req %s #%d abandoned by the client before the answer", key, i)
		return
	}
	if ans != "hang" {
		w.mu.Lock()
		w.arrived = append(w.arrived, ans)
		w.arrivedBy[key] = append(w.arrivedBy[key], ans)
		w.mu.Unlock()
	}
	switch ans {
	case "hang":
		select {
		case <-s.gone:
		case <-w.done:
		}
	case "reset":
		s.resetRemote(0)
	case "ratelimit":
		s.resetRemote(network.StreamRateLimited)
	default:
		if inner, atEnd := v6AtEndOf(ans); atEnd {
			b, ok := w.tab[key][inner]
			if !ok {
				w.fail("no bytes prepared for request %s answer %s", key, ans)
				s.resetRemote(0)
				return
			}
			s.deliverAtEnd(b, inner == "honest", v6ConsumedBy(key, b))
			return
		}
		if k, isPart := v6PartialOf(ans); isPart {
			b, ok := w.tab[key]["part:"+k]
			if !ok {
				w.fail("no partial bytes prepared for request %s answer %s", key, ans)
				s.resetRemote(0)
				return
			}
			s.deliverPartial(b)
			// fake time only moves once the client has consumed the bytes and blocks on the stream again
			if !w.pause(s, v6PartialGap) {
				return
			}
			if strings.HasPrefix(ans, "pr:") {
				s.resetRemote(0)
				return
			}
			select { // "ph": silence until the client gives up
			case <-s.gone:
			case <-w.done:
			}
			return
		}
		b, ok := w.tab[key][ans]
		if !ok {
			w.fail("no bytes prepared for request %s answer %s", key, ans)
			s.resetRemote(0)
			return
		}
		s.deliver(b, ans == "honest")
	}
}

// ---------------------------------------------------------------------------
// capture side: the REAL server handler runs against this stream synchronously

type v6Capture struct {
	network.Stream // nil: any other method is a harness error
	req            *bytes.Reader
	out            bytes.Buffer
	resets         []network.StreamErrorCode
	proto          protocol.ID
}

func (c *v6Capture) Read(b []byte) (int, error)  { return c.req.Read(b) }
func (c *v6Capture) Write(b []byte) (int, error) { return c.out.Write(b) }
func (c *v6Capture) Close() error                { return nil }
func (c *v6Capture) CloseRead() error            { return nil }
func (c *v6Capture) CloseWrite() error           { return nil }
func (c *v6Capture) Reset() error                { c.resets = append(c.resets, 0); return nil }
func (c *v6Capture) ResetWithError(e network.StreamErrorCode) error {
	c.resets = append(c.resets, e)
	return nil
}
func (c *v6Capture) SetDeadline(time.Time) error      { return nil }
func (c *v6Capture) SetReadDeadline(time.Time) error  { return nil }
func (c *v6Capture) SetWriteDeadline(time.Time) error { return nil }
func (c *v6Capture) ID() string                       { return "verif-capture" }
func (c *v6Capture) Protocol() protocol.ID            { return c.proto }
func (c *v6Capture) Conn() network.Conn {
	return &v6Conn{remote: "verif-client", local: "verif-server"}
}
func (c *v6Capture) Scope() network.StreamScope { return v6Scope{} }

// v6ServerHost records the handlers the real shrex.Server registers.
type v6ServerHost struct {
	host.Host // nil: any other method is a harness error
	handlers  map[protocol.ID]network.StreamHandler
}

func (h *v6ServerHost) ID() peer.ID { return "verif-server" }
func (h *v6ServerHost) SetStreamHandler(p protocol.ID, f network.StreamHandler) {
	h.handlers[p] = f
}
func (h *v6ServerHost) RemoveStreamHandler(p protocol.ID) { delete(h.handlers, p) }
