package shwap_test

// C02 — verified namespace data is complete: no share of a namespace can be withheld.
//
// For every square of the bounded alphabet and every probe namespace, the honest
// NamespaceData of every real producer (direct NMT build, cached-proof tree walk, file
// accessors) must verify and be exactly the namespace's shares; and every response derived
// from the honest one by the withholding operators — enumerated as choice sequences with a
// deviation bound by vx.DFS — is handed to the REAL NamespaceData.Verify(roots, namespace).
// Oracle: accepted ⇒ Flatten() == all reference shares of the namespace in block order
// ∧ exactly one entry per covering row ∧ (namespace absent ⇒ only absence proofs, no shares).

import (
	"bytes"
	"context"
	"fmt"
	"os"
	"sort"
	"strings"
	"testing"
	"time"

	libshare "github.com/celestiaorg/go-square/v4/share"

	"github.com/celestiaorg/celestia-node/share/eds"
	"github.com/celestiaorg/celestia-node/share/shwap"
	"github.com/celestiaorg/celestia-node/verifx/sq"
	"github.com/celestiaorg/celestia-node/verifx/vx"
)

// ndOracle evaluates the structural part of the oracle on an accepted response.
func ndOracle(nd shwap.NamespaceData, coveringRows int, refEmpty bool) string {
	if len(nd) != coveringRows {
		return fmt.Sprintf("accepted with %d row entries but %d rows cover the namespace", len(nd), coveringRows)
	}
	if refEmpty {
		for i, e := range nd {
			if len(e.Shares) != 0 {
				return fmt.Sprintf("namespace absent but entry %d carries shares", i)
			}
			if e.Proof == nil || !e.Proof.IsOfAbsence() {
				return fmt.Sprintf("namespace absent but entry %d is not an absence proof", i)
			}
		}
	}
	return ""
}

// tryND evaluates one NamespaceData response.
func (c *vCtx) tryND(req string, pr sq.Probe, opf func() string, class string, honest, must bool,
	ref []libshare.Share, cov int, nd shwap.NamespaceData) {
	extra := ""
	c.try("nd", req, func() string {
		s := opf()
		if extra != "" {
			s += " {" + extra + "}"
		}
		return s
	}, class, honest, must, ref, func() (error, []libshare.Share) {
		err := nd.Verify(c.S.DAH, pr.NS)
		out := nd.Flatten()
		if err == nil {
			if extra = ndOracle(nd, cov, len(ref) == 0); extra != "" {
				// make the exposed data differ from the reference so that the oracle fires
				out = append(append([]libshare.Share{}, out...), libshare.Share{})
			}
		}
		return err, out
	})
}

type ndAlt struct {
	name  string
	class string
	cost  int
	e     shwap.RowNamespaceData
}

type ndListOp struct {
	name  string
	class string
	apply func(nd shwap.NamespaceData) shwap.NamespaceData
}

func c02Square(c *vCtx, g vGroup) {
	S, w := c.S, c.S.W
	ctx := context.Background()
	accs, closeAll := c.accessors(true)
	defer closeAll()
	depth := g.Depth
	if depth == 0 {
		depth = 1
	}
	// entry pools per ODS row (square under test) and for the other square
	own := make([][]rowEntry, w)
	oth := make([][]rowEntry, w) // same rows of the other square, built on demand
	for j := 0; j < w; j++ {
		own[j] = c.rowEntries(0, j)
	}
	for _, pr := range sq.Probes() {
		req := "ns=" + pr.Name
		if !c.wantReq("nd", req) {
			continue
		}
		c.st.requests++
		ref, per := S.NamespaceShares(pr.NS)
		cov := S.RowsCovering(pr.NS)
		if c.only == nil {
			c.st.classes["nd/"+S.Class(pr.NS)]++
		}
		// ---- honest responses of every producer
		var firstND shwap.NamespaceData
		for ai, na := range accs {
			nd, err := eds.NamespaceData(ctx, na.acc, pr.NS)
			if err != nil {
				if pr.Requestable {
					c.producerErr("nd", req, na.name, err)
				}
				continue
			}
			c.tryND(req, pr, func() string { return "eds.NamespaceData over " + na.name }, "nd/producer="+na.name, true, pr.Requestable, ref, len(cov), nd)
			if ai == 0 {
				firstND = nd
			} else if firstND != nil && c.only == nil {
				if ndProofsEqual(firstND, nd) {
					c.st.classes["nd/producer-proofs-identical-to-Rsmt2D"]++
				} else {
					c.st.classes["nd/producer-proofs-differ-from-Rsmt2D"]++
				}
			}
		}
		// ---- the honest response, built row by row
		honest := make(shwap.NamespaceData, 0, len(cov))
		ok := true
		for _, r := range cov {
			if r >= w {
				ok = false // parity rows (parity namespace): no honest data-row response exists
				break
			}
			e, err := shwap.RowNamespaceDataFromShares(S.Row(r), pr.NS, r)
			if err != nil {
				ok = false
				break
			}
			honest = append(honest, e)
		}
		if !ok {
			// no honest base exists (parity rows): only list operators on the empty response
			honest = nil
		}
		// ---- alternatives per covering row
		alts := make([][]ndAlt, len(honest))
		for i := range honest {
			r := cov[i]
			if r >= w {
				continue
			}
			var nb *libshare.Share
			if per[r][1] > per[r][0] {
				if per[r][1] < w {
					x := S.Row(r)[per[r][1]]
					nb = &x
				} else if per[r][0] > 0 {
					x := S.Row(r)[per[r][0]-1]
					nb = &x
				}
			}
			for _, o := range honestListOps(honest[i], nb) {
				alts[i] = append(alts[i], ndAlt{o.name, o.class, 1, o.e})
			}
			for _, en := range own[r] {
				alts[i] = append(alts[i], ndAlt{en.name, "samerow:" + en.class, 1, en.e})
			}
			for j := 0; j < w; j++ {
				if j == r {
					continue
				}
				for _, en := range own[j] {
					alts[i] = append(alts[i], ndAlt{en.name, "otherrow:" + en.class, 2, en.e})
				}
			}
			if oth[r] == nil {
				oth[r] = c.rowEntries(1, r)
			}
			for _, en := range oth[r] {
				alts[i] = append(alts[i], ndAlt{en.name, "othersquare:" + en.class, 2, en.e})
			}
		}
		// ---- list-level operators
		k := len(honest)
		var lops []ndListOp
		for i := 0; i < k; i++ {
			lops = append(lops,
				ndListOp{fmt.Sprintf("remove entry %d", i), "remove-row", func(nd shwap.NamespaceData) shwap.NamespaceData {
					return append(append(shwap.NamespaceData{}, nd[:i]...), nd[i+1:]...)
				}},
				ndListOp{fmt.Sprintf("duplicate entry %d", i), "duplicate-row", func(nd shwap.NamespaceData) shwap.NamespaceData {
					return append(append(append(shwap.NamespaceData{}, nd[:i+1]...), nd[i]), nd[i+1:]...)
				}})
			if i+1 < k {
				lops = append(lops, ndListOp{fmt.Sprintf("swap entries %d,%d", i, i+1), "swap-rows", func(nd shwap.NamespaceData) shwap.NamespaceData {
					out := append(shwap.NamespaceData{}, nd...)
					out[i], out[i+1] = out[i+1], out[i]
					return out
				}})
			}
		}
		if k >= 3 {
			lops = append(lops, ndListOp{"reverse entries", "reverse-rows", func(nd shwap.NamespaceData) shwap.NamespaceData {
				out := make(shwap.NamespaceData, len(nd))
				for i := range nd {
					out[len(nd)-1-i] = nd[i]
				}
				return out
			}})
		}
		if k >= 1 {
			lops = append(lops,
				ndListOp{"no entries at all", "all-rows-removed", func(shwap.NamespaceData) shwap.NamespaceData { return nil }},
				ndListOp{"keep first entry only", "truncate-to-first", func(nd shwap.NamespaceData) shwap.NamespaceData { return nd[:1] }},
			)
		}
		covered := map[int]bool{}
		for _, r := range cov {
			covered[r] = true
		}
		for r := 0; r < w; r++ {
			if covered[r] {
				continue
			}
			for _, en := range own[r] {
				if en.class != "absence-at-leaf" && en.class != "inclusion-range" && en.class != "producer-output-of-namespace" && en.class != "empty-proof" {
					continue
				}
				if en.class == "inclusion-range" && !strings.HasPrefix(en.name, "shares[0:1)") && !strings.HasPrefix(en.name, fmt.Sprintf("shares[0:%d)", w)) {
					continue
				}
				lops = append(lops,
					ndListOp{"append " + en.name, "append-noncovering-row:" + en.class, func(nd shwap.NamespaceData) shwap.NamespaceData {
						return append(append(shwap.NamespaceData{}, nd...), en.e)
					}},
					ndListOp{"prepend " + en.name, "prepend-noncovering-row:" + en.class, func(nd shwap.NamespaceData) shwap.NamespaceData {
						return append(shwap.NamespaceData{en.e}, nd...)
					}})
			}
		}
		// ---- enumerate every choice sequence within the deviation bound
		body := func(e *vx.Exec) (string, error) {
			nd := make(shwap.NamespaceData, k)
			var names, classes []string
			for i := 0; i < k; i++ {
				costs := make([]int, len(alts[i])+1)
				for a := range alts[i] {
					costs[a+1] = alts[i][a].cost
				}
				ch := e.ChooseCost(len(alts[i])+1, "entry", costs)
				if ch == 0 {
					nd[i] = honest[i]
					continue
				}
				a := alts[i][ch-1]
				nd[i] = a.e
				names = append(names, fmt.Sprintf("entry %d (row %d) := %s", i, cov[i], a.name))
				classes = append(classes, "entry="+a.class)
			}
			ch := e.Choose(len(lops)+1, "listop")
			if ch > 0 {
				nd = lops[ch-1].apply(nd)
				names = append(names, lops[ch-1].name)
				classes = append(classes, "list="+lops[ch-1].class)
			}
			isHonest := len(names) == 0 && ok
			class := "nd/honest"
			if !isHonest {
				sort.Strings(classes)
				class = "nd/" + strings.Join(classes, "+")
				if len(names) == 0 {
					class = "nd/fallback-base"
				}
			}
			c.tryND(req, pr, func() string {
				if len(names) == 0 {
					return "honest response (RowNamespaceDataFromShares per covering row)"
				}
				return strings.Join(names, "; ")
			}, class, isHonest, isHonest && pr.Requestable, ref, len(cov), nd)
			return "", nil
		}
		st := vx.DFS(vx.DFSOpts{Bound: depth, Workers: 1}, body, nil)
		if !st.Complete {
			c.rep.Infra("DFS did not complete: " + st.Capped)
		}
	}
}

func ndProofsEqual(a, b shwap.NamespaceData) bool {
	if len(a) != len(b) {
		return false
	}
	for i := range a {
		pa, pb := a[i].Proof, b[i].Proof
		if (pa == nil) != (pb == nil) {
			return false
		}
		if pa == nil {
			continue
		}
		if pa.Start() != pb.Start() || pa.End() != pb.End() || pa.IsOfAbsence() != pb.IsOfAbsence() ||
			!bytes.Equal(pa.LeafHash(), pb.LeafHash()) || len(pa.Nodes()) != len(pb.Nodes()) {
			return false
		}
		for j := range pa.Nodes() {
			if !bytes.Equal(pa.Nodes()[j], pb.Nodes()[j]) {
				return false
			}
		}
	}
	return true
}

// c02WireCases: the streamed encoding of honest namespace data (one present namespace
// spanning the most rows, one absent-inside namespace).
func (c *vCtx) c02WireCases() []wireCase {
	S := c.S
	rs := &eds.Rsmt2D{ExtendedDataSquare: S.EDS}
	var out []wireCase
	bestPresent, bestAbsent := -1, -1
	bestRows := 0
	for i, pr := range sq.Probes() {
		if !pr.Requestable {
			continue
		}
		flat, _ := S.NamespaceShares(pr.NS)
		cov := S.RowsCovering(pr.NS)
		if len(flat) > 0 && len(cov) > bestRows {
			bestPresent, bestRows = i, len(cov)
		}
		if len(flat) == 0 && len(cov) > 0 && bestAbsent < 0 {
			bestAbsent = i
		}
	}
	for _, i := range []int{bestPresent, bestAbsent} {
		if i < 0 {
			continue
		}
		pr := sq.Probes()[i]
		nd, err := eds.NamespaceData(context.Background(), rs, pr.NS)
		if err != nil {
			panic(err)
		}
		ref, _ := S.NamespaceShares(pr.NS)
		cov := len(S.RowsCovering(pr.NS))
		var buf bytes.Buffer
		if _, err := nd.WriteTo(&buf); err != nil {
			panic(err)
		}
		out = append(out, wireCase{kind: "nd", req: "ns=" + pr.Name, codec: "stream", enc: buf.Bytes(), ref: ref,
			decodeVerify: func(m []byte) (error, error, []libshare.Share) {
				var d shwap.NamespaceData
				if _, err := d.ReadFrom(bytes.NewReader(m)); err != nil {
					return err, nil, nil
				}
				verr := d.Verify(S.DAH, pr.NS)
				o := d.Flatten()
				if verr == nil {
					if x := ndOracle(d, cov, len(ref) == 0); x != "" {
						o = append(append([]libshare.Share{}, o...), libshare.Share{})
					}
				}
				return nil, verr, o
			}})
	}
	return out
}

func c02Groups(tier string) []vGroup {
	pads := []int{0, 1}
	gs := []vGroup{
		{Name: "w1-all-layouts", Layouts: sq.Layouts(1, 0, pads), Depth: 2},
		{Name: "w2-all-layouts", Layouts: sq.Layouts(2, 0, pads), Depth: 2},
		{Name: "w4-upto2-namespaces", Layouts: sq.Layouts(4, 2, pads), Depth: 2},
	}
	if tier == "thorough" {
		gs = append(gs,
			vGroup{Name: "w4-exactly3-namespaces", Layouts: only3(sq.Layouts(4, 3, nil)), Depth: 2},
			vGroup{Name: "w8-fixed-list", Layouts: sq.Fixed8(), Depth: 2},
		)
	}
	return gs
}

func TestVerifC02(t *testing.T) {
	vInit()
	rep := vx.NewReport("C02", "model_checking")
	rep.Rule = "bounded-exhaustive: every namespace layout of the listed ODS widths (verifx/sq) × every probe namespace (each layout symbol, a namespace in every gap, below/above all, reserved, tail padding, parity) " +
		"× every response reachable from the honest NamespaceData by at most `deviation_depth` simultaneous operators, enumerated as choice sequences by vx.DFS: per covering row the entry is replaced by " +
		"any sub-range+proof of the row, an absence proof at any leaf (with/without shares), the producer output for any other probe namespace, nil/empty proofs, share-list operators keeping the proof " +
		"(drop first/last/middle, duplicate, reverse, pad with the neighbouring namespace's share) [cost 1], or by any such entry of another row or of another square [cost 2]; list operators: remove/duplicate/swap/reverse rows, " +
		"truncate, clear, append/prepend entries of non-covering rows; plus the byte-operator alphabet on the streamed honest encoding. " +
		"A case is (square, namespace, response); it is distinct_nontrivial when the response is not the honest one and what it exposes differs from the complete namespace data."
	rep.Assumptions = []string{
		"SHA-256 / NMT are not attacked: responses are structural recombinations of honest material and byte mutations",
		"covering rows and the namespace's shares are computed from the rsmt2d reference cells, independently of share.RowsWithNamespace and of the row roots",
		"tail-padding and parity namespaces are rejected by NamespaceDataID validation; they are probed for soundness only (no positive control)",
		"producers: eds.NamespaceData over Rsmt2D (RowNamespaceDataFromShares), over the proofs cache (ipld tree walk) on Rsmt2D and on an ODS file, over ODS and ODS+Q4 files",
	}
	vTmp = vTmpDir(t)
	if p := os.Getenv("VERIF_REPLAY"); p != "" {
		vReplay(t, "C02", rep, p, func(c *vCtx, g vGroup) {
			if c.only != nil && strings.HasPrefix(c.only.Kind, "wire-") {
				for _, wc := range c.c02WireCases() {
					if "wire-"+wc.kind == c.only.Kind && wc.req+"/"+wc.codec == c.only.Req {
						c.runWire(wc, time.Now().Add(time.Hour), false)
						c.runWire(wc, time.Now().Add(time.Hour), true)
					}
				}
				return
			}
			c02Square(c, g)
		})
		return
	}
	deadline := rep.Deadline(80*time.Second, 19*time.Minute)
	total := newStats()
	wl := []string{"w2:TX1,A2,TAIL1", "w2:A1,C3"}
	if rep.Tier == "thorough" {
		wl = append(wl, "w4:TX1,A9,C3,TAIL3", "w4:A3,C13")
	}
	t0 := time.Now()
	wcomplete, ncases := runWireLayouts("C02", rep, wl, deadline, total, func(c *vCtx) []wireCase { return c.c02WireCases() })
	fmt.Printf("VERIF-PROGRESS C02 wire: %d encodings of %d squares, %d verifier/decoder calls, %.1fs complete=%v\n", ncases, len(wl), total.evals, time.Since(t0).Seconds(), wcomplete)
	complete, results := runGroups("C02", rep, c02Groups(rep.Tier), deadline, total, c02Square)
	rep.Set("wire_squares", wl)
	rep.Set("wire_encodings_mutated", ncases)
	finishStats(rep, total, results)
	rep.SetExhaustive(complete && wcomplete)
	if rep.Finish() > 0 {
		t.Fail()
	}
}
