package shwap_test

// C01 — verified shares are exactly the shares committed at the requested position.
//
// For every square of the bounded alphabet (verifx/sq), every request (sample coordinate,
// row, (row, namespace), ODS range [from,to)) and every candidate response of the operator
// alphabets below, the REAL verifier is called with the arguments the real callers derive
// from the trusted header (shrex_getter / bitswap blocks): Sample.Verify(roots,row,col),
// Row.Verify(roots,idx), RowNamespaceData.Verify(roots,ns,row),
// RangeNamespaceData.VerifyInclusion/VerifyNamespace(from,to,odsSize,RowRoots[from.Row:to.Row+1]).
// Oracle: accepted ⇒ Share / Row.Shares() / Shares / Flatten() byte-equal to the rsmt2d
// reference cells at exactly the requested position; honest responses of every real
// producer must be accepted.

import (
	"bytes"
	"context"
	"encoding/json"
	"fmt"
	"os"
	"path/filepath"
	"strconv"
	"strings"
	"sync/atomic"
	"testing"
	"time"

	libshare "github.com/celestiaorg/go-square/v4/share"
	"github.com/celestiaorg/nmt"
	"github.com/celestiaorg/rsmt2d"

	"github.com/celestiaorg/celestia-node/share/eds"
	"github.com/celestiaorg/celestia-node/share/shwap"
	shwappb "github.com/celestiaorg/celestia-node/share/shwap/pb"
	"github.com/celestiaorg/celestia-node/store/file"
	"github.com/celestiaorg/celestia-node/verifx/sq"
	"github.com/celestiaorg/celestia-node/verifx/vx"
)

var (
	vTmp     string
	vFileSeq atomic.Int64
)

func axisName(a rsmt2d.Axis) string {
	switch a {
	case rsmt2d.Row:
		return "row"
	case rsmt2d.Col:
		return "col"
	}
	return "label#" + strconv.Itoa(int(a))
}

// vAxisLabels: the two valid proof-axis labels followed by out-of-range ones. The label is an
// unauthenticated field of the response; a struct or a JSON document can carry any int.
var vAxisLabels = []rsmt2d.Axis{rsmt2d.Row, rsmt2d.Col, rsmt2d.Axis(2), rsmt2d.Axis(3), rsmt2d.Axis(255), rsmt2d.Axis(-1)}

// sampleViaJSON presents a sample the way the RPC/JSON representation does.
func sampleViaJSON(s shwap.Sample) (shwap.Sample, error) {
	b, err := s.MarshalJSON()
	if err != nil {
		return shwap.Sample{}, fmt.Errorf("json marshal: %w", err)
	}
	var out shwap.Sample
	if err := out.UnmarshalJSON(b); err != nil {
		return shwap.Sample{}, fmt.Errorf("json unmarshal: %w", err)
	}
	return out, nil
}

// try evaluates one candidate: run returns the verifier's verdict and the shares the
// container exposes.
func (c *vCtx) try(kind, req string, opf func() string, class string, honest, must bool,
	ref []libshare.Share, run func() (error, []libshare.Share)) {
	if c.only != nil && !c.want(kind, req, opf()) {
		return
	}
	var exposed []libshare.Share
	err, pan := guard(func() error {
		e, x := run()
		exposed = x
		return e
	})
	e := vEval{kind: kind, req: req, class: class, honest: honest, mustAccept: must, err: err, panicked: pan,
		equal: sharesEqual(exposed, ref)}
	if pan != nil {
		e.err = nil
	}
	accepted := err == nil && pan == nil
	if (accepted && !e.equal) || (must && !accepted) || c.only != nil || c.sampling(kind, class, req, honest, e.equal) {
		e.op = opf()
		e.detail = func() string {
			return "exposed " + c.describeShares(exposed) + ", committed " + c.describeShares(ref)
		}
		if c.only == nil && !((accepted && !e.equal) || (must && !accepted)) {
			v := "rejected"
			if accepted {
				v = "accepted"
			}
			if err != nil {
				v += ": " + err.Error()
			}
			if len(v) > 160 {
				v = v[:160]
			}
			c.rep.AddSample(vCase{Kind: kind, Layout: c.lay, Req: req, Op: e.op, Verdict: v})
		}
	}
	c.record(e)
}

// sampling: the middle square of each group contributes, for a rotating pair of container
// kinds, one honest case and two wrong-data cases (different operator classes and requests)
// to the evidence samples.
func (c *vCtx) sampling(kind, class, req string, honest, equal bool) bool {
	h := c.sample
	if h == nil || (len(h.kinds) > 0 && !h.kinds[kind]) {
		return false
	}
	h.mu.Lock()
	defer h.mu.Unlock()
	if honest {
		if h.seen[kind+"/honest"] {
			return false
		}
		h.seen[kind+"/honest"] = true
		return true
	}
	if equal || h.n[kind] >= 2 || h.seen[class] || h.seen[kind+req] {
		return false
	}
	h.seen[class], h.seen[kind+req] = true, true
	h.n[kind]++
	return true
}

// ---------------------------------------------------------------- samples

func (c *vCtx) enumSamples(reduced bool) {
	S, n := c.S, c.S.N
	axes := []rsmt2d.Axis{rsmt2d.Row, rsmt2d.Col}
	// proofs[which][axis][r][c]
	proofs := [2][2][][]*nmt.Proof{}
	for which := 0; which < 2; which++ {
		for ai, ax := range axes {
			proofs[which][ai] = make([][]*nmt.Proof, n)
			for r := 0; r < n; r++ {
				proofs[which][ai][r] = make([]*nmt.Proof, n)
				if which == 1 {
					continue // other-square proofs are built on demand below
				}
				for col := 0; col < n; col++ {
					if ax == rsmt2d.Row {
						proofs[which][ai][r][col] = c.proof(which, ax, r, col, col+1)
					} else {
						proofs[which][ai][r][col] = c.proof(which, ax, col, r, r+1)
					}
				}
			}
		}
	}
	// operator-class strings, precomputed: [rel][proofaxis][flag][graft]
	rels := []string{"same-cell", "same-row", "same-col", "transposed", "other-cell"}
	relIdx := map[string]int{}
	var sclass [5][2][6][2][2]string
	for ri, rel := range rels {
		relIdx[rel] = ri
		for ai, pa := range axes {
			for fi, flag := range vAxisLabels {
				for g, shName := range []string{"own", "requested"} {
					sclass[ri][ai][fi][g][0] = "sample/src=" + rel + ",proofaxis=" + axisName(pa) + ",flag=" + axisName(flag) + ",share=" + shName
					sclass[ri][ai][fi][g][1] = sclass[ri][ai][fi][g][0] + ",via=json"
				}
			}
		}
	}
	relName := func(r, col, sr, sc int) string {
		switch {
		case sr == r && sc == col:
			return "same-cell"
		case sr == r:
			return "same-row"
		case sc == col:
			return "same-col"
		case sr == col && sc == r:
			return "transposed"
		default:
			return "other-cell"
		}
	}
	for r := 0; r < n; r++ {
		for col := 0; col < n; col++ {
			req := fmt.Sprintf("(%d,%d)", r, col)
			if !c.wantReq("sample", req) {
				continue
			}
			c.st.requests++
			ref := []libshare.Share{S.Cell(r, col)}
			verify := func(s shwap.Sample) func() (error, []libshare.Share) {
				return func() (error, []libshare.Share) {
					return s.Verify(S.DAH, r, col), []libshare.Share{s.Share}
				}
			}
			jsonReq := (r == 0 || r == n-1) && (col == 0 || col == n-1)
			verifyJSON := func(s shwap.Sample) func() (error, []libshare.Share) {
				return func() (error, []libshare.Share) {
					d, err := sampleViaJSON(s)
					if err != nil {
						return err, nil
					}
					return d.Verify(S.DAH, r, col), []libshare.Share{d.Share}
				}
			}
			for sr := 0; sr < n; sr++ {
				for sc := 0; sc < n; sc++ {
					if reduced && !(sr == r || sc == col || (sr == col && sc == r) || (abs(sr-r) <= 1 && abs(sc-col) <= 1)) {
						continue
					}
					ri := relIdx[relName(r, col, sr, sc)]
					for ai, pa := range axes {
						p := proofs[0][ai][sr][sc]
						for fi, flag := range vAxisLabels {
							for graft := 0; graft < 2; graft++ {
								if graft == 1 && ((sr == r && sc == col) || fi >= 2) {
									continue // grafting the requested share is combined with the valid labels only
								}
								sh := S.Cell(sr, sc)
								shName := "own"
								if graft == 1 {
									sh, shName = S.Cell(r, col), "requested"
								}
								honest := sr == r && sc == col && flag == pa
								class := "sample/honest/" + axisName(pa)
								if !honest {
									class = sclass[ri][ai][fi][graft][0]
								}
								smp := shwap.Sample{Share: sh, Proof: p, ProofType: flag}
								c.try("sample", req, func() string {
									return fmt.Sprintf("share=%s of (%d,%d) proof=%s-proof of (%d,%d) flag=%s", shName, sr, sc, axisName(pa), sr, sc, axisName(flag))
								}, class, honest, honest, ref, verify(smp))
								// the same sample through its JSON representation (MarshalJSON of the struct,
								// UnmarshalJSON on the receiving side): every out-of-range label with material of
								// the requested cell, its row and its column (all quadrants); valid labels for the
								// honest sample. JSON (reflection + base64) is ~50x dearer than Verify, so it is exercised for
								// the four corner coordinates (one per quadrant); the struct form covers every coordinate.
								if jsonReq && (((fi == 2 || fi == 5 || (!reduced && fi >= 2)) && ri <= 2 && graft == 0) || honest) {
									jclass := "sample/honest/" + axisName(pa) + ",via=json"
									if !honest {
										jclass = sclass[ri][ai][fi][graft][1]
									}
									c.try("sample", req, func() string {
										return fmt.Sprintf("JSON round trip of share=%s of (%d,%d) proof=%s-proof of (%d,%d) flag=%s", shName, sr, sc, axisName(pa), sr, sc, axisName(flag))
									}, jclass, honest, honest, ref, verifyJSON(smp))
								}
							}
						}
					}
				}
			}
			// proof-shape operators on the honest row / column sample
			own := S.Cell(r, col)
			for ai, pa := range axes {
				hp := proofs[0][ai][r][col]
				idx, axisIdx := col, r
				if pa == rsmt2d.Col {
					idx, axisIdx = r, col
				}
				type alt struct {
					name string
					s    shwap.Sample
				}
				alts := []alt{
					{"nil-proof", shwap.Sample{Share: own, Proof: nil, ProofType: pa}},
					{"empty-proof", shwap.Sample{Share: own, Proof: &nmt.Proof{}, ProofType: pa}},
					{"start+1", shwap.Sample{Share: own, Proof: ptr(nmt.NewInclusionProof(idx+1, idx+2, hp.Nodes(), true)), ProofType: pa}},
					{"end+1", shwap.Sample{Share: own, Proof: ptr(nmt.NewInclusionProof(idx, idx+2, hp.Nodes(), true)), ProofType: pa}},
					{"maxns-not-ignored", shwap.Sample{Share: own, Proof: ptr(nmt.NewInclusionProof(idx, idx+1, hp.Nodes(), false)), ProofType: pa}},
					{"absence-shaped", shwap.Sample{Share: own, Proof: ptr(nmt.NewAbsenceProof(idx, idx+1, hp.Nodes(), leafHash(own, r >= S.W || col >= S.W), true)), ProofType: pa}},
					{"nodes-dropped-last", shwap.Sample{Share: own, Proof: ptr(nmt.NewInclusionProof(idx, idx+1, dropLast(hp.Nodes()), true)), ProofType: pa}},
				}
				if idx > 0 {
					alts = append(alts, alt{"start-1", shwap.Sample{Share: own, Proof: ptr(nmt.NewInclusionProof(idx-1, idx, hp.Nodes(), true)), ProofType: pa}})
				}
				if idx+2 <= n {
					wide := c.proof(0, pa, axisIdx, idx, idx+2)
					alts = append(alts, alt{"two-leaf-proof", shwap.Sample{Share: own, Proof: wide, ProofType: pa}})
				}
				// other square of the same layout: its share and/or its proof
				var p2 *nmt.Proof
				if pa == rsmt2d.Row {
					p2 = c.proof(1, pa, r, col, col+1)
				} else {
					p2 = c.proof(1, pa, col, r, r+1)
				}
				alts = append(alts,
					alt{"othersquare-share+proof", shwap.Sample{Share: c.S2.Cell(r, col), Proof: p2, ProofType: pa}},
					alt{"othersquare-share,own-proof", shwap.Sample{Share: c.S2.Cell(r, col), Proof: hp, ProofType: pa}},
					alt{"own-share,othersquare-proof", shwap.Sample{Share: own, Proof: p2, ProofType: pa}},
				)
				for _, lab := range vAxisLabels[2:] {
					alts = append(alts,
						alt{"othersquare-share+proof,flag=" + axisName(lab), shwap.Sample{Share: c.S2.Cell(r, col), Proof: p2, ProofType: lab}},
						alt{"othersquare-share,own-proof,flag=" + axisName(lab), shwap.Sample{Share: c.S2.Cell(r, col), Proof: hp, ProofType: lab}},
					)
				}
				for _, a := range alts {
					c.try("sample", req, func() string { return a.name + " on " + axisName(pa) + "-sample" },
						"sample/proofshape="+a.name, false, false, ref, verify(a.s))
					if jsonReq && strings.Contains(a.name, "flag=label#") {
						c.try("sample", req, func() string { return "JSON round trip of " + a.name + " on " + axisName(pa) + "-sample" },
							"sample/proofshape="+a.name+",via=json", false, false, ref, verifyJSON(a.s))
					}
				}
				// editing the proof_type field of the honest JSON document
				hs := shwap.Sample{Share: own, Proof: hp, ProofType: pa}
				if hj, err := hs.MarshalJSON(); err == nil && jsonReq {
					field := []byte(`"proof_type":` + strconv.Itoa(int(pa)))
					if bytes.Count(hj, field) == 1 {
						for _, v := range []string{"2", "3", "255", "-1", "256", "4294967296", "1.0", `"1"`, "null", strconv.Itoa(1 - int(pa))} {
							ed := bytes.Replace(hj, field, []byte(`"proof_type":`+v), 1)
							c.try("sample", req, func() string {
								return "honest " + axisName(pa) + "-sample JSON with proof_type:=" + v
							}, "sample/json-field-edit,proof_type", false, false, ref, func() (error, []libshare.Share) {
								var d shwap.Sample
								if err := d.UnmarshalJSON(ed); err != nil {
									return fmt.Errorf("json unmarshal: %w", err), nil
								}
								return d.Verify(S.DAH, r, col), []libshare.Share{d.Share}
							})
						}
					} else if c.only == nil {
						c.rep.Infra("honest sample JSON has no unique proof_type field")
					}
				}
			}
		}
	}
}

func ptr[T any](v T) *T { return &v }

func abs(x int) int {
	if x < 0 {
		return -x
	}
	return x
}

func dropLast(n [][]byte) [][]byte {
	if len(n) == 0 {
		return n
	}
	return n[:len(n)-1]
}

// ---------------------------------------------------------------- rows

func sideName(s shwap.RowSide) string {
	switch s {
	case shwap.Left:
		return "LEFT"
	case shwap.Right:
		return "RIGHT"
	case shwap.Both:
		return "BOTH"
	}
	return "side#" + strconv.Itoa(int(s))
}

func (c *vCtx) enumRows(reduced bool) {
	S, n, w := c.S, c.S.N, c.S.W
	axes := []rsmt2d.Axis{rsmt2d.Row, rsmt2d.Col}
	sides := []shwap.RowSide{shwap.Left, shwap.Right, shwap.Both, shwap.RowSide(3), shwap.RowSide(255), shwap.RowSide(-1)}
	for idx := 0; idx < n; idx++ {
		req := fmt.Sprintf("row=%d", idx)
		if !c.wantReq("row", req) {
			continue
		}
		c.st.requests++
		ref := S.Row(idx)
		verify := func(shs []libshare.Share, side shwap.RowSide) func() (error, []libshare.Share) {
			return func() (error, []libshare.Share) {
				row := shwap.NewRow(shs, side)
				err := row.Verify(S.DAH, idx)
				if err != nil {
					return err, nil // a rejected row exposes nothing
				}
				out, serr := row.Shares()
				if serr != nil {
					out = nil // accepted but cannot expose: nil differs from the reference
				}
				return err, out
			}
		}
		for which := 0; which < 2; which++ {
			for _, ax := range axes {
				for j := 0; j < n; j++ {
					if which == 1 && !(ax == rsmt2d.Row && j == idx) {
						continue // other square: only the same row
					}
					if reduced && which == 0 && !(abs(j-idx) <= 1 || abs(j-idx) == w || (ax == rsmt2d.Col && j == idx)) {
						continue
					}
					full := c.sq(which).Axis(ax, j)
					parts := []struct {
						name string
						shs  []libshare.Share
						real shwap.RowSide
					}{{"left-half", full[:w], shwap.Left}, {"right-half", full[w:], shwap.Right}, {"both", full, shwap.Both}}
					for _, p := range parts {
						for _, side := range sides {
							// LEFT/RIGHT-flagged candidates make the verifier run a Reed-Solomon decode (expensive):
							// they are taken from the requested index, its neighbours and its mirror on both axes;
							// BOTH-flagged (and invalid-flag) candidates from every row and column.
							if (side == shwap.Left || side == shwap.Right) && which == 0 &&
								!((ax == rsmt2d.Row && (abs(j-idx) <= 1 || abs(j-idx) == w)) || (ax == rsmt2d.Col && j == idx)) {
								continue
							}
							honest := which == 0 && ax == rsmt2d.Row && j == idx && side == p.real
							rel := "same"
							switch {
							case which == 1:
								rel = "othersquare"
							case ax == rsmt2d.Col && j == idx:
								rel = "col-same-index"
							case ax == rsmt2d.Col:
								rel = "col-other"
							case j != idx:
								rel = "other-row"
							}
							class := "row/honest/" + sideName(side)
							if !honest {
								class = "row/src=" + rel + ",part=" + p.name + ",flag=" + sideName(side)
							}
							c.try("row", req, func() string {
								return fmt.Sprintf("%s of %s %d (square %d) flagged %s", p.name, axisName(ax), j, which, sideName(side))
							}, class, honest, honest, ref, verify(p.shs, side))
						}
					}
				}
			}
		}
		// the JSON representation carries the side as a string: every valid and several unknown
		// spellings × halves/whole of the requested row and of its neighbour
		for _, j := range []int{idx, (idx + 1) % n} {
			if idx != 0 && idx != n-1 {
				break // JSON presentation for the first and the last (parity) row
			}
			src := S.Row(j)
			for _, p := range []struct {
				name string
				shs  []libshare.Share
				real string
			}{{"left-half", src[:w], "LEFT"}, {"right-half", src[w:], "RIGHT"}, {"both", src, "BOTH"}} {
				tmpl, err := json.Marshal(struct {
					Shares []libshare.Share `json:"shares"`
					Side   string           `json:"side"`
				}{p.shs, "@SIDE@"})
				if err != nil {
					panic(err)
				}
				for _, label := range []string{"LEFT", "RIGHT", "BOTH", "", "left", "3", "UNKNOWN"} {
					honest := j == idx && label == p.real
					class := "row/honest/" + label + ",via=json"
					if !honest {
						rel := "same"
						if j != idx {
							rel = "other-row"
						}
						class = "row/src=" + rel + ",part=" + p.name + ",jsonside=" + label
					}
					doc := bytes.Replace(tmpl, []byte("@SIDE@"), []byte(label), 1)
					c.try("row", req, func() string {
						return fmt.Sprintf("JSON document {shares: %s of row %d, side: %q}", p.name, j, label)
					}, class, honest, honest, ref, func() (error, []libshare.Share) {
						var row shwap.Row
						if err := row.UnmarshalJSON(doc); err != nil {
							return fmt.Errorf("json unmarshal: %w", err), nil
						}
						if err := row.Verify(S.DAH, idx); err != nil {
							return err, nil
						}
						out, serr := row.Shares()
						if serr != nil {
							out = nil
						}
						return nil, out
					})
				}
			}
		}
		// share-list operators on the honest halves
		full := S.Row(idx)
		type lop struct {
			name string
			shs  []libshare.Share
			side shwap.RowSide
		}
		var lops []lop
		for _, base := range []struct {
			name string
			shs  []libshare.Share
			side shwap.RowSide
		}{{"left", full[:w], shwap.Left}, {"right", full[w:], shwap.Right}, {"both", full, shwap.Both}} {
			b := base.shs
			lops = append(lops,
				lop{base.name + "/drop-last", b[:len(b)-1], base.side},
				lop{base.name + "/drop-first", b[1:], base.side},
				lop{base.name + "/dup-last", append(append([]libshare.Share{}, b...), b[len(b)-1]), base.side},
				lop{base.name + "/reversed", reversed(b), base.side},
				lop{base.name + "/rotated", append(append([]libshare.Share{}, b[1:]...), b[0]), base.side},
				lop{base.name + "/empty", nil, base.side},
			)
			if len(b) >= 2 {
				sw := append([]libshare.Share{}, b...)
				sw[0], sw[1] = sw[1], sw[0]
				lops = append(lops, lop{base.name + "/swap01", sw, base.side})
			}
		}
		lops = append(lops, lop{"both/halves-swapped", append(append([]libshare.Share{}, full[w:]...), full[:w]...), shwap.Both})
		lops = append(lops, lop{"both/left-half-twice", append(append([]libshare.Share{}, full[:w]...), full[:w]...), shwap.Both})
		for _, o := range lops {
			c.try("row", req, func() string { return "honest " + o.name }, "row/listop="+o.name, false, false, ref, verify(o.shs, o.side))
		}
	}
}

func reversed(s []libshare.Share) []libshare.Share {
	out := make([]libshare.Share, len(s))
	for i := range s {
		out[len(s)-1-i] = s[i]
	}
	return out
}

// ---------------------------------------------------------------- row namespace data

// rowNDPool is the pool of forged row entries taken from one source row of one square;
// it is shared by C01 (row-namespace requests) and C02 (namespace data responses).
type rowEntry struct {
	name  string // full description
	class string // operator class
	e     shwap.RowNamespaceData
}

// rowEntries builds every entry the alphabet derives from EDS row j of square which.
func (c *vCtx) rowEntries(which, j int) []rowEntry {
	S := c.sq(which)
	w, n := S.W, S.N
	row := S.Row(j)
	var out []rowEntry
	src := fmt.Sprintf("row %d", j)
	if which == 1 {
		src += " of other square"
	}
	add := func(name, class string, shs []libshare.Share, p *nmt.Proof) {
		out = append(out, rowEntry{name: name + " from " + src, class: class, e: shwap.RowNamespaceData{Shares: shs, Proof: p}})
	}
	ranges := [][2]int{}
	for a := 0; a < w; a++ {
		for b := a + 1; b <= w; b++ {
			ranges = append(ranges, [2]int{a, b})
		}
	}
	ranges = append(ranges, [2]int{0, n}, [2]int{w, n})
	if w >= 1 {
		ranges = append(ranges, [2]int{w - 1, w + 1})
	}
	for _, ab := range ranges {
		a, b := ab[0], ab[1]
		cls := "inclusion-range"
		if b > w {
			cls = "inclusion-range-into-parity"
		}
		add(fmt.Sprintf("shares[%d:%d)+their range proof", a, b), cls, row[a:b], c.proof(which, rsmt2d.Row, j, a, b))
	}
	for i := 0; i <= w && i < n; i++ {
		p := c.proof(which, rsmt2d.Row, j, i, i+1)
		lh := leafHash(row[i], j >= w || i >= w)
		add(fmt.Sprintf("absence proof at leaf %d, no shares", i), "absence-at-leaf", nil, ptr(nmt.NewAbsenceProof(i, i+1, p.Nodes(), lh, true)))
		if i < w {
			add(fmt.Sprintf("absence proof at leaf %d with share %d", i, i), "absence-with-share", row[i:i+1], ptr(nmt.NewAbsenceProof(i, i+1, p.Nodes(), lh, true)))
			add(fmt.Sprintf("inclusion proof of leaf %d, no shares", i), "inclusion-without-shares", nil, p)
		}
	}
	for _, pr := range sq.Probes() {
		e, err := shwap.RowNamespaceDataFromShares(row, pr.NS, j)
		if err != nil {
			continue
		}
		add("producer output for namespace "+pr.Name, "producer-output-of-namespace", e.Shares, e.Proof)
	}
	add("nil proof, no shares", "nil-proof", nil, nil)
	add("empty proof, no shares", "empty-proof", nil, &nmt.Proof{})
	add("empty range proof (maxns ignored), no shares", "empty-proof", nil, ptr(nmt.NewEmptyRangeProof(true)))
	return out
}

// honestListOps: share-list operators on an honest entry that keep its proof.
func honestListOps(h shwap.RowNamespaceData, neighbour *libshare.Share) []rowEntry {
	var out []rowEntry
	s := h.Shares
	add := func(name string, shs []libshare.Share) {
		out = append(out, rowEntry{name: "honest entry with shares " + name, class: "listop=" + name, e: shwap.RowNamespaceData{Shares: shs, Proof: h.Proof}})
	}
	if h.Proof != nil && !h.Proof.IsEmptyProof() {
		// the proof's "ignore max namespace" flag is an unauthenticated label as well
		p := nmt.NewInclusionProof(h.Proof.Start(), h.Proof.End(), h.Proof.Nodes(), false)
		if h.Proof.IsOfAbsence() {
			p = nmt.NewAbsenceProof(h.Proof.Start(), h.Proof.End(), h.Proof.Nodes(), h.Proof.LeafHash(), false)
		}
		out = append(out, rowEntry{name: "honest entry with proof flag maxns-ignored:=false", class: "proofflag=maxns-not-ignored",
			e: shwap.RowNamespaceData{Shares: s, Proof: &p}})
	}
	if len(s) > 0 {
		add("drop-first", s[1:])
		add("drop-last", s[:len(s)-1])
		add("dup-first", append([]libshare.Share{s[0]}, s...))
		add("dup-last", append(append([]libshare.Share{}, s...), s[len(s)-1]))
		add("all-dropped", nil)
	}
	if len(s) > 2 {
		add("drop-middle", append(append([]libshare.Share{}, s[:1]...), s[2:]...))
	}
	if len(s) > 1 {
		add("reversed", reversed(s))
	}
	if neighbour != nil {
		add("padded-with-neighbour", append(append([]libshare.Share{}, s...), *neighbour))
		add("neighbour-prepended", append([]libshare.Share{*neighbour}, s...))
		if len(s) > 0 {
			add("last-replaced-by-neighbour", append(append([]libshare.Share{}, s[:len(s)-1]...), *neighbour))
		}
	}
	return out
}

func (c *vCtx) enumRowND(reduced bool) {
	S, n, w := c.S, c.S.N, c.S.W
	pools := make([][]rowEntry, n)
	for j := 0; j < n; j++ {
		pools[j] = c.rowEntries(0, j)
	}
	for rowIdx := 0; rowIdx < n; rowIdx++ {
		var other []rowEntry
		if rowIdx < w {
			other = c.rowEntries(1, rowIdx)
		}
		for _, pr := range sq.Probes() {
			req := fmt.Sprintf("row=%d,ns=%s", rowIdx, pr.Name)
			if !c.wantReq("rownd", req) {
				continue
			}
			c.st.requests++
			var ref []libshare.Share
			covered := false
			if rowIdx < w {
				_, per := S.NamespaceShares(pr.NS)
				ref = append(ref, S.Row(rowIdx)[per[rowIdx][0]:per[rowIdx][1]]...)
			}
			for _, r := range S.RowsCovering(pr.NS) {
				if r == rowIdx {
					covered = true
				}
			}
			verify := func(e shwap.RowNamespaceData) func() (error, []libshare.Share) {
				return func() (error, []libshare.Share) { return e.Verify(S.DAH, pr.NS, rowIdx), e.Shares }
			}
			// honest entry
			honest, herr := shwap.RowNamespaceDataFromShares(S.Row(rowIdx), pr.NS, rowIdx)
			if herr == nil {
				must := covered && pr.Requestable
				c.try("rownd", req, func() string { return "RowNamespaceDataFromShares output" }, "rownd/honest", true, must, ref, verify(honest))
				var nb *libshare.Share
				if rowIdx < w {
					_, per := S.NamespaceShares(pr.NS)
					if per[rowIdx][1] < w && per[rowIdx][1] > per[rowIdx][0] {
						x := S.Row(rowIdx)[per[rowIdx][1]]
						nb = &x
					} else if per[rowIdx][0] > 0 {
						x := S.Row(rowIdx)[per[rowIdx][0]-1]
						nb = &x
					}
				}
				for _, o := range honestListOps(honest, nb) {
					c.try("rownd", req, func() string { return o.name }, "rownd/"+o.class, false, false, ref, verify(o.e))
				}
			} else if covered && pr.Requestable {
				c.producerErr("rownd", req, "RowNamespaceDataFromShares", herr)
			}
			for j := 0; j < n; j++ {
				if reduced && !(abs(j-rowIdx) <= 1 || abs(j-rowIdx) == w) {
					continue
				}
				rel := "same-row"
				if j != rowIdx {
					rel = "other-row"
				}
				for _, en := range pools[j] {
					c.try("rownd", req, func() string { return en.name }, "rownd/src="+rel+","+en.class, false, false, ref, verify(en.e))
				}
			}
			for _, en := range other {
				c.try("rownd", req, func() string { return en.name }, "rownd/src=othersquare,"+en.class, false, false, ref, verify(en.e))
			}
		}
	}
}

// ---------------------------------------------------------------- ranges

type rowSlice struct {
	which int
	axis  rsmt2d.Axis
	idx   int // row (or column) index the shares are taken from
	a, b  int
	rev   bool
}

func (c *vCtx) sliceShares(s rowSlice) []libshare.Share {
	full := c.sq(s.which).Axis(s.axis, s.idx)
	out := full[s.a:s.b]
	if s.rev {
		out = reversed(out)
	}
	return out
}

func (s rowSlice) String() string {
	r := fmt.Sprintf("%s%d[%d:%d)", axisName(s.axis), s.idx, s.a, s.b)
	if s.which == 1 {
		r = "other:" + r
	}
	if s.rev {
		r += "rev"
	}
	return r
}

type rangeCand struct {
	rows         []rowSlice
	first, last  *nmt.Proof
	fname, lname string
	class        string
	isOp         bool
}

func (rc rangeCand) String() string {
	return fmt.Sprintf("rows=%v first=%s last=%s", rc.rows, rc.fname, rc.lname)
}

func relSlice(a, b, ha, hb int) string {
	switch {
	case a == ha && b == hb:
		return "exact"
	case a <= ha && b >= hb:
		return "wider"
	case a >= ha && b <= hb:
		return "narrower"
	default:
		return "shifted"
	}
}

func (c *vCtx) enumRanges(reduced bool) {
	S, w := c.S, c.S.W
	ods := S.ODS()
	total := w * w
	for from := 0; from < total; from++ {
		for to := from + 1; to <= total; to++ {
			req := fmt.Sprintf("[%d,%d)", from, to)
			if !c.wantReq("range", req) {
				continue
			}
			c.st.requests++
			// exactly what shrex_getter.GetRangeNamespaceData / RangeNamespaceDataBlock.UnmarshalFn do:
			F, err1 := shwap.SampleCoordsFrom1DIndex(from, w)
			T, err2 := shwap.SampleCoordsFrom1DIndex(to-1, w)
			if err1 != nil || err2 != nil {
				panic("harness: coordinates")
			}
			roots := S.DAH.RowRoots[F.Row : T.Row+1]
			ref := ods[from:to]
			R := T.Row - F.Row + 1
			singleNS := bytes.Equal(ref[0].Namespace().Bytes(), ref[len(ref)-1].Namespace().Bytes())
			if singleNS {
				c.st.classes["range/single-namespace"]++
			} else {
				c.st.classes["range/multi-namespace"]++
			}
			eval := func(rc rangeCand, honest bool) {
				ci, ok := c.rclass[rc.class]
				if !ok {
					ci = [2]string{"range/" + rc.class + "/VerifyInclusion", "range/" + rc.class + "/VerifyNamespace"}
					c.rclass[rc.class] = ci
				}
				shares := make([][]libshare.Share, len(rc.rows))
				for i, rs := range rc.rows {
					shares[i] = c.sliceShares(rs)
				}
				rnd := shwap.RangeNamespaceData{Shares: shares, FirstIncompleteRowProof: rc.first, LastIncompleteRowProof: rc.last}
				var inclErr error
				c.try("range", req, func() string { return rc.String() + " mode=inclusion" }, ci[0],
					honest, honest && singleNS, ref, func() (error, []libshare.Share) {
						inclErr = rnd.VerifyInclusion(F, T, w, roots)
						return inclErr, rnd.Flatten()
					})
				// VerifyNamespace only adds checks to VerifyInclusion; with the reduced alphabet it is
				// evaluated where VerifyInclusion accepts, on the honest response and on every operator candidate.
				if reduced && inclErr != nil && !honest && !rc.isOp {
					return
				}
				c.try("range", req, func() string { return rc.String() + " mode=namespace" }, ci[1],
					false, false, ref, func() (error, []libshare.Share) {
						return rnd.VerifyNamespace(F, T, w, roots), rnd.Flatten()
					})
			}
			// honest geometry (what RangeNamespaceDataFromShares produces)
			h0a, h0b := F.Col, w
			if R == 1 {
				h0b = T.Col + 1
			}
			hLa, hLb := 0, T.Col+1
			needFirst := F.Col != 0 || (R == 1 && T.Col != w-1)
			needLast := R > 1 && T.Col != w-1
			mid := func() []rowSlice {
				var m []rowSlice
				for r := F.Row + 1; r < T.Row; r++ {
					m = append(m, rowSlice{0, rsmt2d.Row, r, 0, w, false})
				}
				return m
			}
			type popt struct {
				name string
				p    *nmt.Proof
			}
			// --- every re-slicing of the first and last row × {no proof, proof of the slice, proof of the requested slice}
			if R == 1 {
				for a := 0; a < w; a++ {
					for b := a + 1; b <= w; b++ {
						opts := []popt{{"nil", nil}, {"own", c.proof(0, rsmt2d.Row, F.Row, a, b)}}
						if a != h0a || b != h0b {
							opts = append(opts, popt{"requested", c.proof(0, rsmt2d.Row, F.Row, h0a, h0b)})
						}
						for _, fp := range opts {
							for _, lp := range opts {
								honest := a == h0a && b == h0b && ((needFirst && fp.name == "own") || (!needFirst && fp.name == "nil")) && lp.name == "nil"
								cls := "honest"
								if !honest {
									cls = "reslice(single=" + relSlice(a, b, h0a, h0b) + ")/first=" + fp.name + ",last=" + lp.name
								}
								eval(rangeCand{rows: []rowSlice{{0, rsmt2d.Row, F.Row, a, b, false}}, first: fp.p, last: lp.p,
									fname: fp.name, lname: lp.name, class: cls}, honest)
							}
						}
					}
				}
			} else {
				for a0 := 0; a0 < w; a0++ {
					for b0 := a0 + 1; b0 <= w; b0++ {
						fopts := []popt{{"nil", nil}, {"own", c.proof(0, rsmt2d.Row, F.Row, a0, b0)}}
						if a0 != h0a || b0 != h0b {
							fopts = append(fopts, popt{"requested", c.proof(0, rsmt2d.Row, F.Row, h0a, h0b)})
						}
						for aL := 0; aL < w; aL++ {
							for bL := aL + 1; bL <= w; bL++ {
								keepsTotal := (b0-a0)+(bL-aL)+(R-2)*w == to-from
								if reduced && !keepsTotal {
									continue
								}
								lopts := []popt{{"nil", nil}, {"own", c.proof(0, rsmt2d.Row, T.Row, aL, bL)}}
								if aL != hLa || bL != hLb {
									lopts = append(lopts, popt{"requested", c.proof(0, rsmt2d.Row, T.Row, hLa, hLb)})
								}
								rows := append(append([]rowSlice{{0, rsmt2d.Row, F.Row, a0, b0, false}}, mid()...), rowSlice{0, rsmt2d.Row, T.Row, aL, bL, false})
								for _, fp := range fopts {
									for _, lp := range lopts {
										honest := a0 == h0a && b0 == h0b && aL == hLa && bL == hLb &&
											((needFirst && fp.name == "own") || (!needFirst && fp.name == "nil")) &&
											((needLast && lp.name == "own") || (!needLast && lp.name == "nil"))
										cls := "honest"
										if !honest {
											key := [5]string{relSlice(a0, b0, h0a, h0b), relSlice(aL, bL, hLa, hLb), fp.name, lp.name, "total-kept"}
											if !keepsTotal {
												key[4] = "total-changed"
											}
											var ok bool
											if cls, ok = c.rkeys[key]; !ok {
												cls = "reslice(first=" + key[0] + ",last=" + key[1] + "," + key[4] + ")/first=" + key[2] + ",last=" + key[3]
												c.rkeys[key] = cls
											}
										}
										eval(rangeCand{rows: rows, first: fp.p, last: lp.p, fname: fp.name, lname: lp.name, class: cls}, honest)
									}
								}
							}
						}
					}
				}
			}
			// --- operators on the honest response
			hrows := func(which int, axis rsmt2d.Axis, shift int) ([]rowSlice, bool) {
				var rows []rowSlice
				for i := 0; i < R; i++ {
					idx := F.Row + i + shift
					if idx < 0 || idx >= w {
						return nil, false
					}
					a, b := 0, w
					if i == 0 {
						a, b = h0a, h0b
					}
					if i == R-1 && R > 1 {
						a, b = hLa, hLb
					}
					rows = append(rows, rowSlice{which, axis, idx, a, b, false})
				}
				return rows, true
			}
			proofsFor := func(rows []rowSlice) (first, last *nmt.Proof) {
				if needFirst {
					r0 := rows[0]
					first = c.proof(r0.which, r0.axis, r0.idx, r0.a, r0.b)
				}
				if needLast {
					rl := rows[len(rows)-1]
					last = c.proof(rl.which, rl.axis, rl.idx, rl.a, rl.b)
				}
				return
			}
			op := func(name string, rows []rowSlice, first, last *nmt.Proof) {
				eval(rangeCand{rows: rows, first: first, last: last, fname: proofName(first), lname: proofName(last), class: "op=" + name, isOp: true}, false)
			}
			base, _ := hrows(0, rsmt2d.Row, 0)
			bf, bl := proofsFor(base)
			for _, sh := range []int{-1, 1} {
				if rows, ok := hrows(0, rsmt2d.Row, sh); ok {
					f, l := proofsFor(rows)
					op(fmt.Sprintf("rows-shifted%+d", sh), rows, f, l)
					op(fmt.Sprintf("rows-shifted%+d,honest-proofs", sh), rows, bf, bl)
				}
			}
			if rows, ok := hrows(0, rsmt2d.Col, 0); ok {
				f, l := proofsFor(rows)
				op("columns-instead-of-rows", rows, f, l)
			}
			if rows, ok := hrows(1, rsmt2d.Row, 0); ok {
				f, l := proofsFor(rows)
				op("othersquare-whole-response", rows, f, l)
				op("othersquare-shares,own-proofs", rows, bf, bl)
				mixed := append([]rowSlice{}, base...)
				mixed[0] = rows[0]
				op("othersquare-first-row", mixed, f, bl)
				if R > 1 {
					mixed = append([]rowSlice{}, base...)
					mixed[R-1] = rows[R-1]
					op("othersquare-last-row", mixed, bf, l)
				}
				if R > 2 {
					mixed = append([]rowSlice{}, base...)
					mixed[1] = rows[1]
					op("othersquare-middle-row", mixed, bf, bl)
				}
			}
			op("proofs-swapped", base, bl, bf)
			op("proofs-dropped", base, nil, nil)
			if bf != nil {
				op("first-proof-empty", base, &nmt.Proof{}, bl)
				op("first-proof-absence-shaped", base, ptr(nmt.NewAbsenceProof(bf.Start(), bf.End(), bf.Nodes(), leafHash(ref[0], false), true)), bl)
				op("first-proof-maxns-not-ignored", base, ptr(nmt.NewInclusionProof(bf.Start(), bf.End(), bf.Nodes(), false)), bl)
			}
			if bl != nil {
				op("last-proof-empty", base, bf, &nmt.Proof{})
			}
			{
				rv := append([]rowSlice{}, base...)
				rv[0].rev = true
				op("first-row-reversed", rv, bf, bl)
			}
			if R > 1 {
				sw := append([]rowSlice{}, base...)
				sw[0], sw[R-1] = sw[R-1], sw[0]
				op("first-last-rows-swapped", sw, bf, bl)
				op("first-last-rows-swapped,proofs-swapped", sw, bl, bf)
				op("last-row-dropped", base[:R-1], bf, bl)
				// merged: all shares in one row
				// (cannot be expressed as rowSlices of one row: skipped) ; split handled below
			}
			op("last-row-duplicated", append(append([]rowSlice{}, base...), base[R-1]), bf, bl)
			if base[0].b-base[0].a >= 2 {
				r0 := base[0]
				split := append([]rowSlice{{r0.which, r0.axis, r0.idx, r0.a, r0.a + 1, false}, {r0.which, r0.axis, r0.idx, r0.a + 1, r0.b, false}}, base[1:]...)
				op("first-row-split-in-two", split, bf, bl)
			}
			if R > 2 {
				for k := 1; k < R-1; k++ {
					for _, d := range []int{-1, 1} {
						m := append([]rowSlice{}, base...)
						m[k].idx += d
						op("middle-row-from-neighbour", m, bf, bl)
					}
					m := append([]rowSlice{}, base...)
					m[k].b = w - 1
					op("middle-row-truncated", m, bf, bl)
					m = append([]rowSlice{}, base...)
					m[k].rev = true
					op("middle-row-reversed", m, bf, bl)
					m = append([]rowSlice{}, base...)
					m[k].b = 2 * w
					op("middle-row-with-parity", m, bf, bl)
				}
				if R > 3 {
					m := append([]rowSlice{}, base...)
					m[1], m[2] = m[2], m[1]
					op("middle-rows-swapped", m, bf, bl)
				}
			}
			if !needFirst && R > 1 {
				// full first row presented with its parity half
				m := append([]rowSlice{}, base...)
				m[0].b = 2 * w
				op("first-row-with-parity", m, bf, bl)
			}
		}
	}
}

func proofName(p *nmt.Proof) string {
	if p == nil {
		return "nil"
	}
	return fmt.Sprintf("proof[%d,%d)", p.Start(), p.End())
}

// ---------------------------------------------------------------- honest producers

type namedAccessor struct {
	name string
	acc  eds.Accessor
}

// accessors opens every real producer over the square: in-memory rsmt2d, the proofs cache
// on top of it, an ODS file and an ODS+Q4 file pair written by the real store code.
func (c *vCtx) accessors(withFiles bool) (accs []namedAccessor, closeAll func()) {
	rs := &eds.Rsmt2D{ExtendedDataSquare: c.S.EDS}
	accs = append(accs, namedAccessor{"Rsmt2D", rs}, namedAccessor{"proofsCache(Rsmt2D)", eds.WithProofsCache(rs)})
	var closers []func()
	if withFiles && vTmp != "" {
		id := vFileSeq.Add(1)
		p1 := filepath.Join(vTmp, fmt.Sprintf("%d.ods", id))
		p2 := filepath.Join(vTmp, fmt.Sprintf("%d-q.ods", id))
		p3 := filepath.Join(vTmp, fmt.Sprintf("%d-q.q4", id))
		closers = append(closers, func() { os.Remove(p1); os.Remove(p2); os.Remove(p3) })
		if err := file.CreateODS(p1, c.S.DAH, c.S.EDS); err == nil {
			if o, err := file.OpenODS(p1); err == nil {
				accs = append(accs, namedAccessor{"ODS-file", o}, namedAccessor{"proofsCache(ODS-file)", eds.WithProofsCache(o)})
				closers = append(closers, func() { o.Close() })
			} else {
				c.rep.Infra("OpenODS: " + err.Error())
			}
		} else {
			c.rep.Infra("CreateODS: " + err.Error())
		}
		if err := file.CreateODSQ4(p2, p3, c.S.DAH, c.S.EDS); err == nil {
			if o, err := file.OpenODS(p2); err == nil {
				q := file.ODSWithQ4(o, p3)
				accs = append(accs, namedAccessor{"ODSQ4-files", q})
				closers = append(closers, func() { q.Close() })
			} else {
				c.rep.Infra("OpenODS(q4): " + err.Error())
			}
		} else {
			c.rep.Infra("CreateODSQ4: " + err.Error())
		}
	}
	return accs, func() {
		for i := len(closers) - 1; i >= 0; i-- {
			closers[i]()
		}
	}
}

func (c *vCtx) honestProducersC01() {
	S, n, w := c.S, c.S.N, c.S.W
	ctx := context.Background()
	accs, closeAll := c.accessors(true)
	defer closeAll()
	ods := S.ODS()
	for _, na := range accs {
		acc := na.acc
		for r := 0; r < n; r++ {
			for col := 0; col < n; col++ {
				req := fmt.Sprintf("(%d,%d)", r, col)
				ref := []libshare.Share{S.Cell(r, col)}
				smp, err := acc.Sample(ctx, shwap.SampleCoords{Row: r, Col: col})
				if err != nil {
					c.producerErr("sample", req, na.name, err)
					continue
				}
				c.try("sample", req, func() string { return na.name + ".Sample" }, "sample/producer="+na.name, true, true, ref,
					func() (error, []libshare.Share) { return smp.Verify(S.DAH, r, col), []libshare.Share{smp.Share} })
			}
			req := fmt.Sprintf("row=%d", r)
			half, err := acc.AxisHalf(ctx, rsmt2d.Row, r)
			if err != nil {
				c.producerErr("row", req, na.name, err)
			} else {
				c.try("row", req, func() string { return na.name + ".AxisHalf(row).ToRow" }, "row/producer="+na.name, true, true, S.Row(r),
					func() (error, []libshare.Share) {
						row := half.ToRow()
						err := row.Verify(S.DAH, r)
						if err != nil {
							return err, nil
						}
						out, serr := row.Shares()
						if serr != nil {
							out = nil
						}
						return err, out
					})
			}
		}
		for _, pr := range sq.Probes() {
			if !pr.Requestable {
				continue
			}
			_, per := S.NamespaceShares(pr.NS)
			for _, r := range S.RowsCovering(pr.NS) {
				req := fmt.Sprintf("row=%d,ns=%s", r, pr.Name)
				ref := S.Row(r)[per[r][0]:per[r][1]]
				e, err := acc.RowNamespaceData(ctx, pr.NS, r)
				if err != nil {
					c.producerErr("rownd", req, na.name, err)
					continue
				}
				c.try("rownd", req, func() string { return na.name + ".RowNamespaceData" }, "rownd/producer="+na.name, true, true, ref,
					func() (error, []libshare.Share) { return e.Verify(S.DAH, pr.NS, r), e.Shares })
			}
		}
		for from := 0; from < w*w; from++ {
			for to := from + 1; to <= w*w; to++ {
				req := fmt.Sprintf("[%d,%d)", from, to)
				ref := ods[from:to]
				singleNS := true
				for _, sh := range ref {
					if !bytes.Equal(sh.Namespace().Bytes(), ref[0].Namespace().Bytes()) {
						singleNS = false
					}
				}
				rnd, err := acc.RangeNamespaceData(ctx, from, to)
				if err != nil {
					if singleNS {
						c.producerErr("range", req, na.name, err)
					} else if c.only == nil {
						c.st.outcomes[okey{"range", "producer refuses multi-namespace range"}]++
					}
					continue
				}
				F, _ := shwap.SampleCoordsFrom1DIndex(from, w)
				T, _ := shwap.SampleCoordsFrom1DIndex(to-1, w)
				c.try("range", req, func() string { return na.name + ".RangeNamespaceData" }, "range/producer="+na.name, true, singleNS, ref,
					func() (error, []libshare.Share) {
						return rnd.VerifyInclusion(F, T, w, S.DAH.RowRoots[F.Row:T.Row+1]), rnd.Flatten()
					})
			}
		}
	}
}

func (c *vCtx) producerErr(kind, req, who string, err error) {
	if c.only != nil && !c.want(kind, req, who+" (producer error)") {
		return
	}
	c.record(vEval{kind: kind, req: req, op: who + " (producer error)", class: kind + "/producer-error=" + who, honest: true, mustAccept: true,
		err: fmt.Errorf("producer failed: %w", err), equal: true})
}

func c01Square(c *vCtx, g vGroup) {
	c.timed("samples", func() { c.enumSamples(g.Reduced) })
	c.timed("rows", func() { c.enumRows(g.Reduced) })
	c.timed("rownd", func() { c.enumRowND(g.Reduced) })
	c.timed("ranges", func() { c.enumRanges(g.Reduced) })
	c.timed("producers", func() { c.honestProducersC01() })
}

// ---------------------------------------------------------------- wire-byte operators

// mutations yields every mutation of enc from the byte-operator alphabet of DESIGN §3.6.
func mutations(enc []byte, yield func(name string, m []byte)) {
	for k := 0; k < len(enc); k++ {
		yield("truncate", append([]byte{}, enc[:k]...))
	}
	for i, b := range enc {
		for _, v := range []byte{0x00, 0x01, 0x7f, 0x80, 0xff, b ^ 1, b + 1, b - 1, b ^ 0x80} {
			if v == b {
				continue
			}
			m := append([]byte{}, enc...)
			m[i] = v
			yield("substitute", m)
		}
		m := append(append([]byte{}, enc[:i]...), enc[i+1:]...)
		yield("delete", m)
	}
	for i := 0; i <= len(enc); i++ {
		for _, v := range []byte{0x00, 0x01, 0x80, 0xff} {
			m := make([]byte, 0, len(enc)+1)
			m = append(append(append(m, enc[:i]...), v), enc[i:]...)
			yield("insert", m)
		}
	}
}

func shortStrings(yield func(name string, m []byte)) {
	yield("short-string", []byte{})
	for a := 0; a < 256; a++ {
		yield("short-string", []byte{byte(a)})
		for b := 0; b < 256; b++ {
			yield("short-string", []byte{byte(a), byte(b)})
		}
	}
}

type wireCase struct {
	kind, req, codec string
	enc              []byte
	ref              []libshare.Share
	// decodeVerify decodes m with the real decoder and, if that succeeds, verifies it for the request.
	decodeVerify func(m []byte) (decodeErr, verifyErr error, exposed []libshare.Share)
}

func (c *vCtx) runWire(wc wireCase, deadline time.Time, shortOnly bool) bool {
	kind := "wire-" + wc.kind
	n := 0
	do := func(name string, m []byte) {
		n++
		op := func() string {
			return fmt.Sprintf("%s #%d of the honest %s encoding (%d bytes): %x", name, n, wc.codec, len(wc.enc), clip(m, 48))
		}
		same := bytes.Equal(m, wc.enc)
		c.try(kind, wc.req+"/"+wc.codec, op, kind+"/"+wc.codec+"/"+name, same, same, wc.ref, func() (error, []libshare.Share) {
			derr, verr, exposed := wc.decodeVerify(m)
			if derr != nil {
				return fmt.Errorf("decode: %w", derr), nil
			}
			return verr, exposed
		})
	}
	if shortOnly {
		// every byte string of length <= 2 (independent of the honest encoding: once per decoder)
		n = 1 << 30
		shortStrings(do)
		return true
	}
	c.st.requests++
	do("identity", wc.enc)
	mutations(wc.enc, do)
	return !time.Now().After(deadline)
}

// wireSampleCoords: quick mutates the encodings of two sample coordinates, thorough of three.
func wireSampleCoords() int {
	if vx.TierFromEnv() == "thorough" || os.Getenv("VERIF_REPLAY") != "" {
		return 3
	}
	return 2
}

func clip(b []byte, n int) []byte {
	if len(b) > n {
		return b[:n]
	}
	return b
}

// c01WireCases builds the honest encodings (both wire codecs of every container) for a
// fixed list of requests on square c.S.
func (c *vCtx) c01WireCases() []wireCase {
	S, n, w := c.S, c.S.N, c.S.W
	var out []wireCase
	rs := &eds.Rsmt2D{ExtendedDataSquare: S.EDS}
	// samples: first ODS cell (row proof) and last parity cell (column proof)
	for _, x := range []struct {
		r, c int
		ax   rsmt2d.Axis
	}{{0, 0, rsmt2d.Row}, {n - 1, n - 1, rsmt2d.Col}, {0, n - 1, rsmt2d.Row}}[:wireSampleCoords()] {
		smp, err := rs.SampleForProofAxis(shwap.SampleCoords{Row: x.r, Col: x.c}, x.ax)
		if err != nil {
			panic(err)
		}
		ref := []libshare.Share{S.Cell(x.r, x.c)}
		req := fmt.Sprintf("(%d,%d)", x.r, x.c)
		var buf bytes.Buffer
		if _, err := smp.WriteTo(&buf); err != nil {
			panic(err)
		}
		out = append(out, wireCase{kind: "sample", req: req, codec: "stream", enc: buf.Bytes(), ref: ref,
			decodeVerify: func(m []byte) (error, error, []libshare.Share) {
				var s shwap.Sample
				if _, err := s.ReadFrom(bytes.NewReader(m)); err != nil {
					return err, nil, nil
				}
				return nil, s.Verify(S.DAH, x.r, x.c), []libshare.Share{s.Share}
			}})
		pbb, err := smp.ToProto().Marshal()
		if err != nil {
			panic(err)
		}
		out = append(out, wireCase{kind: "sample", req: req, codec: "proto", enc: pbb, ref: ref,
			decodeVerify: func(m []byte) (error, error, []libshare.Share) {
				var p shwappb.Sample
				if err := p.Unmarshal(m); err != nil {
					return err, nil, nil
				}
				s, err := shwap.SampleFromProto(&p)
				if err != nil {
					return err, nil, nil
				}
				return nil, s.Verify(S.DAH, x.r, x.c), []libshare.Share{s.Share}
			}})
	}
	// rows: first row as left half, last (parity) row as right half. Every accepted-length mutation
	// makes the verifier run a Reed-Solomon decode, so quick mutates row encodings of 1-wide squares only.
	rowCases := []struct {
		idx  int
		side shwap.RowSide
	}{{0, shwap.Left}, {n - 1, shwap.Right}}
	if w > 1 && vx.TierFromEnv() != "thorough" && os.Getenv("VERIF_REPLAY") == "" {
		rowCases = nil
	}
	for _, x := range rowCases {
		row, err := shwap.RowFromEDS(S.EDS, x.idx, x.side)
		if err != nil {
			panic(err)
		}
		req := fmt.Sprintf("row=%d", x.idx)
		ref := S.Row(x.idx)
		rowOut := func(r *shwap.Row) (error, error, []libshare.Share) {
			verr := r.Verify(S.DAH, x.idx)
			if verr != nil {
				return nil, verr, nil
			}
			shs, serr := r.Shares()
			if serr != nil {
				shs = nil
			}
			return nil, verr, shs
		}
		var buf bytes.Buffer
		if _, err := row.WriteTo(&buf); err != nil {
			panic(err)
		}
		out = append(out, wireCase{kind: "row", req: req, codec: "stream", enc: buf.Bytes(), ref: ref,
			decodeVerify: func(m []byte) (error, error, []libshare.Share) {
				var r shwap.Row
				if _, err := r.ReadFrom(bytes.NewReader(m)); err != nil {
					return err, nil, nil
				}
				return rowOut(&r)
			}})
		pbb, err := row.ToProto().Marshal()
		if err != nil {
			panic(err)
		}
		out = append(out, wireCase{kind: "row", req: req, codec: "proto", enc: pbb, ref: ref,
			decodeVerify: func(m []byte) (error, error, []libshare.Share) {
				var p shwappb.Row
				if err := p.Unmarshal(m); err != nil {
					return err, nil, nil
				}
				r, err := shwap.RowFromProto(&p)
				if err != nil {
					return err, nil, nil
				}
				return rowOut(&r)
			}})
	}
	// row namespace data: first present probe in row 0, and the first absent-inside probe anywhere
	doneIncl, doneAbs := false, false
	for _, pr := range sq.Probes() {
		if !pr.Requestable {
			continue
		}
		flat, per := S.NamespaceShares(pr.NS)
		for _, r := range S.RowsCovering(pr.NS) {
			isAbs := len(flat) == 0
			if (isAbs && doneAbs) || (!isAbs && doneIncl) {
				continue
			}
			e, err := shwap.RowNamespaceDataFromShares(S.Row(r), pr.NS, r)
			if err != nil {
				continue
			}
			if isAbs {
				doneAbs = true
			} else {
				doneIncl = true
			}
			ref := S.Row(r)[per[r][0]:per[r][1]]
			var buf bytes.Buffer
			if _, err := e.WriteTo(&buf); err != nil {
				panic(err)
			}
			out = append(out, wireCase{kind: "rownd", req: fmt.Sprintf("row=%d,ns=%s", r, pr.Name), codec: "stream", enc: buf.Bytes(), ref: ref,
				decodeVerify: func(m []byte) (error, error, []libshare.Share) {
					var d shwap.RowNamespaceData
					if _, err := d.ReadFrom(bytes.NewReader(m)); err != nil {
						return err, nil, nil
					}
					return nil, d.Verify(S.DAH, pr.NS, r), d.Shares
				}})
		}
	}
	// ranges: the first single-namespace multi-row range with both proofs, and a single-row one
	ods := S.ODS()
	pick := func(want func(from, to int, F, T shwap.SampleCoords) bool) {
		for from := 0; from < w*w; from++ {
			for to := from + 1; to <= w*w; to++ {
				F, _ := shwap.SampleCoordsFrom1DIndex(from, w)
				T, _ := shwap.SampleCoordsFrom1DIndex(to-1, w)
				if !want(from, to, F, T) {
					continue
				}
				rnd, err := rs.RangeNamespaceData(context.Background(), from, to)
				if err != nil {
					continue
				}
				ref := ods[from:to]
				req := fmt.Sprintf("[%d,%d)", from, to)
				roots := S.DAH.RowRoots[F.Row : T.Row+1]
				var buf bytes.Buffer
				if _, err := rnd.WriteTo(&buf); err != nil {
					panic(err)
				}
				out = append(out, wireCase{kind: "range", req: req, codec: "stream", enc: buf.Bytes(), ref: ref,
					decodeVerify: func(m []byte) (error, error, []libshare.Share) {
						var d shwap.RangeNamespaceData
						if _, err := d.ReadFrom(bytes.NewReader(m)); err != nil {
							return err, nil, nil
						}
						return nil, d.VerifyInclusion(F, T, w, roots), d.Flatten()
					}})
				pbb, err := rnd.ToProto().Marshal()
				if err != nil {
					panic(err)
				}
				out = append(out, wireCase{kind: "range", req: req, codec: "proto", enc: pbb, ref: ref,
					decodeVerify: func(m []byte) (error, error, []libshare.Share) {
						var p shwappb.RangeNamespaceData
						if err := p.Unmarshal(m); err != nil {
							return err, nil, nil
						}
						d, err := shwap.RangeNamespaceDataFromProto(&p)
						if err != nil {
							return err, nil, nil
						}
						return nil, d.VerifyInclusion(F, T, w, roots), d.Flatten()
					}})
				return
			}
		}
	}
	pick(func(from, to int, F, T shwap.SampleCoords) bool { return T.Row > F.Row && F.Col != 0 && T.Col != w-1 })
	pick(func(from, to int, F, T shwap.SampleCoords) bool { return T.Row == F.Row && (F.Col != 0 || T.Col != w-1) })
	pick(func(from, to int, F, T shwap.SampleCoords) bool { return T.Row == F.Row && F.Col == 0 && T.Col == w-1 })
	return out
}

// runWireLayouts runs the byte-operator alphabet over the honest encodings of the fixed
// wire squares, one goroutine per case.
func runWireLayouts(id string, rep *vx.Report, layouts []string, deadline time.Time, total *vStats,
	cases func(c *vCtx) []wireCase) (complete bool, ncases int) {
	complete = true
	type job struct {
		c  *vCtx
		wc wireCase
	}
	var jobs []job
	for _, ls := range layouts {
		l, err := sq.ParseLayout(ls)
		if err != nil {
			panic(err)
		}
		c, err := newCtx(id, rep, newStats(), l)
		if err != nil {
			panic(err)
		}
		for _, wc := range cases(c) {
			cc, _ := newCtx(id, rep, newStats(), l)
			jobs = append(jobs, job{cc, wc})
		}
	}
	// all strings of length <= 2: once per (container, codec) decoder
	seenDec := map[string]bool{}
	var shortJobs []job
	for _, j := range jobs {
		k := j.wc.kind + "/" + j.wc.codec
		if !seenDec[k] {
			seenDec[k] = true
			cc, _ := newCtx(id, rep, newStats(), j.c.S.Layout)
			shortJobs = append(shortJobs, job{cc, j.wc})
		}
	}
	sem := make(chan struct{}, vx.Workers())
	done := make(chan bool, len(jobs)+len(shortJobs))
	run := func(j job, short bool) {
		sem <- struct{}{}
		defer func() { <-sem }()
		if time.Now().After(deadline) {
			done <- false
			return
		}
		done <- j.c.runWire(j.wc, deadline, short)
	}
	for _, j := range jobs {
		go run(j, false)
	}
	for _, j := range shortJobs {
		go run(j, true)
	}
	for i := 0; i < len(jobs)+len(shortJobs); i++ {
		if !<-done {
			complete = false
		}
	}
	for _, j := range append(jobs, shortJobs...) {
		total.merge(j.c.st)
	}
	return complete, len(jobs)
}

// ---------------------------------------------------------------- the check

func c01Groups(tier string) []vGroup {
	pads := []int{0, 1}
	gs := []vGroup{
		{Name: "w1-all-layouts,full-alphabet", Layouts: sq.Layouts(1, 0, pads)},
		{Name: "w2-all-layouts,full-alphabet", Layouts: sq.Layouts(2, 0, nil)},
		{Name: "w4-upto2-namespaces,reduced-alphabet", Layouts: sq.Layouts(4, 2, nil), Reduced: true},
	}
	if tier == "thorough" {
		gs = append(gs,
			vGroup{Name: "w2-all-layouts-with-namespace-padding,full-alphabet", Layouts: sq.Layouts(2, 0, []int{1})},
			vGroup{Name: "w4-upto2-namespaces,full-alphabet", Layouts: sq.Layouts(4, 2, pads)},
			vGroup{Name: "w4-exactly3-namespaces,reduced-alphabet", Layouts: only3(sq.Layouts(4, 3, nil)), Reduced: true},
			vGroup{Name: "w8-fixed-list,reduced-alphabet", Layouts: sq.Fixed8(), Reduced: true},
		)
	}
	return gs
}

// only3 keeps the layouts with exactly three symbols (the smaller ones are in an earlier group).
func only3(ls []sq.Layout) []sq.Layout {
	var out []sq.Layout
	for _, l := range ls {
		if l.NumSymsUsed() == 3 {
			out = append(out, l)
		}
	}
	return out
}

func TestVerifC01(t *testing.T) {
	vInit()
	rep := vx.NewReport("C01", "model_checking")
	rep.Rule = "bounded-exhaustive: every namespace layout of the listed ODS widths (verifx/sq: non-decreasing sequences over TX<PFB<PRP<A<B<C<TAIL, with and without namespace padding) " +
		"× every request (each EDS coordinate; each EDS row; each (EDS row, probe namespace); each ODS range [from,to)) × every candidate response of the operator alphabet " +
		"(sample: share and proof of every cell × proof axis × axis label in {row,col,2,3,255,-1} × own/requested share, presented as a struct for every coordinate and through the MarshalJSON/UnmarshalJSON round trip and proof_type edits of the honest JSON for the four corner coordinates, proof-shape operators, other-square material (also with out-of-range labels); " +
		"row: every half/whole of every row and column × side label in {LEFT,RIGHT,BOTH,3,255,-1}, JSON documents with valid and unknown side strings, share-list operators; " +
		"row namespace data: every sub-range / absence-at-leaf / producer output for every probe namespace of every row, share-list operators; range: every re-slicing of first and last row × {no, own, requested} proofs, " +
		"row shift, transposition, other-square splices, proof swaps, row/share order, row count; wire: every truncation, single-byte substitution from 9 values, deletion, insertion of 4 values, all strings of length <= 2). " +
		"A case is (square, request, candidate); it is counted as distinct_nontrivial when the candidate is not an honest response and the shares it exposes differ from the committed shares at the requested position (accepting it would violate the property)."
	rep.Assumptions = []string{
		"SHA-256 / NMT / Reed-Solomon are not attacked: forgeries are structural recombinations of honest material and byte mutations, not hash collisions",
		"share payloads are counters, not parseable transactions/blobs (nothing in the verification layer parses share content); padding shares are the canonical go-square ones",
		"the reference is the rsmt2d square extended by the real celestia-app code, and the DataAvailabilityHeader computed by da.NewDataAvailabilityHeader",
		"verifier arguments are derived from the header exactly as shrex_getter.GetRangeNamespaceData and bitswap RangeNamespaceDataBlock.UnmarshalFn do",
		"honest responses of multi-namespace ranges are refused by the producer itself and are not required to verify; VerifyNamespace is checked for soundness only",
	}
	vTmp = vTmpDir(t)
	if p := os.Getenv("VERIF_REPLAY"); p != "" {
		vReplay(t, "C01", rep, p, func(c *vCtx, g vGroup) {
			if c.only != nil && len(c.only.Kind) > 5 && c.only.Kind[:5] == "wire-" {
				for _, wc := range c.c01WireCases() {
					if "wire-"+wc.kind == c.only.Kind && wc.req+"/"+wc.codec == c.only.Req {
						c.runWire(wc, time.Now().Add(time.Hour), false)
						c.runWire(wc, time.Now().Add(time.Hour), true)
					}
				}
				return
			}
			c01Square(c, g)
		})
		return
	}
	deadline := rep.Deadline(80*time.Second, 18*time.Minute)
	total := newStats()
	wl := []string{"w1:A1", "w2:TX1,A2,TAIL1"}
	if rep.Tier == "thorough" {
		wl = append(wl, "w2:A4", "w4:TX1,A5,B3,TAIL7")
	}
	t0 := time.Now()
	wcomplete, ncases := runWireLayouts("C01", rep, wl, deadline, total, func(c *vCtx) []wireCase { return c.c01WireCases() })
	fmt.Printf("VERIF-PROGRESS C01 wire: %d encodings of %d squares, %d verifier/decoder calls, %.1fs complete=%v\n", ncases, len(wl), total.evals, time.Since(t0).Seconds(), wcomplete)
	complete, results := runGroups("C01", rep, c01Groups(rep.Tier), deadline, total, c01Square)
	rep.Set("wire_squares", wl)
	rep.Set("wire_encodings_mutated", ncases)
	finishStats(rep, total, results)
	rep.SetExhaustive(complete && wcomplete)
	if rep.Finish() > 0 {
		t.Fail()
	}
}
