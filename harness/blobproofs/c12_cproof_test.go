package share

// C12 (a): blob commitment proofs. For every blob of a block: the proof the node produces must
// verify for (data root, commitment); every tampered (proof, root, commitment) that Verify accepts
// must state something true about the real square (ground truth recomputed from the rsmt2d
// square), and Verify must never panic.

import (
	"bytes"
	"context"
	"crypto/sha256"
	"encoding/json"
	"fmt"
	"strings"

	"github.com/celestiaorg/celestia-app/v9/pkg/appconsts"
	appproof "github.com/celestiaorg/celestia-app/v9/pkg/proof"
	"github.com/celestiaorg/go-square/v4/inclusion"
	libshare "github.com/celestiaorg/go-square/v4/share"
	"github.com/celestiaorg/nmt"
	coremerkle "github.com/cometbft/cometbft/crypto/merkle"

	"github.com/celestiaorg/celestia-node/blob"
)

// vRowTree returns the NMT of EDS row r rebuilt from the square (cached per block).
func (b *vBlock) rowTree(r int) (*nmt.NamespacedMerkleTree, error) {
	b.treeMu.Lock()
	defer b.treeMu.Unlock()
	if t, ok := b.trees[r]; ok {
		return t, nil
	}
	if r < 0 || r >= 2*b.W {
		return nil, fmt.Errorf("row %d outside the square", r)
	}
	t := nmt.New(sha256.New(), nmt.NamespaceIDSize(libshare.NamespaceSize), nmt.IgnoreMaxNamespace(true))
	parity := libshare.ParitySharesNamespace.Bytes()
	for c, cell := range b.EDS.Row(uint(r)) {
		pre := parity
		if r < b.W && c < b.W {
			pre = cell[:libshare.NamespaceSize]
		}
		if err := t.Push(append(append([]byte{}, pre...), cell...)); err != nil {
			return nil, err
		}
	}
	root, err := t.Root()
	if err != nil {
		return nil, err
	}
	if !bytes.Equal(root, b.Roots.RowRoots[r]) {
		return nil, fmt.Errorf("harness: rebuilt tree of row %d does not reproduce the row root", r)
	}
	if b.trees == nil {
		b.trees = map[int]*nmt.NamespacedMerkleTree{}
	}
	b.trees[r] = t
	return t, nil
}

// vCommitmentClaimTrue is the ground truth for an ACCEPTED (proof, root, commitment): the root is
// the block's data root, the commitment is the merkle root of the listed subtree roots, and the
// listed subtree roots are exactly the inner nodes of the real rows (named by their real row
// roots) over the leaf ranges the proof claims, in order, with nothing left over.
func vCommitmentClaimTrue(b *vBlock, p *blob.CommitmentProof, root, commitment []byte) (bool, string) {
	if !bytes.Equal(root, b.DataRoot) {
		return false, "the root is not the block's data root"
	}
	if !bytes.Equal(commitment, coremerkle.HashFromByteSlices(p.SubtreeRoots)) {
		return false, "the commitment is not the merkle root of the proof's subtree roots"
	}
	if len(p.SubtreeRootProofs) != len(p.RowProof.RowRoots) || len(p.SubtreeRootProofs) == 0 {
		return false, "number of subtree-root proofs and row roots differ (or zero)"
	}
	total := 0
	for _, q := range p.SubtreeRootProofs {
		if q == nil || q.Start() < 0 || q.End() <= q.Start() || q.End() > 2*b.W {
			return false, "a subtree-root proof has no valid range inside a row"
		}
		total += q.End() - q.Start()
	}
	width, err := inclusion.SubTreeWidth(total, appconsts.SubtreeRootThreshold)
	if err != nil {
		return false, err.Error()
	}
	cursor := 0
	for i, q := range p.SubtreeRootProofs {
		ranges, err := nmt.ToLeafRanges(q.Start(), q.End(), width)
		if err != nil {
			return false, err.Error()
		}
		matched := false
		for r, rr := range b.Roots.RowRoots {
			if !bytes.Equal(rr, p.RowProof.RowRoots[i]) {
				continue
			}
			t, err := b.rowTree(r)
			if err != nil {
				return false, err.Error()
			}
			ok := cursor+len(ranges) <= len(p.SubtreeRoots)
			for j := 0; ok && j < len(ranges); j++ {
				want, err := t.ComputeSubtreeRoot(ranges[j].Start, ranges[j].End)
				if err != nil || !bytes.Equal(want, p.SubtreeRoots[cursor+j]) {
					ok = false
				}
			}
			if ok {
				matched = true
				break
			}
		}
		if !matched {
			return false, fmt.Sprintf("subtree roots claimed for proof #%d (leaves [%d,%d)) are not inner nodes of a row with that row root", i, q.Start(), q.End())
		}
		cursor += len(ranges)
	}
	if cursor != len(p.SubtreeRoots) {
		return false, fmt.Sprintf("%d subtree roots listed, %d located in the square", len(p.SubtreeRoots), cursor)
	}
	return true, ""
}

type vCPCase struct {
	Op         string // operator family (part of the signature)
	Detail     string
	P          *blob.CommitmentProof
	Root       []byte
	Commitment []byte
}

// vCPCases enumerates the tampered (proof, root, commitment) triples derived from the honest one.
func vCPCases(h *blob.CommitmentProof, root, commitment []byte, donor *blob.CommitmentProof, donorCommitment, otherRoot []byte) []vCPCase {
	var out []vCPCase
	add := func(op, detail string, p *blob.CommitmentProof, r, c []byte) {
		out = append(out, vCPCase{op, detail, p, r, c})
	}
	// claim operators, proof untouched
	if donorCommitment != nil && !bytes.Equal(donorCommitment, commitment) {
		add("commitment.other-blob", "", vCloneCP(h), root, donorCommitment)
	}
	for _, m := range vBytesMuts(commitment) {
		add("commitment."+m.Name, "", vCloneCP(h), root, m.V)
	}
	add("commitment.nil", "", vCloneCP(h), root, nil)
	add("root.other-block", "", vCloneCP(h), otherRoot, commitment)
	for _, m := range vBytesMuts(root) {
		add("root."+m.Name, "", vCloneCP(h), m.V, commitment)
	}
	add("root.nil", "", vCloneCP(h), nil, commitment)

	var dRoots [][]byte
	var dProofs []*nmt.Proof
	var dRowRoots [][]byte
	var dRowProofs []*appproof.Proof
	if donor != nil {
		dRoots, dProofs, dRowRoots, dRowProofs = donor.SubtreeRoots, donor.SubtreeRootProofs, donor.RowProof.RowRoots, donor.RowProof.Proofs
	}
	// subtree roots: with the original commitment and with the commitment recomputed over the
	// tampered list ("padded or trimmed to look plausible")
	for _, m := range vBBMuts(h.SubtreeRoots, dRoots) {
		p := vCloneCP(h)
		p.SubtreeRoots = m.V
		add("subtree-roots."+m.Name, fmt.Sprint(m.Idx), p, root, commitment)
		p2 := vCloneCP(p)
		add("subtree-roots."+m.Name+"+recommit", fmt.Sprint(m.Idx), p2, root, coremerkle.HashFromByteSlices(p2.SubtreeRoots))
	}
	// subtree-root proofs (list level)
	for _, m := range vListMuts(h.SubtreeRootProofs, dProofs, vCloneNmt) {
		p := vCloneCP(h)
		p.SubtreeRootProofs = m.V
		add("subtree-proofs."+m.Name, fmt.Sprint(m.Idx), p, root, commitment)
	}
	// subtree-root proofs (entry level: range, nodes)
	for _, i := range vEnds(len(h.SubtreeRootProofs)) {
		q := h.SubtreeRootProofs[i]
		for _, m := range vRangeMuts(q.Start(), q.End()) {
			p := vCloneCP(h)
			p.SubtreeRootProofs[i] = vMkNmt(m.Start, m.End, vCloneBB(q.Nodes()), nil, true)
			add("subtree-proofs.range-"+m.Name, fmt.Sprint(i), p, root, commitment)
		}
		for _, m := range vBBMuts(q.Nodes(), nil) {
			p := vCloneCP(h)
			p.SubtreeRootProofs[i] = vMkNmt(q.Start(), q.End(), m.V, nil, true)
			add("subtree-proofs.nodes-"+m.Name, fmt.Sprintf("%d/%d", i, m.Idx), p, root, commitment)
		}
	}
	// consistent padding / trimming of a whole row (all three per-row lists and the row span), with
	// and without the matching subtree roots, commitment recomputed
	if n := len(h.SubtreeRootProofs); n > 0 {
		p := vCloneCP(h)
		p.SubtreeRootProofs = append(p.SubtreeRootProofs, vCloneNmt(h.SubtreeRootProofs[n-1]))
		p.RowProof.RowRoots = append(p.RowProof.RowRoots, vCloneB(h.RowProof.RowRoots[n-1]))
		p.RowProof.Proofs = append(p.RowProof.Proofs, vCloneAppProofs(h.RowProof.Proofs[n-1:])...)
		p.RowProof.EndRow++
		add("rows.pad-dup-last-row", "", p, root, commitment)
		add("rows.pad-dup-last-row+recommit", "", vCloneCP(p), root, coremerkle.HashFromByteSlices(p.SubtreeRoots))
		if n > 1 {
			p := vCloneCP(h)
			p.SubtreeRootProofs = p.SubtreeRootProofs[:n-1]
			p.RowProof.RowRoots = p.RowProof.RowRoots[:n-1]
			p.RowProof.Proofs = p.RowProof.Proofs[:n-1]
			p.RowProof.EndRow--
			add("rows.trim-last-row", "", p, root, commitment)
			add("rows.trim-last-row+recommit", "", vCloneCP(p), root, coremerkle.HashFromByteSlices(p.SubtreeRoots))
		}
	}
	// row roots
	for _, m := range vBBMuts(h.RowProof.RowRoots, dRowRoots) {
		p := vCloneCP(h)
		p.RowProof.RowRoots = m.V
		add("row-roots."+m.Name, fmt.Sprint(m.Idx), p, root, commitment)
	}
	// row proofs (list level)
	cloneAP := func(q *appproof.Proof) *appproof.Proof {
		if q == nil {
			return nil
		}
		return vCloneAppProofs([]*appproof.Proof{q})[0]
	}
	for _, m := range vListMuts(h.RowProof.Proofs, dRowProofs, cloneAP) {
		p := vCloneCP(h)
		p.RowProof.Proofs = m.V
		add("row-proofs."+m.Name, fmt.Sprint(m.Idx), p, root, commitment)
	}
	// row proofs (entry level)
	for _, i := range vEnds(len(h.RowProof.Proofs)) {
		q := h.RowProof.Proofs[i]
		ent := func(name string, f func(x *appproof.Proof)) {
			p := vCloneCP(h)
			f(p.RowProof.Proofs[i])
			add("row-proofs.entry-"+name, fmt.Sprint(i), p, root, commitment)
		}
		ent("index+1", func(x *appproof.Proof) { x.Index++ })
		ent("index-1", func(x *appproof.Proof) { x.Index-- })
		ent("index=-1", func(x *appproof.Proof) { x.Index = -1 })
		ent("total+1", func(x *appproof.Proof) { x.Total++ })
		ent("total-1", func(x *appproof.Proof) { x.Total-- })
		ent("total=0", func(x *appproof.Proof) { x.Total = 0 })
		ent("total=-1", func(x *appproof.Proof) { x.Total = -1 })
		ent("leafhash-nil", func(x *appproof.Proof) { x.LeafHash = nil })
		for _, m := range vBytesMuts(q.LeafHash) {
			v := m.V
			ent("leafhash-"+m.Name, func(x *appproof.Proof) { x.LeafHash = v })
		}
		for _, m := range vBBMuts(q.Aunts, nil) {
			v := m.V
			ent("aunts-"+m.Name, func(x *appproof.Proof) { x.Aunts = v })
		}
	}
	// row span and unauthenticated labels
	meta := func(name string, f func(p *blob.CommitmentProof)) {
		p := vCloneCP(h)
		f(p)
		add(name, "", p, root, commitment)
	}
	meta("row-span.end+1", func(p *blob.CommitmentProof) { p.RowProof.EndRow++ })
	meta("row-span.start+1", func(p *blob.CommitmentProof) { p.RowProof.StartRow++ })
	meta("row-span.inverted", func(p *blob.CommitmentProof) {
		p.RowProof.StartRow, p.RowProof.EndRow = p.RowProof.EndRow+1, p.RowProof.StartRow
	})
	meta("row-span.max", func(p *blob.CommitmentProof) { p.RowProof.StartRow, p.RowProof.EndRow = 0, ^uint32(0) })
	meta("label.row-span-shift", func(p *blob.CommitmentProof) { p.RowProof.StartRow++; p.RowProof.EndRow++ })
	meta("label.namespace-id", func(p *blob.CommitmentProof) { p.NamespaceID = vNS["C"].ID() })
	meta("label.namespace-id-nil", func(p *blob.CommitmentProof) { p.NamespaceID = nil })
	meta("label.namespace-version", func(p *blob.CommitmentProof) { p.NamespaceVersion++ })
	meta("label.row-proof-root", func(p *blob.CommitmentProof) { p.RowProof.Root = []byte{1, 2, 3} })
	return append(out, vCPDegenerate(h, root, commitment, otherRoot)...)
}

// vCPDegenerate: proofs whose length and range fields are chosen so that every loop of a verifier
// runs zero times (all components emptied, row span wrapping in uint32 arithmetic, commitment
// recomputed over the emptied subtree-root list), and wrapped spans with the components trimmed
// to the matching length; each against the real root, another block's root and two unrelated roots.
func vCPDegenerate(h *blob.CommitmentProof, root, commitment, otherRoot []byte) []vCPCase {
	var out []vCPCase
	roots := append([][]byte{root, otherRoot}, vUnrelatedRoots...)
	emit := func(op, detail string, p *blob.CommitmentProof, cm []byte) {
		for ri, r := range roots {
			out = append(out, vCPCase{op, fmt.Sprintf("%s root#%d", detail, ri), vCloneCP(p), r, cm})
		}
	}
	// (1) everything emptied
	for _, sr := range []struct {
		name string
		v    [][]byte
	}{{"nil", nil}, {"empty", [][]byte{}}} {
		for _, sp := range vWrapSpans(0) {
			p := &blob.CommitmentProof{SubtreeRoots: sr.v, NamespaceID: vCloneB(h.NamespaceID), NamespaceVersion: h.NamespaceVersion}
			p.RowProof.StartRow, p.RowProof.EndRow = sp[0], sp[1]
			d := fmt.Sprintf("roots=%s span=%d..%d", sr.name, sp[0], sp[1])
			emit("degenerate.all-emptied+recommit", d, p, coremerkle.HashFromByteSlices(sr.v))
			emit("degenerate.all-emptied", d, p, commitment)
			q := vCloneCP(p)
			q.RowProof.RowRoots, q.RowProof.Proofs, q.SubtreeRootProofs = [][]byte{}, []*appproof.Proof{}, []*nmt.Proof{}
			emit("degenerate.all-emptied-non-nil+recommit", d, q, coremerkle.HashFromByteSlices(sr.v))
		}
		// a plain zero span: one row claimed, none supplied
		p := &blob.CommitmentProof{SubtreeRoots: sr.v}
		emit("degenerate.all-emptied-span-0..0+recommit", "roots="+sr.name, p, coremerkle.HashFromByteSlices(sr.v))
	}
	// (1b) only one side emptied
	{
		p := vCloneCP(h)
		p.RowProof.RowRoots, p.RowProof.Proofs = nil, nil
		p.RowProof.StartRow, p.RowProof.EndRow = 1, 0
		emit("degenerate.row-proof-emptied", "", p, commitment)
		p = vCloneCP(h)
		p.SubtreeRoots, p.SubtreeRootProofs = nil, nil
		emit("degenerate.subtree-side-emptied+recommit", "", p, coremerkle.HashFromByteSlices(nil))
		p = vCloneCP(h)
		p.SubtreeRoots, p.SubtreeRootProofs = nil, nil
		p.RowProof.RowRoots, p.RowProof.Proofs = nil, nil
		emit("degenerate.all-emptied-honest-span+recommit", "", p, coremerkle.HashFromByteSlices(nil))
		// subtree proofs present but with ranges that cancel out / are empty, roots emptied
		p = vCloneCP(h)
		p.SubtreeRoots = nil
		for i, q := range p.SubtreeRootProofs {
			p.SubtreeRootProofs[i] = vMkNmt(q.Start(), q.Start(), nil, nil, true)
		}
		emit("degenerate.empty-ranges-no-roots+recommit", "", p, coremerkle.HashFromByteSlices(nil))
		p = vCloneCP(p)
		for i, q := range p.SubtreeRootProofs {
			p.SubtreeRootProofs[i] = vMkNmt(q.Start()+1, q.Start(), nil, nil, true)
		}
		emit("degenerate.inverted-ranges-no-roots+recommit", "", p, coremerkle.HashFromByteSlices(nil))
	}
	// (2) wrapped spans with the per-row components trimmed to a matching length k in {1, n-1, n}
	// (k = n: untrimmed), the subtree roots either left alone or cut to the rows kept
	n := len(h.SubtreeRootProofs)
	total := 0
	for _, q := range h.SubtreeRootProofs {
		total += q.End() - q.Start()
	}
	width, werr := inclusion.SubTreeWidth(total, appconsts.SubtreeRootThreshold)
	seenK := map[int]bool{}
	for _, k := range []int{1, n - 1, n} {
		if k < 1 || seenK[k] {
			continue
		}
		seenK[k] = true
		p := vCloneCP(h)
		p.SubtreeRootProofs = p.SubtreeRootProofs[:k]
		p.RowProof.RowRoots = p.RowProof.RowRoots[:k]
		p.RowProof.Proofs = p.RowProof.Proofs[:k]
		variants := []*blob.CommitmentProof{p}
		if k < n && werr == nil {
			keep := 0
			for _, q := range p.SubtreeRootProofs {
				if rs, err := nmt.ToLeafRanges(q.Start(), q.End(), width); err == nil {
					keep += len(rs)
				}
			}
			if keep <= len(p.SubtreeRoots) {
				t := vCloneCP(p)
				t.SubtreeRoots = t.SubtreeRoots[:keep]
				variants = append(variants, t)
			}
		}
		for vi, v := range variants {
			for _, sp := range vWrapSpans(uint32(k))[1:3] {
				q := vCloneCP(v)
				q.RowProof.StartRow, q.RowProof.EndRow = sp[0], sp[1]
				d := fmt.Sprintf("rows=%d/%d roots-cut=%v span=%d..%d", k, n, vi == 1, sp[0], sp[1])
				emit("degenerate.wrapped-span-trimmed", d, q, commitment)
				if k < n {
					emit("degenerate.wrapped-span-trimmed+recommit", d, q, coremerkle.HashFromByteSlices(q.SubtreeRoots))
				}
			}
		}
	}
	return out
}

// vCheckCommitmentProofs runs sub-harness (a) on one block.
func (c *vC12) checkCommitmentProofs(b *vBlock, otherRoot []byte, tamper func(*vRefBlob) bool) {
	ctx := context.Background()
	svc := vNewBlobService(vNewGetter(b))
	rp := func(op string) any {
		return map[string]any{"check": "C12/cproof", "spec": b.Spec.String(), "op": op, "layout": b.layout()}
	}
	honest := make([]*blob.CommitmentProof, len(b.Refs))
	for i, r := range b.Refs {
		var p *blob.CommitmentProof
		var err error
		if pn := vCatch(func() { p, err = svc.GetCommitmentProof(ctx, b.Height, r.NS, r.Commitment) }); pn != "" {
			c.st.out("cproof:produce-panic")
			c.sink("C12/GetCommitmentProof/panic", fmt.Sprintf("GetCommitmentProof(%v) panicked: %s; block %q", r.Spec, pn, b.Spec), rp("produce"))
			continue
		}
		if err != nil {
			c.st.out("cproof:produce-error")
			c.sink("C12/GetCommitmentProof/error", fmt.Sprintf("GetCommitmentProof(%v) = %v but the blob is in the block; block %q layout %s", r.Spec, err, b.Spec, b.layout()), rp("produce"))
			continue
		}
		honest[i] = p
		// producible => verifies for its object
		var verr error
		if pn := vCatch(func() { verr = vCloneCP(p).Verify(b.DataRoot, r.Commitment) }); pn != "" {
			c.sink("C12/CommitmentProof.Verify/panic/op=honest", fmt.Sprintf("Verify of the node's own proof panicked: %s; block %q", pn, b.Spec), rp("honest"))
			continue
		}
		c.caseDone(vFPCommitmentCase(b.FP, b.DataRoot, r.Commitment, p), true)
		if verr != nil {
			c.st.out("cproof:honest-rejected")
			c.sink("C12/CommitmentProof.Verify/honest-rejected", fmt.Sprintf("the node's own commitment proof for %v does not verify: %v; block %q layout %s", r.Spec, verr, b.Spec, b.layout()), rp("honest"))
			continue
		}
		c.st.out("cproof:honest-accepted")
		if ok, why := vCommitmentClaimTrue(b, p, b.DataRoot, r.Commitment); !ok {
			c.sink("C12/GetCommitmentProof/proof-not-about-the-square", fmt.Sprintf("the node's own proof for %v verifies but %s; block %q", r.Spec, why, b.Spec), rp("honest"))
		}
		// the absent-commitment and wrong-namespace requests produce no proof
		for _, q := range []struct {
			ns libshare.Namespace
			cm []byte
		}{{vAbsentNS[1], r.Commitment}, {r.NS, make([]byte, 32)}} {
			var p2 *blob.CommitmentProof
			if pn := vCatch(func() { p2, err = svc.GetCommitmentProof(ctx, b.Height, q.ns, q.cm) }); pn != "" {
				c.sink("C12/GetCommitmentProof/panic", fmt.Sprintf("GetCommitmentProof(absent) panicked: %s; block %q", pn, b.Spec), rp("produce-absent"))
			} else if err == nil && p2 != nil {
				c.sink("C12/GetCommitmentProof/proof-for-absent", fmt.Sprintf("GetCommitmentProof produced a proof for a commitment/namespace pair not in the block; block %q", b.Spec), rp("produce-absent"))
			} else {
				c.st.out("cproof:absent-refused")
			}
		}
	}
	for i, r := range b.Refs {
		h := honest[i]
		if h == nil || !tamper(r) || c.expired() {
			continue
		}
		c.st.hist("tampered_commitment_proofs_by_class", b.blobClass(r))
		var donor *blob.CommitmentProof
		var donorC []byte
		for k := 1; k <= len(b.Refs); k++ {
			j := (i + k) % len(b.Refs)
			if j != i && honest[j] != nil && !bytes.Equal(b.Refs[j].Commitment, r.Commitment) {
				donor, donorC = honest[j], b.Refs[j].Commitment
				break
			}
		}
		exec := func(cs vCPCase, fp [16]byte) {
			changed := vFPCommitmentCase(b.FP, cs.Root, cs.Commitment, cs.P) != vFPCommitmentCase(b.FP, b.DataRoot, r.Commitment, h)
			if !c.caseDone(fp, changed) {
				return // the very same input was already executed
			}
			var verr error
			work := vCloneCP(cs.P)
			if pn := vCatch(func() { verr = work.Verify(cs.Root, cs.Commitment) }); pn != "" {
				c.st.out("cproof:panic")
				c.sink(vOpSig("CommitmentProof.Verify", vPanicKind(pn), cs.Op), fmt.Sprintf("Verify panicked (%s) on operator %s[%s] applied to the proof of %v; block %q",
					pn, cs.Op, cs.Detail, r.Spec, b.Spec), rp(cs.Op))
				return
			}
			if verr != nil {
				c.st.out("cproof:rejected")
				kind := "commitment-proof/rejected"
				if strings.HasPrefix(cs.Op, "degenerate.") {
					kind = "commitment-proof/degenerate-rejected"
				}
				c.sample(kind, map[string]any{"block": b.Spec.String(), "proof_of": r.Spec.String(), "operator": cs.Op, "at": cs.Detail, "verify": verr.Error()})
				return
			}
			if ok, why := vCommitmentClaimTrue(b, cs.P, cs.Root, cs.Commitment); !ok {
				c.st.out("cproof:accepted-false-claim")
				c.sink(vOpSig("CommitmentProof.Verify", "accepts-false-claim", cs.Op), fmt.Sprintf("Verify accepted operator %s[%s] applied to the proof of %v although %s; block %q layout %s",
					cs.Op, cs.Detail, r.Spec, why, b.Spec, b.layout()), rp(cs.Op))
				return
			}
			c.st.out("cproof:accepted-true-claim")
			c.st.hist("cproof_accepted_true_claim_ops", cs.Op)
			c.sample("commitment-proof/accepted-true-claim", map[string]any{"block": b.Spec.String(), "proof_of": r.Spec.String(), "operator": cs.Op, "verify": "nil; ground truth: every listed subtree root is the inner node of the real row at the claimed leaves"})
		}
		for _, cs := range vCPCases(h, b.DataRoot, r.Commitment, donor, donorC, otherRoot) {
			fp := vFPCommitmentCase(b.FP, cs.Root, cs.Commitment, cs.P)
			exec(cs, fp)
			if !strings.HasPrefix(cs.Op, "degenerate.") {
				continue
			}
			// the same degenerate proof through its JSON (wire) form
			c.st.hist("degenerate_cases", "commitment-proof")
			doc, err := json.Marshal(cs.P)
			if err != nil {
				c.st.out("cproof:degenerate-json-marshal-error")
				continue
			}
			var back blob.CommitmentProof
			var derr error
			if pn := vCatch(func() { derr = json.Unmarshal(doc, &back) }); pn != "" {
				c.sink(vOpSig("CommitmentProof.UnmarshalJSON", vPanicKind(pn), cs.Op), fmt.Sprintf("decoding the JSON form of operator %s[%s] panicked: %s; block %q", cs.Op, cs.Detail, pn, b.Spec), rp(cs.Op))
				continue
			}
			if derr != nil {
				c.st.out("cproof:degenerate-json-decode-error")
				continue
			}
			js := cs
			js.P, js.Detail = &back, cs.Detail+" via-json"
			exec(js, newVFPs("cp-json-form", fp[:]))
		}
	}
}
