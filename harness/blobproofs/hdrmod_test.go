package share

import (
	"context"

	"github.com/celestiaorg/celestia-node/header"
	headerServ "github.com/celestiaorg/celestia-node/nodebuilder/header"
)

// vHeaderMod is the header module the share module asks for headers: only GetByHeight is used
// (any other method would hit the nil embedded interface and panic, which the harness would see).
type vHeaderMod struct {
	headerServ.Module
	g *vGetter
}

func (m *vHeaderMod) GetByHeight(ctx context.Context, h uint64) (*header.ExtendedHeader, error) {
	return m.g.headerByHeight(ctx, h)
}
