package share

// C11 - Blob retrieval returns exactly the blobs that are in the block.
//
// Explicit-state breadth-first search (vx.BFS) over block-construction histories: an event
// appends one blob (namespace x share version x size class, or an exact / near duplicate of the
// previous blob) to the block under construction; the state is the square the REAL layout code
// (go-square Builder, production subtree-root threshold) produces for the history, identified by
// the hash of its ODS. On every new state the block is extended with the real rsmt2d/da code and
// the real blob.Service is asked for everything the property quantifies over.

import (
	"bytes"
	"context"
	"encoding/json"
	"errors"
	"fmt"
	"os"
	"sort"
	"strings"
	"sync"
	"testing"
	"time"

	logging "github.com/ipfs/go-log/v2"

	libshare "github.com/celestiaorg/go-square/v4/share"

	"github.com/celestiaorg/celestia-node/blob"
	"github.com/celestiaorg/celestia-node/verifx/vx"
)

// vSink receives violations (rep.Violation in a run, a collector in a replay).
type vSink func(sig, what string, replay any)

// vStats accumulates measured coverage numbers (guarded by mu).
type vStats struct {
	mu       sync.Mutex
	Outcomes map[string]int64
	Hist     map[string]map[string]int64
}

func newVStats() *vStats {
	return &vStats{Outcomes: map[string]int64{}, Hist: map[string]map[string]int64{}}
}

func (s *vStats) out(k string) {
	s.mu.Lock()
	s.Outcomes[k]++
	s.mu.Unlock()
}

func (s *vStats) hist(h, k string) {
	s.mu.Lock()
	m := s.Hist[h]
	if m == nil {
		m = map[string]int64{}
		s.Hist[h] = m
	}
	m[k]++
	s.mu.Unlock()
}

// ---------------------------------------------------------------- the oracle

func vBlobMismatch(got *blob.Blob, want *vRefBlob, okIdx map[int]bool) string {
	switch {
	case got == nil || got.Blob == nil:
		return "nil"
	case !got.Namespace().Equals(want.NS):
		return "namespace"
	case !bytes.Equal(got.Data(), want.Data):
		return "data"
	case !bytes.Equal(got.Signer(), want.Signer):
		return "signer"
	case got.ShareVersion() != want.Ver:
		return "share-version"
	case !bytes.Equal(got.Commitment, want.Commitment):
		return "commitment"
	case !okIdx[got.Index()]:
		return "index"
	}
	return ""
}

func vErrClass(err error) string {
	switch {
	case err == nil:
		return "ok"
	case errors.Is(err, blob.ErrBlobNotFound):
		return "not-found"
	case errors.Is(err, blob.ErrInvalidProof):
		return "invalid-proof"
	default:
		return "error"
	}
}

// vCheckC11 asks the real blob service everything about block b and compares with the reference.
// It returns the number of service calls made.
func vCheckC11(b *vBlock, st *vStats, sink vSink) int {
	ctx := context.Background()
	svc := vNewBlobService(vNewGetter(b))
	h := b.Height
	calls := 0
	rp := func(extra string) any {
		return map[string]any{"check": "C11", "spec": b.Spec.String(), "at": extra, "layout": b.layout()}
	}

	// every namespace, present or absent
	var nss []libshare.Namespace
	for _, n := range vNSNames {
		nss = append(nss, vNS[n])
	}
	nss = append(nss, vAbsentNS...)

	checkList := func(api string, ns libshare.Namespace, got []*blob.Blob) {
		want := b.refsOf(ns)
		if len(got) != len(want) {
			kind := "missing"
			if len(got) > len(want) {
				kind = "extra"
			}
			sink("C11/"+api+"/"+kind, fmt.Sprintf("%s(%s) returned %d blobs, the block has %d; block %q layout %s",
				api, vHex(ns.ID()[16:]), len(got), len(want), b.Spec, b.layout()), rp(api))
			return
		}
		for i := range want {
			if f := vBlobMismatch(got[i], want[i], map[int]bool{want[i].EDSIndex: true}); f != "" {
				gi := -2
				if got[i] != nil {
					gi = got[i].Index()
				}
				sink("C11/"+api+"/field="+f, fmt.Sprintf("%s: blob #%d of namespace %s differs in %s (got index %d, want %d = ODS %d); block %q layout %s",
					api, i, vHex(ns.ID()[16:]), f, gi, want[i].EDSIndex, want[i].Start, b.Spec, b.layout()), rp(api))
				return
			}
		}
	}

	for _, ns := range nss {
		var got []*blob.Blob
		var err error
		calls++
		if p := vCatch(func() { got, err = svc.GetAll(ctx, h, []libshare.Namespace{ns}) }); p != "" {
			st.out("GetAll:panic")
			sink("C11/GetAll/panic", fmt.Sprintf("GetAll panicked: %s; block %q", p, b.Spec), rp("GetAll"))
			continue
		}
		if err != nil {
			st.out("GetAll:error")
			sink("C11/GetAll/error", fmt.Sprintf("GetAll(%s) failed: %v; block %q layout %s", vHex(ns.ID()[16:]), err, b.Spec, b.layout()), rp("GetAll"))
			continue
		}
		if len(got) == 0 {
			st.out("GetAll:empty")
		} else {
			st.out("GetAll:blobs")
		}
		checkList("GetAll", ns, got)
	}
	// several namespaces in one call: per namespace the same answer, nothing else
	{
		var got []*blob.Blob
		var err error
		calls++
		multi := []libshare.Namespace{vNS["C"], vAbsentNS[1], vNS["A"], vNS["B"]}
		if p := vCatch(func() { got, err = svc.GetAll(ctx, h, multi) }); p != "" {
			sink("C11/GetAll/panic", fmt.Sprintf("GetAll(all namespaces) panicked: %s; block %q", p, b.Spec), rp("GetAllMulti"))
		} else if err != nil {
			sink("C11/GetAll/error", fmt.Sprintf("GetAll(all namespaces) failed: %v; block %q", err, b.Spec), rp("GetAllMulti"))
		} else {
			total := 0
			for _, ns := range multi {
				var sub []*blob.Blob
				for _, g := range got {
					if g != nil && g.Blob != nil && g.Namespace().Equals(ns) {
						sub = append(sub, g)
					}
				}
				total += len(sub)
				checkList("GetAllMulti", ns, sub)
			}
			if total != len(got) {
				sink("C11/GetAllMulti/extra", fmt.Sprintf("GetAll(all namespaces) returned %d blobs of which %d belong to a requested namespace; block %q",
					len(got), total, b.Spec), rp("GetAllMulti"))
			}
		}
	}

	// every commitment present ...
	absent := [][]byte{make([]byte, 32), {}, nil}
	if len(b.Refs) > 0 {
		// the commitment of a blob that differs from a present one in its last byte only
		s := b.Refs[0].Spec
		s.Var = 9
		lb, err := libshare.NewBlob(vNS[s.NS], vBlobData(s), uint8(s.Ver), b.Refs[0].Signer)
		if err == nil {
			if nb, err := blob.ToNodeBlobs(lb); err == nil {
				absent = append(absent, nb[0].Commitment)
			}
		}
	}
	for _, r := range b.Refs {
		okIdx := map[int]bool{}
		for _, o := range b.refsOf(r.NS) {
			if bytes.Equal(o.Commitment, r.Commitment) {
				okIdx[o.EDSIndex] = true
			}
		}
		var got *blob.Blob
		var err error
		calls++
		if p := vCatch(func() { got, err = svc.Get(ctx, h, r.NS, r.Commitment) }); p != "" {
			st.out("Get:panic")
			sink("C11/Get/panic", fmt.Sprintf("Get panicked: %s; block %q", p, b.Spec), rp("Get"))
		} else if err != nil {
			st.out("Get:" + vErrClass(err))
			sink("C11/Get/present-"+vErrClass(err), fmt.Sprintf("Get(%s, commitment of %v at ODS %d) = %v but the block contains it; block %q layout %s",
				r.Spec.NS, r.Spec, r.Start, err, b.Spec, b.layout()), rp("Get"))
		} else {
			st.out("Get:found")
			if f := vBlobMismatch(got, r, okIdx); f != "" {
				sink("C11/Get/field="+f, fmt.Sprintf("Get(commitment of %v) returned a blob that differs in %s (index %d, want one of %v); block %q layout %s",
					r.Spec, f, got.Index(), okIdx, b.Spec, b.layout()), rp("Get"))
			}
		}
		// ... has a proof, and the inclusion check with that proof says yes
		var pr *blob.Proof
		calls++
		if p := vCatch(func() { pr, err = svc.GetProof(ctx, h, r.NS, r.Commitment) }); p != "" {
			sink("C11/GetProof/panic", fmt.Sprintf("GetProof panicked: %s; block %q", p, b.Spec), rp("GetProof"))
		} else if err != nil || pr == nil {
			st.out("GetProof:" + vErrClass(err))
			sink("C11/GetProof/present-"+vErrClass(err), fmt.Sprintf("GetProof(commitment of %v) = %v but the block contains it; block %q layout %s",
				r.Spec, err, b.Spec, b.layout()), rp("GetProof"))
		} else {
			st.out("GetProof:found")
			var inc bool
			calls++
			if p := vCatch(func() { inc, err = svc.Included(ctx, h, r.NS, pr, r.Commitment) }); p != "" {
				sink("C11/Included/panic", fmt.Sprintf("Included(own proof) panicked: %s; block %q", p, b.Spec), rp("Included"))
			} else if !inc || err != nil {
				st.out("Included:own-rejected")
				sink("C11/Included/own-proof-rejected", fmt.Sprintf("Included(%v, the node's own proof) = (%v, %v); block %q layout %s",
					r.Spec, inc, err, b.Spec, b.layout()), rp("Included"))
			} else {
				st.out("Included:true")
			}
		}
		// ... and is found under no other namespace
		for k, n := range vNSNames {
			if !vNS[n].Equals(r.NS) {
				continue
			}
			for _, ns := range []libshare.Namespace{vNS[vNSNames[(k+1)%3]], vNS[vNSNames[(k+2)%3]], vAbsentNS[k+1]} {
				calls++
				vExpectNotFound(b, st, sink, svc, ns, r.Commitment, fmt.Sprintf("commitment of %v under another namespace", r.Spec), rp, false)
			}
		}
	}
	// every absent commitment: the all-zero one under every namespace; the near miss (a blob that
	// differs from a present one in its last byte), nil and empty under every namespace that has blobs
	for _, ns := range nss {
		calls++
		vExpectNotFound(b, st, sink, svc, ns, absent[0], "absent commitment "+vHex(absent[0]), rp, len(b.refsOf(ns)) > 0)
		if len(b.refsOf(ns)) == 0 {
			continue
		}
		for _, c := range absent[1:] {
			calls++
			vExpectNotFound(b, st, sink, svc, ns, c, "absent commitment "+vHex(c), rp, false)
		}
	}
	return calls
}

func vExpectNotFound(b *vBlock, st *vStats, sink vSink, svc *blob.Service, ns libshare.Namespace, c []byte, what string, rp func(string) any, proofToo bool) {
	ctx := context.Background()
	var got *blob.Blob
	var err error
	if p := vCatch(func() { got, err = svc.Get(ctx, b.Height, ns, c) }); p != "" {
		st.out("Get:panic")
		sink("C11/Get/panic", fmt.Sprintf("Get(%s) panicked: %s; block %q", what, p, b.Spec), rp("GetAbsent"))
		return
	}
	switch {
	case err == nil:
		st.out("Get:found-absent")
		sink("C11/Get/absent-found", fmt.Sprintf("Get(ns %s, %s) returned a blob (index %d) that is not in the block under that namespace; block %q layout %s",
			vHex(ns.ID()[16:]), what, got.Index(), b.Spec, b.layout()), rp("GetAbsent"))
	case errors.Is(err, blob.ErrBlobNotFound):
		st.out("Get:not-found")
	default:
		st.out("Get:absent-error")
		sink("C11/Get/absent-not-reported-as-not-found", fmt.Sprintf("Get(ns %s, %s) = %v, expected blob: not found; block %q layout %s",
			vHex(ns.ID()[16:]), what, err, b.Spec, b.layout()), rp("GetAbsent"))
	}
	if !proofToo {
		return
	}
	var pr *blob.Proof
	if p := vCatch(func() { pr, err = svc.GetProof(ctx, b.Height, ns, c) }); p != "" {
		sink("C11/GetProof/panic", fmt.Sprintf("GetProof(%s) panicked: %s; block %q", what, p, b.Spec), rp("GetAbsent"))
	} else if err == nil || pr != nil || !errors.Is(err, blob.ErrBlobNotFound) {
		sink("C11/GetProof/absent-"+vErrClass(err), fmt.Sprintf("GetProof(ns %s, %s) = (%v, %v), expected blob: not found; block %q",
			vHex(ns.ID()[16:]), what, pr != nil, err, b.Spec), rp("GetAbsent"))
	}
}

// ---------------------------------------------------------------- the namespace-count ladder

// vLadderBlock: one small blob (every fifth namespace: two blobs, every seventh: a 3-share blob) in
// each of n distinct namespaces, appended in an order that is not the namespace order.
func vLadderBlock(n int, reverse bool) (*vBlock, error) {
	spec := vBlockSpec{Txs: 1}
	sizes := []string{"1B", "S+1", "S"}
	for i := 0; i < n; i++ {
		k := (i*7 + 3) % n // a permutation of 0..n-1 whenever gcd(7,n) == 1
		if reverse {
			k = n - 1 - i
		}
		b := vBlobSpec{NS: fmt.Sprintf("N%02d", k), Ver: k % 2, Size: sizes[k%3]}
		if k%7 == 0 {
			b.Size = "3S"
		}
		spec.Blobs = append(spec.Blobs, b)
		if k%5 == 0 {
			b.Var = 1
			spec.Blobs = append(spec.Blobs, b)
		}
	}
	return vBuildBlock(spec, 1)
}

// vCheckLadder: GetAll with 1, 2, 3, ... namespaces in ONE call (populated namespaces with absent
// ones interleaved) must return exactly the concatenation, in request order, of every requested
// namespace's blobs. It returns the number of GetAll calls and of namespace listings requested.
func vCheckLadder(tier string, st *vStats, sink vSink) (calls, listings, squares int) {
	ctx := context.Background()
	n, reverse := 41, []bool{false}
	if tier == "thorough" {
		n, reverse = 71, []bool{false, true}
	}
	for _, rev := range reverse {
		b, err := vLadderBlock(n, rev)
		if err != nil {
			sink("C11/GetAllLadder/harness", "cannot build the ladder block: "+err.Error(), nil)
			return
		}
		squares++
		svc := vNewBlobService(vNewGetter(b))
		rp := func(list string, k int) any {
			return map[string]any{"check": "C11/ladder", "spec": tier, "list": list, "namespaces": k, "block": b.Spec.String()}
		}
		// the request list: every populated namespace, an absent one after every fourth
		var base []libshare.Namespace
		for k := 0; k < n; k++ {
			base = append(base, vNS[fmt.Sprintf("N%02d", k)])
			if k%4 == 1 {
				base = append(base, vLadderAbsent[k])
			}
		}
		lists := map[string][]libshare.Namespace{"ascending": base}
		order := []string{"ascending"}
		perm := func(name string, f func(i int) int) {
			l := make([]libshare.Namespace, len(base))
			for i := range base {
				l[i] = base[f(i)]
			}
			lists[name] = l
			order = append(order, name)
		}
		perm("descending", func(i int) int { return len(base) - 1 - i })
		if tier == "thorough" {
			for _, stride := range []int{3, 5, 11} {
				if len(base)%stride == 0 {
					stride += 2
				}
				st := stride
				perm(fmt.Sprintf("stride-%d", st), func(i int) int { return (i * st) % len(base) })
			}
		}
		for _, name := range order {
			l := lists[name]
			// quick: every prefix of the ascending list, the full descending list and its prefixes
			// around the sizes 8, 16, 32; thorough: every prefix of every list
			for k := 1; k <= len(l); k++ {
				if tier != "thorough" && name != "ascending" && k != len(l) && !(k >= 7 && k <= 9) && !(k >= 15 && k <= 18) && !(k >= 31 && k <= 34) {
					continue
				}
				req := l[:k]
				var want []*vRefBlob
				for _, ns := range req {
					want = append(want, b.refsOf(ns)...)
				}
				var got []*blob.Blob
				var err error
				calls++
				listings += k
				if p := vCatch(func() { got, err = svc.GetAll(ctx, b.Height, req) }); p != "" {
					st.out("GetAllLadder:panic")
					sink("C11/GetAllLadder/panic", fmt.Sprintf("GetAll with the first %d namespaces of the %s list panicked: %s", k, name, p), rp(name, k))
					continue
				}
				if err != nil {
					st.out("GetAllLadder:error")
					sink("C11/GetAllLadder/error", fmt.Sprintf("GetAll with the first %d namespaces of the %s list failed: %v", k, name, err), rp(name, k))
					continue
				}
				bad := ""
				switch {
				case len(got) < len(want):
					bad = fmt.Sprintf("missing: %d blobs returned, the requested namespaces hold %d", len(got), len(want))
				case len(got) > len(want):
					bad = fmt.Sprintf("extra: %d blobs returned, the requested namespaces hold %d", len(got), len(want))
				default:
					for i := range want {
						if f := vBlobMismatch(got[i], want[i], map[int]bool{want[i].EDSIndex: true}); f != "" {
							bad = fmt.Sprintf("misplaced: position %d of the answer should be %v (namespace %s) but differs in %s", i, want[i].Spec, want[i].Spec.NS, f)
							break
						}
					}
				}
				if bad != "" {
					st.out("GetAllLadder:wrong")
					sink("C11/GetAllLadder/"+strings.SplitN(bad, ":", 2)[0], fmt.Sprintf("GetAll(height, first %d namespaces of the %s list: %d populated + absent ones interleaved) - %s; block of %d namespaces, %d blobs, ODS width %d",
						k, name, n, bad, n, len(b.Refs), b.W), rp(name, k))
					continue
				}
				st.out("GetAllLadder:exact")
				st.hist("ladder_namespaces_per_call", fmt.Sprint(k))
			}
		}
	}
	return calls, listings, squares
}

// ---------------------------------------------------------------- the state space

type vFamily struct {
	Name   string
	Txs    []int
	Groups []string // "sep": every blob its own transaction; "one": all blobs in one transaction; "free": per-blob choice
	Depth  int
	First  []vBlobSpec
	Rest   []vBlobSpec
	Levels [][]vBlobSpec // when set: the alphabet of the i-th blob (overrides First/Rest)
	Dups   bool
	// Twins adds, for the previous blob and for the one before it, the events "same namespace and
	// byte-identical payload under the other share version" and (for v1) "... under another signer"
	Twins bool
}

func vAlpha(nss string, vers []int, sizes ...string) []vBlobSpec {
	var out []vBlobSpec
	for _, n := range strings.Split(nss, "") {
		for _, z := range sizes {
			for _, v := range vers {
				out = append(out, vBlobSpec{NS: n, Ver: v, Size: z})
			}
		}
	}
	return out
}

// vAlphaFixed: each size comes with its own share version ("S:1" = size S, version 1).
func vAlphaFixed(nss string, sized ...string) []vBlobSpec {
	var out []vBlobSpec
	for _, n := range strings.Split(nss, "") {
		for _, z := range sized {
			p := strings.Split(z, ":")
			v := 0
			if len(p) > 1 && p[1] == "1" {
				v = 1
			}
			out = append(out, vBlobSpec{NS: n, Ver: v, Size: p[0]})
		}
	}
	return out
}

func vC11Families(tier string) []vFamily {
	both := []int{0, 1}
	all3 := []int{0, 1, 2}
	if tier != "thorough" {
		pairSizes := []string{"1B", "S-1", "S", "S+1", "2S", "5S", "17S", "65S", "129S"}
		return []vFamily{
			{Name: "triples-padding", Txs: all3, Groups: []string{"sep"}, Depth: 3, Dups: true,
				First: vAlphaFixed("AB", "S:1", "17S:0", "65S:1"), Rest: vAlphaFixed("AB", "S:1", "17S:0", "65S:1")},
			// a 128-wide square (forced by a 4100-share blob in namespace C): the only width at which a
			// blob preceded by layout padding can END in the row it started in, with another blob after it
			{Name: "row-wider-than-a-padded-blob", Txs: []int{0, 1}, Groups: []string{"sep"}, Depth: 4,
				Levels: [][]vBlobSpec{vAlphaFixed("C", "4100S:0"), vAlphaFixed("A", "S:0"), vAlphaFixed("A", "65S:1"), vAlphaFixed("A", "S:0", "1B:1")}},
			// byte-identical payloads under different share versions / signers, adjacent or with one blob
			// between, 1-share and multi-share, in squares narrow enough that they cross row boundaries
			{Name: "same-payload-twins", Txs: all3, Groups: []string{"sep"}, Depth: 3, Dups: true, Twins: true,
				First: vAlpha("A", both, "1B", "S+1", "3S"), Rest: append(vAlpha("A", both, "1B", "S+1", "3S"), vAlphaFixed("B", "S+1:1")...)},
			{Name: "pairs-one-tx", Txs: []int{1}, Groups: []string{"one"}, Depth: 2, Dups: true,
				First: vAlpha("B", both, pairSizes...), Rest: vAlpha("ABC", both, pairSizes...)},
			{Name: "triples-one-namespace", Txs: all3, Groups: []string{"one"}, Depth: 3, Dups: true,
				First: vAlphaFixed("A", "S:0", "65S:0", "129S:1"), Rest: vAlphaFixed("A", "S:0", "65S:0", "129S:1")},
			{Name: "pairs", Txs: []int{0, 2}, Groups: []string{"sep"}, Depth: 2, Dups: true,
				First: vAlpha("B", both, pairSizes...), Rest: vAlpha("ABC", both, pairSizes...)},
			{Name: "triples-small", Txs: []int{0, 1}, Groups: []string{"sep"}, Depth: 3, Dups: true,
				First: vAlphaFixed("ABC", "1B:1", "S+1:0", "3S:1"), Rest: vAlphaFixed("ABC", "1B:1", "S+1:0", "3S:1")},
		}
	}
	var allSizes []string
	for k := range vSizes {
		if k != "4100S" {
			allSizes = append(allSizes, k)
		}
	}
	sort.Strings(allSizes)
	return []vFamily{
		{Name: "row-wider-than-a-padded-blob", Txs: all3, Groups: []string{"sep"}, Depth: 4,
			Levels: [][]vBlobSpec{vAlphaFixed("C", "4100S:0"), append(vAlphaFixed("A", "S:0", "65S:1"), vAlphaFixed("B", "S:0")...),
				vAlphaFixed("A", "65S:1", "S:0", "129S:0"), append(vAlphaFixed("A", "S:0", "1B:1"), vAlphaFixed("B", "S:1")...)}},
		{Name: "same-payload-twins", Txs: []int{0, 2}, Groups: []string{"sep"}, Depth: 4, Dups: true, Twins: true,
			First: vAlpha("A", both, "1B", "S+1", "3S"), Rest: append(vAlpha("A", both, "1B", "S+1", "3S"), vAlphaFixed("B", "S+1:1")...)},
		{Name: "same-payload-twins-multi-row", Txs: []int{1}, Groups: []string{"sep"}, Depth: 3, Dups: true, Twins: true,
			First: vAlpha("A", both, "S", "17S", "65S"), Rest: vAlpha("A", both, "S", "17S", "65S")},
		{Name: "triples-wide", Txs: both, Groups: []string{"one"}, Depth: 3, Dups: true,
			First: vAlphaFixed("AB", "S:0", "65S:0", "129S:1", "257S:0"), Rest: vAlphaFixed("AB", "S:0", "65S:0", "129S:1", "257S:0")},
		{Name: "triples-free-grouping", Txs: []int{0, 2}, Groups: []string{"free"}, Depth: 3, Dups: true,
			First: vAlphaFixed("AB", "S:1", "17S:0", "65S:1"), Rest: vAlphaFixed("AB", "S:1", "17S:0", "65S:1")},
		{Name: "quads", Txs: []int{1}, Groups: []string{"sep"}, Depth: 4, Dups: true,
			First: vAlphaFixed("AB", "S:0", "S+1:1", "17S:0", "65S:1"), Rest: vAlphaFixed("AB", "S:0", "S+1:1", "17S:0", "65S:1")},
		{Name: "quints", Txs: []int{0}, Groups: []string{"sep"}, Depth: 5, Dups: true,
			First: vAlphaFixed("AB", "S+1:1", "65S:0"), Rest: vAlphaFixed("AB", "S+1:1", "65S:0")},
		{Name: "pairs-all-sizes", Txs: all3, Groups: []string{"sep"}, Depth: 2, Dups: true,
			First: vAlpha("B", both, allSizes...), Rest: vAlpha("ABC", both, allSizes...)},
		{Name: "pairs-all-sizes-one-tx", Txs: []int{1}, Groups: []string{"one"}, Depth: 2, Dups: true,
			First: vAlpha("B", both, allSizes...), Rest: vAlpha("ABC", both, allSizes...)},
		{Name: "triples-medium", Txs: all3, Groups: []string{"sep"}, Depth: 3, Dups: true,
			First: vAlphaFixed("ABC", "1B:1", "S:0", "S+1:1", "5S:0", "17S:1", "65S:0"), Rest: vAlphaFixed("ABC", "1B:1", "S:0", "S+1:1", "5S:0", "17S:1", "65S:0")},
	}
}

// vBlkSys is one block under construction (vx.Sys).
type vBlkSys struct {
	fam   *vFamily
	group string
	spec  vBlockSpec
	// built lazily by Fingerprint
	fp   string
	ods  []libshare.Share
	berr error
}

func (s *vBlkSys) Enabled() []string {
	if len(s.spec.Blobs) >= s.fam.Depth || s.berr != nil {
		return nil
	}
	al := s.fam.Rest
	if len(s.spec.Blobs) == 0 {
		al = s.fam.First
	}
	if s.fam.Levels != nil {
		al = s.fam.Levels[len(s.spec.Blobs)]
	}
	var ev []string
	for _, a := range al {
		ev = append(ev, "add:"+a.String())
		if s.group == "free" && len(s.spec.Blobs) > 0 {
			a.Join = true
			ev = append(ev, "add:"+a.String())
		}
	}
	if s.fam.Dups && len(s.spec.Blobs) > 0 {
		ev = append(ev, "dup", "near")
	}
	if s.fam.Twins {
		for back := 1; back <= 2 && back <= len(s.spec.Blobs); back++ {
			ev = append(ev, fmt.Sprintf("twin-ver:%d", back))
			if s.spec.Blobs[len(s.spec.Blobs)-back].Ver == 1 {
				ev = append(ev, fmt.Sprintf("twin-sig:%d", back))
			}
			if back == 2 {
				ev = append(ev, "dup:2")
			}
		}
	}
	return ev
}

func (s *vBlkSys) Apply(ev string) error {
	var nb vBlobSpec
	switch {
	case strings.HasPrefix(ev, "twin-ver:") || strings.HasPrefix(ev, "twin-sig:") || ev == "dup:2":
		back := int(ev[len(ev)-1] - '0')
		if back < 1 || back > len(s.spec.Blobs) {
			return fmt.Errorf("harness: %s on a block of %d blobs", ev, len(s.spec.Blobs))
		}
		nb = s.spec.Blobs[len(s.spec.Blobs)-back]
		nb.Join = false
		switch {
		case strings.HasPrefix(ev, "twin-ver:"):
			nb.Ver, nb.Twin = 1-nb.Ver, !nb.Twin // same payload, other share version
		case strings.HasPrefix(ev, "twin-sig:"):
			nb.Sig++ // same payload and version, another signer
		}
	case ev == "dup" || ev == "near":
		if len(s.spec.Blobs) == 0 {
			return fmt.Errorf("harness: %s on an empty block", ev)
		}
		nb = s.spec.Blobs[len(s.spec.Blobs)-1]
		nb.Join = false
		if ev == "near" {
			nb.Var++
		}
	case strings.HasPrefix(ev, "add:"):
		var err error
		nb, err = vParseBlobSpec(ev[4:])
		if err != nil {
			return fmt.Errorf("harness: %v", err)
		}
	default:
		return fmt.Errorf("harness: unknown event %q", ev)
	}
	if s.group == "one" {
		nb.Join = len(s.spec.Blobs) > 0
	}
	s.spec.Blobs = append(append([]vBlobSpec(nil), s.spec.Blobs...), nb)
	s.fp = ""
	return nil
}

func (s *vBlkSys) Check() error { return nil }

func (s *vBlkSys) Fingerprint() string {
	if s.fp == "" {
		_, ods, _, err := vBuildSquare(s.spec)
		if err != nil {
			s.berr = err
			s.fp = "ERR:" + err.Error()
		} else {
			s.ods = ods
			s.fp = vFingerprint(ods)
		}
	}
	return s.fp
}

func (s *vBlkSys) Close() {}

// vNontrivial: a block is non-trivial when retrieval has something to get wrong: layout padding
// inside a user namespace, a blob crossing a row boundary, or several blobs in one namespace.
func vNontrivial(b *vBlock) (bool, []string) {
	var why []string
	if b.Padding > 0 {
		why = append(why, "padding")
	}
	perNS := map[string]int{}
	dups := map[string]int{}
	multi := false
	for _, r := range b.Refs {
		perNS[r.Spec.NS]++
		dups[r.Spec.NS+string(r.Commitment)]++
		if r.Start/b.W != (r.Start+r.N-1)/b.W {
			multi = true
		}
	}
	if multi {
		why = append(why, "multi-row")
	}
	for _, n := range perNS {
		if n > 1 {
			why = append(why, "adjacent")
			break
		}
	}
	for _, n := range dups {
		if n > 1 {
			why = append(why, "identical")
			break
		}
	}
	// same namespace, byte-identical payload, different share version or signer (so different commitments)
twins:
	for i, r := range b.Refs {
		for _, o := range b.Refs[i+1:] {
			if o.NS.Equals(r.NS) && bytes.Equal(o.Data, r.Data) && !bytes.Equal(o.Commitment, r.Commitment) {
				why = append(why, "same-payload-twins")
				break twins
			}
		}
	}
	return len(why) > 0, why
}

func TestVerifC11(t *testing.T) {
	logging.SetAllLoggers(logging.LevelFatal)
	rep := vx.NewReport("C11", "model_checking")
	rep.Rule = "explicit-state BFS over block-construction histories: event = append one blob (namespace x share version x size class from the " +
		"family's alphabet, or an exact / last-byte-differing duplicate of the previous blob), one search per (family, number of ordinary txs, " +
		"blob-tx grouping); state = the square the real go-square Builder lays out, identified by the hash of its ODS; distinct = distinct ODS; " +
		"non-trivial = the square has layout padding inside a user namespace, a blob crossing a row boundary, several blobs in one namespace, byte-identical blobs, " +
		"or blobs with byte-identical payload under different share versions / signers (twin events: the previous blob or the one before it re-posted under the other share version or another signer)"
	rep.Assumptions = []string{
		"reference = the go-square Builder's own bookkeeping (FindBlobStartingIndex) and inclusion.CreateCommitment, cross-checked share by share against the exported square before every use",
		"the getter under the blob service does what store.Getter does on an accessor (eds.NamespaceData over the rsmt2d square); network/getter faults are out of scope (C06)",
		"blob index is compared with the documented meaning 'index of the blob's first share in the EDS' (row*2w+col)",
		"hash / NMT / Reed-Solomon code correctness is trusted",
	}
	if rp := os.Getenv("VERIF_REPLAY"); rp != "" {
		vReplay(t, rep, rp)
		return
	}
	st := newVStats()
	deadline := rep.Deadline(85*time.Second, 18*time.Minute)

	var mu sync.Mutex
	seen := map[string]bool{}
	var states, nontrivial, calls, evals int64
	var transitions int64
	exhaustive := true
	famReport := map[string]any{}

	// determinism self-check: the same block checked twice gives the same observation log
	{
		spec, _ := vParseBlockSpec("tx1 A.v0.S.0 A.v1.65S.0 B.v0.17S.0 A.v1.65S.0")
		var logs [2]string
		for i := range logs {
			b, err := vBuildBlock(spec, 1)
			if err != nil {
				t.Fatalf("VERIF-INFRA-ERROR %v", err)
			}
			s := newVStats()
			var sb strings.Builder
			vCheckC11(b, s, func(sig, what string, _ any) { sb.WriteString(sig + "|" + what + "\n") })
			o, _ := json.Marshal(s.Outcomes)
			logs[i] = b.FP + string(o) + sb.String()
		}
		if logs[0] != logs[1] {
			rep.Infra("NONDETERMINISM: the same block checked twice gave different observations")
			t.FailNow()
		}
	}

	// the namespace-count ladder (two squares at most, built once each)
	{
		t0 := time.Now()
		lc, ll, sq := vCheckLadder(rep.Tier, st, rep.Violation)
		ladderSecs := time.Since(t0).Seconds()
		calls += int64(lc)
		evals += int64(lc)
		states += int64(sq)
		nontrivial += int64(sq)
		rep.Set("ladder", map[string]any{"getall_calls": lc, "namespace_listings": ll, "squares": sq, "seconds": ladderSecs,
			"namespaces_per_call": "1..N for every prefix of the ascending request list (41 populated namespaces quick / 71 thorough, an absent one after every fourth); descending and (thorough) strided permutations"})
	}

	fams := vC11Families(rep.Tier)
	for fi := range fams {
		fam := &fams[fi]
		var fStates, fTrans int64
		fComplete := true
		for _, txs := range fam.Txs {
			for _, group := range fam.Groups {
				if time.Now().After(deadline) {
					fComplete = false
					continue
				}
				newSys := func() vx.Sys { return &vBlkSys{fam: fam, group: group, spec: vBlockSpec{Txs: txs}} }
				bst := vx.BFS(vx.BFSOpts{
					Deadline: deadline,
					Workers:  vx.Workers(),
					Drain: func(s vx.Sys, hist []string) error {
						bs := s.(*vBlkSys)
						if bs.berr != nil {
							rep.Infra(fmt.Sprintf("block %q cannot be built: %v", bs.spec, bs.berr))
							return nil
						}
						mu.Lock()
						dup := seen[bs.fp]
						seen[bs.fp] = true
						mu.Unlock()
						if dup {
							return nil
						}
						b, err := vBuildBlock(bs.spec, 1)
						if err != nil {
							rep.Infra(fmt.Sprintf("block %q: %v", bs.spec, err))
							return nil
						}
						n := vCheckC11(b, st, rep.Violation)
						nt, why := vNontrivial(b)
						mu.Lock()
						states++
						evals++
						calls += int64(n)
						if nt {
							nontrivial++
						}
						mu.Unlock()
						st.hist("ods_width", fmt.Sprint(b.W))
						st.hist("blobs", fmt.Sprint(len(b.Refs)))
						st.hist("padding_shares", fmt.Sprint(b.Padding))
						for _, w := range why {
							st.hist("nontrivial_by", w)
						}
						if nt && b.W <= 16 && len(why) >= 3 {
							rep.AddSample(map[string]any{"block": b.Spec.String(), "ods_width": b.W, "layout": b.layout(), "why": why,
								"reference": vRefSummary(b)})
						}
						return nil
					},
				}, newSys, func(hist []string, err error) {
					rep.Infra(fmt.Sprintf("history %v: %v", hist, err))
				})
				fStates += int64(bst.States)
				fTrans += bst.Transitions
				if !bst.Complete {
					fComplete = false
				}
			}
		}
		transitions += fTrans
		if !fComplete {
			exhaustive = false
		}
		famReport[fam.Name] = map[string]any{
			"depth": fam.Depth, "ordinary_txs": fam.Txs, "grouping": fam.Groups, "first_alphabet": vSpecNames(fam.First),
			"rest_alphabet": vSpecNames(fam.Rest), "level_alphabets": vLevelNames(fam.Levels), "dup_events": fam.Dups, "twin_events": fam.Twins, "states": fStates, "transitions": fTrans, "completed": fComplete,
		}
	}
	rep.Count(evals, nontrivial, states, transitions)
	rep.Set("families", famReport)
	rep.Set("service_calls", calls)
	rep.Set("outcomes", st.Outcomes)
	rep.Set("distinct_outcomes", len(st.Outcomes))
	rep.Set("histograms", st.Hist)
	rep.Set("bounds_completed", fmt.Sprintf("every history of every listed family up to its depth (exhaustive=%v)", exhaustive))
	rep.SetExhaustive(exhaustive)
	if len(st.Outcomes) < 4 {
		rep.Infra(fmt.Sprintf("vacuous exploration: only %d distinct outcomes %v", len(st.Outcomes), st.Outcomes))
		t.Fail()
	}
	if rep.Finish() > 0 {
		t.Fail()
	}
}

func vLevelNames(l [][]vBlobSpec) [][]string {
	var out [][]string
	for _, a := range l {
		out = append(out, vSpecNames(a))
	}
	return out
}

func vSpecNames(a []vBlobSpec) []string {
	out := make([]string, len(a))
	for i, x := range a {
		out[i] = x.String()
	}
	return out
}

func vRefSummary(b *vBlock) []string {
	var out []string
	for _, r := range b.Refs {
		out = append(out, fmt.Sprintf("%v ods=%d n=%d edsIndex=%d commitment=%s", r.Spec, r.Start, r.N, r.EDSIndex, vHex(r.Commitment)))
	}
	return out
}

// ---------------------------------------------------------------- replay (C11 and C12)

func vReplay(t *testing.T, rep *vx.Report, path string) {
	raw, err := os.ReadFile(path)
	if err != nil {
		t.Fatalf("replay: %v", err)
	}
	var doc struct {
		Signature string `json:"signature"`
		Replay    struct {
			Check string `json:"check"`
			Spec  string `json:"spec"`
		} `json:"replay"`
	}
	if err := json.Unmarshal(raw, &doc); err != nil {
		t.Fatalf("replay: %v", err)
	}
	hits := 0
	var last string
	for i := 0; i < 5; i++ {
		found := false
		sink := func(sig, what string, _ any) {
			if sig == doc.Signature {
				found = true
				last = what
			}
		}
		switch doc.Replay.Check {
		case "C11/ladder":
			vCheckLadder(doc.Replay.Spec, newVStats(), sink)
		case "C11":
			spec, err := vParseBlockSpec(doc.Replay.Spec)
			if err != nil {
				t.Fatalf("replay: %v", err)
			}
			b, err := vBuildBlock(spec, 1)
			if err != nil {
				t.Fatalf("replay: %v", err)
			}
			vCheckC11(b, newVStats(), sink)
		default:
			vReplayC12(t, doc.Replay.Check, doc.Replay.Spec, sink)
		}
		if found {
			hits++
		}
	}
	rep.Count(5, 2, 1, 1)
	rep.AddSample(doc.Replay)
	switch hits {
	case 5:
		fmt.Printf("REPLAY-RESULT violation reproduced 5/5: %s: %s\n", doc.Signature, last)
		rep.Violation(doc.Signature, last, doc.Replay)
	case 0:
		fmt.Println("REPLAY-RESULT no violation")
	default:
		rep.Infra(fmt.Sprintf("NONDETERMINISM: replay reproduced the violation %d/5 times", hits))
	}
	rep.SetExhaustive(false)
	rep.Finish()
}
